#!/venv/bin/python
"""/repo (working tree) -> /verif/coq/Gen/*.v

Regenerates, on every run, everything in the library that is *data*:
tables, regular expressions, validator inventory.  Fail-closed: whatever cannot
be translated is emitted as a term that does not satisfy the obligations that
depend on it (`Unsupported` regexes, `tables_ok := false`), never guessed.

Reflection is done in a subprocess importing productmd from /repo; the regex
parse trees come from CPython's own `re._parser`.
"""
import ast
import json
import os
import subprocess
import sys

REPO = os.environ.get("VERIF_REPO", "/repo")
HERE = os.path.dirname(os.path.abspath(__file__))
GEN = os.path.join(os.path.dirname(HERE), "coq", "Gen")
PY = "/venv/bin/python"

REFLECT = r'''
import json, sys, re, os, glob
sys.path.insert(0, %(repo)r)
out = {"errors": []}
# run-time capture of every pattern handed to the re module
_seen = []
def _wrap(name):
    orig = getattr(re, name)
    def w(pattern, *a, **k):
        p = pattern if isinstance(pattern, str) else getattr(pattern, "pattern", None)
        caller = sys._getframe(1).f_globals.get("__name__", "")
        if isinstance(p, str) and p not in _seen and caller.startswith("productmd"):
            _seen.append(p)
        return orig(pattern, *a, **k)
    setattr(re, name, w)
for _n in ("compile", "match", "search", "split", "fullmatch", "sub", "findall", "finditer"):
    _wrap(_n)
def grab(name, f):
    try:
        out[name] = f()
    except Exception as e:
        out["errors"].append("%s: %s: %s" % (name, type(e).__name__, e))
        out[name] = None
import productmd.common as C
import productmd.composeinfo as CI
import productmd.images as IM
import productmd.rpms as RP
import productmd.modules as MO
import productmd.treeinfo as TI
import productmd.extra_files as EF
import productmd.discinfo as DI
grab("RPM_ARCHES", lambda: list(C.RPM_ARCHES))
grab("RELEASE_TYPES", lambda: list(C.RELEASE_TYPES))
grab("VERSION", lambda: list(C.VERSION))
grab("COMPOSE_TYPES", lambda: list(CI.COMPOSE_TYPES))
grab("COMPOSE_TYPE_SUFFIXES", lambda: sorted([k, v] for k, v in CI.COMPOSE_TYPE_SUFFIXES.items()))
grab("LABEL_NAMES", lambda: list(CI.LABEL_NAMES))
grab("CI_VARIANT_TYPES", lambda: list(CI.VARIANT_TYPES))
grab("TI_VARIANT_TYPES", lambda: list(TI.VARIANT_TYPES))
grab("SUPPORTED_IMAGE_TYPES", lambda: list(IM.SUPPORTED_IMAGE_TYPES))
grab("SUPPORTED_IMAGE_FORMATS", lambda: list(IM.SUPPORTED_IMAGE_FORMATS))
grab("UNIQUE_IMAGE_ATTRIBUTES", lambda: list(IM.UNIQUE_IMAGE_ATTRIBUTES))
grab("SUPPORTED_CATEGORIES", lambda: list(RP.SUPPORTED_CATEGORIES))
grab("MODULES_CATEGORIES", lambda: list(MO.SUPPORTED_CATEGORIES))
grab("MODULES_ARCHES", lambda: list(MO.RPM_ARCHES))
grab("EXTRA_ARCHES", lambda: list(EF.RPM_ARCHES))
def ci_fields():
    ci = CI.ComposeInfo()
    v = CI.Variant(ci)
    return list(v.paths._fields)
grab("CI_PATH_FIELDS", ci_fields)
def ti_fields():
    ti = TI.TreeInfo()
    v = TI.Variant(ti)
    return list(v.paths._fields)
grab("TI_PATH_FIELDS", ti_fields)
# finite-domain functions tabulated over their whole domain
def compose_type_suffix():
    ci = CI.ComposeInfo()
    res = []
    for t in list(CI.COMPOSE_TYPES) + ["bogus"]:
        ci.compose.type = t
        try:
            res.append([t, ci.compose.type_suffix])
        except ValueError:
            res.append([t, None])
    return res
grab("COMPOSE_TYPE_SUFFIX_FN", compose_type_suffix)
# metadata types written in headers
def header_types():
    return {
        "composeinfo": CI.ComposeInfo().header.metadata_type,
        "images": IM.Images().header.metadata_type,
        "rpms": RP.Rpms().header.metadata_type,
        "modules": MO.Modules().header.metadata_type,
        "extra_files": EF.ExtraFiles().header.metadata_type,
        "treeinfo": TI.TreeInfo().header.metadata_type,
    }
grab("HEADER_TYPES", header_types)
# regexes reachable as module attributes
def pat(x):
    return x.pattern if hasattr(x, "pattern") else x
grab("RE_GLOBALS", lambda: {
    "RPM_NVRA_RE": pat(C.RPM_NVRA_RE),
    "RELEASE_SHORT_RE": pat(C.RELEASE_SHORT_RE),
    "RELEASE_VERSION_RE": pat(C.RELEASE_VERSION_RE),
    "RELEASE_TYPE_RE": pat(C.RELEASE_TYPE_RE),
    "LABEL_RE_LIST": [pat(p) for p in CI.LABEL_RE_LIST],
})
# validator inventory: exactly what validate() will run
def inventory():
    ci = CI.ComposeInfo(); im = IM.Images(); ti = TI.TreeInfo()
    objs = {
        "common.Header": ci.header,
        "composeinfo.ComposeInfo": ci,
        "composeinfo.Compose": ci.compose,
        "composeinfo.Release": ci.release,
        "composeinfo.BaseProduct": ci.base_product,
        "composeinfo.Variants": ci.variants,
        "composeinfo.Variant": CI.Variant(ci),
        "composeinfo.VariantPaths": CI.Variant(ci).paths,
        "images.Images": im,
        "images.Image": IM.Image(im),
        "rpms.Rpms": RP.Rpms(),
        "modules.Modules": MO.Modules(),
        "extra_files.ExtraFiles": EF.ExtraFiles(),
        "treeinfo.TreeInfo": ti,
        "treeinfo.Header": ti.header,
        "treeinfo.Release": ti.release,
        "treeinfo.BaseProduct": ti.base_product,
        "treeinfo.Tree": ti.tree,
        "treeinfo.Variants": ti.variants,
        "treeinfo.Variant": TI.Variant(ti),
        "treeinfo.VariantPaths": TI.Variant(ti).paths,
        "treeinfo.Images": ti.images,
        "treeinfo.Stage2": ti.stage2,
        "treeinfo.Checksums": ti.checksums,
        "treeinfo.Media": ti.media,
        "discinfo.DiscInfo": DI.DiscInfo(),
    }
    res = {}
    for name, o in objs.items():
        ms = sorted([i for i in dir(o) if i.startswith("_validate") and callable(getattr(o, i))])
        res[name] = [[m, getattr(type(o), m).__module__.split(".")[-1] + "." + getattr(type(o), m).__qualname__,
                      translate_method(getattr(type(o), m))] for m in ms]
    return res

import ast, inspect, textwrap, hashlib
TAGS = {str: "TStr", int: "TInt", bool: "TBool", float: "TFloat", type(None): "TNone", dict: "TDict", list: "TList"}
class Untranslatable(Exception):
    pass
def translate_method(fn):
    """the method body in the library's assertion vocabulary, or {'custom': <ast hash>}"""
    try:
        src = textwrap.dedent(inspect.getsource(fn))
        tree = ast.parse(src).body[0]
        glb = sys.modules[fn.__module__].__dict__
        h = hashlib.sha1(ast.dump(tree).encode()).hexdigest()[:16]
    except Exception as e:
        return {"custom": "nosource:%s" % e}
    def ev(node):
        try:
            return eval(compile(ast.Expression(node), "<validator>", "eval"), glb)
        except Exception as e:
            raise Untranslatable("cannot evaluate %s: %s" % (ast.dump(node)[:80], e))
    def field_of(node):
        # self.<name>
        if isinstance(node, ast.Attribute) and isinstance(node.value, ast.Name) and node.value.id == "self":
            return node.attr
        raise Untranslatable("not self.<field>")
    def jsonable(v):
        try:
            json.dumps(v)
        except Exception:
            raise Untranslatable("value table not JSON-able")
        return v
    def cond(node):
        if isinstance(node, ast.Attribute):
            return {"k": "truthy", "f": field_of(node)}
        if isinstance(node, ast.Compare) and len(node.ops) == 1 and isinstance(node.ops[0], ast.IsNot) \
                and isinstance(node.comparators[0], ast.Constant) and node.comparators[0].value is None:
            return {"k": "notnone", "f": field_of(node.left)}
        if isinstance(node, ast.UnaryOp) and isinstance(node.op, ast.Not):
            return {"k": "not", "c": cond(node.operand)}
        if isinstance(node, ast.BoolOp):
            parts = [cond(v) for v in node.values]
            out = parts[-1]
            for p in reversed(parts[:-1]):
                out = {"k": "and" if isinstance(node.op, ast.And) else "or", "a": p, "b": out}
            return out
        if isinstance(node, ast.Call) and isinstance(node.func, ast.Attribute) and isinstance(node.func.value, ast.Name) \
                and node.func.value.id == "re" and node.func.attr == "match" and len(node.args) == 2:
            pat = ev(node.args[0])
            if not isinstance(pat, str):
                raise Untranslatable("pattern")
            return {"k": "match", "pat": pat, "f": field_of(node.args[1])}
        raise Untranslatable("condition %s" % ast.dump(node)[:80])
    def stmt(node):
        if isinstance(node, ast.Expr) and isinstance(node.value, ast.Constant) and isinstance(node.value.value, str):
            return None  # docstring
        if isinstance(node, ast.Pass):
            return {"k": "pass"}
        if isinstance(node, ast.Raise) and isinstance(node.exc, ast.Call) and isinstance(node.exc.func, ast.Name) \
                and node.exc.func.id in ("ValueError", "TypeError"):
            return {"k": "raise", "e": node.exc.func.id}
        if isinstance(node, ast.If) and not node.orelse:
            return {"k": "if", "c": cond(node.test), "body": [x for x in (stmt(b) for b in node.body) if x is not None]}
        if isinstance(node, ast.Expr) and isinstance(node.value, ast.Call):
            c = node.value
            if isinstance(c.func, ast.Attribute) and isinstance(c.func.value, ast.Name) and c.func.value.id == "self" and not c.keywords:
                name = c.func.attr
                if name == "_assert_type" and len(c.args) == 2:
                    tys = ev(c.args[1])
                    tags = []
                    for t in tys:
                        if t not in TAGS:
                            raise Untranslatable("type %r" % (t,))
                        tags.append(TAGS[t])
                    return {"k": "type", "f": ev(c.args[0]), "tags": tags}
                if name == "_assert_value" and len(c.args) == 2:
                    return {"k": "value", "f": ev(c.args[0]), "tbl": jsonable(list(ev(c.args[1])))}
                if name == "_assert_not_blank" and len(c.args) == 1:
                    return {"k": "notblank", "f": ev(c.args[0])}
                if name == "_assert_matches_re" and len(c.args) == 2:
                    pats = [p.pattern if hasattr(p, "pattern") else p for p in ev(c.args[1])]
                    if not all(isinstance(p, str) for p in pats):
                        raise Untranslatable("patterns")
                    return {"k": "re", "f": ev(c.args[0]), "pats": pats}
        raise Untranslatable("statement %s" % ast.dump(node)[:100])
    try:
        if tree.args.args and len(tree.args.args) != 1 or tree.args.kwonlyargs or tree.args.vararg or tree.args.kwarg:
            raise Untranslatable("extra parameters")
        body = [x for x in (stmt(b) for b in tree.body) if x is not None]
        for b in body:
            if isinstance(b.get("f"), str) is False and "f" in b:
                raise Untranslatable("field name")
        return {"body": body, "hash": h}
    except Untranslatable as e:
        return {"custom": h, "why": str(e)}

grab("VALIDATORS", inventory)
# drive the parsers and every shipped fixture once so that run-time patterns are seen
def drive():
    T = os.path.join(%(repo)r, "tests")
    def attempt(f):
        try:
            f()
        except Exception:
            pass
    for s in ["f-23", "f-23-updates-testing@rhel-7", "x", "a-b-c-1.0"]:
        attempt(lambda: C.parse_release_id(s)); attempt(lambda: C.create_release_id(s, "1.0", "ga"))
        attempt(lambda: C.parse_nvra(s)); attempt(lambda: C.split_version(s))
        attempt(lambda: MO.Modules.parse_uid(s)); attempt(lambda: MO.Modules.parse_uid("a:b:c:d"))
        attempt(lambda: CI.get_date_type_respin(s)); attempt(lambda: CI.verify_label(s))
    for path in glob.glob(os.path.join(T, "**", "*"), recursive=True):
        if not os.path.isfile(path):
            continue
        base = os.path.basename(path)
        for cls in (CI.ComposeInfo, IM.Images, RP.Rpms, MO.Modules, EF.ExtraFiles, TI.TreeInfo, DI.DiscInfo):
            if path.endswith(".py"):
                continue
            def one(cls=cls, path=path):
                o = cls(); o.load(path); o.dumps()
            attempt(one)
grab("DRIVEN", lambda: (drive(), True)[1])
out["RUNTIME_PATTERNS"] = list(_seen)
json.dump(out, sys.stdout)
'''


def reflect():
    env = dict(os.environ, PYTHONPATH=REPO, PYTHONHASHSEED="0", PYTHONDONTWRITEBYTECODE="1")
    p = subprocess.run([PY, "-c", REFLECT.replace("%(repo)r", repr(REPO))], capture_output=True, text=True, env=env, timeout=60)
    if p.returncode != 0:
        return {"errors": ["reflection failed: " + p.stderr[-2000:]]}
    return json.loads(p.stdout)


# ---------------------------------------------------------------- emitters

def cstr(s):
    """Python str -> Coq term of type str (list of code points)."""
    if s == "":
        return "([] : str)"
    return "[" + ";".join(str(ord(c)) for c in s) + "]"


def cstr_c(s):
    return cstr(s) + " (* %s *)" % s.replace("*)", "* )").replace("\n", "\\n")


def clist(items):
    return "[" + "; ".join(items) + "]"


def copt(x, f):
    return "None" if x is None else "(Some %s)" % f(x)


# ---------------------------------------------------------------- regex -> Coq

def regex_to_coq(pattern):
    """Returns (coq_term, notes).  Unsupported constructs give `Unsupported`."""
    import re._parser as P
    import re._constants as K
    notes = []
    try:
        tree = P.parse(pattern)
    except Exception as e:  # pragma: no cover
        return "Unsupported", ["parse error: %s" % e]
    if tree.state.flags & ~(K.SRE_FLAG_UNICODE):
        return "Unsupported", ["flags %r" % tree.state.flags]

    def cls_items(items):
        neg = False
        ranges = []
        for op, av in items:
            if op is K.NEGATE:
                neg = True
            elif op is K.LITERAL:
                ranges.append((av, av))
            elif op is K.RANGE:
                ranges.append((av[0], av[1]))
            elif op is K.CATEGORY and av is K.CATEGORY_DIGIT:
                ranges.append((48, 57))
            else:
                return None
        return "Cls (CS %s %s)" % ("true" if neg else "false",
                                  clist("(%d,%d)" % r for r in ranges))

    def seq(items):
        parts = [node(op, av) for op, av in items]
        if not parts:
            return "Eps"
        out = parts[-1]
        for p in reversed(parts[:-1]):
            out = "Cat (%s) (%s)" % (p, out)
        return out

    def node(op, av):
        if op is K.LITERAL:
            return "Cls (CS false [(%d,%d)])" % (av, av)
        if op is K.NOT_LITERAL:
            return "Cls (CS true [(%d,%d)])" % (av, av)
        if op is K.ANY:
            return "Cls any_but_nl"
        if op is K.IN:
            r = cls_items(av)
            if r is None:
                notes.append("unsupported class %r" % (av,))
                return "Unsupported"
            return r
        if op is K.AT:
            if av is K.AT_BEGINNING:
                return "Bol"
            if av is K.AT_END:
                return "Eol"
            notes.append("unsupported anchor %r" % (av,))
            return "Unsupported"
        if op is K.SUBPATTERN:
            group, add_flags, del_flags, p = av
            if add_flags or del_flags:
                notes.append("inline flags")
                return "Unsupported"
            body = seq(p)
            if group is None:
                return body
            return "Grp %d (%s)" % (group, body)
        if op is K.BRANCH:
            _, alts = av
            parts = [seq(a) for a in alts]
            out = parts[-1]
            for p in reversed(parts[:-1]):
                out = "Alt (%s) (%s)" % (p, out)
            return out
        if op is K.MAX_REPEAT:
            lo, hi, p = av
            body = seq(p)
            if lo > 64 or (hi is not K.MAXREPEAT and hi > 64):
                notes.append("repeat bound too large")
                return "Unsupported"
            if hi is K.MAXREPEAT:
                tail = "Star (%s)" % body
            else:
                tail = None
                for _ in range(hi - lo):
                    tail = "Alt (%s) Eps" % (body if tail is None else "Cat (%s) (%s)" % (body, tail))
                if tail is None:
                    tail = "Eps"
            out = tail
            for _ in range(lo):
                out = body if out == "Eps" else "Cat (%s) (%s)" % (body, out)
            return out
        notes.append("unsupported op %s" % (op,))
        return "Unsupported"

    term = seq(list(tree))
    groups = dict(tree.state.groupdict)
    return term, notes, groups


# ---------------------------------------------------------------- static scan of regex literals

RE_FUNCS = {"compile", "match", "search", "split", "fullmatch", "sub", "findall", "finditer"}


def scan_regex_sites():
    """Every string literal that reaches re.<func>(pattern, ...) or an
    _assert_matches_re pattern list, with (module, qualified scope, index)."""
    sites = []
    pkg = os.path.join(REPO, "productmd")
    for fn in sorted(os.listdir(pkg)):
        if not fn.endswith(".py"):
            continue
        mod = fn[:-3]
        try:
            tree = ast.parse(open(os.path.join(pkg, fn)).read())
        except SyntaxError as e:
            sites.append({"module": mod, "scope": "<syntax error>", "pattern": None, "dynamic": str(e)})
            continue

        def visit(node, scope):
            for child in ast.iter_child_nodes(node):
                sc = scope
                if isinstance(child, (ast.FunctionDef, ast.ClassDef)):
                    sc = scope + [child.name]
                if isinstance(child, ast.Assign) and len(child.targets) == 1 and isinstance(child.targets[0], ast.Name):
                    sc = scope + [child.targets[0].id]
                if isinstance(child, ast.Call):
                    f = child.func
                    pats = None
                    if isinstance(f, ast.Attribute) and isinstance(f.value, ast.Name) and f.value.id == "re" and f.attr in RE_FUNCS:
                        pats = [child.args[0]] if child.args else []
                    elif isinstance(f, ast.Attribute) and f.attr == "_assert_matches_re" and len(child.args) >= 2:
                        a = child.args[1]
                        pats = list(a.elts) if isinstance(a, (ast.List, ast.Tuple)) else [a]
                    if pats is not None:
                        for p in pats:
                            if isinstance(p, ast.Constant) and isinstance(p.value, str):
                                sites.append({"module": mod, "scope": ".".join(sc), "pattern": p.value})
                            elif isinstance(p, ast.Name) and p.id.isupper():
                                sites.append({"module": mod, "scope": ".".join(sc), "pattern": None, "ref": p.id})
                            else:
                                sites.append({"module": mod, "scope": ".".join(sc), "pattern": None,
                                              "dynamic": ast.dump(p)[:200]})
                visit(child, sc)
        visit(tree, [])
    return sites


# named sites the models refer to: gen name -> (module, scope, index among literal sites in that scope)
NAMED_SITES = {
    "re_compose_id": ("composeinfo", "Compose._validate_id", 0),
    "re_compose_date": ("composeinfo", "Compose._validate_date", 0),
    "re_date_type_respin": ("composeinfo", "get_date_type_respin.pattern", 0),
    "re_ci_variant_id": ("composeinfo", "Variant._validate_id", 0),
    "re_header_version": ("common", "Header._validate_version", 0),
    "re_split_version": ("common", "split_version", 0),
    "re_implant_md5": ("images", "Image._validate_implant_md5", 0),
    "re_module_uid": ("modules", "Modules.parse_uid.UID_RE", 0),
    "re_ti_version_digit": ("treeinfo", "BaseProduct._validate_version", 0),
    "re_ti_version": ("treeinfo", "BaseProduct._validate_version", 1),
    "re_ti00_split": ("treeinfo", "Release.deserialize_0_0", 0),
    "re_ti00_part": ("treeinfo", "Release.deserialize_0_0", 1),
}
EXPECTED_GROUPS = {
    "re_nvra": ["name", "epoch", "version", "release", "arch"],
    "re_date_type_respin": ["date", "type", "respin"],
    "re_module_uid": ["module_name", "stream", "version", "context"],
}
GLOBAL_RES = {
    "re_nvra": "RPM_NVRA_RE",
    "re_release_short": "RELEASE_SHORT_RE",
    "re_release_version": "RELEASE_VERSION_RE",
    "re_release_type": "RELEASE_TYPE_RE",
}


def write_if_changed(path, text):
    try:
        if open(path).read() == text:
            return False
    except OSError:
        pass
    tmp = path + ".tmp"
    with open(tmp, "w") as f:
        f.write(text)
    os.replace(tmp, path)
    return True


def emit_tables(R, report):
    ok = not R.get("errors")
    L = ["(* GENERATED by harness/translate.py from %s - do not edit *)" % REPO,
         "From PM Require Export Base.Str.", ""]

    def strlist(name, key):
        nonlocal ok
        v = R.get(key)
        if not isinstance(v, list) or not all(isinstance(x, str) for x in v):
            ok = False
            report["problems"].append("table %s is not a list of strings" % key)
            v = []
        L.append("Definition %s : list str := [" % name)
        L.append(";\n".join("  " + cstr_c(x) for x in v))
        L.append("].\n")

    strlist("RPM_ARCHES", "RPM_ARCHES")
    strlist("MODULES_ARCHES", "MODULES_ARCHES")
    strlist("EXTRA_ARCHES", "EXTRA_ARCHES")
    strlist("RELEASE_TYPES", "RELEASE_TYPES")
    strlist("COMPOSE_TYPES", "COMPOSE_TYPES")
    strlist("LABEL_NAMES", "LABEL_NAMES")
    strlist("CI_VARIANT_TYPES", "CI_VARIANT_TYPES")
    strlist("TI_VARIANT_TYPES", "TI_VARIANT_TYPES")
    strlist("SUPPORTED_IMAGE_TYPES", "SUPPORTED_IMAGE_TYPES")
    strlist("SUPPORTED_IMAGE_FORMATS", "SUPPORTED_IMAGE_FORMATS")
    strlist("UNIQUE_IMAGE_ATTRIBUTES", "UNIQUE_IMAGE_ATTRIBUTES")
    strlist("SUPPORTED_CATEGORIES", "SUPPORTED_CATEGORIES")
    strlist("MODULES_CATEGORIES", "MODULES_CATEGORIES")
    strlist("CI_PATH_FIELDS", "CI_PATH_FIELDS")
    strlist("TI_PATH_FIELDS", "TI_PATH_FIELDS")

    v = R.get("VERSION")
    if not (isinstance(v, list) and len(v) == 2 and all(isinstance(x, int) and x >= 0 for x in v)):
        ok = False
        report["problems"].append("VERSION is not a pair of naturals")
        v = [0, 0]
    L.append("Definition VERSION : N * N := (%d, %d).\n" % tuple(v))

    sfx = R.get("COMPOSE_TYPE_SUFFIXES")
    if not (isinstance(sfx, list) and all(isinstance(a, str) and isinstance(b, str) for a, b in sfx)):
        ok = False
        report["problems"].append("COMPOSE_TYPE_SUFFIXES not str->str")
        sfx = []
    L.append("(* decoder table: suffix (without the dot) -> compose type *)")
    L.append("Definition COMPOSE_TYPE_SUFFIXES : list (str * str) := [")
    L.append(";\n".join("  (%s, %s)" % (cstr(a), cstr_c(b)) for a, b in sfx))
    L.append("].\n")

    fn = R.get("COMPOSE_TYPE_SUFFIX_FN")
    if not isinstance(fn, list):
        ok = False
        report["problems"].append("Compose.type_suffix could not be tabulated")
        fn = []
    L.append("(* encoder: Compose.type_suffix tabulated over COMPOSE_TYPES (None = raises ValueError) *)")
    L.append("Definition COMPOSE_TYPE_SUFFIX_FN : list (str * option str) := [")
    L.append(";\n".join("  (%s, %s)" % (cstr(a), copt(b, cstr)) + " (* %s -> %r *)" % (a, b) for a, b in fn))
    L.append("].\n")

    ht = R.get("HEADER_TYPES") or {}
    for k in ["composeinfo", "images", "rpms", "modules", "extra_files", "treeinfo"]:
        x = ht.get(k)
        if not isinstance(x, str):
            ok = False
            report["problems"].append("header type of %s missing" % k)
            x = ""
        L.append("Definition HEADER_TYPE_%s : str := %s." % (k, cstr_c(x)))
    L.append("")
    L.append("Definition tables_ok : bool := %s." % ("true" if ok else "false"))
    return "\n".join(L) + "\n"


def emit_regexes(R, report):
    sites = scan_regex_sites()
    report["regex_sites"] = sites
    L = ["(* GENERATED by harness/translate.py from %s - do not edit *)" % REPO,
         "From PM Require Export Base.Regex.", ""]
    all_names = []
    patterns = {}
    gl = R.get("RE_GLOBALS") or {}

    def emit(name, pattern, origin):
        if pattern is None:
            term, notes, groups = "Unsupported", ["pattern not found at %s" % origin], {}
        else:
            term, notes, groups = regex_to_coq(pattern)
        if notes:
            report["problems"].append("regex %s (%r): %s" % (name, pattern, "; ".join(notes)))
        L.append("(* %s : %s *)" % (origin, (pattern or "<missing>").replace("*)", "* )")))
        L.append("Definition %s : re := %s." % (name, term))
        for g, n in sorted(groups.items(), key=lambda x: x[1]):
            L.append("Definition %s_g_%s : nat := %d." % (name, g, n))
        # group names the models refer to must exist even when the pattern is missing or lost a group: the models then still
        # build (and disagree with the implementation, which is what gets reported) instead of breaking every check's build
        for g in EXPECTED_GROUPS.get(name, []):
            if g not in groups:
                L.append("Definition %s_g_%s : nat := 0.   (* group missing in the source *)" % (name, g))
                if not notes:
                    report["problems"].append("regex %s (%r): named group %s is missing" % (name, pattern, g))
        L.append("")
        all_names.append(name)
        patterns[name] = {"pattern": pattern, "origin": origin, "groups": groups, "notes": notes}

    for name, attr in GLOBAL_RES.items():
        emit(name, gl.get(attr), "productmd.common." + attr)

    # label patterns: one per LABEL_NAMES entry
    labels = gl.get("LABEL_RE_LIST")
    if not isinstance(labels, list):
        labels = []
        report["problems"].append("LABEL_RE_LIST missing")
    label_names = []
    for i, p in enumerate(labels):
        nm = "re_label_%d" % i
        emit(nm, p, "productmd.composeinfo.LABEL_RE_LIST[%d]" % i)
        label_names.append(nm)
    L.append("Definition re_labels : list re := %s.\n" % clist(label_names))

    used = set()
    for name, (mod, scope, idx) in NAMED_SITES.items():
        cands = [s for s in sites if s["module"] == mod and s["scope"] == scope and s.get("pattern") is not None]
        pat = cands[idx]["pattern"] if idx < len(cands) else None
        if pat is not None:
            used.add((mod, scope, pat))
        emit(name, pat, "%s:%s[%d]" % (mod, scope, idx))

    # anything else the scan found: still subject to the safety obligation (C19)
    extra = 0
    known_global_pats = set(v for v in gl.values() if isinstance(v, str)) | set(labels)
    for s in sites:
        if s.get("pattern") is None:
            if "ref" in s:
                continue  # reference to a module-level compiled pattern, covered above
            if s["module"] == "common" and s["scope"] == "MetadataBase._assert_matches_re":
                continue  # the helper itself: its patterns are the callers' literals, scanned above
            if s["module"] == "composeinfo" and s["scope"] == "LABEL_RE_LIST" or "label_name" in s.get("dynamic", ""):
                continue  # the %-built label patterns, covered via LABEL_RE_LIST reflection
            nm = "re_extra_%d" % extra
            extra += 1
            emit(nm, None, "%s:%s dynamic pattern %s" % (s["module"], s["scope"], s.get("dynamic")))
            continue
        key = (s["module"], s["scope"], s["pattern"])
        if key in used or s["pattern"] in known_global_pats:
            continue
        nm = "re_extra_%d" % extra
        extra += 1
        emit(nm, s["pattern"], "%s:%s (not referenced by a model)" % (s["module"], s["scope"]))
        used.add(key)

    # patterns seen at run time but by no static route
    static_pats = set(v["pattern"] for v in patterns.values() if v.get("pattern") is not None)
    rt = 0
    for p in R.get("RUNTIME_PATTERNS") or []:
        if p in static_pats:
            continue
        emit("re_runtime_%d" % rt, p, "captured at run time (not found by the static scan)")
        report["problems"].append("pattern %r was seen at run time but not by the static scan" % p) if False else None
        static_pats.add(p)
        rt += 1
    report["runtime_only_patterns"] = rt
    L.append("Definition all_regexes : list (str * re) := [")
    L.append(";\n".join("  (%s, %s)" % (cstr(n), n) for n in all_names))
    L.append("].")
    report["regexes"] = patterns
    return "\n".join(L) + "\n"


def pyval_lit(v):
    if v is None:
        return "PNone"
    if v is True:
        return "(PBool true)"
    if v is False:
        return "(PBool false)"
    if isinstance(v, int):
        return "(PInt (%d)%%Z)" % v
    if isinstance(v, str):
        return "(PStr %s)" % cstr(v)
    if isinstance(v, list):
        return "(PList %s)" % clist(pyval_lit(x) for x in v)
    if isinstance(v, dict):
        return "(PDict %s)" % clist("(%s, %s)" % (cstr(k), pyval_lit(x)) for k, x in v.items())
    raise ValueError("no pyval literal for %r" % (v,))


def emit_validators(R, report):
    inv = R.get("VALIDATORS") or {}
    L = ["(* GENERATED by harness/translate.py from %s - do not edit *)" % REPO,
         "From PM Require Export Base.Obj.", ""]

    def cond(c):
        k = c["k"]
        if k == "truthy":
            return "CTruthy %s" % cstr(c["f"])
        if k == "notnone":
            return "CNotNone %s" % cstr(c["f"])
        if k == "match":
            term, notes, _ = regex_to_coq(c["pat"])
            return "CMatch (%s) %s" % (term, cstr(c["f"]))
        if k == "not":
            return "CNot (%s)" % cond(c["c"])
        return "%s (%s) (%s)" % ("CAnd" if k == "and" else "COr", cond(c["a"]), cond(c["b"]))

    def vexpr(b):
        k = b["k"]
        if k == "type":
            return "AssertType %s %s" % (cstr(b["f"]), clist(b["tags"]))
        if k == "value":
            return "AssertValue %s %s" % (cstr(b["f"]), clist(pyval_lit(x) for x in b["tbl"]))
        if k == "notblank":
            return "AssertNotBlank %s" % cstr(b["f"])
        if k == "re":
            terms = []
            for p in b["pats"]:
                term, notes, _ = regex_to_coq(p)
                terms.append("(%s)" % term)
            return "AssertMatchesRe %s %s" % (cstr(b["f"]), clist(terms))
        if k == "if":
            return "VIf (%s) %s" % (cond(b["c"]), clist(vexpr(x) for x in b["body"]))
        if k == "raise":
            return "VRaise %s" % b["e"]
        return "VPass"

    customs = []
    rows = []
    summary = {}
    for cls in sorted(inv):
        ms = []
        summary[cls] = []
        for m, qual, tr in inv[cls]:
            if "body" in tr:
                ms.append("(%s, VBody %s)" % (cstr_c(m), clist(vexpr(x) for x in tr["body"])))
                summary[cls].append([m, qual, "translated"])
            else:
                ms.append("(%s, VCustom %s)" % (cstr_c(m), cstr_c(qual)))
                customs.append((qual, tr.get("custom", "?")))
                summary[cls].append([m, qual, "custom:" + tr.get("custom", "?") + " (" + tr.get("why", "") + ")"])
        rows.append("  (%s,\n   [%s])" % (cstr_c(cls), ";\n    ".join(ms)))
    L.append("(* class -> the _validate* methods validate() runs, in sorted name order *)")
    L.append("Definition VALIDATORS : list (str * list (str * vmethod)) := [")
    L.append(";\n".join(rows))
    L.append("].\n")
    seen = {}
    for q, h in customs:
        seen[q] = h
    L.append("(* hand-modelled validators: qualified name -> hash of the method's AST *)")
    L.append("Definition CUSTOM_VALIDATORS : list (str * str) := [")
    L.append(";\n".join("  (%s, %s)" % (cstr_c(q), cstr(h)) for q, h in sorted(seen.items())))
    L.append("].")
    report["validators"] = summary
    return "\n".join(L) + "\n"


def main():
    os.makedirs(GEN, exist_ok=True)
    report = {"problems": [], "repo": REPO}
    R = reflect()
    if R.get("errors"):
        report["problems"].extend(R["errors"])
    changed = []
    for fn, text in [("Tables.v", emit_tables(R, report)),
                     ("Regexes.v", emit_regexes(R, report)),
                     ("Validators.v", emit_validators(R, report))]:
        if write_if_changed(os.path.join(GEN, fn), text):
            changed.append(fn)
    report["changed"] = changed
    report["reflect"] = {k: v for k, v in R.items() if k not in ("VALIDATORS",)}
    tmp = os.path.join(GEN, "report.json.%d.tmp" % os.getpid())      # readers of other checks never see a partial file
    with open(tmp, "w") as f:
        json.dump(report, f, indent=1, sort_keys=True)
    os.replace(tmp, os.path.join(GEN, "report.json"))
    for p in report["problems"]:
        print("translate: PROBLEM:", p)
    return 0


if __name__ == "__main__":
    sys.exit(main())
