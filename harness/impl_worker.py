"""Worker: runs the real productmd (PYTHONPATH=/repo) on cases of one suite.
stdin: one JSON case per line; stdout: one JSON result per line (flushed)."""
import importlib
import json
import sys
import traceback


def main():
    suite = importlib.import_module("suites." + sys.argv[1])
    fn = getattr(suite, sys.argv[2] if len(sys.argv) > 2 else "impl")
    out = sys.stdout
    for line in sys.stdin:
        case = json.loads(line)
        try:
            res = fn(case)
        except BaseException as e:  # the suite's impl maps expected exceptions itself
            res = ["harness-exception", type(e).__name__, traceback.format_exc()[-1500:]]
        out.write(json.dumps(res) + "\n")
        out.flush()


if __name__ == "__main__":
    main()
