#!/usr/bin/env python3
"""Seeded changes: validate (tests still pass, demonstration fails with / passes without), store under
/verif/seeded/<id>/, and run checks against them.

  seeded.py import <out-dir> <property> <n> [<as>]  validate /tmp/seed/out-Cxx/patch<n>.diff and store it as seeded/<property>-<n>
  seeded.py run <id> [checks...]                apply seeded/<id>/patch.diff to /repo, run the checks, revert
  seeded.py matrix [ids...]                     run every registered check against each seeded change
"""
import json
import os
import shutil
import subprocess
import sys
import time

VERIF = os.path.dirname(os.path.dirname(os.path.abspath(__file__)))
SEEDED = os.path.join(VERIF, "seeded")
PY = "/venv/bin/python"
REPO = os.environ.get("VERIF_REPO", "/repo")     # the matrix can run on a scratch copy of /verif against a scratch worktree
SCRATCH = "/tmp/seedcheck-wt"


def sh(cmd, cwd=None, timeout=900, env=None):
    p = subprocess.run(cmd, shell=True, cwd=cwd, capture_output=True, text=True, timeout=timeout, env=env)
    return p.returncode, p.stdout + p.stderr


def validate(patch, demo):
    """in a scratch worktree of /repo's HEAD"""
    sh("git -C /repo worktree remove --force %s" % SCRATCH)
    shutil.rmtree(SCRATCH, ignore_errors=True)
    rc, out = sh("git -C /repo worktree add -q %s HEAD" % SCRATCH)
    if rc != 0:
        return {"ok": False, "why": "worktree: " + out}
    res = {}
    try:
        env = dict(os.environ, PYTHONPATH=SCRATCH, PYTHONDONTWRITEBYTECODE="1")
        rc, out = sh("timeout 120 %s %s" % (PY, demo), cwd="/tmp", env=env)
        res["demo_without"] = rc
        rc, out = sh("git apply %s" % patch, cwd=SCRATCH)
        if rc != 0:
            return {"ok": False, "why": "patch does not apply: " + out[-300:]}
        rc, out = sh("%s -m pytest -q -p no:cacheprovider 2>&1 | tail -2" % PY, cwd=SCRATCH)
        res["tests"] = out.strip().split("\n")[-1]
        rc, out = sh("timeout 120 %s %s" % (PY, demo), cwd="/tmp", env=env)
        res["demo_with"] = rc
        res["demo_output"] = out[-400:]
        res["ok"] = res["demo_without"] == 0 and res["demo_with"] != 0 and "90 passed" in res["tests"]
        return res
    finally:
        sh("git -C /repo worktree remove --force %s" % SCRATCH)
        shutil.rmtree(SCRATCH, ignore_errors=True)


def cmd_import(outdir, prop, n, dest=None):
    patch = os.path.join(outdir, "patch%s.diff" % n)
    demo = os.path.join(outdir, "demo%s.py" % n)
    v = validate(patch, demo)
    sid = "%s-%s" % (prop, dest or n)
    print(sid, json.dumps({k: v[k] for k in v if k != "demo_output"}))
    if not v.get("ok"):
        return 1
    d = os.path.join(SEEDED, sid)
    os.makedirs(d, exist_ok=True)
    shutil.copy(patch, os.path.join(d, "patch.diff"))
    shutil.copy(demo, os.path.join(d, "demo.py"))
    notes = os.path.join(outdir, "notes.md")
    if os.path.exists(notes):
        shutil.copy(notes, os.path.join(d, "notes.md"))
    meta = {"breaks": prop, "source": "independent sub-agent (given only the property text and a scratch worktree)",
            "validated": {"tests": v["tests"], "demo_exit_without_change": v["demo_without"], "demo_exit_with_change": v["demo_with"]},
            "ran": "harness/seeded.py import: scratch worktree of /repo HEAD; pytest with the change; demo with and without the change"}
    with open(os.path.join(d, "meta.json"), "w") as f:
        json.dump(meta, f, indent=1)
    return 0


def run_checks(sid, checks):
    patch = os.path.join(SEEDED, sid, "patch.diff")
    rc, out = sh("git -C %s status --short" % REPO)
    if out.strip():
        raise SystemExit("%s is not clean: %s" % (REPO, out))
    rc, out = sh("git -C %s apply %s" % (REPO, patch))
    if rc != 0:
        return {"error": "patch does not apply to /repo: " + out[-200:]}
    res = {}
    try:
        if len(checks) > 2:
            # one parallel rebuild of everything against the changed source, so that the checks do not rebuild one by one
            sh("%s harness/translate.py; cd coq && timeout 900 make -k -j16 > /dev/null 2>&1" % PY, cwd=VERIF, timeout=1000)
        procs = []
        for c in checks:
            procs.append((c, subprocess.Popen("timeout 900 ./check %s --tier quick" % c, shell=True, cwd=VERIF,
                                              stdout=subprocess.PIPE, stderr=subprocess.STDOUT, text=True)))
            if len(procs) >= 4:
                for c2, p in procs:
                    out, _ = p.communicate()
                    res[c2] = summarise(p.returncode, out)
                procs = []
        for c2, p in procs:
            out, _ = p.communicate()
            res[c2] = summarise(p.returncode, out)
    finally:
        sh("git -C %s checkout -- ." % REPO)
    return res


def summarise(rc, out):
    lines = [l for l in out.split("\n") if l.startswith("VIOLATION") or "first failing input" in l or "no longer checks" in l]
    return {"rc": rc, "violation": any(l.startswith("VIOLATION") for l in lines),
            "no_failing_input": any("no-failing-input-found" in l for l in lines),
            "detail": " | ".join(l.strip()[:260] for l in lines)[:700]}


def all_checks():
    m = json.load(open(os.path.join(VERIF, "MANIFEST.json")))
    return [c["property_id"] for c in m["checks"]]


def cmd_run(sid, checks):
    meta_p = os.path.join(SEEDED, sid, "meta.json")
    meta = json.load(open(meta_p)) if os.path.exists(meta_p) else {}
    checks = checks or [meta.get("breaks", sid.split("-")[0])]
    t0 = time.time()
    res = run_checks(sid, checks)
    meta.setdefault("checks", {}).update(res)
    meta["caught_by"] = sorted(c for c, r in meta["checks"].items() if isinstance(r, dict) and r.get("violation"))
    with open(meta_p, "w") as f:
        json.dump(meta, f, indent=1)
    for c, r in res.items():
        print("%s vs %s: %s (%.0fs) %s" % (sid, c, "CAUGHT" if isinstance(r, dict) and r.get("violation") else "missed", time.time() - t0,
                                          (r.get("detail", "") if isinstance(r, dict) else r)[:200]))
    return 0


def cmd_report():
    """seeded/README.md: one line per seeded change - what it touches, which checks caught it and how"""
    import re
    rows = []
    for sid in sorted(os.listdir(SEEDED)):
        d = os.path.join(SEEDED, sid)
        mp = os.path.join(d, "meta.json")
        if not os.path.exists(mp):
            continue
        m = json.load(open(mp))
        patch = open(os.path.join(d, "patch.diff")).read()
        files = sorted(set(re.findall(r"^\+\+\+ b/(\S+)", patch, re.M)))
        funcs = sorted(set(h.strip() for h in re.findall(r"^@@.*@@ (.*)$", patch, re.M)))[:3]
        tgt = m.get("breaks", sid.split("-")[0])
        tr = (m.get("checks") or {}).get(tgt) or {}
        how = "not run" if not tr else ("missed" if not tr.get("violation") else
                                        ("correspondence/obligation broke, no failing input" if tr.get("no_failing_input") else "concrete failing input"))
        others = [c for c in (m.get("matrix_caught_by") or []) if c != tgt]
        src = "reverse of fix commit" if sid.startswith("D") else "independent sub-agent"
        rows.append("| %s | %s | %s | %s | %s | %s | %s |" % (sid, tgt, src, ", ".join(f.replace("productmd/", "") for f in files),
                                                         "; ".join(funcs)[:90], how, " ".join(others) or "-"))
    out = ["# Seeded changes", "",
           "Each directory holds `patch.diff` (applies to /repo HEAD, keeps the 90 tests green), `demo.py` (exits 0 without / 1 with the change),",
           "`notes.md` (the author's description) and `meta.json` (validation, results of the checks).  `harness/seeded.py run <id> [checks]`",
           "applies a patch to /repo, runs the checks and reverts; `matrix` runs every check against every change.", "",
           "| id | breaks | source | file | where | target check | other checks that also fired (matrix) |", "|---|---|---|---|---|---|---|"] + rows
    with open(os.path.join(SEEDED, "README.md"), "w") as f:
        f.write("\n".join(out) + "\n")
    print("%d seeded changes" % len(rows))
    return 0


def main():
    a = sys.argv[1:]
    if a[0] == "report":
        return cmd_report()
    if a[0] == "import":
        return cmd_import(*a[1:5])
    if a[0] == "run":
        return cmd_run(a[1], a[2:])
    if a[0] == "matrix":
        ids = a[1:] or sorted(os.listdir(SEEDED))
        for sid in ids:
            if os.path.exists(os.path.join(SEEDED, sid, "patch.diff")):
                cmd_run(sid, all_checks())
        return 0


if __name__ == "__main__":
    sys.exit(main())
