import random


class Rng(random.Random):
    def pick(self, xs):
        return xs[self.randrange(len(xs))]

    def chance(self, p):
        return self.random() < p
