#!/usr/bin/env python3
"""Writes /verif/MANIFEST.json from the table below (kept in one place so it stays valid)."""
import json
import os

VERIF = os.path.dirname(os.path.dirname(os.path.abspath(__file__)))

COMMON_NOTE = ("Trusted: Coq 8.16.1 kernel (vm_compute, no native_compute), harness/translate.py (reflection + ast + CPython "
               "re._parser) for the regenerated data, extraction with ExtrOcamlBasic only + runner/driver.ml, the sampled "
               "differential correspondence between the hand model and the implementation. No axioms declared; "
               "Print Assumptions output is copied into the evidence. ")

CHECKS = {
    "C01": dict(
        text="Executable Coq model of ComposeInfo serialize/deserialize (header, compose, release, base product, variant forest "
             "flattened to the uid-keyed mapping with per-variant child id lists, 14 path categories restricted to the variant's "
             "arches, layered-product releases), driven by the regenerated validator tables. Proved: C01_header_roundtrip, "
             "C01_compose_roundtrip (incl. the 'final only next to a label' normalisation), C01_release_roundtrip (release type "
             "case-folding is the identity on valid releases: every entry of the regenerated RELEASE_TYPES is lower case), "
             "C01_base_product_roundtrip, C01_paths_roundtrip (the per-architecture path tables of a variant are read back exactly: the truthy "
             "entries for the variant's architectures, in the writer's order); and over whole forests of ANY depth, by induction on "
             "the variant tree: C01_forest_written_exactly (the flat mapping holds exactly one entry per variant, keyed by UID, every "
             "variant validated under its parent), C01_forest_roundtrip (the reader rebuilds the same forest: fields, parent/child "
             "structure, layered releases, path tables as written), C01_document_roundtrip (load_ci (dump_ci x) = Ok x for the whole "
             "document), C01_second_write_identical (dumping the re-read object gives the same document), "
             "C01_reread_forest_is_normal, C01_roundtrip_hypotheses_reachable (a depth-3 forest with a layered product meets the "
             "hypotheses). The tie of the model to the code is the roundtrip_ci correspondence: every generated description is "
             "written, read and written again by the real library and by the model, the text is compared byte for byte and an "
             "implementation-side oracle compares every documented field, the parent/child structure and all paths.",
        note="Hypotheses of the forest theorems, stated in them: the object is in the normal form the reader itself builds (attributes in "
             "canonical order, architecture sets sorted and all strings (K4: element types are not validated), children keyed by id in "
             "increasing order, top level keyed by id and ordered by UID) and UIDs are pairwise distinct (one object filed twice is "
             "observation O11). UID alignment of every parent/child pair is NOT assumed: it is derived from the regenerated validators.",
        design="DESIGN.md section 6 C01"),
    "C02": dict(
        text="Coq theorems C02_image_roundtrip / C02_image_roundtrip_fields (every image the library agrees to write is read back "
             "with all fifteen attributes unchanged; the proof runs the regenerated Image validators symbolically), "
             "C02_compose_roundtrip, and at manifest level C02_manifest_roundtrip (for every well-formed manifest the reader returns, "
             "cell by cell, exactly the manifest's images ordered by path - the order in which they are written -, cells without "
             "images are not written, the compose section is intact), C02_manifest_second_write (writing the re-read manifest "
             "gives the same document), C02_reachable_manifests_are_well_formed (the hypotheses - valid normal images, no identity "
             "collision, binary arch keys, duplicate-free keys - hold for every manifest built by any add history), "
             "C02_cells_keep_their_images. Tie: the roundtrip_images correspondence (text byte for byte) + implementation-side "
             "oracle over manifests built by add histories, incl. shared objects and different images sharing a path string.",
        note="The theorems start at the parsed JSON tree; json text parsing/printing is CPython's (print_json is a model of the "
             "writer validated on every case).",
        design="DESIGN.md section 6 C02"),
    "C03": dict(
        text="Coq theorems C03_{rpms,modules,extra}_roundtrip: for every normal compose section and ANY payload mapping (hence "
             "every mapping built by add histories, C03_rpms_built_by_add), load (dump x) returns exactly the compose section "
             "and mapping written; C03_rpms_second_dump: the second write is the same document, hence the same bytes. The proofs "
             "run the regenerated Header/Compose validators symbolically and use closed computations on the regenerated VERSION. "
             "Tie: add histories are dumped, loaded and dumped again by the real library and by the model; text compared byte "
             "for byte (Base/Json.print_json vs json.dump).",
        note="json text parsing/printing is CPython's; print_json is a model of the writer validated on every case.",
        design="DESIGN.md section 6 C03"),
    "C04": dict(
        text="Executable Coq model of the treeinfo writer (all sections incl. nested variants, paths, images, stage2, media, "
             "checksums, [general]) on a model of SortedConfigParser, of the >= 1.0 reader, and of discinfo. Proved: "
             "C04_typed_checksum_roundtrip; writer side of the tree-level statement: C04_written_release_and_tree (the scalar facts of "
             "[release] and [tree] are in the written table at their documented places and survive every later section writer) and "
             "C04_variant_writer_stays_in_its_sections; C04_written_header_is_current_and_layered_flag; reader on the writer's table: "
             "C04_release_and_tree_read_back (whatever the reader returns for a table the writer produced carries the written release "
             "name/short/version/is_layered and the tree's arch, platform set and integer timestamp), C04_integer_timestamp_read_back (any size: "
             "int(str(z)) = z is proved), C04_stage2_read_back, C04_media_read_back, C04_checksums_read_back (every path gets exactly the "
             "algorithm/value typed from its own text, no foreign path appears), C04_image_tables_are_read_back (every platform's table "
             "comes back with exactly its (name, path) entries and no other platform appears, for platforms not spelled '<x>-<arch>'; "
             "uses C04_written_section_names_are_distinct, also proved); C04_base_product_read_back, C04_flat_variants_read_back (in a tree whose top-level variants have no children, every variant the reader returns is a written "
             "one with its id/uid/name/type, no children and all seven path kinds as written) and C04_flat_variants_are_all_read_back (conversely every "
             "written non-addon variant whose UID has no comma is returned: the variants read are exactly the variants written); .discinfo: C04_discinfo_roundtrip (load_di (dump_di d) = d for "
             "canonical timestamp tokens, one-line description/arch, 'ALL' or integers of any size; the reader model load_di is "
             "compared with DiscInfo.loads on written and malformed four-line texts); C17_general_mirror covers "
             "[general]. That the reader succeeds, and nested child variants, are decided by the "
             "docs_treeinfo correspondence: model "
             "writer vs real writer byte for byte; the section table the real parser produces from the written text is loaded by "
             "the model reader and compared with the re-read object; implementation-side oracle compares every fact and the "
             "second write; discinfo likewise.",
        note="Partial: deser_ti (ser_ti x) = Ok (norm x) as a whole is not a Coq theorem (the release/tree part is, conditionally on the "
             "reader returning; C07_loaded_treeinfo_is_valid covers validity of what it returns). Defect D15 (integer timestamps beyond "
             "2^53 read through float) was found by this check and fixed in /repo 0d5e3cd. ConfigParser text parsing and float repr are "
             "CPython's; values containing '%' (interpolation) are outside the generated domain (O2).",
        design="DESIGN.md section 6 C04"),
    "C05": dict(
        text="The version-gated branches of the composeinfo, images, rpms and (1.0/1.1) treeinfo readers are part of the executable "
             "Coq models. Proved: C05_written_header_is_current, C05_upgraded_header_reads_as_current (re-loading an upgraded file "
             "takes the current-format branches: conversion happens once), C05_legacy_compose_uses_id_decoder (format < 0.3 takes "
             "date/type/respin from the id through the decoder of C15). Tie + oracle: documents obtained by down-converting valid "
             "content per the format documentation (composeinfo 1.1/1.0/0.3/0.2/0.1, images 1.0/1.1, rpms 0.2/0.3, treeinfo "
             "1.1/1.0, pre-productmd [general]-only trees) and every fixture shipped under tests/ are loaded, written, re-loaded and "
             "written again by the real library: current-version header with the proper type, byte-identical second write, and for "
             "composeinfo equality with the documented mapping and with the model reader; older images/rpms documents also go through the "
             "model readers with every attribute compared (the suites of C10, whose re-filing theorems cover these converters); the "
             "family/version heuristics of the pre-productmd release reader are a reference model (Model/TreeInfo00.v, using the "
             "regenerated patterns) corresponded on a pool of family names and version strings. C05_composeinfo_conversion_happens_once: corollary of the C01 document theorem - once a loaded composeinfo is written, re-loading gives the same object and the second write the same document.",
        note="Partial: of the pre-productmd (0.0) and 0.3 treeinfo readers only the release heuristics are modelled; the other "
             "sections are covered by the implementation-side oracle. Known finding K3 (opensuse fixture).",
        design="DESIGN.md section 6 C05"),
    "C06": dict(
        text="Validation is modelled as an interpreter (Base/Obj.v) over validator tables REGENERATED from the source on every run: "
             "the per-class inventory of _validate* methods (exactly what validate() runs) and the method bodies translated from "
             "the AST into the library's assertion vocabulary (12 context-dependent validators hand-modelled, their AST hashes "
             "regenerated). Coq theorems: C06_vexpr_error_class (the vocabulary raises only TypeError/ValueError) and "
             "C06_translated_validators_raise_type_or_value_error (side condition on every regenerated body), C06_validate_iff_rules "
             "(validate() succeeds iff every flat guarded rule of the translated validators holds and every hand-modelled validator "
             "succeeds) and C06_regenerated_rules_are_the_documented_ones (class by class, the regenerated validators flatten to "
             "exactly the rule table written from the documentation in Proofs/SpecRules.v). Tie: for each of "
             "the seven formats, valid objects with one field at any position replaced by a value outside its documented domain "
             "(rule table written from the documentation) are dumped by the real library and by the model; outcome classes are "
             "compared; the oracle demands TypeError/ValueError. C06_label_language / C06_header_version_language: the regenerated label patterns accept exactly <name>-<int>.<int> for the names of the regenerated LABEL_NAMES table (the patterns are checked to be built from that table), the header-version pattern exactly <digits>.<digits> (one trailing newline admitted by Python's $, O1).",
        note="Partial: the 12 hand-modelled context-dependent validators are tied to the code by AST hash and the corruption "
             "correspondence (sampled), not by regeneration. Known findings K4 (element types of arches and "
             "path tables are not validated).",
        design="DESIGN.md section 6 C06"),
    "C07": dict(
        text="Coq theorems about the modelled readers: C07_header_gate (from 1.1 on a document naming another metadata type is "
             "rejected with ValueError), C07_header_malformed_version, C07_loaded_compose_is_valid (whatever a successful load "
             "returns has passed the regenerated Compose validators), C07_loaded_images_are_valid / C07_loaded_images_are_writable "
             "(every image of a loaded manifest passes the Image validators, hence the manifest can be written), "
             "C07_loaded_composeinfo_is_valid (compose, release, base product and EVERY variant of the re-read forest passed its "
             "validators in the context of its parent), C07_loaded_treeinfo_is_valid (release, base product, tree, EVERY variant of "
             "the variant tree under its parent, the container, checksum paths, image paths and platforms, stage2 and media of a "
             "loaded .treeinfo passed the validators the writer runs). Tie: valid current-version documents of the five JSON "
             "formats and .treeinfo texts, each with one corruption (other header type, mangled version, deleted section or "
             "required key, one value outside its documented domain at any position) are loaded by the real library and by the "
             "model readers; accepted-vs-rejected is compared and, when accepted, the loaded object must be writable. C07_header_version_language: the header-version gate accepts exactly <digits>.<digits>.",
        note="'load d = Ok x -> Valid x' is proved for images manifests, composeinfo and treeinfo (format 0.3 and later; pre-productmd "
             "treeinfo files are read by the heuristics of Model/TreeInfo00.v, tied by correspondence); rpms/modules/extra files "
             "have no per-entry validators. Reader coercions (bool(), int(), lower()) are part of the modelled reader (O10).",
        design="DESIGN.md section 6 C07"),
    "C08": dict(
        text="Coq theorems about the JSON writer model: C08_json_same_content (two documents whose mappings have the same "
             "content at every depth print to the same bytes), C08_reordering_is_same_content (any permutation of a mapping's "
             "entries - insertion order, dict/set iteration order, hash seed - is the same content), C08_sort_canonical (key "
             "sorting of distinct keys is permutation-invariant; via commutation of insertions on a strict total order), "
             "C08_print_canon, C08_cell_order_irrelevant (an image cell's written list depends only on which images the set "
             "holds: insertion sort by path is permutation-invariant for distinct paths), C08_composeinfo_variant_order_irrelevant (the whole "
             "composeinfo document is the same whatever order the top-level variants were added in). Tie: the same content is constructed in K interleavings and dumped twice in separate interpreter "
             "processes under several PYTHONHASHSEED values for rpms, modules, extra files, images, composeinfo and treeinfo; all byte "
             "sequences must coincide with each other, and the model printers (print_json, print_ini) must reproduce them from "
             "the parsed tree of what was written (the per-format section writers belong to C01-C04 and are not part of this tie).",
        note="Partial: arches and child id lists (sorted sets of strings) are covered by "
             "the correspondence and C08_sort_canonical's lemma family, not by a separately named theorem; treeinfo's sorted INI output is covered under C04/C17.",
        design="DESIGN.md section 6 C08"),
    "C09": dict(
        text="Coq theorems: C09_reach_inv (in every manifest of format >= 1.1 reachable from a fresh one by ANY sequence of add "
             "calls, images with equal identity have equal checksums), C09_add_preserves_inv, C09_add_accepts_iff (incl. the "
             "documented pre-1.1 exemption), C09_add_refusal_class (ValueError), C09_identify_spec (identity = the seven "
             "documented attributes, against the regenerated UNIQUE_IMAGE_ATTRIBUTES), C09_identify_ser (object identity = "
             "identity of the serialised dict, using the regenerated _validate_merges_variants). Tie: op-sequence differential "
             "runs over small identity domains (incl. blank subvariants and images without checksums yet), header versions below/at/above "
             "1.1 and fresh manifests; manifests loaded from 1.0/1.1/1.2 documents then asked to add a clashing image. C09_loaded_manifest_is_unique: a loaded manifest of format >= 1.1 satisfies the same invariant (every image of the document goes through add), i.e. a document holding a clashing pair is rejected.",
        note="Python == on values modelled structurally (bool as int, dicts as mappings). Loaded-document collisions are "
             "covered by the load correspondence (C07/C02 suites) since every loaded image goes through the same add.",
        design="DESIGN.md section 6 C09"),
    "C10": dict(
        text="Coq invariant theorems: C10_images_reach_arch_ok / C10_rpms_reach_arch_ok (every manifest reachable by ANY sequence of "
             "add calls has only known binary architecture keys), C10_add_loaded_arch_ok (the images loader re-files every image, "
             "src ones of a <= 1.1 document included, through add), C10_rpms_03_arch_ok (every manifest converted from format 0.3 "
             "has no source architecture key - proved through the four nested loops of the reader), "
             "C10_added_image_is_in_its_cell, and the positive clause: C10_src_image_refiled_under_each_binary_arch (a source image of "
             "a <= 1.1 document lands in the cell of EACH non-src architecture its variant lists, nothing filed before is lost) "
             "and C10_rpms_03_source_refiled (a source package of the variant's 'src' table is filed under its canonical name under "
             "each binary architecture that lists a package built from it). Tie: add histories with src/nosrc/unknown arches; down-converted images 1.0/1.1 "
             "and rpms 0.1-0.3 documents with 'src' cells loaded by the real library and the model, with an implementation-side "
             "oracle for the re-filing clause. C10_documented_architectures_are_known (same obligation as in C12: 'unknown' is measured against the documented table).",
        note="The theorems are about the reader's re-filing step and the 0.3 converter of the model; JSON text parsing is CPython's. "
             "Format 0.3 of the rpms manifest has no written specification (the down-converter follows what the reader consumes).",
        design="DESIGN.md section 6 C10"),
    "C11": dict(
        text="Heap model of the variant object graph (objects with identity, parent pointers, child maps) mirroring "
             "VariantBase.add line by line, with the Variant validators taken from the regenerated inventory. Coq theorems: "
             "C11_add_refused_noop (a refused add leaves the WHOLE graph unchanged), C11_add_accepted_child (an accepted add has "
             "passed UID alignment and parent-arch validation with its parent set to the container and is not an ancestor), "
             "C11_get_variants_sound (arch and type filters hold at every depth), C11_get_variants_all_level, "
             "C11_get_variants_ordered_by_uid, and the invariant over ALL "
             "histories C11_reach_edge_invariant / C11_add_preserves_edge_invariant (in every graph reachable from fresh objects by any "
             "sequence of accepted and refused adds, re-adds and re-parenting included, each child pointing back to its parent "
             "variant has UID = parent UID-own id and architectures within the parent's). Tie: histories of "
             "up to 12 add calls over pools of <= 7 variants; after EVERY call all parent pointers and child maps are compared, "
             "then uid/id lookups and get_variants combinations; implementation-side oracle for the forest invariants, lookup, "
             "ordering and at-most-once.",
        note="Partial: UID uniqueness, lookup by UID from the top and get_variants ordering/at-most-once are checked by the oracle "
             "on every sampled history, not proved over all histories (they do not hold for objects filed in two places). Objects filed in two "
             "places and dashed top-level UIDs with children are outside the property's quantifier (observation O11).",
        design="DESIGN.md section 6 C11"),
    "C12": dict(
        text="Coq refinement theorems: C12_rpms_add_refines (an accepted Rpms.add is exactly one map update at (variant, arch, "
             "canonical SRPM NEVRA, canonical NEVRA) with the given path/category and lower-cased sigkey; every other entry "
             "unchanged), C12_rpms_add_accepts_iff (acceptance = conjunction of the documented preconditions), "
             "C12_*_refusal_class (ValueError / TypeError only), the same for Modules.add and ExtraFiles.add, and "
             "C12_relative_to_strips/keeps for dump_for_tree. Tied to the code by op-sequence differential runs comparing the "
             "whole mapping after every call, plus an implementation-side oracle (refused call leaves the mapping unchanged, "
             "only the addressed cell changes). C12_documented_architectures_are_known: every name of a frozen copy of the shipped architecture table is in the regenerated table (an implementation-side oracle adds under each of them).",
        note="Argument types as documented (str / str-or-None / list); wrongly typed arguments are outside the modelled domain.",
        design="DESIGN.md section 6 C12"),
    "C13": dict(
        text="Coq theorems C13_roundtrip / C13_fixpoint / C13_roundtrip_gen over the Gallina model of parse_nvra (all names, epochs, "
             "versions, releases, table arches, directory prefixes, with/without .rpm; unbounded lengths), re-checked against "
             "RPM_ARCHES regenerated from /repo; model tied to the code by a 3-way differential run (Python parse_nvra, generic "
             "backtracking matcher on the regenerated RPM_NVRA_RE, split model).",
        note="CPython's re engine is modelled as greedy leftmost backtracking; \\d as [0-9].",
        design="DESIGN.md section 6 C13"),
    "C14": dict(
        text="Coq theorems: C14_roundtrip (for every accepted (short, version, known type[, base product]) outside the inherently "
             "ambiguous class K2, parse_release_id (create_release_id ...) returns the parts), C14_ambiguous (K2 is inherent), "
             "C14_create_refuses_iff, and C14_short_lang / C14_type_lang / C14_version_lang: the three predicates - the patterns "
             "regenerated from the source, run by the matcher proved sound and complete against the declarative regex semantics "
             "- accept EXACTLY the documented languages, for all strings of any length (up to Python's '$' matching before a "
             "final newline). Tie: create/parse/predicates vs the model, incl. all strings up to length 5 (quick) / 7 (thorough) "
             "over the 7-class alphabet against an independent recogniser.",
        note="The language theorems are stated against the analysed pattern shapes; the obligation `re_release_* = shape` is "
             "re-checked against the regenerated patterns (a language-preserving rewrite of a pattern breaks it and is then "
             "searched by the exhaustive sweep). Known finding K2.",
        design="DESIGN.md section 6 C14"),
    "C15": dict(
        text="Coq theorems C15_prefix, C15_self_valid (the regenerated compose-id pattern accepts every created id, via the "
             "sound+complete matcher semantics), C15_decode (decode(encode) = (date,type,respin) for every release/base-product/"
             "variant shape and all respins < 10^7), C15_decode_refuted (the stated bound 10^8 is false of the code: finding K1), "
             "C15_tables_agree / C15_suffix_table over the regenerated encoder/decoder tables, C15_unknown_suffix. Decoder "
             "model (last 8-digit window) tied to get_date_type_respin by differential runs, and to the regenerated pattern by a second "
             "model entry that runs the verified matcher on it (three-way comparison).",
        note="The decoder is a hand model of what the pattern denotes; its tie to the regex is the differential run (ids, junk "
             "strings with newlines and digit runs). Known finding K1 (8-digit respins).",
        design="DESIGN.md section 6 C15"),
    "C16": dict(
        text="Coq theorems: C16_digest_chunking (feeding a hash object chunk by chunk - any chunk sizes - equals feeding the whole "
             "content; the streaming law of hashlib objects is an explicit hypothesis), C16_chunks_cover_file (the read loop's "
             "chunks concatenate to the content for every chunk size), C16_add_refuses_absolute, "
             "C16_add_records_under_normpath, C16_typed_bare (every [checksums] value is typed on its own; nothing else is "
             "accepted), C16_add_checksum_stable / C16_add_checksum_conflict. Tie: compute_checksum vs hashlib one-shot on real "
             "files of sizes straddling the 1 MiB chunk for every algorithm available by name; normpath, Checksums.add and "
             "Image.add_checksum op sequences vs the model; [checksums] sections mixing typed and bare digests loaded by the real "
             "reader and by the model on the real parser's section table. C16_written_checksums_are_read_back_per_path: over the writer's table, every path of the written object is read back with the algorithm/value typed from its own text and no other path appears.",
        note="hashlib and os.path.normpath are trusted/corresponded, not verified; the streaming hypothesis is hashlib's documented behaviour.",
        design="DESIGN.md section 6 C16"),
    "C17": dict(
        text="Coq theorem C17_general_mirror: for every tree and every main-variant choice, whenever the writer produces [general], "
             "its family/version/name/arch/platforms/timestamp equal the [release] name and version, '<name> <version>', the "
             "[tree] arch, the [tree] platforms (incl. the arch) and the integer timestamp; 'variant' is the requested main variant "
             "or the alphabetically first top-level one; packagedir/repository are that variant's packages/repository with the "
             "source fallbacks of a src tree. Tie: the model writer is compared byte for byte with the real one over sampled "
             "trees x main-variant choices; an independent INI reader checks the clauses on the real output; the [general] "
             "section alone is fed to the pre-productmd reader.",
        note="The 'pre-productmd reader sees the same tree' clause uses productmd's own 0.0 reader as the stand-in (oracle, not theorem).",
        design="DESIGN.md section 6 C17"),
    "C18": dict(
        text="Coq effect model of dump(path): C18_dump_atomic (a failed dump leaves every file, the destination included, as it "
             "was; none is created), C18_dump_ok_writes, and C18_open_first_refuted (the validate/open/serialise order the code "
             "used to have does not have the property: defect D1, fixed). The model is tied to the code by exhaustive fault "
             "enumeration on real files: for each of the seven formats every validator of every class reachable during the "
             "dump (from the regenerated inventory) is made to fail, one at a time, with and without a pre-existing file, plus a "
             "really invalid nested value; bytes and existence of the destination are compared before/after.",
        note="The theorem is about a three-line effect model; the assurance comes from the enumeration being complete over the "
             "regenerated validator inventory. OS semantics of open/write trusted; URL destinations not modelled.",
        design="DESIGN.md section 6 C18"),
    "C19": dict(
        text="Generic Coq theorems about the backtracking matcher: C19_same_matcher (the step-counting matcher computes the same "
             "result as the matcher proved sound and complete against the declarative regex semantics), C19_steps_poly / "
             "C19_work_poly / C19_exits_poly (for every expression meeting the syntactic criterion `safe`, steps on ANY string s "
             "are <= c*(|s|+1)^d with (c,d) computed from the expression; the key lemma is unambiguity of delimiter-led star "
             "bodies, star_delim_nodup), and C19_all_safe: `safe` holds (vm_compute) for every pattern regenerated from the "
             "source on this run (static scan + module attributes + run-time capture). When an expression is not safe the check "
             "searches pump families for a blow-up of the model's step count and replays it on the real engine under a timeout.",
        note="Partial: CPython's sre engine is modelled as textbook greedy backtracking (validated by the rx differential "
             "suite, group spans included); its wall-clock time is assumed polynomially related to the model's step count; "
             "non-regex parsers are argued linear, not proved. Degrees are coarse (<= 6 for RPM_NVRA_RE).",
        design="DESIGN.md section 6 C19"),
    "C20": dict(
        text="Coq theorems over an abstract directory oracle (exists / listdir as section variables): C20_prefers_compose, "
             "C20_direct, C20_legacy (a single populated legacy subdirectory is chosen), C20_trailing_slash, "
             "C20_current_name_first / C20_legacy_name_fallback, C20_missing_is_runtimeerror, C20_loaded_once (cache), "
             "C20_undecodable_is_runtimeerror. Tie: every subset of {direct, compose/, legacy} x file-presence patterns x trailing "
             "slash is laid out on real directories; Compose(path).compose_path and the file each accessor loads are compared "
             "with the model fed with the real listing; the oracle checks equality with a direct load, identity on re-access and "
             "RuntimeError naming the location.",
        note="With several layouts populated at once the choice among legacy subdirectories follows os.listdir order (observation "
             "O8); URL paths not modelled.",
        design="DESIGN.md section 6 C20"),
}

TECH = "machine-checked proof in Coq over a hand model + regenerated data; differential correspondence with the implementation"


def main():
    checks = []
    for pid in sorted(CHECKS):
        c = CHECKS[pid]
        checks.append({
            "property_id": pid,
            "quick_cmd": "./check %s --tier quick" % pid,
            "thorough_cmd": "./check %s --tier thorough" % pid,
            "evidence_file": "/verif/evidence/%s.json" % pid,
            "replay_cmd_template": "./check %s --replay {path}" % pid,
            "engine": "coq-model+correspondence",
            "level_claimed": {"category": c.get("category", "proof"), "text": c["text"], "design_ref": c["design"]},
            "level_note": COMMON_NOTE + c["note"],
            "technique": c.get("technique", TECH),
        })
    na = [{"property_id": "C%02d" % i, "reason": "check not built yet (in progress; DESIGN.md section 9 gives the build order)"}
          for i in range(1, 21) if "C%02d" % i not in CHECKS]
    m = {
        "version": 1,
        "setup_cmd": "./setup.sh",
        "hooks": {
            "guard": "PRODUCTMD_VERIF",
            "enable": "no source hooks: checks import productmd from /repo's working tree (PYTHONPATH=/repo) and instrument it from the harness process",
            "baseline_off_cmd": "cd /repo && /venv/bin/python -m pytest -q -p no:cacheprovider",
            "source_commits": [],
            "add_only": True,
        },
        "engines": [{
            "name": "coq-model+correspondence", "path": "/verif/coq + /verif/harness + /verif/runner",
            "serves_properties": sorted(CHECKS),
            "kind_free_text": "Coq 8.16.1 development (models, proofs, property theorems), Python->Coq translator for the library's data, "
                              "extracted OCaml runner, differential harness against the real library",
        }],
        "checks": checks,
        "not_applicable": na,
        "notes": "See DESIGN.md. known_findings.json lists recorded (known) and repaired (fixed) defects.",
    }
    with open(os.path.join(VERIF, "MANIFEST.json"), "w") as f:
        json.dump(m, f, indent=1)


if __name__ == "__main__":
    main()
