"""Shared machinery of the checks: build, model runner, implementation runner,
comparison, evidence, known findings, violation reporting."""
import fcntl
import hashlib
import json
import os
import random
import re
import select
import shutil
import subprocess
import sys
import time

VERIF = os.path.dirname(os.path.dirname(os.path.abspath(__file__)))
REPO = os.environ.get("VERIF_REPO", "/repo")
PY = "/venv/bin/python"
COQ = os.path.join(VERIF, "coq")
RUNNER = os.path.join(VERIF, "runner")
WORK = os.path.join(VERIF, ".work")
HARNESS = os.path.join(VERIF, "harness")

sys.path.insert(0, HARNESS)
import wire  # noqa: E402


def env_impl(hashseed="0"):
    e = dict(os.environ)
    e.update(PYTHONPATH=REPO + ":" + HARNESS, PYTHONHASHSEED=str(hashseed), PYTHONDONTWRITEBYTECODE="1",
             PRODUCTMD_VERIF="1")
    return e


def sh(cmd, timeout, cwd=None, env=None):
    t0 = time.time()
    try:
        p = subprocess.run(cmd, shell=isinstance(cmd, str), cwd=cwd, env=env, capture_output=True, text=True,
                           timeout=timeout)
        return p.returncode, p.stdout + p.stderr, time.time() - t0
    except subprocess.TimeoutExpired as e:
        return 124, "TIMEOUT after %ss: %s" % (timeout, (e.stdout or "")[-2000:] if isinstance(e.stdout, str) else ""), time.time() - t0


class BuildLock:
    def __enter__(self):
        os.makedirs(WORK, exist_ok=True)
        self.f = open(os.path.join(WORK, "build.lock"), "w")
        fcntl.flock(self.f, fcntl.LOCK_EX)
        return self

    def __exit__(self, *a):
        fcntl.flock(self.f, fcntl.LOCK_UN)
        self.f.close()


def ensure_makefile():
    mk = os.path.join(COQ, "Makefile")
    cp = os.path.join(COQ, "_CoqProject")
    if not os.path.exists(mk) or os.path.getmtime(mk) < os.path.getmtime(cp):
        rc, out, _ = sh("coq_makefile -f _CoqProject -o Makefile", 60, cwd=COQ)
        if rc != 0:
            raise RuntimeError("coq_makefile failed: " + out)


def build(targets, log):
    """translate + make the given .vo targets + extraction + driver.
    Returns dict: {target: (ok, output)} plus 'model' key for the runner."""
    res = {}
    with BuildLock():
        rc, out, dt = sh([PY, os.path.join(HARNESS, "translate.py")], 120, env=dict(os.environ, VERIF_REPO=REPO))
        log("translate: rc=%d %.1fs %s" % (rc, dt, out.strip()[-500:]))
        res["translate"] = (rc == 0, out)
        ensure_makefile()
        for t in targets:
            rc, out, dt = sh("timeout 1500 make -j16 %s" % t, 1600, cwd=COQ)
            log("make %s: rc=%d %.1fs" % (t, rc, dt))
            res[t] = (rc == 0, out)
        rc, out, dt = sh("timeout 1500 make -j16 Extract/Extract.vo", 1600, cwd=COQ)
        log("make Extract: rc=%d %.1fs" % (rc, dt))
        ok = rc == 0
        if ok:
            drv = os.path.join(RUNNER, "driver")
            ml = os.path.join(RUNNER, "model.ml")
            if (not os.path.exists(drv)) or os.path.getmtime(drv) < max(os.path.getmtime(ml), os.path.getmtime(os.path.join(RUNNER, "driver.ml"))):
                rc2, out2, dt2 = sh("ocamlfind ocamlopt -w -a model.mli model.ml driver.ml -o driver", 300, cwd=RUNNER)
                log("ocamlopt: rc=%d %.1fs" % (rc2, dt2))
                if rc2 != 0:
                    ok = False
                    out += out2
        res["model"] = (ok, out)
    return res


def run_model(lines, timeout=600):
    """lines: list of wire lines. Returns list of decoded python values."""
    if not lines:
        return []
    p = subprocess.run("ulimit -s unlimited 2>/dev/null; exec ./driver", shell=True, cwd=RUNNER,
                       input="\n".join(lines) + "\n", capture_output=True, text=True, timeout=timeout)
    outs = p.stdout.split("\n")
    if outs and outs[-1] == "":
        outs.pop()
    if len(outs) != len(lines):
        raise RuntimeError("model runner returned %d results for %d cases: %s" % (len(outs), len(lines), p.stderr[-500:]))
    return [wire.decode_line(o) for o in outs]


class ImplRunner:
    """Runs suite.impl on cases in a worker subprocess with a per-case timeout.
    A case that exceeds it is reported as ['timeout'] and the worker restarted."""

    def __init__(self, suite, fn="impl", per_case_timeout=5.0, hashseed="0"):
        self.suite = suite
        self.fn = fn
        self.t = per_case_timeout
        self.hashseed = hashseed
        self.p = None

    def _spawn(self):
        self.p = subprocess.Popen([PY, os.path.join(HARNESS, "impl_worker.py"), self.suite, self.fn],
                                  stdin=subprocess.PIPE, stdout=subprocess.PIPE, stderr=subprocess.DEVNULL,
                                  env=env_impl(self.hashseed), cwd=HARNESS)
        self.buf = b""
        os.set_blocking(self.p.stdout.fileno(), False)

    def close(self):
        if self.p is not None:
            try:
                self.p.stdin.close()
            except OSError:
                pass
            try:
                self.p.wait(timeout=5)
            except subprocess.TimeoutExpired:
                self.p.kill()
                self.p.wait()
            self.p = None

    def _readline(self):
        """One result line, or None on timeout / EOF (worker died)."""
        deadline = time.time() + self.t
        fd = self.p.stdout.fileno()
        while b"\n" not in self.buf:
            left = deadline - time.time()
            if left <= 0:
                return None
            r, _, _ = select.select([fd], [], [], left)
            if not r:
                return None
            chunk = os.read(fd, 1 << 16)
            if not chunk:
                return None
            self.buf += chunk
        line, self.buf = self.buf.split(b"\n", 1)
        return line

    def run(self, cases, window=32):
        """A writer thread feeds the cases; this thread reads one result per case with a per-result timeout.
        A case that times out (or crashes the worker) is reported and the worker restarted on the rest."""
        import threading
        results = []
        n = len(cases)
        blobs = [(json.dumps(c) + "\n").encode() for c in cases]
        while len(results) < n:
            if self.p is None:
                self._spawn()
            proc = self.p
            start = len(results)

            def feed(proc=proc, start=start):
                try:
                    for b in blobs[start:]:
                        proc.stdin.write(b)
                    proc.stdin.flush()
                except (BrokenPipeError, OSError, ValueError):
                    pass

            th = threading.Thread(target=feed, daemon=True)
            th.start()
            while len(results) < n:
                line = self._readline()
                if line is None:
                    crashed = self.p.poll() is not None
                    self.p.kill()
                    self.p.wait()
                    self.p = None
                    results.append(["crash"] if crashed else ["timeout"])
                    break
                results.append(json.loads(line))
            th.join(timeout=5)
        return results


def canon(v):
    return json.dumps(v, sort_keys=True)


def case_id(v):
    return hashlib.sha1(canon(v).encode()).hexdigest()[:12]


class Rng(random.Random):
    def pick(self, xs):
        return xs[self.randrange(len(xs))]

    def chance(self, p):
        return self.random() < p


def seed_from_env():
    try:
        return int(os.environ.get("VERIF_SEED", "0"))
    except ValueError:
        return 0


# ------------------------------------------------------------------ property check driver

class Check:
    def __init__(self, pid, tier, seed):
        self.pid = pid
        self.tier = tier
        self.seed = seed
        self.t0 = time.time()
        self.logs = []
        self.obligations = []      # (name, ok, detail)
        self.violations = []       # dicts: {what, case, suite, finding}
        self.known = []
        self.broken = []           # names of obligations / suites that no longer check
        self.disagreements = []    # first model-vs-implementation differences per suite (for the replay file)
        self.cov = {"suites": {}}
        self.samples = []
        self.evaluations = 0
        self.distinct = set()
        self.traces = 0
        self.assumptions = []
        self.checker_cmds = []
        self.workdir = os.path.join(WORK, "%s-%d" % (pid, os.getpid()))
        os.makedirs(self.workdir, exist_ok=True)

    def log(self, msg):
        self.logs.append(msg)
        print("[%s %6.1fs] %s" % (self.pid, time.time() - self.t0, msg), flush=True)

    # -- obligations
    def build(self, props_targets):
        res = build(props_targets, self.log)
        self.checker_cmds.append("make -C coq -j16 " + " ".join(props_targets) + " Extract/Extract.vo")
        tr_ok, tr_out = res["translate"]
        mine = [l for l in tr_out.split("\n") if "PROBLEM" in l and problem_concerns(l, self.pid)]
        other = [l for l in tr_out.split("\n") if "PROBLEM" in l and l not in mine]
        if other:
            self.log("translator problems outside this property's model (reported by the checks that own them): %s" % " | ".join(other)[:400])
        self.obligation("translate:/repo->coq/Gen", tr_ok and not mine, ("\n".join(mine) if mine else tr_out.strip())[-800:])
        for t in props_targets:
            ok, out = res[t]
            src = os.path.join(COQ, t[:-1])  # .vo -> .v
            thms = re.findall(r"^\s*Theorem\s+(\w+)", open(src).read(), re.M) if os.path.exists(src) else []
            pa = re.findall(r"(Closed under the global context|Axioms:\n(?:.+\n)+)", out)
            if ok:
                for th in thms:
                    self.obligation("theorem:" + th, True, "")
                # Print Assumptions output is only in `out` when the file was recompiled; fetch otherwise
                self.assumptions.extend(print_assumptions(t))
            else:
                failed = error_locus(out)
                for th in thms:
                    self.obligation("theorem:" + th, False, failed)
                self.log("build of %s failed: %s" % (t, failed))
        ok, out = res["model"]
        self.obligation("model-builds:Extract+driver", ok, "" if ok else error_locus(out))
        bad = forbidden_vernacular()
        self.obligation("no-axiom-no-admit:coq/**/*.v", not bad, "; ".join(bad)[:400])
        return res

    def obligation(self, name, ok, detail):
        self.obligations.append((name, bool(ok), detail))
        if not ok:
            self.broken.append(name + (": " + detail if detail else ""))

    # -- suites
    def record_suite(self, name, stats):
        self.cov["suites"][name] = stats

    def add_cases(self, cases, nontrivial_flags):
        self.evaluations += len(cases)
        for c, nt in zip(cases, nontrivial_flags):
            if nt:
                self.distinct.add(case_id(c))

    def violation(self, what, case, suite, finding=None):
        self.violations.append({"what": what, "case": case, "suite": suite, "finding": finding})

    # -- finish
    def finish(self, level="proof", rule="", trusted=None, extra_cov=None):
        kf = load_known()
        unlisted = []
        printed = set()
        for v in self.violations:
            fid = v.get("finding")
            ent = kf.get((self.pid, fid)) if fid else None
            if ent and ent.get("status") == "known":
                if fid not in printed:
                    print("KNOWN-FINDING: property=%s %s" % (self.pid, ent["what"]), flush=True)
                    printed.add(fid)
                self.known.append(fid)
            else:
                unlisted.append(v)
        rc = 0
        replay_path = None
        if unlisted or self.broken:
            rc = 1
            os.makedirs(os.path.join(VERIF, "replays"), exist_ok=True)
            replay_path = os.path.join(VERIF, "replays", "%s-%s-%d.json" % (self.pid, self.tier, int(time.time())))
            replay = {"property": self.pid, "seed": self.seed, "tier": self.tier,
                      "broken_obligations": self.broken,
                      "model_vs_implementation": self.disagreements[:12],
                      "violations": unlisted[:20]}
            with open(replay_path, "w") as f:
                json.dump(replay, f, indent=1, sort_keys=True)
            if unlisted:
                print("VIOLATION property=%s replay=%s" % (self.pid, replay_path), flush=True)
                print("  first failing input: %s -- %s" % (canon(unlisted[0]["case"])[:400], unlisted[0]["what"][:400]))
            else:
                print("  no longer checks: %s" % "; ".join(self.broken)[:1500])
                print("VIOLATION property=%s replay=%s no-failing-input-found" % (self.pid, replay_path), flush=True)
        nob = len(self.obligations)
        ndis = sum(1 for _, ok, _ in self.obligations if ok)
        cov = {
            "obligations": nob,
            "discharged": ndis,
            "obligation_list": [{"name": n, "ok": ok, "detail": d[:300]} for n, ok, d in self.obligations],
            "checker_cmd": "; ".join(self.checker_cmds) or "none",
            "trusted_base": trusted or [],
            "evaluations": self.evaluations,
            "distinct_nontrivial": len(self.distinct),
            "traces_validated_against_impl": self.traces,
            "rule": rule,
            "samples": self.samples[:12],
            "suites": self.cov["suites"],
            "known_findings_reproduced": sorted(set(self.known)),
        }
        if extra_cov:
            cov.update(extra_cov)
        ev = {
            "property_id": self.pid, "tier": self.tier, "seed": self.seed, "level": level,
            "coverage": cov, "assumptions": self.assumptions,
            "wall_s": round(time.time() - self.t0, 2), "violations": len(unlisted) + (1 if (self.broken and not unlisted) else 0),
        }
        os.makedirs(os.path.join(VERIF, "evidence"), exist_ok=True)
        tmp = os.path.join(VERIF, "evidence", self.pid + ".json.tmp")
        with open(tmp, "w") as f:
            json.dump(ev, f, indent=1, sort_keys=True)
        os.replace(tmp, os.path.join(VERIF, "evidence", self.pid + ".json"))
        shutil.rmtree(self.workdir, ignore_errors=True)
        self.log("done rc=%d obligations=%d/%d evaluations=%d distinct_nontrivial=%d known=%s" %
                 (rc, ndis, nob, self.evaluations, len(self.distinct), sorted(set(self.known))))
        return rc


# which properties' models read which regenerated pattern (prefix match); a pattern the translator cannot express is reported
# by those checks only - any other check still fails through its own theorems or correspondence if it does depend on it
REGEX_OWNERS = {
    "re_nvra": ["C13", "C12", "C03", "C10", "C19"],
    "re_release_": ["C14", "C06", "C07", "C01", "C19"],
    "re_label": ["C06", "C07", "C01", "C19"],
    "re_compose_id": ["C15", "C06", "C07", "C19"],
    "re_compose_date": ["C15", "C06", "C07", "C19"],
    "re_date_type_respin": ["C15", "C05", "C19"],
    "re_ci_variant_id": ["C06", "C07", "C11", "C01", "C19"],
    "re_header_version": ["C07", "C05", "C06", "C19"],
    "re_split_version": ["C07", "C05", "C19"],
    "re_implant_md5": ["C06", "C07", "C02", "C19"],
    "re_module_uid": ["C12", "C03", "C19"],
    "re_ti00_": ["C05", "C19"],
    "re_ti_": ["C04", "C06", "C07", "C19"],
}


def problem_concerns(line, pid):
    m = re.search(r"PROBLEM: regex (\w+)", line)
    if not m and "LABEL_RE_LIST" in line:
        return pid in REGEX_OWNERS["re_label"]
    if not m:
        return True
    name = m.group(1)
    for prefix, owners in REGEX_OWNERS.items():
        if name.startswith(prefix):
            return pid in owners
    return True


FORBIDDEN = re.compile(r"\b(Admitted|admit|Axiom|Axioms|Parameter|Parameters|Conjecture|Hypothesis|Hypotheses|Variable|Variables|Admit Obligations)\b|"
                       r"Unset\s+Guard|Unset\s+Positivity|Unset\s+Universe|bypass_check|type-in-type|impredicative-set")


def forbidden_vernacular():
    """every .v file of the development (generated ones included) and the build flags: no axiom-declaring command, no admit, no
    switched-off kernel check; comments are stripped first"""
    bad = []
    for root, _, files in os.walk(COQ):
        for fn in files:
            if not fn.endswith(".v") and fn != "_CoqProject":
                continue
            p = os.path.join(root, fn)
            text = open(p, encoding="utf-8", errors="replace").read()
            if fn.endswith(".v"):
                text = strip_coq_comments(text)
            sections = []
            for i, line in enumerate(text.split("\n"), 1):
                ms = re.match(r"\s*Section\s+(\w+)\s*\.", line)
                if ms:
                    sections.append(ms.group(1))
                me = re.match(r"\s*End\s+(\w+)\s*\.", line)
                if me and sections and sections[-1] == me.group(1):
                    sections.pop()
                m = FORBIDDEN.search(line)
                if m and not (sections and m.group(1) in ("Variable", "Variables", "Hypothesis", "Hypotheses")):
                    bad.append("%s:%d %s" % (os.path.relpath(p, COQ), i, m.group(0)))
    return bad


def strip_coq_comments(text):
    out, depth, i, in_str = [], 0, 0, False
    while i < len(text):
        if not in_str and text.startswith("(*", i):
            depth += 1
            i += 2
            continue
        if not in_str and depth and text.startswith("*)", i):
            depth -= 1
            i += 2
            continue
        c = text[i]
        if depth == 0:
            if c == '"':
                in_str = not in_str
            out.append(c)
        elif c == "\n":
            out.append(c)
        i += 1
    return "".join(out)


def hand_models_changed(chk=None):
    """hand-modelled validators whose source changed since the model was written (informational: the tie is the
    correspondence; a change only makes the sampled checks that exercise them dig deeper)"""
    try:
        want = json.load(open(os.path.join(VERIF, "harness", "custom_hashes.json")))
        rep = json.load(open(os.path.join(COQ, "Gen", "report.json")))["validators"]
    except (OSError, ValueError, KeyError):
        return []
    got = {}
    for ms in rep.values():
        for m, qual, st in ms:
            if st.startswith("custom:"):
                got[qual] = st.split()[0][7:]
    changed = sorted(q for q in set(want) | set(got) if want.get(q) != got.get(q))
    if changed and chk is not None:
        chk.log("hand-modelled validators changed in the source (%s): sampling 5x deeper" % ", ".join(changed))
    return changed


def error_locus(out):
    m = re.findall(r'File "([^"]+)", line (\d+), characters [\d-]+:\n(Error:[^\n]*(?:\n[^\n]+){0,3})', out)
    if m:
        f, line, msg = m[-1]
        return "%s:%s %s" % (f, line, " ".join(msg.split())[:300])
    return " ".join(out.split())[-400:]


_pa_cache = {}


def print_assumptions(target):
    """Recompile the Props file alone (cheap: Exact + Print Assumptions) to capture its output."""
    src = target[:-1]
    rc, out, _ = sh("timeout 600 coqc -Q . PM %s" % src, 700, cwd=COQ)
    res = []
    thms = re.findall(r"^\s*Theorem\s+(\w+)", open(os.path.join(COQ, src)).read(), re.M)
    blocks = re.findall(r"(Closed under the global context|Axioms:\n(?:.*\n)*?(?=Closed under|Axioms:|\Z))", out)
    for i, th in enumerate(thms):
        b = blocks[i].strip() if i < len(blocks) else "<no Print Assumptions output>"
        res.append("Print Assumptions %s: %s" % (th, " ".join(b.split())))
    return res


def load_known():
    p = os.path.join(VERIF, "known_findings.json")
    try:
        data = json.load(open(p))
    except OSError:
        return {}
    return {(e["property"], e["id"]): e for e in data.get("findings", [])}


def differential(chk, suite_name, cases, entry, model_cases=None, impl_fn="impl", per_case_timeout=5.0,
                 nontrivial=None, oracle=None, classify=None, normalise=None, hashseed="0"):
    """Run cases on model entry and implementation; compare; apply the oracle.
    Returns (impl_results, model_results, disagreements)."""
    t0 = time.time()
    mc = model_cases if model_cases is not None else cases
    lines = [wire.encode_line(entry, c) for c in mc]
    model_ok, _ = True, None
    try:
        mres = run_model(lines)
    except Exception as e:  # model cannot run -> the tie is broken
        chk.obligation("suite:" + suite_name, False, "model runner failed: %s" % e)
        mres = [None] * len(cases)
        model_ok = False
    ir = ImplRunner(suite_name.split(":")[0], fn=impl_fn, per_case_timeout=per_case_timeout, hashseed=hashseed)
    try:
        ires = ir.run(cases)
    finally:
        ir.close()
    dis = []
    kinds = {}
    flags = []
    for c, a_raw, b in zip(cases, ires, mres):
        a = a_raw
        if normalise:
            a, b = normalise(a), normalise(b)
        k = a[0] if isinstance(a, list) and a and isinstance(a[0], str) else type(a).__name__
        if isinstance(a, list) and len(a) > 1 and a[0] == "err":
            k = "err:" + str(a[1])
        kinds[k] = kinds.get(k, 0) + 1
        flags.append(bool(nontrivial(c, a_raw)) if nontrivial else True)
        if model_ok and a != b:
            dis.append({"case": c, "impl": a, "model": b})
        if oracle:
            v = oracle(c, a_raw)
            if v:
                chk.violation(v, c, suite_name, classify(c, a_raw, v) if classify else None)
    chk.add_cases(cases, flags)
    chk.traces += len(cases)
    chk.disagreements.extend({"suite": suite_name, "case": d["case"], "impl": d["impl"], "model": d["model"]} for d in dis[:3])
    if model_ok:
        chk.obligation("suite:" + suite_name, not dis,
                       "" if not dis else "%d disagreements, first: %s" % (len(dis), canon(dis[0])[:600]))
    chk.record_suite(suite_name, {"cases": len(cases), "impl_outcomes": kinds, "disagreements": len(dis),
                                  "wall_s": round(time.time() - t0, 2)})
    for c, a in list(zip(cases, ires))[:3]:
        chk.samples.append({"suite": suite_name, "case": c, "impl": a})
    return ires, mres, dis
