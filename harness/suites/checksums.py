"""C16: digests of real files, path normalisation, the [checksums] reader, Image.add_checksum"""
import hashlib
import os
import shutil
import tempfile
from suites.common import VERIF, exc_result, rstr

EXC = (ValueError, TypeError, AttributeError, KeyError, IndexError, UnboundLocalError)
MIB = 1024 ** 2


def digest_cases(tier):
    sizes = [0, 1, 4097, MIB - 1, MIB, MIB + 1] + ([2 * MIB, 3 * MIB - 1, 3 * MIB, 3 * MIB + 5] if tier == "thorough" else [2 * MIB + 3])
    algs = sorted(hashlib.algorithms_available)
    big = [{"size": 32 * MIB + 4097, "alg": a, "seed": 99} for a in ("sha256", "md5") if a in algs]
    return [{"size": s, "alg": a, "seed": i} for i, s in enumerate(sizes) for a in algs] + big


def impl_digest(case):
    import productmd.treeinfo as TI
    import random
    rnd = random.Random(case["seed"])
    data = rnd.randbytes(case["size"])
    work = tempfile.mkdtemp(prefix="dg-", dir=os.path.join(VERIF, ".work"))
    try:
        path = os.path.join(work, "blob")
        with open(path, "wb") as f:
            f.write(data)
        try:
            want = ["ok", hashlib.new(case["alg"], data).hexdigest().lower()]
        except Exception as e:
            want = ["err", type(e).__name__]
        try:
            got = ["ok", TI.compute_checksum(path, case["alg"])]
        except Exception as e:
            got = ["err", type(e).__name__]
        # the same file reached through a symbolic link (images/latest.iso -> boot.iso): the digest is that of the content
        link = os.path.join(work, "latest-link")
        os.symlink("blob", link)
        try:
            got_link = ["ok", TI.compute_checksum(link, case["alg"])]
        except Exception as e:
            got_link = ["err", type(e).__name__]
        os.unlink(link)
        if got_link != got:
            got = ["through-a-symlink", got_link, got]
        # through Checksums.add with a redundant relative path
        cs = TI.TreeInfo().checksums
        try:
            cs.add("./x/..//blob", case["alg"], root_dir=work)
            via_add = [k for k in cs.checksums], [list(v) for v in cs.checksums.values()]
        except Exception as e:
            via_add = ["err", type(e).__name__]
        # the digest is a function of the content at the time of the call: replace the content in place by other bytes of the
        # same length and restore the timestamps (what cp -p / rsync -t do), then ask again
        again = None
        if case["size"] > 0 and want[0] == "ok":
            st = os.stat(path)
            data2 = bytes((b + 1) % 256 for b in data[:64]) + data[64:]
            with open(path, "r+b") as f:
                f.write(data2)
            os.utime(path, ns=(st.st_atime_ns, st.st_mtime_ns))
            want2 = ["ok", hashlib.new(case["alg"], data2).hexdigest().lower()]
            try:
                got2 = ["ok", TI.compute_checksum(path, case["alg"])]
            except Exception as e:
                got2 = ["err", type(e).__name__]
            # the same Checksums object asked again for the same path (another spelling): the record must follow the file
            try:
                cs.add("blob", case["alg"], root_dir=work)
                again_add = [list(v) for v in cs.checksums.values()]
            except Exception as e:
                again_add = ["err", type(e).__name__]
            again = [want2, got2, again_add]
        return [want, got, via_add, again]
    finally:
        shutil.rmtree(work, ignore_errors=True)


def gen_paths(rng, n):
    comps = ["a", "b", "images", ".", "..", "", "x.iso", "..."]
    out = []
    for _ in range(n):
        p = "/".join(rng.choice(comps) for _ in range(rng.randint(1, 6)))
        if p.startswith("/"):
            p = "r" + p
        out.append({"p": p})
    return out


def impl_normpath(case):
    return os.path.normpath(case["p"])


def gen_checksum_ops(rng, n):
    cases = []
    vals = ["a" * 64, "b" * 64, "", None, "c" * 32]
    for _ in range(n):
        start = {t: rng.choice(vals[:3]) for t in rng.sample(["sha256", "md5", "sha1"], rng.randint(0, 2))}
        ops = [[rng.choice(["sha256", "md5", "sha1"]), rng.choice(vals)] for _ in range(rng.randint(1, 6))]
        cases.append({"start": start, "ops": ops})
    return cases


def impl_add_checksum(case):
    import productmd.images as IM
    img = IM.Image(IM.Images())
    img.checksums = dict(case["start"])
    out = []
    for t, v in case["ops"]:
        try:
            r = img.add_checksum(None, t, v)
            out.append(["ok", r, dict(img.checksums)])
        except EXC as e:
            out.append(["err", type(e).__name__, dict(img.checksums)])
    return out


def gen_add_ops(rng, n):
    cases = []
    for _ in range(n):
        ops = []
        for _ in range(rng.randint(1, 5)):
            p = rng.choice(["images/boot.iso", "./images//boot.iso", "x/../images/boot.iso", "/abs/boot.iso", "a/./b", "a//b/", "../up", "//two"])
            ops.append([p, rng.choice(["sha256", "md5"]), rstr(rng, "0123456789abcdef", 8, 8)])
        cases.append({"ops": ops})
    return cases


def impl_checksums_add(case):
    import productmd.treeinfo as TI
    cs = TI.TreeInfo().checksums
    out = []
    for p, t, v in case["ops"]:
        try:
            cs.add(p, t, v)
            out.append(["ok", {k: list(x) for k, x in cs.checksums.items()}])
        except EXC as e:
            out.append(["err", type(e).__name__, {k: list(x) for k, x in cs.checksums.items()}])
    return out


BASE = """[header]
type = productmd.treeinfo
version = 1.2

[release]
name = Fedora
short = Fedora
version = 22

[tree]
arch = x86_64
build_timestamp = 1440000000
platforms = x86_64
variants = Server

[variant-Server]
id = Server
name = Server
type = variant
uid = Server

"""


BASE00 = """[general]
family = Fedora
version = 20
arch = x86_64
timestamp = 1386857206.026026
variant = Fedora
packagedir = Packages
repository = .

"""


def gen_sections(rng, n):
    hexd = "0123456789abcdef"
    cases = []
    for _ in range(n):
        entries = []
        for i in range(rng.randint(1, 5)):
            k = rng.random()
            if k < 0.12:
                # a typed entry whose TOTAL length happens to be one of the bare-digest lengths
                alg = rng.choice(["sha256", "md5", "sha1", "sha512"])
                L = rng.choice([32, 40, 64]) - len(alg) - 1
                val = "%s:%s" % (alg, rstr(rng, hexd, L, L))
            elif k < 0.35:
                val = "%s:%s" % (rng.choice(["sha256", "md5", "sha1", "sha512"]), rstr(rng, hexd, 8, 8))
            elif k < 0.65:
                L = rng.choice([32, 40, 64])
                val = rstr(rng, hexd, L, L)
            elif k < 0.9:
                L = rng.choice([1, 16, 31, 33, 39, 41, 63, 65, 128])
                val = rstr(rng, hexd, L, L)
            else:
                val = rng.choice(["sha256:ab:cd", ":", "sha1:"])
            path = rng.choice(["images/boot.iso", "images/pxeboot/vmlinuz", "repodata/repomd.xml", "LiveOS/squashfs.img", "/abs/path", "Z/last", "a/first",
                               "x/../images/boot.iso", "./a/first", "a//first", "images/./boot.iso"]) + ("" if i == 0 else str(i))
            entries.append([path, val])
        text = BASE + "[checksums]\n" + "".join("%s = %s\n" % (p, v) for p, v in entries) + "\n"
        cases.append({"text": text, "entries": entries})
    # the early productmd formats (0.1 - 0.3, [product] instead of [release]) are not pre-productmd files: an absolute path is
    # refused there like everywhere else, a relative one is taken as it is
    for _ in range(max(10, n // 5)):
        ver = rng.choice(["0.1", "0.2", "0.3"])
        base = BASE.replace("[release]", "[product]").replace("version = 1.2", "version = " + ver).replace("type = productmd.treeinfo\n", "")
        entries = []
        for i, path in enumerate(rng.sample(["images/boot.iso", "x86_64/os/images/boot.iso", "/mnt/tree/os/images/boot.iso", "/abs/file",
                                             "repodata/repomd.xml"], rng.randint(1, 3))):
            L = rng.choice([32, 40, 64])
            entries.append([path, rng.choice(["", "sha256:", "md5:"]) + rstr(rng, hexd, L, L)])
        text = base + "[checksums]\n" + "".join("%s = %s\n" % (p, v) for p, v in entries) + "\n"
        cases.append({"text": text, "entries": entries, "early": ver})
    # pre-productmd files (no [header]): relative keys are taken as they are, whatever directory names they contain
    for _ in range(max(10, n // 5)):
        entries = []
        for i, path in enumerate(rng.sample(["x86_64/os/images/boot.iso", "i386/os/images/boot.iso", "images/boot.iso", "os/images/boot.iso",
                                             "tree/os/repodata/repomd.xml", "repodata/repomd.xml", "a/os/b/os/c",
                                             "/mnt/tree/x86_64/os/updates/os/images/boot.iso", "/srv/os/LiveOS/squashfs.img", "/no/marker/file"], rng.randint(2, 4))):
            L = rng.choice([32, 40, 64])
            entries.append([path, rng.choice(["", "sha256:", "md5:"]) + rstr(rng, hexd, L, L)])
        text = BASE00 + "[checksums]\n" + "".join("%s = %s\n" % (p, v) for p, v in entries) + "\n"
        cases.append({"text": text, "entries": entries, "legacy00": True})
    for i, c in enumerate(cases):
        if not c.get("legacy00") and i % 4:
            c["reuse"] = i % 4            # the reading object has a history (docs_treeinfo.impl_load_text)
    return cases
