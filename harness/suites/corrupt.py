"""C06: valid objects of the seven formats with exactly one field replaced by a value outside its documented domain.
The rule table below is written from doc/*.rst, the class docstrings and the property text (DESIGN.md appendix A),
not from the validators."""
import copy
import io
from suites.common import exc_result, reflect
from suites import docs_composeinfo as DC, ops_images as OI, docs_manifests as DM, ops_manifests as OM, docs_treeinfo as DT

EXC = (ValueError, TypeError, AttributeError, KeyError, IndexError)

COMPOSE = {
    "id": [None, 5, "", "nodate", []], "type": ["bogus", None, 5], "date": ["2024", "2024010a", None, 20240101],
    "respin": ["1", None, 1.5], "label": ["GA", "RC-1", 5, "Beta-1.0.1", "rc-1.0", "RC-100", "RC-1x0", "Beta-1-2", "Update-2_10", "RC-1. 0", "Beta-1.0 ", "Alpha-1_0.2", "Update-1.\t2", " RC-1.0"], "final": ["yes", None, 1],
}
CI_RELEASE = {"name": [None, 5], "short": [None, 5], "version": ["1.", "1..2", None, 5, "1a", ""], "type": ["bogus", None, "GA"],
              "is_layered": ["yes", None, 1], "internal": ["no", None]}
CI_BP = {"name": [None, 5], "short": [None, 5], "version": ["1.", None, "1a"], "type": ["bogus", None, "GA", "Updates-Testing"]}
CI_VARIANT = {"id": ["bad-id", "", None, 5, "a b"], "uid": ["Misaligned", None, 5], "name": ["", None, 5], "type": ["bogus", None, "Addon", "layered_product"],
              "arches": [[]]}
IMAGE = {
    "path": ["", None, 5], "mtime": ["1", None, 1.5], "size": [0, "1", None], "volume_id": ["", 5], "type": ["bogus", None, 5],
    "format": ["bogus", None], "arch": ["", None, 5], "disc_number": ["1", None], "disc_count": ["1", None],
    "checksums": [{}, None, []], "implant_md5": ["xyz", "A" * 32, 5], "bootable": ["yes", None, 1], "subvariant": [None, 5],
    "unified": ["yes", None], "additional_variants": ["Server", None],
}
TI_RELEASE = {"name": [None, 5], "short": [None, 5], "version": ["1.", "1a", None, 5], "is_layered": ["yes", None]}
TI_BP = {"name": [None, 5], "short": [None, 5], "version": ["1.", "2b", None]}
TI_TREE = {"arch": ["", None, 5], "build_timestamp": [0, None, "1"]}
TI_VARIANT = {"id": ["a-b", None, 5], "type": ["bogus", None, "layered-product", "Variant"]}
TI_MEDIA = {"discnum": ["1", 1.5], "totaldiscs": ["2"]}
DISCINFO = {"timestamp": [0.0, None, 5], "description": ["", None, 5], "arch": ["", None, 5], "disc_numbers": [[], "ALL", None]}

KINDS = ["composeinfo", "images", "rpms", "modules", "extra", "treeinfo", "discinfo"]


def variant_positions(tops):
    out = []

    def walk(t, path):
        out.append(path)
        for k, c in t[3].items():
            walk(c, path + [k])
    for k, t in tops.items():
        walk(t, [k])
    return out


def ti_variant_positions(vs):
    out = []

    def walk(v, path):
        out.append(path)
        for k, c in v["children"].items():
            walk(c, path + [k])
    for k, v in vs.items():
        walk(v, [k])
    return out


def generate(rng, kind, n):
    """n cases: (valid content, one corruption)"""
    R = reflect()
    cases = []
    while len(cases) < n:
        if kind == "composeinfo":
            desc = DC.gen_ci(rng, R)["desc"]
            while len(cases) < 2 and not any(not t[3] for t in desc[3].values()):    # the first two cases are the recorded findings: they need a childless top-level variant
                desc = DC.gen_ci(rng, R)["desc"]
            if rng.random() < 0.5:
                desc[1]["is_layered"] = True
                desc[2] = {"name": "Base", "version": "7", "short": "RHEL", "type": "ga"}
            if not desc[0].get("label"):
                desc[0]["label"], desc[0]["final"] = "RC-1.0", True
            opts = [("compose", [], f, v) for f, vs in COMPOSE.items() for v in vs]
            opts += [("release", [], f, v) for f, vs in CI_RELEASE.items() for v in vs if not (f == "is_layered")]
            if desc[1]["is_layered"]:
                opts += [("base_product", [], f, v) for f, vs in CI_BP.items() for v in vs]
            for pos in variant_positions(desc[3]):
                opts += [("variant", pos, f, v) for f, vs in CI_VARIANT.items() for v in vs]
                if len(pos) > 1:
                    for extra in ("foreign", "src", "nosrc", "noarch"):      # child arch outside its parent's (no name is exempt)
                        opts.append(("variant", pos, "arches+", extra))
                    if len(pos) > 2:
                        # an architecture the grandparent has and the direct parent lacks: inclusion is in the PARENT's set
                        gp = desc[3][pos[0]]
                        for kk in pos[1:-2]:
                            gp = gp[3][kk]
                        par = gp[3][pos[-2]]
                        for extra in [a for a in gp[0]["arches"] if a not in par[0]["arches"]]:
                            opts += [("variant", pos, "arches+", extra)] * 6
                else:
                    opts.append(("variant", pos, "arches", [5]))             # documented: a set of architecture NAMES
                opts.append(("variant", pos, "paths.os_tree", 5))            # documented: arch -> relative path (str)
            where, pos, f, v = rng.choice(opts)
            if len(cases) < 2:                             # corpus first: the two known findings K4 are replayed on every run
                want = ("arches", [5]) if len(cases) == 0 else ("paths.os_tree", 5)
                where, pos, f, v = [o for o in opts if (o[2], o[3]) == want and len(o[1]) == 1 and not desc[3][o[1][0]][3]][0]
            cases.append({"kind": kind, "content": desc, "where": where, "pos": pos, "field": f, "value": v})
        elif kind == "images":
            pool = [OI.gen_image(rng, R, small=False, idx=j) for j in range(3)]
            for j, img in enumerate(pool):
                img["disc_number"] = j + 1
            comp = OI.valid_compose(rng, R)
            if not comp.get("label"):
                comp["label"], comp["final"] = "RC-1.0", True
            ops = [["Server", "x86_64", 0], ["Server", "x86_64", 1], ["Client", "ppc64le", 2]]
            if rng.random() < 0.4:
                # two different images in different cells described by one path string (a source ISO mapped twice):
                # each is an image of its own and is validated on its own
                pool[2]["path"] = pool[0]["path"]
            if rng.random() < 0.5:
                ops = [ops[2], ops[0], ops[1]]
            content = {"version": None, "compose": comp, "pool": pool, "ops": ops}
            opts = [("image", [i], f, v) for i in range(3) for f, vs in IMAGE.items() for v in vs]
            opts += [("image", [i], "additional_variants!", ["Server"]) for i in range(3)]      # on a non-unified image
            opts += [("compose", [], f, v) for f, vs in COMPOSE.items() for v in vs]
            where, pos, f, v = rng.choice(opts)
            cases.append({"kind": kind, "content": content, "where": where, "pos": pos, "field": f, "value": v})
        elif kind in ("rpms", "modules", "extra"):
            comp = OI.valid_compose(rng, R)
            if not comp.get("label"):
                comp["label"], comp["final"] = "RC-1.0", True
            content = {"kind": kind, "compose": comp, "ops": [OM.GEN[kind](rng) for _ in range(4)]}
            f, vs = rng.choice(list(COMPOSE.items()))
            cases.append({"kind": kind, "content": content, "where": "compose", "pos": [], "field": f, "value": rng.choice(vs)})
        elif kind == "treeinfo":
            d = DT.gen_treeinfo(rng, R)
            opts = [("release", [], f, v) for f, vs in TI_RELEASE.items() for v in vs if f != "is_layered" or v is None]
            if d["release"]["is_layered"]:
                opts += [("base_product", [], f, v) for f, vs in TI_BP.items() for v in vs]
            opts += [("tree", [], f, v) for f, vs in TI_TREE.items() for v in vs]
            for pos in ti_variant_positions(d["variants"]):
                opts += [("variant", pos, f, v) for f, vs in TI_VARIANT.items() for v in vs]
                if len(pos) > 1:
                    opts.append(("variant", pos, "uid", "Misaligned-uid"))
            if d["images"]:
                plat = sorted(d["images"])[0]
                opts.append(("images", [plat], "path", "/abs/boot.iso"))
                opts.append(("images", ["unreferenced-platform"], "platform", "images/x"))
                opts.append(("images", ["unreferenced-empty"], "platform", None))          # ... with an empty image table
                opts.append(("images", ["%s-%s" % (plat, d["tree"]["arch"])], "platform", "images/x"))
            opts.append(("stage2", [], "mainimage", "/abs/install.img"))
            opts.append(("stage2", [], "mainimage", 5))
            opts.append(("checksums", [], "path", "/abs/path"))
            if d["media"]["discnum"]:
                opts += [("media", [], f, v) for f, vs in TI_MEDIA.items() for v in vs]
            else:
                # the usual tree has no media information: a single corrupted media field must still be refused
                opts += [("media", [], "discnum", v) for v in ["one", "1", 1.5, [1]]] + [("media", [], "totaldiscs", v) for v in ["two", [2]]]
            where, pos, f, v = rng.choice(opts)
            cases.append({"kind": kind, "content": d, "where": where, "pos": pos, "field": f, "value": v})
        else:
            d = DT.gen_discinfo(rng)
            f, vs = rng.choice(list(DISCINFO.items()))
            cases.append({"kind": kind, "content": d, "where": "discinfo", "pos": [], "field": f, "value": rng.choice(vs)})
    for i, c in enumerate(cases):
        if i % 3 == 1:
            c["dump_first"] = True          # derived from the index, so that the PRNG stream (and the other cases) stay as they were
    return cases


# ---- apply the corruption to the description (for the model)
def corrupt_content(case):
    c = copy.deepcopy(case["content"])
    kind, where, pos, f, v = case["kind"], case["where"], case["pos"], case["field"], case["value"]
    if kind == "composeinfo":
        if where == "compose":
            c[0][f] = v
        elif where == "release":
            c[1][f] = v
        elif where == "base_product":
            c[2][f] = v
        else:
            t = c[3][pos[0]]
            for k in pos[1:]:
                t = t[3][k]
            if f == "arches+":
                t[0]["arches"] = sorted(t[0]["arches"] + [v])
            elif f == "paths.os_tree":
                t[1]["os_tree"] = {t[0]["arches"][0]: v}
            else:
                t[0][f] = v
    elif kind == "images":
        if where == "compose":
            c["compose"][f] = v
        elif f == "additional_variants!":
            c["pool"][pos[0]]["unified"] = False
            c["pool"][pos[0]]["additional_variants"] = v
        else:
            c["pool"][pos[0]][f] = v
    elif kind in ("rpms", "modules", "extra"):
        c["compose"][f] = v
    elif kind == "treeinfo":
        if where in ("release", "tree", "media", "stage2"):
            c[where][f] = v
        elif where == "base_product":
            c["base_product"][f] = v
        elif where == "variant":
            t = c["variants"][pos[0]]
            for k in pos[1:]:
                t = t["children"][k]
            t[f] = v
        elif where == "images":
            if f == "path":
                name = sorted(c["images"][pos[0]])[0]
                c["images"][pos[0]][name] = v
            else:
                c["images"][pos[0]] = {"boot.iso": v} if v is not None else {}
        elif where == "checksums":
            c["checksums"][v] = ["sha256", "ab" * 32]
    else:
        c[f] = v
    return c


def to_model(case):
    c = corrupt_content(case)
    kind = case["kind"]
    if kind == "composeinfo":
        return ["dump_ci", c]
    if kind == "images":
        return ["roundtrip_images", [c["version"], c["compose"], c["pool"], c["ops"]]]
    if kind in ("rpms", "modules", "extra"):
        return ["roundtrip_" + kind, [c["compose"], c["ops"]]]
    if kind == "treeinfo":
        return ["dump_ti", [c, None]]
    return ["dump_di", c]


# ---- apply the same corruption to the built object (for the implementation)
_WARM = []


def _validate_parents_first():
    """what validate() checks must not depend on which classes were validated earlier in the process: once per worker, the
    parent classes are validated before any of their subclasses (the usual flows go the other way round)"""
    if _WARM:
        return
    _WARM.append(1)
    import productmd.composeinfo as CI
    import productmd.treeinfo as TI
    import productmd.common as CO
    for make in (lambda: CO.MetadataBase(), lambda: CI.ComposeInfo().base_product, lambda: TI.TreeInfo().base_product,
                 lambda: CI.VariantBase(CI.ComposeInfo()), lambda: TI.TreeInfo().variants):
        try:
            make().validate()
        except Exception:
            pass


def impl(case):
    _validate_parents_first()
    kind, where, pos, f, v = case["kind"], case["where"], case["pos"], case["field"], case["value"]
    content = case["content"]
    v = copy.deepcopy(v)

    def first(o):
        """dump_first: the still-valid object is written once before the field is corrupted (what validate() checks must not
        be remembered from an earlier successful write)"""
        if case.get("dump_first"):
            try:
                if kind == "treeinfo":
                    o.dump(io.StringIO())
                else:
                    o.dumps()
            except EXC:
                pass
        return o
    try:
        if kind == "composeinfo":
            o = first(DC.build(content))
            if where == "compose":
                setattr(o.compose, f, v)
            elif where == "release":
                setattr(o.release, f, v)
            elif where == "base_product":
                setattr(o.base_product, f, v)
            else:
                t = o.variants.variants[pos[0]]
                for k in pos[1:]:
                    t = t.variants[k]
                if f == "arches+":
                    t.arches = set(t.arches) | {v}
                elif f == "arches":
                    t.arches = set(v)
                elif f == "paths.os_tree":
                    t.paths.os_tree = {sorted(t.arches)[0]: v}
                else:
                    setattr(t, f, v)
        elif kind == "images":
            o, pool, ids = OI.build(content)
            for va, a, i in content["ops"]:
                o.add(va, a, pool[i])
            first(o)
            if where == "compose":
                setattr(o.compose, f, v)
            elif f == "additional_variants!":
                pool[pos[0]].unified = False
                pool[pos[0]].additional_variants = v
            else:
                setattr(pool[pos[0]], f, v)
        elif kind in ("rpms", "modules", "extra"):
            o = DM._new(kind)
            for k2, v2 in content["compose"].items():
                setattr(o.compose, k2, v2)
            for op in content["ops"]:
                try:
                    o.add(*op)
                except EXC:
                    pass
            first(o)
            setattr(o.compose, f, v)
        elif kind == "treeinfo":
            o = first(DT.build_treeinfo(content))
            if where in ("release", "tree", "media", "stage2", "base_product"):
                setattr(getattr(o, where), f, v)
            elif where == "variant":
                t = o.variants.variants[pos[0]]
                for k in pos[1:]:
                    t = t.variants[k]
                setattr(t, f, v)
            elif where == "images":
                if f == "path":
                    name = sorted(o.images.images[pos[0]])[0]
                    o.images.images[pos[0]][name] = v
                else:
                    o.images.images[pos[0]] = {"boot.iso": v} if v is not None else {}
            elif where == "checksums":
                o.checksums.checksums[v] = ("sha256", "ab" * 32)
        else:
            o = first(DT.build_discinfo(content))
            setattr(o, f, v)
    except EXC as e:
        return ["build-error", type(e).__name__, str(e)[:120]]
    try:
        if kind == "treeinfo":
            out = io.StringIO()
            o.dump(out)
            text = out.getvalue()
        else:
            text = o.dumps()
    except EXC as e:
        return exc_result(e)
    except Exception as e:
        return ["err", "Other:" + type(e).__name__]
    return ["ok", len(text)]
