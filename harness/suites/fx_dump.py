"""C18: a dump that fails validation must leave the destination untouched (fault enumeration on real files)"""
import os
import shutil
import tempfile
from suites.common import VERIF, reflect
from suites import docs_composeinfo as DC, ops_images as OI, docs_manifests as DM, ops_manifests as OM, docs_treeinfo as DT

EXC = (ValueError, TypeError, AttributeError, KeyError, IndexError)
KINDS = ["composeinfo", "images", "rpms", "modules", "extra", "treeinfo", "discinfo"]

# classes whose validators can fire during a dump of each format
CLASSES = {
    "composeinfo": ["common.Header", "composeinfo.Compose", "composeinfo.Release", "composeinfo.BaseProduct",
                    "composeinfo.Variants", "composeinfo.Variant"],
    "images": ["common.Header", "composeinfo.Compose", "images.Image"],
    "rpms": ["common.Header", "composeinfo.Compose"],
    "modules": ["common.Header", "composeinfo.Compose"],
    "extra": ["common.Header", "composeinfo.Compose"],
    "treeinfo": ["treeinfo.Header", "treeinfo.Release", "treeinfo.BaseProduct", "treeinfo.Tree", "treeinfo.Variants",
                 "treeinfo.Variant", "treeinfo.Images", "treeinfo.Stage2", "treeinfo.Checksums", "treeinfo.Media"],
    "discinfo": ["discinfo.DiscInfo"],
}


def injection_points(kind):
    inv = __import__("json").load(open(os.path.join(VERIF, "coq", "Gen", "report.json")))["validators"]
    pts = []
    for cls in CLASSES[kind]:
        for m in inv.get(cls, []):
            pts.append([cls, m[0]])
    return pts


def gen_content(rng, kind, R):
    if kind == "composeinfo":
        d = DC.gen_ci(rng, R)["desc"]
        while not d[3]:                                 # the variant validators must be reachable
            d = DC.gen_ci(rng, R)["desc"]
        d[1]["is_layered"] = True                       # so that the base product is reached
        d[2] = {"name": "Base", "version": "7", "short": "RHEL", "type": "ga"}
        return d
    if kind == "images":
        pool = [OI.gen_image(rng, R, small=False, idx=j) for j in range(3)]
        for j, img in enumerate(pool):
            img["disc_number"] = j + 1
        return {"version": None, "compose": OI.valid_compose(rng, R), "pool": pool,
                "ops": [["Server", "x86_64", 0], ["Server", "x86_64", 1], ["Client", "ppc64le", 2]]}
    if kind in ("rpms", "modules", "extra"):
        return {"kind": kind, "compose": OI.valid_compose(rng, R), "ops": [OM.GEN[kind](rng) for _ in range(5)]}
    if kind == "treeinfo":
        d = DT.gen_treeinfo(rng, R)
        d["release"]["is_layered"] = True
        d["base_product"] = {"name": "Base", "short": "B", "version": "7"}
        d["stage2"]["mainimage"] = "images/install.img"
        d["media"] = {"discnum": 1, "totaldiscs": 2}
        d["checksums"]["images/boot.iso"] = ["sha256", "ab" * 32]
        d["tree"]["platforms"] = sorted(set(d["tree"]["platforms"]) | {d["tree"]["arch"]})
        d["images"] = {d["tree"]["arch"]: {"boot.iso": "images/boot.iso"}}
        return d
    return DT.gen_discinfo(rng)


def build(kind, content):
    if kind == "composeinfo":
        return DC.build(content)
    if kind == "images":
        im, pool, ids = OI.build(content)
        for v, a, i in content["ops"]:
            im.add(v, a, pool[i])
        return im
    if kind in ("rpms", "modules", "extra"):
        o = DM._new(kind)
        for k, v in content["compose"].items():
            setattr(o.compose, k, v)
        for op in content["ops"]:
            try:
                o.add(*op)
            except EXC:
                pass
        return o
    if kind == "treeinfo":
        return DT.build_treeinfo(content)
    return DT.build_discinfo(content)


def really_invalid(kind, obj):
    """make a nested part invalid with a real value (not an injected failure)"""
    if kind == "composeinfo":
        obj.compose.label = "GA"
    elif kind == "images":
        for v in obj.images.values():
            for cell in v.values():
                for img in cell:
                    img.size = 0
                    return
    elif kind in ("rpms", "modules", "extra"):
        obj.compose.date = "2024"
    elif kind == "treeinfo":
        obj.tree.arch = ""
    else:
        obj.arch = ""


def unencodable(kind, obj):
    """a nested value of the wrong type that no validator looks at: the failure comes from the encoder"""
    def first(d):
        return d[sorted(d)[0]]
    if kind == "composeinfo":
        v = first(obj.variants.variants)
        v.paths.os_tree = {sorted(v.arches)[0]: b"Server/os"}
    elif kind == "images":
        first(first(obj.images)).copy().pop().checksums["sha256"] = b"ab"
    elif kind == "rpms":
        first(first(first(first(obj.rpms))))["sigkey"] = b"FD431D51"
    elif kind == "modules":
        first(first(first(obj.modules)))["rpms"].append(b"bash-0:5.1-2.el9.x86_64")
    elif kind == "extra":
        first(first(obj.extra_files))[0]["checksums"]["sha256"] = b"ab"
    elif kind == "treeinfo":
        obj.stage2.mainimage = b"images/install.img"
    else:
        obj.timestamp = b"1.5"


def writer_accepts_reader_refuses(kind, obj):
    """an object the writer is happy with but the library's own reader would refuse (if a dump decides to fail on it, it
    must do so before touching the destination); returns False when the format has no such object"""
    if kind == "images":
        import productmd.images as IM
        cell = None
        for v in sorted(obj.images):
            for a in sorted(obj.images[v]):
                cell = obj.images[v][a]
                break
            break
        if not cell:
            return False
        old = sorted(cell, key=lambda o: o.path)[0]
        twin = IM.Image(obj)
        for f in ("path", "mtime", "size", "volume_id", "type", "format", "arch", "disc_number", "disc_count", "checksums",
                  "implant_md5", "bootable", "subvariant", "unified", "additional_variants"):
            setattr(twin, f, getattr(old, f))
        twin.path, twin.checksums = old.path + ".twin", {"sha256": "0" * 64}
        cell.add(twin)                                   # bypasses add(): one identity, two checksums
        return True
    if kind == "discinfo":
        obj.disc_numbers = [1, "2a"]
        return True
    return False


def late_failure(kind, obj):
    """treeinfo: make the [general] compatibility writer (which has no validators) fail"""
    if kind != "treeinfo":
        return False
    obj.variants.variants.clear()
    return True


def generate(rng):
    R = reflect()
    cases = []
    for kind in KINDS:
        content = gen_content(rng, kind, R)
        cases.append({"kind": kind, "content": content, "pre": "hardlink", "inject": None})
        cases.append({"kind": kind, "content": content, "pre": "symlink", "inject": None})
        cases.append({"kind": kind, "content": content, "pre": True, "inject": None, "dest": "pathlib"})     # the destination as a pathlib.Path
        cases.append({"kind": kind, "content": content, "pre": False, "inject": None, "dest": "pathlib"})
        for pre in (True, False):
            cases.append({"kind": kind, "content": content, "pre": pre, "inject": None})
            cases.append({"kind": kind, "content": content, "pre": pre, "inject": "unencodable"})
            if kind in ("images", "discinfo"):
                cases.append({"kind": kind, "content": content, "pre": pre, "inject": "reader-refuses"})
            if kind == "treeinfo":
                cases.append({"kind": kind, "content": content, "pre": pre, "inject": "late-failure"})
            for pt in injection_points(kind):
                cases.append({"kind": kind, "content": content, "pre": pre, "inject": pt})
            if kind in ("composeinfo", "images", "rpms", "modules", "extra") and pre:
                # the object was LOADED from an older-format file at this very path, then made invalid, then saved back
                cases.append({"kind": kind, "content": content, "pre": "older-at-same-path", "inject": None})
                cases.append({"kind": kind, "content": content, "pre": "older-at-same-path", "inject": "unencodable"})
            if kind == "treeinfo":
                # the same faults while an explicit main variant is requested (TreeInfo.dump has its own signature)
                cases.append({"kind": kind, "content": content, "pre": pre, "inject": None, "main_variant": True})
                for pt in injection_points(kind):
                    cases.append({"kind": kind, "content": content, "pre": pre, "inject": pt, "main_variant": True})
    # at scale: a manifest of a few thousand entries (the failure is found by a nested writer, late)
    big = {"kind": "rpms", "compose": OI.valid_compose(rng, R),
           "ops": [["Server", "x86_64", "pkg%d-0:1.%d-1.x86_64" % (i, i), "Packages/p/pkg%d.rpm" % i, None, "binary", "src%d-0:1-1.src" % (i % 50)]
                   for i in range(1600)]}
    for pre in (True, False):
        cases.append({"kind": "rpms", "content": big, "pre": pre, "inject": None})
        cases.append({"kind": "rpms", "content": big, "pre": pre, "inject": "unencodable"})
        cases.append({"kind": "rpms", "content": big, "pre": pre, "inject": ["composeinfo.Compose", "_validate_label"]})
    return cases


def impl(case):
    import importlib
    kind = case["kind"]
    work = tempfile.mkdtemp(prefix="fx-", dir=os.path.join(VERIF, ".work"))
    try:
        path = os.path.join(work, "metadata.out")
        before = None
        if case["pre"]:
            build(kind, case["content"]).dump(path)
            before = open(path, "rb").read()
            if case["pre"] == "hardlink":
                os.link(path, path + ".second-name")      # the last good copy is also known under another name
            if case["pre"] == "older-at-same-path":
                import json as _json
                d = _json.load(open(path))
                d["header"] = {"version": "1.0"}
                with open(path, "w") as f:
                    _json.dump(d, f, indent=4, sort_keys=True)
                before = open(path, "rb").read()
            if case["pre"] == "symlink":
                os.rename(path, path + ".real")           # the destination path is a symbolic link to the last good copy
                os.symlink(path + ".real", path)
        obj = build(kind, case["content"])
        if case["pre"] == "older-at-same-path":
            obj = type(obj)()
            obj.load(path)
        restore = None
        if case["inject"] is None:
            really_invalid(kind, obj)
        elif case["inject"] == "unencodable":
            unencodable(kind, obj)
        elif case["inject"] == "reader-refuses":
            writer_accepts_reader_refuses(kind, obj)
        elif case["inject"] == "late-failure":
            late_failure(kind, obj)
        else:
            clsname, meth = case["inject"]
            mod, cls = clsname.split(".")
            klass = getattr(importlib.import_module("productmd." + mod), cls)
            orig = klass.__dict__.get(meth)

            def raiser(self, *a, **k):
                raise ValueError("injected failure in %s.%s" % (clsname, meth))

            setattr(klass, meth, raiser)
            restore = (klass, meth, orig)
        try:
            try:
                if case.get("main_variant"):
                    obj.dump(path, main_variant=sorted(obj.variants.variants)[-1])
                elif case.get("dest") == "pathlib":
                    import pathlib
                    obj.dump(pathlib.Path(path))
                else:
                    obj.dump(path)
                outcome = "no-error"
            except EXC as e:
                outcome = type(e).__name__
        finally:
            if restore:
                klass, meth, orig = restore
                if orig is None:
                    delattr(klass, meth)
                else:
                    setattr(klass, meth, orig)
        exists = os.path.exists(path)
        after = open(path, "rb").read() if exists else None
        return [outcome, before is not None, exists, after == before, len(after) if after is not None else None]
    finally:
        shutil.rmtree(work, ignore_errors=True)
