"""older-format documents (images 1.0/1.1, rpms 0.1-0.3) down-converted from valid content"""
import copy
from suites.common import reflect
from suites.ops_images import gen_image, valid_compose, VARIANTS, ARCHES

IMG_BASE = ["path", "mtime", "size", "volume_id", "type", "format", "arch", "disc_number", "disc_count", "checksums",
            "implant_md5", "bootable"]


def legacy_compose(c, version):
    c = dict(c)
    if not c.get("label"):
        c.pop("label", None)
        c.pop("final", None)
    return c


def gen_images_doc(rng, R, version=None):
    version = version or rng.choice(["1.0", "1.1", "1.1", "1.2"])
    images = {}
    n = 0
    for v in rng.sample(VARIANTS, rng.randint(1, 3)):
        arches = rng.sample(ARCHES, rng.randint(0, 3))
        if rng.random() < 0.6:
            arches.append("src")
        if not arches:
            arches = ["x86_64"]
        rng.shuffle(arches)
        for a in arches:
            cell = []
            # a binary architecture may be listed with no image of its own: source images are still filed under it
            for _ in range(0 if (a != "src" and rng.random() < 0.2) else rng.randint(1, 3)):
                img = gen_image(rng, R, small=False, idx=n)
                n += 1
                img["arch"] = a if a != "src" or rng.random() < 0.8 else "x86_64"
                img["disc_number"] = n          # keeps identities distinct so that the 1.1 uniqueness rule does not interfere
                d = {k: img[k] for k in IMG_BASE}
                if version != "1.0":
                    d["subvariant"] = img["subvariant"]
                if img["unified"] and version == "1.2":
                    d["unified"] = True
                    d["additional_variants"] = img["additional_variants"]
                cell.append(d)
            images.setdefault(v, {})[a] = cell
    header = {"version": version}
    if version != "1.0":
        header["type"] = "productmd.images"
    return {"header": header, "payload": {"compose": legacy_compose(valid_compose(rng, R), version), "images": images}}


NEVRAS = ["bash-0:5.1-2.el9", "glibc-0:2.18-11.fc20", "gtk+3-2-1:3.24-1.el9", "python3-3-7:3.9-1"]


def gen_rpms_doc(rng, R, version=None):
    version = version or rng.choice(["0.3", "0.3", "0.2", "0.1"])
    manifest = {}
    for v in rng.sample(VARIANTS, rng.randint(1, 3)):
        arches = rng.sample(ARCHES, rng.randint(1, 3))
        src = {}
        for a in arches:
            tab = {}
            for base in rng.sample(NEVRAS, rng.randint(1, 3)):
                srpm = base + rng.choice([".src", ".src", ".nosrc"]) + rng.choice(["", ".rpm"])
                rp = {}
                for sub, ty in rng.sample([("", "package"), ("-debuginfo", "debug"), ("-libs", "package"), ("-doc", "binary")], rng.randint(1, 3)):
                    name, evr = base.rsplit("-", 2)[0], "-".join(base.rsplit("-", 2)[1:])
                    nevra = "%s%s-%s.%s.rpm" % (name, sub, evr, a)
                    rp[nevra] = {"path": "%s/%s/os/Packages/%s" % (v, a, nevra.replace("0:", "")), "sigkey": rng.choice([None, "FD431D51", "abcd"]), "type": ty}
                tab[srpm] = rp
                if rng.random() < 0.8:
                    src[srpm] = {"path": "%s/source/SRPMS/%s" % (v, srpm), "sigkey": rng.choice([None, "FD431D51"])}
            manifest.setdefault(v, {})[a] = tab
        if src and rng.random() < 0.85:
            manifest[v]["src"] = src
    comp = valid_compose(rng, R)
    comp = legacy_compose(comp, version)
    return {"header": {"version": version}, "payload": {"compose": comp, "manifest": manifest}}


def impl_load_legacy_images(case):
    from suites.ops_images import impl_load
    return impl_load(case)


def impl_load_rpms(case):
    from suites.docs_manifests import impl_load
    return impl_load(case)


# ---------------- composeinfo down-conversion (from a current-version document written by the library)
def down_composeinfo(doc, version):
    d = copy.deepcopy(doc)
    vt = tuple(int(x) for x in version.split("."))
    d["header"]["version"] = version
    if vt < (1, 1):
        d["header"].pop("type", None)
    p = d["payload"]
    if vt < (1, 0):
        for uid, v in p["variants"].items():
            v.pop("variants", None)                  # parent/child related only by UID prefix
    if vt <= (0, 3):
        rel = p.pop("release")
        rel.pop("internal", None)
        p["product"] = rel
        for uid, v in p["variants"].items():
            if "release" in v:
                r = v.pop("release")
                r.pop("internal", None)
                v["product"] = r
    if vt < (0, 3):
        p["compose"].pop("date", None)               # date / type / respin derivable only from the id
        p["compose"].pop("respin", None)
    return d


def forget_composeinfo(desc, version):
    """what the documented mapping keeps of a description when it goes through format `version`"""
    vt = tuple(int(x) for x in version.split("."))
    comp, rel, bp, tops = copy.deepcopy(desc)
    if vt < (0, 3):
        # before 0.3 date, type and respin exist only inside the id (documented suffixes; a missing respin is 0)
        import re
        m = re.search(r"(\d{8})(?:\.(n|nightly|t|test|ci|d))?(?:\.(\d+))?$", comp["id"])
        if m:
            comp["date"] = m.group(1)
            comp["type"] = {None: "production", "n": "nightly", "nightly": "nightly", "t": "test", "test": "test", "ci": "ci",
                            "d": "development"}[m.group(2)]
            comp["respin"] = int(m.group(3) or 0)
    if vt <= (0, 3):
        rel["internal"] = False

        def tree(t):
            if t[0]["type"] == "layered-product":
                t[2]["internal"] = False
            for c in t[3].values():
                tree(c)
        for t in tops.values():
            tree(t)
    return [comp, rel, bp, tops]


# ---------------- treeinfo down-conversion (text level)
def down_treeinfo_table(table, version):
    t = copy.deepcopy(table)
    t["header"]["version"] = version
    vt = tuple(int(x) for x in version.split("."))
    if vt < (1, 1):
        t["header"].pop("type", None)
    if vt <= (0, 3):
        t["product"] = t.pop("release")              # legacy section name
        if t["tree"]["arch"] == "src":
            # a 0.3 source tree names its (source) packages and repository plainly
            for sec, opts in t.items():
                if sec.startswith("variant-") or sec.startswith("addon-"):
                    if "packages" in opts or "repository" in opts:
                        return None                   # binary paths in a source tree: not expressible in 0.3
                    for k in ("packages", "repository"):
                        if "source_" + k in opts:
                            opts[k] = opts.pop("source_" + k)
    return t


def fixtures():
    import glob
    import os
    root = "/repo/tests"
    out = []
    for p in sorted(glob.glob(os.path.join(root, "treeinfo", "*"))):
        out.append({"fmt": "treeinfo", "path": p})
    for p in sorted(glob.glob(os.path.join(root, "discinfo", "*"))):
        out.append({"fmt": "discinfo", "path": p})
    for p in sorted(glob.glob(os.path.join(root, "images", "*.json"))):
        out.append({"fmt": "images", "path": p})
    for p in sorted(glob.glob(os.path.join(root, "compose*", "**", "composeinfo.json"), recursive=True)):
        out.append({"fmt": "composeinfo", "path": p})
    for p in sorted(glob.glob(os.path.join(root, "compose*", "**", "*.json"), recursive=True)):
        b = os.path.basename(p)
        if b in ("rpms.json", "rpm-manifest.json"):
            out.append({"fmt": "rpms", "path": p})
        if b in ("images.json", "image-manifest.json"):
            out.append({"fmt": "images", "path": p})
        if b == "modules.json":
            out.append({"fmt": "modules", "path": p})
    return out


def _cls(fmt):
    import productmd.treeinfo, productmd.discinfo, productmd.images, productmd.composeinfo, productmd.rpms, productmd.modules, productmd.extra_files
    return {"treeinfo": productmd.treeinfo.TreeInfo, "discinfo": productmd.discinfo.DiscInfo, "images": productmd.images.Images,
            "composeinfo": productmd.composeinfo.ComposeInfo, "rpms": productmd.rpms.Rpms, "modules": productmd.modules.Modules,
            "extra": productmd.extra_files.ExtraFiles}[fmt]


def impl_upgrade(case):
    """load an older-format document (from a path or from text), write it, re-load the written file, write again"""
    import json
    cls = _cls(case["fmt"])
    o = cls()
    try:
        if "path" in case:
            o.load(case["path"])
        else:
            o.loads(case["text"])
    except Exception as e:
        return ["load-err", type(e).__name__]
    try:
        t1 = o.dumps()
    except Exception as e:
        return ["dump-err", type(e).__name__]
    o2 = cls()
    try:
        o2.loads(t1)
        t2 = o2.dumps()
    except Exception as e:
        return ["reload-err", type(e).__name__, t1[:200]]
    header = None
    if case["fmt"] == "treeinfo":
        import re as _re
        m = _re.search(r"\[header\]\n((?:.+\n)+)", t1)
        header = dict(l.split(" = ", 1) for l in m.group(1).strip().split("\n")) if m else None
    elif case["fmt"] != "discinfo":
        header = json.loads(t1)["header"]
    desc = None
    if case["fmt"] == "composeinfo":
        from suites.docs_composeinfo import describe
        desc = describe(o)
    if case["fmt"] == "treeinfo":
        from suites.docs_treeinfo import describe_ti
        desc = describe_ti(o)
    return ["ok", t1 == t2, header, desc, t1]
