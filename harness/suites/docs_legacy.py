"""older-format documents (images 1.0/1.1, rpms 0.1-0.3) down-converted from valid content"""
import copy
from suites.common import reflect
from suites.ops_images import gen_image, valid_compose, VARIANTS, ARCHES

IMG_BASE = ["path", "mtime", "size", "volume_id", "type", "format", "arch", "disc_number", "disc_count", "checksums",
            "implant_md5", "bootable"]


def legacy_compose(c, version):
    c = dict(c)
    if not c.get("label"):
        c.pop("label", None)
        c.pop("final", None)
    return c


def gen_images_doc(rng, R, version=None):
    version = version or rng.choice(["1.0", "1.1", "1.1", "1.2"])
    images = {}
    n = 0
    for v in rng.sample(VARIANTS, rng.randint(1, 3)):
        arches = rng.sample(ARCHES, rng.randint(0, 3))
        if rng.random() < 0.6:
            arches.append("src")
        if not arches:
            arches = ["x86_64"]
        rng.shuffle(arches)
        for a in arches:
            cell = []
            for _ in range(rng.randint(1, 3)):
                img = gen_image(rng, R, small=False, idx=n)
                n += 1
                img["arch"] = a if a != "src" or rng.random() < 0.8 else "x86_64"
                img["disc_number"] = n          # keeps identities distinct so that the 1.1 uniqueness rule does not interfere
                d = {k: img[k] for k in IMG_BASE}
                if version != "1.0":
                    d["subvariant"] = img["subvariant"]
                if img["unified"] and version == "1.2":
                    d["unified"] = True
                    d["additional_variants"] = img["additional_variants"]
                cell.append(d)
            images.setdefault(v, {})[a] = cell
    header = {"version": version}
    if version != "1.0":
        header["type"] = "productmd.images"
    return {"header": header, "payload": {"compose": legacy_compose(valid_compose(rng, R), version), "images": images}}


NEVRAS = ["bash-0:5.1-2.el9", "glibc-0:2.18-11.fc20", "gtk+3-2-1:3.24-1.el9", "python3-3-7:3.9-1"]


def gen_rpms_doc(rng, R, version=None):
    version = version or rng.choice(["0.3", "0.3", "0.2", "0.1"])
    manifest = {}
    for v in rng.sample(VARIANTS, rng.randint(1, 3)):
        arches = rng.sample(ARCHES, rng.randint(1, 3))
        src = {}
        for a in arches:
            tab = {}
            for base in rng.sample(NEVRAS, rng.randint(1, 3)):
                srpm = base + ".src" + rng.choice(["", ".rpm"])
                rp = {}
                for sub, ty in rng.sample([("", "package"), ("-debuginfo", "debug"), ("-libs", "package"), ("-doc", "binary")], rng.randint(1, 3)):
                    name, evr = base.rsplit("-", 2)[0], "-".join(base.rsplit("-", 2)[1:])
                    nevra = "%s%s-%s.%s.rpm" % (name, sub, evr, a)
                    rp[nevra] = {"path": "%s/%s/os/Packages/%s" % (v, a, nevra.replace("0:", "")), "sigkey": rng.choice([None, "FD431D51", "abcd"]), "type": ty}
                tab[srpm] = rp
                if rng.random() < 0.8:
                    src[srpm] = {"path": "%s/source/SRPMS/%s" % (v, srpm), "sigkey": rng.choice([None, "FD431D51"])}
            manifest.setdefault(v, {})[a] = tab
        if src and rng.random() < 0.85:
            manifest[v]["src"] = src
    comp = valid_compose(rng, R)
    comp = legacy_compose(comp, version)
    return {"header": {"version": version}, "payload": {"compose": comp, "manifest": manifest}}


def impl_load_legacy_images(case):
    from suites.ops_images import impl_load
    return impl_load(case)


def impl_load_rpms(case):
    from suites.docs_manifests import impl_load
    return impl_load(case)
