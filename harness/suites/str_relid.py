"""release ids and the three validity predicates vs Model/ReleaseId.v"""
import itertools
import re
from suites.common import reflect, exc_result, rstr, LOWER, DIGITS

SHORTS = ["f", "rhel", "fedora", "my-product", "a-b-c", "a1-2b", "x-updates", "rhel-ha", "a-b", "z9", "spacewalk-x", "sles-sp", "rhel-beta"]
VERSIONS_NUM = ["1", "23", "1.0", "7.9", "10.2.3", "0", "20240101", "2"]
VERSIONS_FREE = ["rawhide", "Rawhide", "xga", "eus", "beta", "X1", "testing", "v.1", "Xga", "updates", "b", "ga", "EUS", "GA", "Fast", "Updates", "E4S",
                 "fast", "Beta_2", "r.a.w", "x1y", "Aeus", "rc ", "rc\t", " beta", "b 2", "x\u00a0"]
BAD_SHORTS = ["", "F", "1a", "a--b", "-a", "a-", "a_b", "a@b", "a.b"]
BAD_VERSIONS = ["", "1.", "1..2", ".1", "1a", "1-2", "01x"]
BAD_TYPES = ["", "GA", "1ga", "u--t", "-ga", "ga-", "g_a"]

# an independent statement of the documented languages
DOC_SHORT = re.compile(r"[a-z][a-z0-9]*(-[a-z0-9]+)*\Z")
DOC_VERSION_NUM = re.compile(r"[0-9]+(\.[0-9]+)*\Z")


def doc_short(s):
    return DOC_SHORT.match(s) is not None


def doc_version(s):
    if s == "" or "\n" in s:
        return False
    if s[0] in "0123456789":
        return DOC_VERSION_NUM.match(s) is not None
    return True


def in_k2(short, version, rtype):
    """inherent ambiguity class: dashed short, implicit ga, version that reads as a type name"""
    return "-" in short and rtype == "ga" and doc_short(version)


def gen_part(rng, types):
    k = rng.random()
    if k < 0.12:
        short = rng.choice(BAD_SHORTS)
    elif k < 0.25:
        short = rstr(rng, LOWER[:3], 1, 2) + "".join("-" + rstr(rng, "ab1", 1, 2) for _ in range(rng.randint(0, 2)))
    else:
        short = rng.choice(SHORTS)
    k = rng.random()
    if k < 0.1:
        version = rng.choice(BAD_VERSIONS)
    elif k < 0.55:
        version = rng.choice(VERSIONS_NUM)
    else:
        version = rng.choice(VERSIONS_FREE)
    k = rng.random()
    if k < 0.1:
        rtype = rng.choice(BAD_TYPES + ["foo", "beta", "sp-1", "beta-2"])        # the last two: well-formed types outside the table
    else:
        rtype = rng.choice(types)
    return [short, version, rtype]


def generate(rng, n):
    types = reflect()["RELEASE_TYPES"]
    cases = []
    for _ in range(n):
        p = gen_part(rng, types)
        bp = gen_part(rng, types) if rng.random() < 0.4 else None
        cases.append({"args": p + [bp]})
    return cases


def generate_ids(rng, n):
    """strings for parse_release_id: dash/at-structured junk"""
    out = []
    for _ in range(n):
        parts = [rstr(rng, "ab1.", 0, 3) if rng.random() < 0.7 else rng.choice(["ga", "updates", "testing", "eus", "fast"])
                 for _ in range(rng.randint(1, 5))]
        s = "-".join(parts)
        if rng.random() < 0.3:
            s += "@" + "-".join(rstr(rng, "ab1", 0, 2) for _ in range(rng.randint(1, 3)))
        if rng.random() < 0.05:
            s += "@x-1"
        out.append({"s": s})
    return out


EXC = (ValueError, TypeError, AttributeError, KeyError, IndexError)


def _parse(s):
    import productmd.common as C
    try:
        first = C.parse_release_id(s)
        d = dict(first)
        first.clear()                                  # the caller owns what it was given
        if C.parse_release_id(s) != d:
            return ["err", "HistoryDependent"]
    except EXC as e:
        return exc_result(e)
    r = [d["short"], d["version"], d["type"]]
    b = [d["bp_short"], d["bp_version"], d["bp_type"]] if "bp_short" in d else None
    return ["ok", [r, b]]


def impl_create(case):
    import productmd.common as C
    s, v, t, bp = case["args"]
    try:
        if bp is None:
            rid = C.create_release_id(s, v, t)
        else:
            rid = C.create_release_id(s, v, t, bp[0], bp[1], bp[2])
    except EXC as e:
        return exc_result(e)
    return ["ok", rid]


def impl_roundtrip(case):
    r = impl_create(case)
    if r[0] != "ok":
        return r
    return ["ok", [r[1], _parse(r[1])]]


def impl_parse(case):
    return _parse(case["s"])


ALPHABET = "aA1-.@_"


def enumerate_strings(maxlen):
    for n in range(maxlen + 1):
        for t in itertools.product(ALPHABET, repeat=n):
            yield "".join(t)


def impl_valid3(case):
    import productmd.common as C
    s = case["s"]
    return [C.is_valid_release_short(s), C.is_valid_release_version(s), C.is_valid_release_type(s)]
