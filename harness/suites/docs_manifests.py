"""rpms / modules / extra-files documents: dump, load, dump again vs Model/ManifestDocs.v"""
import copy
import json
from suites.common import api_consistency, exc_result, reflect
from suites import ops_manifests as OM
from suites.ops_images import valid_compose

EXC = (ValueError, TypeError, AttributeError, KeyError, IndexError)
ATTR = {"rpms": "rpms", "modules": "modules", "extra": "extra_files"}
COMPOSE_FIELDS = ["id", "type", "date", "respin", "label", "final"]


def generate(rng, kind, n):
    R = reflect()
    cases = []
    for _ in range(n):
        ops = [OM.GEN[kind](rng) for _ in range(rng.randint(0, 10))]
        c = {"kind": kind, "compose": valid_compose(rng, R), "ops": ops}
        if len(ops) >= 2 and rng.random() < 0.35:
            # o.loads(o.dumps()) on the object itself between two adds (a no-op on the content, by C03), followed by an add to
            # the cell addressed just before
            k = rng.randrange(1, len(ops))
            c["reload_before"] = k
            if rng.random() < 0.7:
                ops[k] = list(ops[k]); ops[k][0], ops[k][1] = ops[k - 1][0], ops[k - 1][1]
        if len(ops) >= 2 and not c.get("reload_before") and rng.random() < 0.3:
            # del o[variant] between two adds; the add that follows addresses the cell that was addressed just before
            k = rng.randrange(1, len(ops))
            c["del_before"] = [k, ops[k - 1][0]]
            if rng.random() < 0.7:
                ops[k] = list(ops[k]); ops[k][0], ops[k][1] = ops[k - 1][0], ops[k - 1][1]
        if kind == "modules" and rng.random() < 0.5:
            # one list object handed to several add calls (shared by reference in the implementation run only)
            c["shared"] = [["a-0:1-1.x86_64", "b-0:1-1.noarch"], ["c-0:2-1.x86_64"]]
            for op in ops:
                if isinstance(op[6], list) and rng.random() < 0.7:
                    op[6] = {"ref": rng.randrange(2)}
        cases.append(c)
    return cases


def _new(kind):
    import productmd.rpms, productmd.modules, productmd.extra_files
    return {"rpms": productmd.rpms.Rpms, "modules": productmd.modules.Modules, "extra": productmd.extra_files.ExtraFiles}[kind]()


def _compose(o):
    return {k: getattr(o.compose, k) for k in COMPOSE_FIELDS}


def impl_roundtrip(case):
    kind = case["kind"]
    o = _new(kind)
    for k, v in case["compose"].items():
        setattr(o.compose, k, v)
    for i, op in enumerate(OM.resolve_ops(case, True)):
        if case.get("del_before") and case["del_before"][0] == i:
            try:
                del o[case["del_before"][1]]
            except (KeyError, TypeError):
                pass
        if case.get("reload_before") == i:
            try:
                o.loads(o.dumps())
            except EXC as e:
                return ["reload-failed", exc_result(e)]
        try:
            o.add(*op)
        except EXC:
            pass
    built = copy.deepcopy(getattr(o, ATTR[kind]))
    from suites.common import snap
    before = snap(o)
    try:
        text = o.dumps()
    except EXC as e:
        return exc_result(e)
    api = api_consistency(o, lambda: _new(kind), text, before=before)
    if api:
        return ["api-inconsistent", api]
    o2 = _new(kind)
    try:
        o2.loads(text)
    except EXC as e:
        return ["ok", [text, exc_result(e)], built]
    try:
        again = ["ok", o2.dumps()]
    except EXC as e:
        again = exc_result(e)
    return ["ok", [text, ["ok", [_compose(o2), getattr(o2, ATTR[kind]), again]]], built]


def impl_load(case):
    o = _new(case["kind"])
    if case.get("preload"):
        try:
            o.loads(json.dumps(case["preload"]))          # the same object is used for a second load
        except Exception:
            pass
    if case.get("pre") == "failed":
        try:        # a current-version document that is refused after its header was read
            o.loads(json.dumps({"header": {"version": "1.2", "type": "productmd." + case["kind"]}, "payload": {}}))
        except Exception:
            pass
    try:
        o.loads(json.dumps(case["doc"]))
    except EXC as e:
        return exc_result(e)
    try:
        again = ["ok", o.dumps()]
    except EXC as e:
        again = exc_result(e)
    return ["ok", [_compose(o), getattr(o, ATTR[case["kind"]]), again]]


def equivalent_ops(case):
    """the add history with the same final content: everything filed under the deleted variant before the deletion is gone"""
    ops = OM.resolve_ops(case, False)
    if case.get("del_before"):
        k, v = case["del_before"]
        ops = [op for op in ops[:k] if op[0] != v] + ops[k:]
    return ops
