"""treeinfo / discinfo objects and documents"""
import copy
import io
from suites.common import api_consistency, exc_result, reflect, rstr, LOWER, DIGITS

EXC = (ValueError, TypeError, AttributeError, KeyError, IndexError)
ARCHES = ["x86_64", "ppc64le", "aarch64", "s390x", "src", "armhfp"]
PATH_FIELDS = ["packages", "repository", "source_packages", "source_repository", "debug_packages", "debug_repository", "identity"]


def gen_variant(rng, vid, uid, depth=1, vtype=None):
    paths = {}
    for f in rng.sample(PATH_FIELDS, rng.randint(0, len(PATH_FIELDS))):
        paths[f] = rng.choice(["Packages", ".", "%s/os" % vid, "repo/%s" % rstr(rng, LOWER, 2, 5), "certs/%s.pem" % vid,
                               "addons/%s/" % vid, "%s/repodata" % vid, "./", "repodata", ""])
    children = {}
    if depth < 3:
        for cid in rng.sample(["optional", "HighAvailability", "ResilientStorage", "SAP"], rng.choice([0, 0, 1, 2])):
            children[cid] = gen_variant(rng, cid, "%s-%s" % (uid, cid), depth + 1, vtype=rng.choice(["addon", "optional", "variant"]))
    return {"id": vid, "uid": uid, "name": rng.choice([vid, "The %s" % vid, "%s ;extras # and more" % vid]), "type": vtype or "variant",
            "paths": paths, "children": children}


def gen_treeinfo(rng, R=None, uid_twins=False):
    arch = rng.choice(ARCHES)
    layered = rng.random() < 0.25
    d = {
        "release": {"name": rng.choice(["Fedora", "Red Hat Enterprise Linux", "Fedora ;Server Edition", "Spacewalk #1 = x: y"]),
                    "short": rng.choice(["Fedora", "RHEL", "Fedora", "RHEL", "", "F 2"]),
                    "version": rng.choice(["22", "7.9", "Rawhide", "6.5"]), "is_layered": layered},
        "base_product": {"name": "Base", "short": rng.choice(["B", "B", ""]), "version": rng.choice(["7", "Rawhide"])} if layered else None,
        "tree": {"arch": arch, "build_timestamp": rng.choice([1440000000, 1, rng.randint(10 ** 8, 2 * 10 ** 9), -1,
                                                         2 ** 53 + 1, 1700000000123456789, -(2 ** 60 + 7)]),   # time.time_ns() is an integer too
                 "platforms": sorted(set(rng.sample([arch, "xen", "ppc64", "xen-pvh", "efi-secureboot"], rng.randint(0, 4))))},
        "variants": {}, "images": {}, "stage2": {"mainimage": None, "instimage": None},
        "media": {"discnum": None, "totaldiscs": None}, "checksums": {},
    }
    if rng.random() < 0.15:
        d["release"]["name"] = "Scientific Linux %s" % d["release"]["version"]        # a name that already ends in the version
    # plain string order is the documented order: upper case before lower case ("RT" < "Resilient" < "client")
    for t in rng.sample(["Server", "Client", "Workstation", "AppStream", "RT", "Resilient", "client", "baseOS"], rng.randint(1, 3)):
        d["variants"][t] = gen_variant(rng, t, t)
    if rng.random() < 0.3:                      # dashed top-level UID (the 'Server-optional' case), childless
        t = rng.choice(list(d["variants"]))
        # uid_twins (the .treeinfo write/read cycle only): an ADDON child 'optional' of T beside a top-level 'T-optional' - two objects
        # with one UID, kept apart by their section names; everywhere else UIDs are distinct within a tree (O15)
        if "optional" not in d["variants"][t]["children"] or (uid_twins and d["variants"][t]["children"]["optional"]["type"] == "addon"):
            uid = t + "-optional"
            v = gen_variant(rng, "optional", uid, depth=3, vtype="optional")
            d["variants"][uid] = v
    if rng.random() < 0.6:
        if rng.random() < 0.7 and arch not in d["tree"]["platforms"]:
            d["tree"]["platforms"] = sorted(d["tree"]["platforms"] + [arch])
        for plat in d["tree"]["platforms"][:2]:
            d["images"][plat] = {n: "images/%s/%s" % (plat, n) for n in rng.sample(["boot.iso", "kernel", "initrd", "Upgrade.img", "efiboot.img"], rng.randint(1, 3))}
    if rng.random() < 0.5:
        d["stage2"]["mainimage"] = "images/install.img"
        if rng.random() < 0.3:
            d["stage2"]["instimage"] = rng.choice(["images/inst.img", "images/inst.img", d["stage2"]["mainimage"], "/images/minstg2.img",
                                                   "/mnt/tree/os/images/minstg2.img"])
    if rng.random() < 0.4:
        d["media"] = rng.choice([{"discnum": rng.randint(1, 3), "totaldiscs": 3}, {"discnum": rng.randint(1, 3), "totaldiscs": 3},
                                 {"discnum": 0, "totaldiscs": 2}, {"discnum": 3, "totaldiscs": 0}])
    if rng.random() < 0.5:
        for p in rng.sample(["images/boot.iso", "repodata/repomd.xml", "images/pxeboot/vmlinuz", "LiveOS/squashfs.img"], rng.randint(1, 3)):
            d["checksums"][p] = [rng.choice(["sha256", "md5", "sha1"]), rstr(rng, rng.choice(["0123456789abcdef", "0123456789abcdef", "0123456789ABCDEF", "0123456789abcdefABCDEF"]), 32, 32)]
            if rng.random() < 0.25:
                # any algorithm name is allowed; the written "type:value" text may happen to be 32, 40 or 64 characters long
                alg = rng.choice(["blake2s", "blake2b", "sha224", "sha3_256", "md5", "crc32"])
                L = rng.choice([32, 40, 64]) - len(alg) - 1
                d["checksums"][p] = [alg, rstr(rng, "0123456789abcdef", L, L)]
    return d


def build_treeinfo(d, key_only_children_by_uid=False, foreign_variants=False):
    import productmd.treeinfo as TI
    ti = TI.TreeInfo()
    other = TI.TreeInfo()       # foreign_variants: the Variant objects were created for another tree (of the opposite src-ness)
    other.tree.arch = "x86_64" if d["tree"]["arch"] == "src" else "src"
    for k, v in d["release"].items():
        setattr(ti.release, k, v)
    if d["base_product"]:
        for k, v in d["base_product"].items():
            setattr(ti.base_product, k, v)
    ti.tree.arch = d["tree"]["arch"]
    ti.tree.build_timestamp = d["tree"]["build_timestamp"]
    ti.tree.platforms = set(d["tree"]["platforms"])

    def mk(vd, parent, top, only=False):
        v = TI.Variant(other if foreign_variants else ti)
        v.id, v.uid, v.name, v.type = vd["id"], vd["uid"], vd["name"], vd["type"]
        for f, p in vd["paths"].items():
            setattr(v.paths, f, p)
        if top:
            parent.add(v, variant_id=v.uid)
        elif key_only_children_by_uid and only and len(v.uid) % 3 == 0:
            parent.add(v, variant_id=v.uid)      # an only child registered under its UID: the mapping key is not content
        else:
            parent.add(v)
        for key in vd["children"]:
            mk(vd["children"][key], v, False, only=len(vd["children"]) == 1)

    for key in d["variants"]:
        mk(d["variants"][key], ti.variants, True)
    for plat, imgs in d["images"].items():
        ti.images.images[plat] = dict(imgs)
    ti.stage2.mainimage = d["stage2"]["mainimage"]
    ti.stage2.instimage = d["stage2"]["instimage"]
    ti.media.discnum = d["media"]["discnum"]
    ti.media.totaldiscs = d["media"]["totaldiscs"]
    for p, (t, val) in d["checksums"].items():
        ti.checksums.checksums[p] = (t, val)
    return ti


def gen_discinfo(rng):
    return {"timestamp": rng.choice([1440000000.123, 1.0, 12345.678901, float(rng.randint(1, 2 * 10 ** 9)) + 0.5]),
            # single-line text: only "\n" ends a line of the file; other separators and controls inside a value are content
            "description": rng.choice(["Fedora 22", "Red Hat Enterprise Linux 7.9", "x", "Fedora\x0b22", "A\x0cB c", "x\x1cy", "x\x1dy\x1ez",
                                       "Fedora\x8522", "x\u2028y", "a\u2029b", "tab\there", "caf\u00e9 1.0",
                                       "Long" + " description" * 700, "L" * 8170, "w " * 5000 + "end"]),
            "arch": rng.choice(ARCHES[:4] + ["x86\x8564", "ppc\u2028le"]), "disc_numbers": rng.choice([["ALL"], [1], [1, 2, 3], [2]])}


def build_discinfo(d):
    import productmd.discinfo as DI
    o = DI.DiscInfo()
    for k, v in d.items():
        setattr(o, k, copy.deepcopy(v))
    return o


def describe_ti(ti):
    def var(v):
        paths = {f: getattr(v.paths, f) for f in PATH_FIELDS if getattr(v.paths, f, None) is not None}
        return {"id": v.id, "uid": v.uid, "name": v.name, "type": v.type, "paths": paths,
                "children": {k: var(c) for k, c in v.variants.items()}}
    return {
        "release": {"name": ti.release.name, "short": ti.release.short, "version": ti.release.version, "is_layered": ti.release.is_layered},
        "base_product": {"name": ti.base_product.name, "short": ti.base_product.short, "version": ti.base_product.version},
        "tree": {"arch": ti.tree.arch, "build_timestamp": ti.tree.build_timestamp, "platforms": sorted(ti.tree.platforms)},
        "variants": {k: var(v) for k, v in ti.variants.variants.items()},
        "checksums": {p: list(tv) for p, tv in ti.checksums.checksums.items()},
        "images": {p: dict(t) for p, t in ti.images.images.items()},
        "stage2": {"mainimage": ti.stage2.mainimage, "instimage": ti.stage2.instimage},
        "media": {"discnum": ti.media.discnum, "totaldiscs": ti.media.totaldiscs},
    }


def section_table(text):
    """the section table the real parser produces for a text (raw values, no interpolation)"""
    import productmd.common as C
    p = C.SortedConfigParser()
    p.read_file(io.StringIO(text))
    return {s: {k: v for k, v in p.items(s, raw=True)} for s in p.sections()}


def _dumps(ti, mv):
    out = io.StringIO()
    ti.dump(out, main_variant=mv)
    return out.getvalue()


def impl_roundtrip(case):
    import productmd.treeinfo as TI
    try:
        ti = build_treeinfo(case["desc"], key_only_children_by_uid=True)
    except EXC as e:
        return ["build-error", type(e).__name__, str(e)[:200]]
    from suites.common import snap
    before = snap(ti)
    try:
        text = _dumps(ti, case.get("main_variant"))
    except EXC as e:
        return exc_result(e)
    except Exception as e:       # configparser errors
        return ["err", "Other:" + type(e).__name__]
    if snap(ti) != before:
        return ["api-inconsistent", ["writing changed the object itself (its public state before and after dumps() differs)"]]
    if case.get("main_variant") is None:
        api = api_consistency(ti, TI.TreeInfo, text, before=before, pipe=False)      # the INI readers rewind their stream (O13)
        if api:
            return ["api-inconsistent", api]
    table = section_table(text)
    ti2 = TI.TreeInfo()
    try:
        ti2.loads(text)
    except EXC as e:
        return ["ok", text, table, exc_result(e)]
    except Exception as e:
        return ["ok", text, table, ["err", "Other:" + type(e).__name__]]
    try:
        again = ["ok", _dumps(ti2, None)]
    except EXC as e:
        again = exc_result(e)
    except Exception as e:
        again = ["err", "Other:" + type(e).__name__]
    return ["ok", text, table, ["ok", [describe_ti(ti2), again]]]


REUSE_VALID = ("[header]\ntype = productmd.treeinfo\nversion = 1.2\n\n[release]\nname = Fedora\nshort = Fedora\nversion = 22\n\n"
               "[tree]\narch = x86_64\nbuild_timestamp = 1440000000\nplatforms = x86_64\nvariants = Zz\n\n"
               "[variant-Zz]\nid = Zz\nname = Zz\ntype = variant\nuid = Zz\n\n")
REUSE_BROKEN10 = "[header]\nversion = 1.0\n\n[release]\nname = X\n"


def impl_load_text(case):
    """load an arbitrary .treeinfo text; describe and re-dump.  case["reuse"]: the object has a history before this load -
    1: a format-1.0 file that was refused after its header had been read; 2: a small valid tree was loaded and its variants were
    removed again; 3: as 2, and the tree was written once.  (Only for texts with a [header]: O14.)"""
    import productmd.treeinfo as TI
    ti = TI.TreeInfo()
    reuse = case.get("reuse")
    if reuse == 1:
        try:
            ti.loads(REUSE_BROKEN10)
        except Exception:
            pass
    elif reuse in (2, 3):
        ti.loads(REUSE_VALID)
        if reuse == 3:
            _dumps(ti, None)
        for k in list(ti.variants.variants):
            del ti.variants.variants[k]
    try:
        ti.loads(case["text"])
    except EXC as e:
        return exc_result(e)
    except Exception as e:
        return ["err", "Other:" + type(e).__name__]
    try:
        again = ["ok", _dumps(ti, None)]
    except EXC as e:
        again = exc_result(e)
    except Exception as e:
        again = ["err", "Other:" + type(e).__name__]
    try:
        table = section_table(case["text"])
    except Exception:
        table = None
    return ["ok", [describe_ti(ti), again], table]


def impl_discinfo(case):
    import productmd.discinfo as DI
    o = build_discinfo(case["desc"])
    try:
        text = o.dumps()
    except EXC as e:
        return exc_result(e)
    api = api_consistency(o, DI.DiscInfo, text, pipe=False)
    if api:
        return ["api-inconsistent", api]
    o2 = DI.DiscInfo()
    try:
        o2.loads(text)
    except EXC as e:
        return ["ok", text, exc_result(e)]
    back = {"timestamp": o2.timestamp, "description": o2.description, "arch": o2.arch, "disc_numbers": o2.disc_numbers}
    try:
        again = ["ok", o2.dumps()]
    except EXC as e:
        again = exc_result(e)
    return ["ok", text, ["ok", [back, again]]]


def mini_ini(text):
    """an independent minimal INI reader: sections, 'key = value' lines"""
    out, cur = {}, None
    for line in text.split("\n"):
        if line.startswith("[") and line.rstrip().endswith("]"):
            cur = line.strip()[1:-1]
            out[cur] = {}
        elif " = " in line and cur is not None:
            k, v = line.split(" = ", 1)
            out[cur][k] = v
    return out


def impl_general(case):
    """write the tree; also give the [general] section alone to the pre-productmd reader"""
    import productmd.treeinfo as TI
    try:
        ti = build_treeinfo(case["desc"], foreign_variants=len(case["desc"]["release"]["name"]) % 2 == 1)
        text = _dumps(ti, case.get("main_variant"))
    except EXC as e:
        return exc_result(e)
    except Exception as e:
        return ["err", "Other:" + type(e).__name__]
    sec = mini_ini(text).get("general", {})
    only = "[general]\n" + "".join("%s = %s\n" % (k, v) for k, v in sec.items() if not k.startswith(";"))
    old = TI.TreeInfo()
    try:
        old.loads(only)
        seen = {"name": old.release.name, "version": old.release.version, "arch": old.tree.arch,
                "variants": sorted(old.variants.variants), "timestamp": old.tree.build_timestamp}
        v = old.variants.variants[sorted(old.variants.variants)[0]]
        seen["packages"] = v.paths.packages
        seen["repository"] = v.paths.repository
        seen["source_packages"] = v.paths.source_packages
        seen["source_repository"] = v.paths.source_repository
        seen["short"] = old.release.short
    except EXC as e:
        seen = exc_result(e)
    except Exception as e:
        seen = ["err", "Other:" + type(e).__name__]
    # "every .treeinfo the library writes": also the one written after loading this file back, with no main variant requested
    reloaded = None
    try:
        back = TI.TreeInfo()
        back.loads(text)
        reloaded = mini_ini(_dumps(back, None)).get("general", {}).get("variant")
    except EXC as e:
        reloaded = exc_result(e)
    except Exception as e:
        reloaded = ["err", "Other:" + type(e).__name__]
    # "every choice of main variant": also a nested one (looked up by its UID)
    nested = None
    for top in sorted(case["desc"]["variants"]):
        kids = case["desc"]["variants"][top]["children"]
        # (a child whose UID is also the UID of a top-level variant is not addressable by UID: the top-level one answers)
        kids = {k: v for k, v in kids.items() if v["uid"] not in case["desc"]["variants"]}
        if kids:
            kid = kids[sorted(kids)[0]]
            try:
                g = mini_ini(_dumps(ti, kid["uid"])).get("general", {})
                nested = [kid["uid"], kid["paths"], {k: g.get(k) for k in ("variant", "packagedir", "repository")}]
            except EXC as e:
                nested = [kid["uid"], kid["paths"], exc_result(e)]
            except Exception as e:
                nested = [kid["uid"], kid["paths"], ["err", "Other:" + type(e).__name__]]
            # ... and after that child was REPLACED under its parent by another object (same id and UID, other paths), the next
            # write with it as main variant shows the new object's paths
            if isinstance(nested[2], dict):
                try:
                    parent = ti.variants.variants[top]
                    old = parent.variants[kid["id"]]
                    new = TI.Variant(ti)
                    new.id, new.uid, new.name, new.type = old.id, old.uid, old.name, old.type
                    new.paths.packages, new.paths.repository = "Replaced/Packages", "Replaced"
                    del parent.variants[kid["id"]]
                    parent.add(new)
                    g = mini_ini(_dumps(ti, kid["uid"])).get("general", {})
                    nested.append([g.get("packagedir"), g.get("repository")])
                except EXC as e:
                    nested.append(exc_result(e))
                except Exception as e:
                    nested.append(["err", "Other:" + type(e).__name__])
            break
    return ["ok", text, seen, reloaded, nested]


# ---- the write/read cycle through file PATHS in a process whose locale encoding is not UTF-8
_LOCALE_SCRIPT = r'''
import json, os, sys, tempfile
import productmd.treeinfo as TI, productmd.discinfo as DI
work = sys.argv[1]
out = []
for name in ["Fedora", "Caf\u00e9 Linux", "\u0424\u0435\u0434\u043e\u0440\u0430", "Linux \u2603"]:
    for kind in ("treeinfo", "discinfo"):
        p = os.path.join(work, "f-%d-%s" % (len(out), kind))
        if kind == "treeinfo":
            o = TI.TreeInfo()
            o.release.name, o.release.short, o.release.version = name, "F", "1"
            o.tree.arch, o.tree.build_timestamp, o.tree.platforms = "x86_64", 1, set(["x86_64"])
            v = TI.Variant(o); v.id = v.uid = "Server"; v.name = name; v.type = "variant"; o.variants.add(v)
            new, facts = TI.TreeInfo, lambda x: [x.release.name, x.variants["Server"].name]
        else:
            o = DI.DiscInfo()
            o.timestamp, o.description, o.arch, o.disc_numbers = 1.5, name, "x86_64", ["ALL"]
            new, facts = DI.DiscInfo, lambda x: [x.description]
        try:
            o.dump(p)
        except Exception as e:
            out.append([kind, name, "not-written", type(e).__name__]); continue
        try:
            b = new(); b.load(p)
            out.append([kind, name, "read-back", facts(b) == facts(o)])
        except Exception as e:
            out.append([kind, name, "written-but-unreadable", type(e).__name__])
print(json.dumps(out))
'''


def impl_locale_cycle(case):
    import json
    import os
    import subprocess
    from suites.common import VERIF
    import shutil
    import sys
    import tempfile
    work = tempfile.mkdtemp(prefix="loc-", dir=os.path.join(VERIF, ".work"))
    try:
        env = {"PATH": os.environ.get("PATH", ""), "PYTHONPATH": os.environ.get("PYTHONPATH", ""), "PYTHONHASHSEED": "0"}
        env.update(case["env"])
        script = os.path.join(work, "cycle.py")
        with open(script, "w", encoding="ascii") as f:
            f.write(_LOCALE_SCRIPT)
        p = subprocess.run([sys.executable, script, work], env=env, capture_output=True, text=True, timeout=60)
        if p.returncode != 0:
            return ["child-failed", p.stderr[-300:]]
        return ["ok", json.loads(p.stdout.strip().split("\n")[-1])]
    finally:
        shutil.rmtree(work, ignore_errors=True)


# ---- the .discinfo READER on arbitrary texts (model: load_di)
def gen_discinfo_texts(rng, n):
    """texts around the four-line format: written files, and files with lines missing, blank, quoted, padded, mistyped"""
    out = []
    for _ in range(n):
        ts = rng.choice(["1440000000.123", "1.0", "12345.678901", "%d.5" % rng.randint(1, 2 * 10 ** 9), "0.5", "1440000000.12345"] * 3 +
                        ["1440000000", "abc", "", "1.50", "01.5", "1e5", "nan", "-1.5", "1440000000.1234567890123", "x.y", "--"])
        desc = rng.choice(["Fedora 22", "Red Hat Enterprise Linux 7.9", "x", "\"Fedora 22\"", "'quoted'", "\"half", "it's", "  padded  ", "",
                           "a\tb", "café 1.0", "\"\"", "'\"mixed\"'", "Fedora\x0b22"])
        arch = rng.choice(["x86_64", "ppc64le", " s390x ", "", "src", "a b"])
        nums = rng.choice(["ALL", "1", "1,2,3", "2", "", " ALL ", "1, 2", "1,,2", "one", "1,two", "-1", "0", "ALL,1", "all", "007", " 3 ", "1,2,"])
        lines = [ts, desc, arch, nums]
        k = rng.random()
        if k < 0.15:
            lines = lines[:rng.randint(0, 3)]              # lines missing
        elif k < 0.25:
            lines = lines + [rng.choice(["", "extra", "5"])]
        text = "\n".join(lines)
        if rng.random() < 0.5:
            text += "\n"
        if rng.random() < 0.1:
            text = text.replace("\n", "\n\n", 1)            # a blank line shifts everything
        if rng.random() < 0.1:
            text = " " + text.replace("\n", " \n ")
        out.append({"text": text})
    return out


def impl_load_discinfo(case):
    import productmd.discinfo as DI
    o = DI.DiscInfo()
    try:
        o.loads(case["text"])
    except EXC as e:
        return exc_result(e)
    except Exception as e:
        return ["err", "Other:" + type(e).__name__]
    try:
        again = ["ok", o.dumps()]
    except EXC as e:
        again = exc_result(e)
    return ["ok", [{"__float__": repr(o.timestamp)}, o.description, o.arch, o.disc_numbers, again]]
