"""regular expressions: CPython's re on the source patterns vs Base/Regex.v on the regenerated ASTs"""
import json
import os
import time

from suites.common import VERIF


def regex_table():
    rep = json.load(open(os.path.join(VERIF, "coq", "Gen", "report.json")))
    return rep["regexes"]


def _sample(rng, pattern):
    """a string drawn from (roughly) the language of the pattern, via CPython's parse tree"""
    import re._parser as P
    import re._constants as K

    def cls(items):
        neg = any(op is K.NEGATE for op, _ in items)
        pool = []
        for op, av in items:
            if op is K.LITERAL:
                pool.append(chr(av))
            elif op is K.RANGE:
                pool.extend([chr(av[0]), chr(av[1]), chr((av[0] + av[1]) // 2)])
            elif op is K.CATEGORY:
                pool.extend("059")
        if neg:
            cand = [c for c in "aZ5-.:/_ !" if c not in pool]
            return rng.choice(cand) if cand else "a"
        return rng.choice(pool) if pool else ""

    def seq(items):
        return "".join(node(op, av) for op, av in items)

    def node(op, av):
        if op is K.LITERAL:
            return chr(av)
        if op is K.NOT_LITERAL:
            return rng.choice([c for c in "aZ5-.:/_" if c != chr(av)])
        if op is K.ANY:
            return rng.choice("aZ5-.:/_ 0")
        if op is K.IN:
            return cls(av)
        if op is K.AT:
            return ""
        if op is K.SUBPATTERN:
            return seq(av[3])
        if op is K.BRANCH:
            return seq(rng.choice(av[1]))
        if op in (K.MAX_REPEAT, K.MIN_REPEAT):
            lo, hi, p = av
            k = rng.randint(lo, min(lo + 3, hi if hi is not K.MAXREPEAT else lo + 3))
            return "".join(seq(p) for _ in range(k))
        return ""

    try:
        return seq(list(P.parse(pattern)))
    except Exception:
        return ""


def _mutate(rng, s):
    k = rng.random()
    junk = "aZ5-.:/_ !\n@"
    if k < 0.5 or not s:
        return s
    i = rng.randrange(len(s) + 1)
    if k < 0.7:
        return s[:i] + rng.choice(junk) + s[i:]
    if k < 0.85:
        return s[:max(0, i - 1)] + s[i:]
    return s[:i] + rng.choice(junk) + s[i + 1:]


def generate(rng, per_regex, unsafe=()):
    """strings for expressions that are not `safe` are capped at 9 characters: on those the model matcher
    (like the real one) may need exponentially many steps"""
    cases = []
    for name, info in sorted(regex_table().items()):
        pat = info.get("pattern")
        if pat is None:
            continue
        for _ in range(per_regex):
            if rng.random() < 0.75:
                s = _mutate(rng, _sample(rng, pat))
            else:
                s = "".join(rng.choice("aZ5-.:/_ !\n@19") for _ in range(rng.randint(0, 10)))
            if name in unsafe:
                s = s[:9]
            cases.append({"name": name, "pattern": pat, "s": s})
    return cases


def impl(case):
    import re
    m = re.match(case["pattern"], case["s"])
    if m is None:
        return None
    out = []
    for g in range(1, (m.re.groups or 0) + 1):
        if m.start(g) >= 0:
            out.append([g, m.start(g), m.end(g)])
    return out


def impl_time(case):
    """seconds taken by the real engine (and, when given, the library function) on one string"""
    import re
    t0 = time.perf_counter()
    fn = case.get("fn")
    if fn:
        import productmd.common as C
        import productmd.composeinfo as CI
        import productmd.modules as MO
        table = {
            "is_valid_release_short": C.is_valid_release_short,
            "is_valid_release_version": C.is_valid_release_version,
            "is_valid_release_type": C.is_valid_release_type,
            "parse_nvra": C.parse_nvra,
            "parse_release_id": C.parse_release_id,
            "split_version": C.split_version,
            "verify_label": CI.verify_label,
            "get_date_type_respin": CI.get_date_type_respin,
            "parse_uid": MO.Modules.parse_uid,
            "create_release_id": lambda s: C.create_release_id(s, s, s),
            "treeinfo_build_timestamp": lambda s: _load_treeinfo(ts=s),
            "treeinfo_release_version": lambda s: _load_treeinfo(version=s),
            "treeinfo_tree_arch": lambda s: _load_treeinfo(arch=s),
            "discinfo_disc_numbers": lambda s: _load_discinfo(nums=s),
            "discinfo_timestamp": lambda s: _load_discinfo(ts=s),
        }
        try:
            table[fn](case["s"].replace("\n", " ").replace("%", "_") if fn.startswith(("treeinfo_", "discinfo_")) else case["s"])
        except Exception:                   # what is measured is the time, whatever the outcome
            pass
    else:
        re.match(case["pattern"], case["s"])
    return time.perf_counter() - t0


FUNCTIONS = ["is_valid_release_short", "is_valid_release_version", "is_valid_release_type", "parse_nvra",
             "parse_release_id", "split_version", "verify_label", "get_date_type_respin", "parse_uid", "create_release_id",
             # whole-document readers with the pumped string in one field
             "treeinfo_build_timestamp", "treeinfo_release_version", "treeinfo_tree_arch", "discinfo_disc_numbers", "discinfo_timestamp"]

TI_TEXT = """[header]
type = productmd.treeinfo
version = 1.2

[release]
name = Fedora
short = Fedora
version = %(version)s

[tree]
arch = %(arch)s
build_timestamp = %(ts)s
platforms = x86_64
variants = Server

[variant-Server]
id = Server
name = Server
type = variant
uid = Server

[images-p-%(arch)s]
kernel = images/vmlinuz
"""


def _load_treeinfo(**kw):
    import productmd.treeinfo as TI
    d = {"version": "22", "arch": "x86_64", "ts": "1440000000"}
    d.update(kw)
    TI.TreeInfo().loads(TI_TEXT % d)


def _load_discinfo(ts="1440000000.5", nums="ALL"):
    import productmd.discinfo as DI
    DI.DiscInfo().loads("%s\nFedora 22\nx86_64\n%s\n" % (ts, nums))


def class_reps(pattern):
    """one representative per character class / literal of the pattern"""
    import re._parser as P
    import re._constants as K
    reps = []

    def walk(items):
        for op, av in items:
            if op is K.LITERAL:
                reps.append(chr(av))
            elif op is K.IN:
                for o, a in av:
                    if o is K.LITERAL:
                        reps.append(chr(a))
                    elif o is K.RANGE:
                        reps.append(chr(a[0]))
                    elif o is K.CATEGORY:
                        reps.append("1")
            elif op is K.ANY or op is K.NOT_LITERAL:
                reps.append("x")
            elif op is K.SUBPATTERN:
                walk(av[3])
            elif op is K.BRANCH:
                for alt in av[1]:
                    walk(alt)
            elif op in (K.MAX_REPEAT, K.MIN_REPEAT):
                walk(av[2])
    try:
        walk(list(P.parse(pattern)))
    except Exception:
        pass
    out = []
    for c in reps:
        if c not in out:
            out.append(c)
    return out


def pump_families(pattern):
    reps = class_reps(pattern)[:5] or ["a"]
    fams = []
    pumps = list(reps) + [a + b for a in reps[:3] for b in reps[:3] if a != b]
    for pre in [""] + reps[:2]:
        for pump in pumps:
            for suf in ["!", "\x00", "!" + reps[0]]:
                fams.append((pre, pump, suf))
    return fams


# ---- nesting depth: the work done by the field validators while a document is read (counted, and timed)
def nested_text(fmt, depth):
    """a legal document whose variants form one chain of the given depth (written here, not by the library)"""
    import json
    uids = ["-".join("V%d" % j for j in range(i + 1)) for i in range(depth)]
    if fmt == "composeinfo":
        variants = {}
        for i, uid in enumerate(uids):
            v = {"arches": ["x86_64"], "id": "V%d" % i, "name": "V%d" % i, "paths": {}, "type": "variant" if i == 0 else "optional", "uid": uid}
            if i + 1 < depth:
                v["variants"] = ["V%d" % (i + 1)]
            variants[uid] = v
        return json.dumps({"header": {"type": "productmd.composeinfo", "version": "1.2"},
                           "payload": {"compose": {"date": "20240101", "id": "F-1-20240101.0", "respin": 0, "type": "production"},
                                       "release": {"internal": False, "name": "F", "short": "F", "type": "ga", "version": "1"},
                                       "variants": variants}})
    out = ["[header]\ntype = productmd.treeinfo\nversion = 1.2\n", "[release]\nname = F\nshort = F\nversion = 1\n",
           "[tree]\narch = x86_64\nbuild_timestamp = 1\nplatforms = x86_64\nvariants = V0\n"]
    for i, uid in enumerate(uids):
        sec = "[variant-%s]\n" % uid
        if i + 1 < depth:
            sec += "addons = %s\n" % uids[i + 1]
        sec += "id = V%d\nname = V%d\n" % (i, i)
        if i:
            sec += "parent = %s\n" % uids[i - 1]
        sec += "type = %s\nuid = %s\n" % ("variant" if i == 0 else "optional", uid)
        out.append(sec)
    return "\n".join(out)


def impl_nesting(case):
    """[seconds, number of validate()/_validate_*() calls, outcome] of loading (and writing again) a chain of the given depth"""
    import sys
    import productmd.composeinfo as CI
    import productmd.treeinfo as TI
    text = nested_text(case["fmt"], case["depth"])
    o = CI.ComposeInfo() if case["fmt"] == "composeinfo" else TI.TreeInfo()
    n = [0]

    def prof(frame, event, arg):
        if event == "call" and frame.f_code.co_name.startswith(("validate", "_validate")):
            n[0] += 1
    t0 = time.perf_counter()
    sys.setprofile(prof)
    try:
        o.loads(text)
        o.dumps()
        out = "ok"
    except Exception as e:
        out = type(e).__name__
    finally:
        sys.setprofile(None)
    return [time.perf_counter() - t0, n[0], out]
