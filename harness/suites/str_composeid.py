"""compose ids: ComposeInfo.create_compose_id / get_date_type_respin / Compose._validate_id vs Model/ComposeId.v"""
from suites.common import reflect, exc_result, rstr, DIGITS, LOWER

EXC = (ValueError, TypeError, AttributeError, KeyError, IndexError)
SHORTS = ["F", "Fedora", "RHEL", "rhel", "my-product", "Satellite", "f1", "X"]
VERSIONS = ["22", "7.9", "5", "5.11", "Rawhide", "20150101", "1.20240101.3", "123456789", "9.0.0", "5.0"]


def gen_args(rng, R):
    ct = rng.choice(R["COMPOSE_TYPES"] + (["bogus"] if rng.random() < 0.05 else []))
    layered = rng.random() < 0.4
    rel_types = R["RELEASE_TYPES"] + [None, "GA", "Updates", ""]
    bp = rng.random() < 0.6 or layered
    k = rng.random()
    if k < 0.5:
        respin = rng.randint(0, 12)
    elif k < 0.8:
        respin = rng.randint(0, 10 ** 7 - 1)
    else:
        respin = rng.choice([10 ** 7 - 1, 10 ** 7, 10 ** 8 - 1, 12345678, 99999999, 9999999])
    a = {
        "rs": rng.choice(SHORTS), "rv": rng.choice(VERSIONS), "rt": rng.choice(rel_types), "layered": layered,
        "bs": rng.choice(SHORTS) if bp else None, "bv": rng.choice(VERSIONS) if bp else None,
        "bt": rng.choice(rel_types) if bp else None,
        "variants": rng.sample(["Client", "Server", "Workstation", "AppStream", "Apps"], rng.randint(0, 3)),
        "date": rstr(rng, DIGITS, 8, 8), "ct": ct, "respin": respin,
    }
    if rng.random() < 0.15:
        a["rs"], a["rv"], a["bs"], a["bv"] = "RHEL", rng.choice(["5", "5.11"]), "RHEL", rng.choice(["5", "5.3"])
    return a


def generate(rng, n):
    R = reflect()
    return [gen_args(rng, R) for _ in range(n)]


def to_model(a):
    return [a["rs"], a["rv"], a["rt"], a["layered"], a["bs"], a["bv"], a["bt"], a["variants"], a["date"], a["ct"], a["respin"]]


_REUSED = []


def _build(a, reuse=False):
    import productmd.composeinfo as CI
    if reuse:
        if not _REUSED:
            _REUSED.append(CI.ComposeInfo())
        ci = _REUSED[0]
        ci.variants.variants.clear()
    else:
        ci = CI.ComposeInfo()
    ci.release.short, ci.release.version, ci.release.type = a["rs"], a["rv"], a["rt"]
    ci.release.is_layered = a["layered"]
    ci.base_product.short, ci.base_product.version, ci.base_product.type = a["bs"], a["bv"], a["bt"]
    for v in a["variants"]:
        ci.variants.variants[v] = object()   # only the keys are consulted
    ci.compose.date, ci.compose.type, ci.compose.respin = a["date"], a["ct"], a["respin"]
    return ci


def _valid_id(cid):
    import productmd.composeinfo as CI
    c = CI.ComposeInfo().compose
    c.id = cid
    try:
        c._validate_id()
        return True
    except (ValueError, TypeError):
        return False


_PREV = [None]


def impl_create(a):
    """on a fresh object and on one long-lived object whose fields are re-assigned: the id is a function of the fields"""
    try:
        cid = _build(a).create_compose_id()
    except EXC as e:
        fresh = exc_result(e)
    else:
        fresh = ["ok", [cid, _valid_id(cid)]]
    try:
        robj = _build(a, reuse=True)
        cid2 = robj.create_compose_id()
        robj.compose.id = cid2               # the usual `ci.compose.id = ci.create_compose_id()`
    except EXC as e:
        reused = exc_result(e)
    else:
        reused = ["ok", [cid2, _valid_id(cid2)]]
    prev, _PREV[0] = _PREV[0], a
    if reused[:2] != fresh[:2]:
        return ["err", "HistoryDependent", "fresh object: %r; object previously set to %r: %r" % (fresh, prev, reused)]
    return fresh


def _decode(cid):
    import productmd.composeinfo as CI
    try:
        r = CI.get_date_type_respin(cid)
    except EXC as e:
        return exc_result(e)
    if r == (None, None, None):
        return ["ok", None]
    return ["ok", list(r)]


def impl_roundtrip(a):
    r = impl_create(a)
    if r[0] != "ok":
        return r
    return ["ok", r[1] + [_decode(r[1][0])]]


def impl_decode(case):
    return _decode(case["s"])


def gen_ids(rng, n):
    out = []
    sfx = ["", ".n", ".nightly", ".t", ".test", ".ci", ".d", ".x", ".production", ".N", ".n1", "."]
    for _ in range(n):
        k = rng.random()
        if k < 0.5:
            s = rstr(rng, "F-2.", 0, 6) + (lambda k: rstr(rng, DIGITS, k, k))(rng.choice([7, 8, 8, 8, 9, 16])) + rng.choice(sfx)
            if rng.random() < 0.7:
                s += "." + rstr(rng, DIGITS, 0, 9)
            s += rstr(rng, "-x.\n1", 0, 3)
        else:
            s = rstr(rng, "12345678.n-\nab", 0, 24)
        out.append({"s": s})
    return out


def impl_valid(case):
    return _valid_id(case["s"])


def impl_legacy_doc(case):
    """a pre-0.3 composeinfo document carries date/type/respin only inside the id: what does loading it give?"""
    import json
    import productmd.composeinfo as CI
    doc = {"header": {"version": case.get("version", "0.2")},
           "payload": {"compose": {"id": case["s"], "type": "production"},
                       "product": {"name": "N", "version": "1", "short": "N"}, "variants": {}}}
    ci = CI.ComposeInfo()
    try:
        ci.loads(json.dumps(doc))
    except EXC as e:
        return exc_result(e)
    return ["ok", [ci.compose.date, ci.compose.type, ci.compose.respin]]
