"""helpers shared by suites (imported both by the checker and the impl worker)"""
import json
import os

VERIF = os.path.dirname(os.path.dirname(os.path.dirname(os.path.abspath(__file__))))


def reflect():
    return json.load(open(os.path.join(VERIF, "coq", "Gen", "report.json")))["reflect"]


def exc_result(e):
    return ["err", type(e).__name__]


LOWER = "abcdefghijklmnopqrstuvwxyz"
UPPER = "ABCDEFGHIJKLMNOPQRSTUVWXYZ"
DIGITS = "0123456789"


def rstr(rng, alphabet, lo, hi):
    return "".join(rng.choice(alphabet) for _ in range(rng.randint(lo, hi)))


def snap(o, seen=None):
    """the public state of a metadata object as plain data (sets sorted, back references and private attributes left out)"""
    seen = seen or set()
    if isinstance(o, (str, int, float, bool, type(None))):
        return o
    if id(o) in seen:
        return "<cycle>"
    seen = seen | {id(o)}
    if isinstance(o, (list, tuple)):
        return [snap(x, seen) for x in o]
    if isinstance(o, (set, frozenset)):
        return sorted((snap(x, seen) for x in o), key=repr)
    if isinstance(o, dict):
        return {str(k): snap(v, seen) for k, v in sorted(o.items(), key=lambda kv: str(kv[0]))}
    if type(o).__module__.startswith("productmd") and hasattr(o, "__dict__"):
        return {"<class>": type(o).__name__,
                "attrs": {k: snap(v, seen) for k, v in sorted(vars(o).items()) if not k.startswith("_") and k not in ("parent", "header")}}      # writing stamps the header with the current version
    return repr(o)


def api_consistency(obj, new, text, dump_kwargs=None, before=None, pipe=True):
    """the same object through every entry point: dump(path), dump(file object), dumps(), a second dumps();
    load(path), load(file object), loads().  Returns a list of inconsistencies (empty when all agree)."""
    import os
    import shutil
    import tempfile
    kw = dump_kwargs or {}
    problems = []
    if before is not None and snap(obj) != before:
        problems.append("writing changed the object itself (its public state before and after dumps() differs)")
    work = tempfile.mkdtemp(prefix="api-", dir=os.path.join(VERIF, ".work"))
    try:
        p1, p2 = os.path.join(work, "by-path"), os.path.join(work, "by-file")
        with open(p1, "w") as f:             # the path is re-published in place: an older, longer file is already there
            f.write("{\"stale\": \"" + "x" * (len(text) + 4096) + "\"}\n")
        obj.dump(p1, **kw)
        with open(p2, "w") as f:
            obj.dump(f, **kw)
        a, b = open(p1).read(), open(p2).read()
        if a != text:
            problems.append("dump(path) writes other bytes than dumps()")
        if b != text:
            problems.append("dump(file object) writes other bytes than dumps()")
        if obj.dumps(**kw) != text:
            problems.append("a second dumps() differs from the first")
        outs = []
        for how in ("path", "file", "loads") + (("pipe", "binary") if pipe else ()):
            o = new()
            if how == "path":
                o.load(p1)
            elif how == "binary":
                with open(p1, "rb") as f:           # a file object opened in binary mode (JSON formats)
                    o.load(f)
            elif how == "file":
                with open(p1) as f:
                    o.load(f)
            elif how == "pipe":
                # a stream that cannot seek: the text arrives through an OS pipe
                import threading
                rfd, wfd = os.pipe()

                def feed():
                    with os.fdopen(wfd, "w") as w:
                        w.write(a)
                th = threading.Thread(target=feed)
                th.start()
                try:
                    with os.fdopen(rfd, "r") as f:
                        o.load(f)
                finally:
                    th.join()
            else:
                o.loads(text)
            outs.append(o.dumps())
        if len(set(outs)) != 1:
            problems.append("load(path), load(file object), loads() and load(pipe) give different objects")
        if before is not None and snap(obj) != before:
            problems.append("writing changed the object itself (its public state before and after dump() differs)")
    except Exception as e:
        problems.append("an API entry point raised %s: %s" % (type(e).__name__, str(e)[:100]))
    finally:
        shutil.rmtree(work, ignore_errors=True)
    return problems


# the architecture names the library documents (a frozen copy of productmd.common.RPM_ARCHES as shipped); the live table
# may grow, every name listed here must stay known
DOC_RPM_ARCHES = ["aarch64", "alpha", "alphaev4", "alphaev45", "alphaev5", "alphaev56", "alphaev6", "alphaev67", "alphaev68", "alphaev7", "alphapca56", "amd64", "arm64", "armhfp", "armv5tejl", "armv5tel", "armv5tl", "armv6hl", "armv6l", "armv7hl", "armv7hnl", "armv7l", "armv8hl", "armv8l", "athlon", "geode", "i386", "i486", "i586", "i686", "ia32e", "ia64", "loongarch64", "mips", "mips64", "mips64el", "mipsel", "ppc", "ppc64", "ppc64iseries", "ppc64le", "ppc64p7", "ppc64pseries", "riscv128", "riscv32", "riscv64", "s390", "s390x", "sh3", "sh4", "sh4a", "sparc", "sparc64", "sparc64v", "sparcv8", "sparcv9", "sparcv9v", "x86_64", "src", "nosrc", "noarch"]
