"""helpers shared by suites (imported both by the checker and the impl worker)"""
import json
import os

VERIF = os.path.dirname(os.path.dirname(os.path.dirname(os.path.abspath(__file__))))


def reflect():
    return json.load(open(os.path.join(VERIF, "coq", "Gen", "report.json")))["reflect"]


def exc_result(e):
    return ["err", type(e).__name__]


LOWER = "abcdefghijklmnopqrstuvwxyz"
UPPER = "ABCDEFGHIJKLMNOPQRSTUVWXYZ"
DIGITS = "0123456789"


def rstr(rng, alphabet, lo, hi):
    return "".join(rng.choice(alphabet) for _ in range(rng.randint(lo, hi)))
