"""C08: the same content constructed in different orders (and under different hash seeds) must give the same bytes"""
import copy
from suites.common import exc_result, reflect
from suites import ops_manifests as OM, ops_images as OI, docs_composeinfo as DC, docs_manifests as DM, docs_treeinfo as DT

EXC = (ValueError, TypeError, AttributeError, KeyError, IndexError)


def cellwise_shuffles(rng, ops, cell_of, k):
    """k interleavings of ops that keep the relative order inside each cell (caller-ordered lists are content)"""
    outs = []
    for _ in range(k):
        groups = {}
        for op in ops:
            groups.setdefault(cell_of(op), []).append(op)
        queues = [list(g) for g in groups.values()]
        out = []
        while queues:
            q = rng.choice(queues)
            out.append(q.pop(0))
            if not q:
                queues.remove(q)
        outs.append(out)
    return outs


def shuffle_dict(rng, d):
    keys = list(d)
    rng.shuffle(keys)
    return {k: d[k] for k in keys}


def shuffle_desc(rng, desc):
    comp, rel, bp, tops = copy.deepcopy(desc)

    def tree(t):
        f, paths, vrel, children = t
        f = dict(f)
        arches = list(f["arches"])
        rng.shuffle(arches)
        f["arches"] = arches
        paths = shuffle_dict(rng, {c: shuffle_dict(rng, tab) for c, tab in paths.items()})
        return [f, paths, vrel, shuffle_dict(rng, {k: tree(c) for k, c in children.items()})]

    return [comp, rel, bp, shuffle_dict(rng, {k: tree(t) for k, t in tops.items()})]


def shuffle_treeinfo(rng, d):
    d = copy.deepcopy(d)
    plats = list(d["tree"]["platforms"])
    rng.shuffle(plats)
    d["tree"]["platforms"] = plats

    def var(v):
        v["paths"] = shuffle_dict(rng, v["paths"])
        v["children"] = shuffle_dict(rng, {k: var(c) for k, c in v["children"].items()})
        return v
    d["variants"] = shuffle_dict(rng, {k: var(v) for k, v in d["variants"].items()})
    d["images"] = shuffle_dict(rng, {p: shuffle_dict(rng, t) for p, t in d["images"].items()})
    d["checksums"] = shuffle_dict(rng, d["checksums"])
    return d


def generate(rng, n, k):
    R = reflect()
    cases = []
    for i in range(n):
        kind = ["rpms", "modules", "extra", "images", "composeinfo", "treeinfo"][i % 6]
        if kind == "treeinfo":
            d = DT.gen_treeinfo(rng, R)
            extra = rng.sample(["xen", "uefi", "bios", "pxe", "ppc64", "s390"], rng.randint(2, 5))    # several platforms besides the arch
            d["tree"]["platforms"] = sorted(set(d["tree"]["platforms"]) | set(extra))
            if rng.random() < 0.5:
                # two platforms whose names differ only by the architecture suffix, each with its own table
                twin = "xen-%s" % d["tree"]["arch"]
                d["tree"]["platforms"] = sorted(set(d["tree"]["platforms"]) | {"xen", twin})
                d["images"]["xen"] = {"kernel": "images/xen/vmlinuz", "initrd": "images/xen/initrd.img"}
                d["images"][twin] = {"kernel": "images/xen64/vmlinuz", "boot.iso": "images/xen64/boot.iso"}
            cases.append({"kind": kind, "desc": d, "orders": [shuffle_treeinfo(rng, d) for _ in range(k)]})
            continue
        if kind in ("rpms", "modules", "extra"):
            ops = []
            while len(ops) < 6:
                op = OM.GEN[kind](rng)
                ops.append(op)
            if kind == "modules":
                # one module added in two categories, each call bringing several RPMs: the list order is the callers' order
                v, a, uid = rng.choice(OM.VARIANTS), rng.choice(OM.ARCHES_OK), rng.choice(OM.UIDS[:4])
                rp = ["pkg%d-0:1-%d.x86_64" % (j, j) for j in range(9)]
                ops.append([v, a, uid, "module-tag-1", "md.yaml", "binary", rp[:5]])
                ops.append([v, a, uid, "module-tag-1", "md-debug.yaml", "debug", rp[3:]])
            cell = (lambda op: (op[0], op[1], op[2])) if kind != "extra" else (lambda op: (op[0], op[1]))
            if kind == "rpms":
                # entries are keyed by CANONICAL names ('.rpm' and directories stripped): two spellings of one source package are
                # the same cell, and a later add overwrites an earlier one there, so their relative order is content
                canon = lambda n: (n[:-4] if n.endswith(".rpm") else n).rsplit("/", 1)[-1] if isinstance(n, str) else n
                cell = lambda op: (op[0], op[1], canon(op[6] or op[2]))
            cases.append({"kind": kind, "compose": OI.valid_compose(rng, R), "ops": ops,
                          "orders": cellwise_shuffles(rng, ops, cell, k)})
        elif kind == "images":
            big = (i // 6) % 4 == 3          # at scale: every fourth images case fills its cells with 100 images
            pool = [OI.gen_image(rng, R, small=False, idx=j) for j in range(100 if big else rng.randint(4, 8))]
            for j, img in enumerate(pool):
                img["disc_number"] = j + 1          # distinct identities: the order of adds cannot change the outcome
                img["path"] = "%s-%d" % (img["path"], j)
            ops = [[rng.choice(OI.VARIANTS[:2]), rng.choice(OI.ARCHES[:2]), rng.randrange(len(pool))] for _ in range(rng.randint(5, 12))]
            if big:
                ops = [["Server", "x86_64", j] for j in range(len(pool))] + ops
            # the same ISO published under two file names: two image objects equal in everything but the path, in one cell
            twin = copy.deepcopy(pool[0])
            twin["path"] = pool[0]["path"] + ".latest"
            pool.append(twin)
            ops += [["Server", "x86_64", 0], ["Server", "x86_64", len(pool) - 1]]
            # one file listed in two cells by two objects that differ in other attributes (a shared netinst ISO with a
            # subvariant per variant): the path is not an identity across cells
            other = copy.deepcopy(pool[1])
            other["subvariant"] = "Other"
            other["volume_id"] = "other-vol"
            other["disc_number"] = len(pool) + 1
            pool.append(other)
            ops += [["Server", "x86_64", 1], ["Workstation", "aarch64", len(pool) - 1]]      # a cell of its own: paths stay distinct per cell
            orders = []
            for _ in range(k):
                o = list(ops)
                rng.shuffle(o)
                orders.append(o)
            cases.append({"kind": kind, "version": None, "compose": OI.valid_compose(rng, R), "pool": pool, "ops": ops, "orders": orders})
        else:
            desc = DC.gen_ci(rng, R)["desc"]
            cases.append({"kind": kind, "desc": desc, "orders": [shuffle_desc(rng, desc) for _ in range(k)]})
    return cases


def to_model(c):
    if c["kind"] in ("rpms", "modules", "extra"):
        return ["roundtrip_" + c["kind"], [c["compose"], c["ops"]]]
    if c["kind"] == "images":
        return ["roundtrip_images", [c["version"], c["compose"], c["pool"], c["ops"]]]
    if c["kind"] == "treeinfo":
        return ["dump_ti", [c["desc"], None]]
    return ["dump_ci", c["desc"]]


def _dump_twice(o):
    try:
        a = o.dumps()
        if hasattr(o, "dump_for_tree") and hasattr(o, "extra_files"):
            # the per-tree writer of extra files, for every cell and a base path that prefixes what is stored there
            import io
            for v in sorted(o.extra_files):
                for ar in sorted(o.extra_files[v]):
                    for base in ("Server/x86_64/os", "Server", ""):
                        o.dump_for_tree(io.StringIO(), v, ar, base)
        b = o.dumps()
    except EXC as e:
        return exc_result(e)
    return ["ok", a, b]


def impl(case):
    kind = case["kind"]
    outs = []
    for oi, order in enumerate(case["orders"]):
        if kind in ("rpms", "modules", "extra"):
            o = DM._new(kind)
            for k, v in case["compose"].items():
                setattr(o.compose, k, v)
            for op in order:
                try:
                    o.add(*op)
                except EXC:
                    pass
            outs.append(_dump_twice(o))
        elif kind == "images":
            im, pool, ids = OI.build({"version": case["version"], "compose": case["compose"], "pool": case["pool"]})
            for v, a, i in order:
                try:
                    im.add(v, a, pool[i])
                except EXC:
                    pass
            outs.append(_dump_twice(im))
        elif kind == "treeinfo":
            try:
                ti = DT.build_treeinfo(order)
                if oi % 2:
                    # the object served as a template before: it was written once for another architecture, then re-targeted
                    real = ti.tree.arch
                    ti.tree.arch = "riscv64" if real != "riscv64" else "x86_64"
                    try:
                        DT._dumps(ti, None)
                    except Exception:
                        pass
                    ti.tree.arch = real
                first = DT._dumps(ti, None)
                tops = sorted(ti.variants.variants)
                if len(tops) >= 2:
                    DT._dumps(ti, tops[-1])          # an earlier dump with another main variant is not content
                third = None
                for top in sorted(order["variants"]):
                    kids = {k: v for k, v in order["variants"][top]["children"].items() if v["uid"] not in order["variants"]}
                    if kids:
                        kid = kids[sorted(kids)[0]]
                        if oi % 2:
                            # a history: this child used to be another object with other paths, was written as main variant, and
                            # was then replaced under its parent by the object described (content is what counts, not history)
                            import productmd.treeinfo as _TI
                            parent = ti.variants.variants[top]
                            real = parent.variants[kid["id"]]
                            old = _TI.Variant(ti)
                            old.id, old.uid, old.name, old.type = real.id, real.uid, real.name, real.type
                            old.paths.packages, old.paths.repository = "Old/Packages", "Old"
                            del parent.variants[kid["id"]]
                            parent.add(old)
                            DT._dumps(ti, kid["uid"])
                            del parent.variants[kid["id"]]
                            parent.add(real)
                        third = DT._dumps(ti, kid["uid"])
                        break
                outs.append(["ok", first, DT._dumps(ti, None), third])
            except EXC as e:
                outs.append(["build-error", type(e).__name__])
        else:
            try:
                outs.append(_dump_twice(DC.build(order)))
            except EXC as e:
                outs.append(["build-error", type(e).__name__])
    return outs
