"""operation sequences on rpms / modules / extra-files manifests vs Model/Manifests.v"""
import copy
import io
import json
from suites.common import rstr, exc_result

EXC = (ValueError, TypeError, AttributeError, KeyError, IndexError)

VARIANTS = ["Server", "Client", "Server-optional", "AppStream"]
ARCHES_OK = ["x86_64", "ppc64le", "i386", "aarch64", "noarch", "armhfp", "arm64"]
ARCHES_BAD = ["src", "nosrc", "bogus", ""]
NEVRA_BIN = ["bash-0:5.1-2.el9.x86_64", "bash-debuginfo-0:5.1-2.el9.x86_64.rpm", "Packages/b/bash-doc-0:5.1-2.el9.noarch.rpm",
             "gtk+3-2-1:3.24.1~rc1-2.el9_1.x86_64", "python3-3-7:3.9-1.i386", "bash-10:5.1-2.el9.x86_64",
             "glibc-0:2.34-1.el9.armhfp", "glibc-0:2.34-1.el9.armhfp.rpm", "perl-4:5.32-1.ppc.rpm", "zip-0:3.0-1.amd64",
             "bash-01:4.2-1.fc20.s390x", "glibc-00:2.18-11.fc20.x86_64.rpm"]
NEVRA_SRC = ["bash-0:5.1-2.el9.src", "bash-0:5.1-2.el9.src.rpm", "gtk+3-2-1:3.24.1~rc1-2.el9_1.nosrc", "SRPMS/python3-3-7:3.9-1.src.rpm",
             "glibc-00:2.18-11.fc20.src", "bash-007:4.2-1.fc20.nosrc.rpm"]
NEVRA_BAD = ["bash-5.1-2.el9.x86_64", "foo:bar", "", ":", "a-1:b", "x-0:1-2"]
PATHS = ["Server/x86_64/os/Packages/b/bash-5.1-2.el9.x86_64.rpm", "Packages/x.rpm", "p", "Packages/b/b\udce9sh.rpm", "caf\u00e9/x.rpm"]
PATHS_BAD = ["/abs/path.rpm", "/"]
SIGKEYS = [None, "ABCDEF12", "abcdef12", "FD431D51", ""]
CATS = ["binary", "debug", "source"]


_ALL_ARCHES = []


def random_nevra(rng, src):
    """a legal name-epoch:version-release.arch drawn from the grammar, the architecture from the library's whole table"""
    if not _ALL_ARCHES:
        from suites.common import reflect
        _ALL_ARCHES.extend(a for a in reflect()["RPM_ARCHES"] if a not in ("src", "nosrc"))
    seg = lambda: rstr(rng, "abcxyzABC0123456789._+", 1, 5)
    name = "-".join([seg() for _ in range(rng.randint(1, 3))])
    arch = rng.choice(["src", "nosrc"]) if src else rng.choice(_ALL_ARCHES)
    s = "%s-%s:%s-%s.%s" % (name, rng.choice(["0", "1", "12", "03", "2147483648", "4294967295", "10000000000", "18446744073709551616"]), rstr(rng, "0123456789.abc~^_+", 1, 6), rstr(rng, "0123456789.elfc_+", 1, 6), arch)
    return rng.choice(["", "", "Packages/", "a/b/"]) + s + rng.choice(["", ".rpm"])


def gen_rpms_op(rng):
    valid = rng.random() < 0.65
    if valid:
        src = rng.random() < 0.3
        nevra = rng.choice(NEVRA_SRC if src else NEVRA_BIN) if rng.random() < 0.7 else random_nevra(rng, src)
        cat = "source" if src else rng.choice(["binary", "debug"])
        srpm = None if src else rng.choice(NEVRA_SRC)
        return [rng.choice(VARIANTS), rng.choice(ARCHES_OK), nevra, rng.choice(PATHS), rng.choice(SIGKEYS), cat, srpm]
    return [rng.choice(VARIANTS + [""]), rng.choice(ARCHES_OK + ARCHES_BAD), rng.choice(NEVRA_BIN + NEVRA_SRC + NEVRA_BAD),
            rng.choice(PATHS + PATHS_BAD + [""]), rng.choice(SIGKEYS), rng.choice(CATS + ["bogus", ""]),
            rng.choice([None, ""] + NEVRA_SRC + NEVRA_BAD)]


UIDS = ["mod:stream", "mod:stream:123", "mod:stream:123:ctx", "nodejs:18:920240101:f2a", "a/b/mod:s", "perl-DBI:1.6"]
UIDS_BAD = ["mod", "", ":s", "m::v", "m:s:v:c:x", "m:", "a:b:", "m:s\n"]
MDPATHS = ["Server/x86_64/os/repodata/a-modules.yaml.gz", "md.yaml", "repodata/m\udcffd.yaml"]
RPMLISTS = [["a-0:1-1.x86_64"], [], ["a-0:1-1.x86_64", "b-0:1-1.noarch"], ["a-0:1-1.x86_64"],
            ["nodejs-10.14.1-1.module_2533.x86_64", "Packages/n/npm-1:6.4.1-1.x86_64.rpm", "pkg1"]]


def readd_rpms(rng, ops):
    """repeat an earlier add with another signing key and path: the later call decides"""
    if ops and rng.random() < 0.3:
        op = list(rng.choice(ops))
        op[4] = rng.choice([None, None, "00AA11BB", ""])
        op[3] = rng.choice(PATHS)
        ops.append(op)
    return ops


def gen_modules_op(rng):
    valid = rng.random() < 0.65
    if valid:
        return [rng.choice(VARIANTS), rng.choice(ARCHES_OK + ["src"]), rng.choice(UIDS), "module-tag-%d" % rng.randint(1, 3),
                rng.choice(MDPATHS), rng.choice(CATS), rng.choice(RPMLISTS)]
    return [rng.choice(VARIANTS + [""]), rng.choice(ARCHES_OK + ARCHES_BAD), rng.choice(UIDS + UIDS_BAD),
            rng.choice(["tag", ""]), rng.choice(MDPATHS + ["/abs.yaml", ""]), rng.choice(CATS + ["bogus"]),
            rng.choice(RPMLISTS + ["notalist", None, {"a": 1}])]


XPATHS = ["Server/x86_64/os/GPL", "GPL", "Server/x86_64/os-extra/EULA", "Server/x86_64/os/docs/README", "a/b", "Server/x86_64/os/LICEN\udce7E"]
SIZES = [1234, 0, 2 ** 33, None, "12"]
CHECKSUMS = [{"sha256": "ab" * 32}, {}, {"md5": "x", "sha1": "y"}]


def gen_extra_op(rng):
    valid = rng.random() < 0.7
    if valid:
        return [rng.choice(VARIANTS), rng.choice(ARCHES_OK + ["src"]), rng.choice(XPATHS), rng.choice(SIZES[:3]), rng.choice(CHECKSUMS)]
    return [rng.choice(VARIANTS + [""]), rng.choice(ARCHES_OK + ARCHES_BAD), rng.choice(XPATHS + ["", "/abs"]),
            rng.choice(SIZES), rng.choice(CHECKSUMS + [None, ["l"], "str"])]


GEN = {"rpms": gen_rpms_op, "modules": gen_modules_op, "extra": gen_extra_op}


def generate(rng, kind, n, maxops=8):
    cases = []
    for _ in range(n):
        ops = [GEN[kind](rng) for _ in range(rng.randint(1, maxops))]
        if kind == "rpms":
            ops = readd_rpms(rng, ops)
        c = {"kind": kind, "ops": ops}
        if kind == "modules" and rng.random() < 0.5:
            # callers often pass ONE list object to several add calls: share it by reference in the implementation run
            c["shared"] = [["a-0:1-1.x86_64", "b-0:1-1.noarch"], ["c-0:2-1.x86_64"]]
            for op in ops:
                if isinstance(op[6], list) and rng.random() < 0.7:
                    op[6] = {"ref": rng.randrange(2)}
        cases.append(c)
    if kind == "rpms":
        # at scale: one manifest that receives many packages, every one signed with another (upper-case) key
        for m in (40, 70):
            ops = [["Server", "x86_64", "pkg%d-0:1.%d-1.x86_64" % (i, i), "Packages/p/pkg%d.rpm" % i, "%08X" % (0xAB000000 + i * 7919), "binary",
                    "src%d-0:1-1.src" % (i % 5)] for i in range(m)]
            cases.append({"kind": kind, "ops": ops})
    return cases


def resolve_ops(case, share):
    """ops with {"ref": i} replaced by the i-th shared list: the same object when share is True (implementation),
    a copy of its value otherwise (model)"""
    shared = [list(l) for l in case.get("shared", [])]
    out = []
    for op in case["ops"]:
        op = list(op)
        if len(op) > 6 and isinstance(op[6], dict) and "ref" in op[6]:
            op[6] = shared[op[6]["ref"]] if share else list(case["shared"][op[6]["ref"]])
        out.append(op)
    return out


def _mk(kind):
    import productmd.rpms, productmd.modules, productmd.extra_files
    if kind == "rpms":
        o = productmd.rpms.Rpms()
        return o, (lambda: o.rpms)
    if kind == "modules":
        o = productmd.modules.Modules()
        return o, (lambda: o.modules)
    o = productmd.extra_files.ExtraFiles()
    return o, (lambda: o.extra_files)


def impl(case):
    o, state = _mk(case["kind"])
    out = []
    for op in resolve_ops(case, True):
        try:
            o.add(*op)
            out.append(["ok", copy.deepcopy(state())])
        except EXC as e:
            out.append(["err", type(e).__name__, copy.deepcopy(state())])
    return out


def impl_dump_for_tree(case):
    o, state = _mk("extra")
    for op in case["ops"]:
        try:
            o.add(*op)
        except EXC:
            pass

    def dump(base):
        buf = io.StringIO()
        o.dump_for_tree(buf, case["variant"], case["arch"], base)
        return json.loads(buf.getvalue())

    before = copy.deepcopy(state())
    try:
        doc = dump(case["base"])
    except EXC as e:
        return exc_result(e)
    if doc.get("header") != {"version": "1.0"}:
        return ["bad-header", doc.get("header")]
    # writing a per-tree file is a read-only operation on the manifest: the mapping is what the add calls made it, and the
    # same call gives the same file again, whatever other base paths were used in between
    if state() != before:
        return ["dump-changed-manifest", before, copy.deepcopy(state())]
    try:
        for other in case.get("others", ["", "Server", "Server/x86_64/os"]):
            dump(other)
        again = dump(case["base"])
    except EXC as e:
        return ["dump-not-repeatable", exc_result(e)]
    if again != doc:
        return ["dump-not-repeatable", doc["data"], again["data"]]
    if state() != before:
        return ["dump-changed-manifest", before, copy.deepcopy(state())]
    return ["ok", doc["data"]]


def impl_relative_to(case):
    from productmd.extra_files import _relative_to
    root = case["root"]
    if root.startswith("<cwd>"):
        import os
        root = os.getcwd() + root[len("<cwd>"):]
    return _relative_to(case["path"], root)
