"""Images.add histories, loaded documents and identify_image vs Model/Images.v"""
import copy
import json
from suites.common import api_consistency, exc_result, reflect, rstr, DIGITS

EXC = (ValueError, TypeError, AttributeError, KeyError, IndexError)
FIELDS = ["path", "mtime", "size", "volume_id", "type", "format", "arch", "disc_number", "disc_count", "checksums",
          "implant_md5", "bootable", "subvariant", "unified", "additional_variants"]
DOC7 = ["subvariant", "type", "format", "arch", "disc_number", "unified", "additional_variants"]   # the documented identity
VARIANTS = ["Server", "Client", "Workstation", "Server-optional"]
ARCHES = ["x86_64", "ppc64le", "aarch64", "i386", "armhfp", "amd64", "noarch"]      # the last three: rarely used table entries
BAD_ARCHES = ["src", "nosrc", "bogus", ""]


def valid_compose(rng, R=None):
    R = R or reflect()
    date = rstr(rng, DIGITS, 8, 8)
    ct = rng.choice(R["COMPOSE_TYPES"])
    sfx = {"production": "", "nightly": ".n", "test": ".t", "ci": ".ci", "development": ".d"}.get(ct, "")
    respin = rng.randint(0, 20)
    c = {"id": "Fedora-%s-%s%s.%d" % (rng.choice(["22", "Rawhide", "9.1", "20240101", "123456789.2"]), date, sfx, respin), "type": ct, "date": date,
         "respin": respin, "label": None, "final": False}
    if rng.random() < 0.12:
        c["respin"] = 0                       # the stored respin is a fact of its own: 0 is a value, not "missing"
    if rng.random() < 0.4:
        c["label"] = "%s-%d.%d" % (rng.choice(R["LABEL_NAMES"]), rng.randint(0, 9), rng.randint(0, 9))
        c["final"] = rng.random() < 0.5
    return c


def gen_image(rng, R, small=True, idx=0):
    types = R["SUPPORTED_IMAGE_TYPES"]
    formats = R["SUPPORTED_IMAGE_FORMATS"]
    unified = rng.random() < 0.2
    img = {
        "path": "%s/%s/iso/img-%d-%s.iso" % (rng.choice(VARIANTS), rng.choice(ARCHES), idx, rstr(rng, "abc", 1, 3)),
        "mtime": rng.choice([rng.randint(1, 2 ** 31), rng.randint(1, 2 ** 31), 1538000000123456789, 2 ** 53 + 1, 2 ** 61 + 12345]), "size": rng.choice([1, 2048, 2 ** 33 + 5, rng.randint(1, 2 ** 40)]),
        "volume_id": rng.choice([None, "Fedora-S-dvd-x86_64-22", "vol"]),
        "type": rng.choice(["dvd", "boot"] if small else types), "format": rng.choice(["iso"] if small else formats),
        "arch": rng.choice(["x86_64", "src"] if small else ARCHES + ["src"]),
        "disc_number": rng.choice([1, 2, 1, 2, 0]), "disc_count": rng.choice([1, 2, 1, 2, 0]),
        "checksums": rng.choice([{"sha256": "a" * 64}, {"sha256": "b" * 64}, {"md5": "c" * 32, "sha256": "a" * 64}] + ([{}] if small else [])),
        "implant_md5": rng.choice([None, "0123456789abcdef" * 2]), "bootable": rng.random() < 0.5,
        "subvariant": rng.choice(["Server", "", "KDE"] if small else ["Server", "KDE", "", "Workstation"]),
        "unified": unified, "additional_variants": (rng.sample(VARIANTS, rng.randint(1, 2)) if unified and rng.random() < 0.7 else []),
    }
    return img


def generate(rng, n):
    R = reflect()
    cases = []
    for _ in range(n):
        pool = [gen_image(rng, R, small=rng.random() < 0.7, idx=i) for i in range(rng.randint(2, 6))]
        if rng.random() < 0.3 and len(pool) >= 2:      # an exact value-duplicate as a distinct object
            pool[1] = copy.deepcopy(pool[0])
        elif rng.random() < 0.5 and len(pool) >= 2 and pool[0]["checksums"]:
            # the same identity with other checksums: a different digest, or the same digests plus one more
            pool[1] = copy.deepcopy(pool[0])
            pool[1]["path"] = pool[0]["path"] + ".other"
            pool[1]["checksums"] = rng.choice([{"sha256": "f" * 64}, dict(pool[0]["checksums"], sha1="1" * 40),
                                               {k: v for k, v in list(pool[0]["checksums"].items())[:1]} if len(pool[0]["checksums"]) > 1 else {"md5": "2" * 32}])
        ops = []
        for _ in range(rng.randint(1, 9)):
            k = rng.random()
            arch = rng.choice(ARCHES) if k < 0.7 else (rng.choice(R["RPM_ARCHES"]) if k < 0.8 else rng.choice(BAD_ARCHES))
            ops.append([rng.choice(VARIANTS), arch, rng.randrange(len(pool))])
        ver = rng.choice([None, None, "1.2", "1.1", "1.0", "0.9", "1.10", "2.0"])   # None = fresh Images(), version untouched
        cases.append({"version": ver, "compose": valid_compose(rng, R), "pool": pool, "ops": ops})
    # at scale: one cell that receives many images (distinct disc numbers), and only then the interesting adds
    for m in (70, 150):
        base = gen_image(rng, R, small=True, idx=0)
        base.update({"unified": False, "additional_variants": [], "checksums": {"sha256": "a" * 64}, "arch": "x86_64"})
        pool = []
        for i in range(m):
            o = copy.deepcopy(base)
            o["path"] = "Server/x86_64/iso/disc-%03d.iso" % ((i * 37) % m)          # not added in path order
            o["disc_number"] = i + 1
            o["disc_count"] = m
            pool.append(o)
        u1 = copy.deepcopy(base)
        u1.update({"path": "Server/x86_64/iso/unified-a.iso", "unified": True, "additional_variants": ["Client", "Workstation"], "checksums": {"sha256": "1" * 64}})
        u2 = copy.deepcopy(u1)
        u2.update({"path": "Server/x86_64/iso/unified-b.iso", "additional_variants": ["Workstation", "Client"], "checksums": {"sha256": "2" * 64}})
        clash = copy.deepcopy(pool[3])
        clash.update({"path": "Server/x86_64/iso/clash.iso", "checksums": {"sha256": "f" * 64}})
        pool += [u1, u2, clash]
        ops = [["Server", "x86_64", i] for i in range(m)]
        if m == 70:
            ops = [["Server", "x86_64", m], ["Server", "x86_64", m + 1]] + ops        # the unified pair is there before the cell grows
        ops += [["Server", "x86_64", m], ["Server", "x86_64", m + 1], ["Server", "x86_64", m + 2], ["Server", "src", 5], ["Server", "nosrc", 6],
                ["Server", "bogus", 7], ["Client", "x86_64", m], ["Client", "x86_64", m + 1]]
        cases.append({"version": None, "compose": valid_compose(rng, R), "pool": pool, "ops": ops})
    return cases


def to_model(c):
    return [c["version"], c["compose"], c["pool"], c["ops"]]


def _snapshot(im, ids):
    return {v: {a: sorted(ids[id(o)] for o in cell) for a, cell in arches.items()} for v, arches in im.images.items()}


def build(case):
    import productmd.images as IM
    im = IM.Images()
    if case["version"] is not None:
        im.header.version = case["version"]
    for k, v in case["compose"].items():
        setattr(im.compose, k, v)
    pool, ids = [], {}
    for i, d in enumerate(case["pool"]):
        o = IM.Image(im)
        for k, v in d.items():
            setattr(o, k, copy.deepcopy(v))
        if i % 2 == 0 and isinstance(d.get("additional_variants"), list) and d["additional_variants"]:
            # the list is filled IN PLACE, after the object was identified once while it was still empty
            o.additional_variants = []
            try:
                IM.identify_image(o)
            except Exception:
                pass
            o.additional_variants.extend(copy.deepcopy(d["additional_variants"]))
        if i % 2 == 0 and isinstance(d.get("checksums"), dict) and d["checksums"]:
            o.checksums = {}
            o.checksums.update(copy.deepcopy(d["checksums"]))
        pool.append(o)
        ids[id(o)] = i
    return im, pool, ids


def impl(case):
    im, pool, ids = build(case)
    steps = []
    for v, a, i in case["ops"]:
        try:
            im.add(v, a, pool[i])
            steps.append(["ok", _snapshot(im, ids)])
        except EXC as e:
            steps.append(["err", type(e).__name__, _snapshot(im, ids)])
    try:
        final = ["ok", json.loads(im.dumps())]
    except EXC as e:
        final = exc_result(e)
    return [steps, final]


def norm_steps(r):
    """sort the ids in each cell (a Python set has no order)"""
    if not (isinstance(r, list) and len(r) == 2 and isinstance(r[0], list)):
        return r
    out = []
    for st in r[0]:
        st = list(st)
        snap = st[-1]
        if isinstance(snap, dict):
            st[-1] = {v: {a: sorted(ids) for a, ids in arches.items()} for v, arches in snap.items()}
        out.append(st)
    return [out, r[1]]


def impl_identify(img):
    import productmd.images as IM
    im = IM.Images()
    o = IM.Image(im)
    for k, v in img.items():
        setattr(o, k, copy.deepcopy(v))
    a = list(IM.identify_image(o))
    try:
        out = []
        o.serialize(out)
        b = list(IM.identify_image(out[0]))
    except EXC as e:
        b = exc_result(e)
    return [a, b]


def describe(im):
    cells, full, n = {}, {}, 0
    for v in im.images:
        for a in im.images[v]:
            objs = sorted(im.images[v][a], key=lambda o: (str(o.path), id(o)))
            full.setdefault(v, {})[a] = [{f: getattr(o, f) for f in FIELDS} for o in objs]
    comp = {k: getattr(im.compose, k) for k in ["id", "type", "date", "respin", "label", "final"]}
    try:
        dump = ["ok", json.loads(im.dumps())]
    except EXC as e:
        dump = exc_result(e)
    return [full, comp, dump]


def impl_load(case):
    import productmd.images as IM
    im = IM.Images()
    if case.get("preload"):
        try:
            im.loads(json.dumps(case["preload"]))         # the same object is used for a second load
        except Exception:
            pass
    if case.get("pre") == "failed":
        try:        # a current-version document that is refused after its header was read
            im.loads(json.dumps({"header": {"version": "1.2", "type": "productmd.images"}, "payload": {}}))
        except Exception:
            pass
    elif case.get("pre") == "add":
        held = IM.Image(im)     # the manifest already holds an image (in a variant of its own) when the document is loaded
        for k, v in {"path": "Held/x.iso", "mtime": 1, "size": 1, "volume_id": None, "type": "dvd", "format": "iso", "arch": "x86_64",
                     "disc_number": 1, "disc_count": 1, "checksums": {"sha256": "a" * 64}, "implant_md5": None, "bootable": False,
                     "subvariant": "Held"}.items():
            setattr(held, k, v)
        im.add("Held-held", "x86_64", held)
    try:
        im.loads(json.dumps(case["doc"]))
    except EXC as e:
        return exc_result(e)
    im.images.pop("Held-held", None)
    return ["ok", describe(im)]


def impl_roundtrip(case):
    """build by add calls, dumps, loads, describe, dumps again"""
    import productmd.images as IM
    im, pool, ids = build(case)
    accepted = {}
    for v, a, i in case["ops"]:
        try:
            im.add(v, a, pool[i])
            accepted.setdefault(v, {}).setdefault(a, set()).add(i)
        except EXC:
            pass
    accepted = {v: {a: sorted(s) for a, s in arches.items()} for v, arches in accepted.items()}
    for v, a in case.get("empty_buckets", []):
        im.images.setdefault(v, {}).setdefault(a, set())          # e.g. left behind after the last image was discarded
    placed = {v: {a: sorted(({f: getattr(o, f) for f in FIELDS} for o in cell), key=lambda d: str(d["path"]))
                  for a, cell in arches.items()} for v, arches in im.images.items()}
    from suites.common import snap
    before = snap(im)
    try:
        text = im.dumps()
    except EXC as e:
        return exc_result(e)
    api = api_consistency(im, IM.Images, text, before=before)
    if api:
        return ["api-inconsistent", api]
    im2 = IM.Images()
    try:
        im2.loads(text)
    except EXC as e:
        return ["ok", [text, exc_result(e)], placed, accepted]
    full, comp, dump = describe(im2)
    try:
        again = ["ok", im2.dumps()]
    except EXC as e:
        again = exc_result(e)
    # load -> edit ONE listed image -> dump -> load: every other listing keeps its attributes
    try:
        im3 = IM.Images()
        im3.loads(text)
        cells = [(v, a) for v in sorted(im3.images) for a in sorted(im3.images[v])]
        if len(cells) >= 2:
            v0, a0 = cells[0]
            victim = sorted(im3.images[v0][a0], key=lambda o: o.path)[0]
            victim.mtime = victim.mtime + 1
            victim.bootable = not victim.bootable
            im4 = IM.Images()
            im4.loads(im3.dumps())
            f4 = describe(im4)[0]
            for (v, a) in cells[1:]:
                if f4.get(v, {}).get(a) != full.get(v, {}).get(a):
                    return ["edit-leaked", [v0, a0, victim.path], [v, a]]
    except EXC as e:
        return ["edit-after-load-failed", exc_result(e)]
    empties = [[v, a] for v, arches in json.loads(text)["payload"]["images"].items() for a, l in arches.items() if not l]
    if empties:
        return ["empty-cell-written", empties]
    placed = {v: {a: l for a, l in arches.items() if l} for v, arches in placed.items()}
    placed = {v: arches for v, arches in placed.items() if arches}
    return ["ok", [text, ["ok", [[full, comp, dump], again]]], placed, accepted]


def impl_load_then_add(case):
    """load an (older) images document, then add an image with the identity of a loaded one and other checksums"""
    import productmd.images as IM
    im = IM.Images()
    try:
        im.loads(json.dumps(case["doc"]))
    except EXC as e:
        return ["load-" + type(e).__name__]
    version_after = im.header.version
    out = [version_after]
    for v in sorted(im.images):
        for a in sorted(im.images[v]):
            for old in sorted(im.images[v][a], key=lambda o: o.path):
                new = IM.Image(im)
                for f in FIELDS:
                    setattr(new, f, copy.deepcopy(getattr(old, f)))
                new.path = old.path + ".copy"
                new.checksums = {"sha256": "f" * 64}
                try:
                    im.add(v, a, new)
                    out.append(["accepted", v, a, old.path])
                except EXC as e:
                    out.append([type(e).__name__])
                return out
    return out


def impl_add_then_load(case):
    """a manifest that already holds images loads a current document in which one image has the identity of an image it
    holds and other checksums: the same rule applies, whatever route the second image takes"""
    import productmd.images as IM
    src = IM.Images()
    try:
        src.loads(json.dumps(case["doc"]))
    except EXC as e:
        return ["load-" + type(e).__name__]
    cells = [(v, a) for v in sorted(src.images) for a in sorted(src.images[v])]
    if not cells:
        return ["empty"]
    v, a = cells[0]
    old = sorted(src.images[v][a], key=lambda o: o.path)[0]
    holder = IM.Images()
    for k in ("id", "type", "date", "respin", "label", "final"):
        setattr(holder.compose, k, getattr(src.compose, k))
    twin = IM.Image(holder)
    for f in FIELDS:
        setattr(twin, f, copy.deepcopy(getattr(old, f)))
    twin.path = old.path + ".held"
    twin.checksums = {"sha256": "e" * 64}
    other_arch = [x for x in ("x86_64", "ppc64le", "aarch64", "s390x") if x != a][0]
    try:
        holder.add(case.get("holder_variant", "Held"), other_arch if case.get("other_cell") else a, twin)
    except EXC as e:
        return ["setup-" + type(e).__name__]
    doc = json.loads(src.dumps())          # a current-version document
    try:
        holder.loads(json.dumps(doc))
    except ValueError:
        return ["refused"]
    except EXC as e:
        return ["raised", type(e).__name__]
    return ["accepted", v, a, old.path]
