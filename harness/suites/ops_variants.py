"""composeinfo variant forest: add histories, lookups, get_variants vs Model/Variants.v"""
from suites.common import reflect

ARCHSETS = [["x86_64"], ["x86_64", "ppc64le"], ["ppc64le"], ["x86_64", "ppc64le", "aarch64"], ["aarch64"], [],
            ["src"], ["x86_64", "src"], ["noarch"], ["x86_64", "nosrc"]]
TYPES = ["variant", "optional", "addon", "layered-product"]


def mkv(vid, uid, vtype, arches, name=None):
    return {"id": vid, "uid": uid, "name": name if name is not None else vid, "type": vtype, "arches": sorted(arches)}


def gen_pool(rng):
    pool = []
    tops = rng.sample(["Server", "Client", "Workstation", "AppStream"], rng.randint(1, 3))
    for t in tops:
        ta = rng.choice(ARCHSETS[:4])
        pool.append(mkv(t, t, "variant", ta))
        for cid in rng.sample(["optional", "HA", "RS", "SAP"], rng.randint(0, 2)):
            k = rng.random()
            if k < 0.65:
                ca = rng.sample(ta, rng.randint(1, len(ta)))
            elif k < 0.85:
                ca = rng.choice(ARCHSETS)                      # possibly foreign (incl. the pseudo-architectures) / empty
            else:
                ca = ta
            cuid = "%s-%s" % (t, cid) if rng.random() < 0.85 else rng.choice([cid, "%s_%s" % (t, cid), "X-%s" % cid, t + cid, "%s-%s-%s" % (t[:3], t[3:], cid), "%s-%s-%s" % (t, cid[:2], cid[2:])])
            pool.append(mkv(cid, cuid, rng.choice(["optional", "addon", "variant", "layered-product"]), ca))
            if rng.random() < 0.4:
                pool.append(mkv("sub", cuid + "-sub", "addon", ca[:1] or ["x86_64"]))
    if rng.random() < 0.4:                                       # dashed top-level UID on a childless variant
        t = rng.choice(tops)
        pool.append(mkv(t + "optional", t + "-optional", rng.choice(["optional", "variant"]), ["x86_64"]))
    if rng.random() < 0.25:                                      # invalid fields
        pool.append(mkv(rng.choice(["bad-id", "", "Ok"]), "Ok", rng.choice(TYPES + ["bogus"]), ["x86_64"], name=rng.choice(["", "n"])))
    if rng.random() < 0.2 and pool:                              # a second object with the same id/uid
        pool.append(dict(pool[0]))
    return pool[:7]


def gen_ops(rng, pool):
    n = len(pool)
    ops = []
    # mostly sensible: parents before children
    by_uid = {p["uid"]: i + 1 for i, p in enumerate(pool)}
    for i, p in enumerate(pool):
        idx = i + 1
        if rng.random() < 0.85:
            parent_uid = p["uid"].rsplit("-", 1)[0] if "-" in p["uid"] else None
            c = by_uid.get(parent_uid, 0) if (parent_uid and rng.random() < 0.85) else 0
            if rng.random() < 0.1:
                c = rng.randrange(n + 1)
            vid = None
            if c == 0 and "-" in p["uid"] and rng.random() < 0.5:
                vid = p["uid"]
            ops.append([c, idx, vid])
    for _ in range(rng.randint(0, 4)):                           # disturbances: re-adds, moves, cycles
        ops.insert(rng.randrange(len(ops) + 1), [rng.randrange(n + 1), rng.randrange(1, n + 1), None])
    return ops[:12]


def gen_queries(rng, pool):
    qs = []
    for p in pool:
        qs.append(["getitem", 0, p["uid"]])
    for i, p in enumerate(pool):
        if rng.random() < 0.3:
            qs.append(["getitem", rng.randrange(len(pool) + 1), p["id"]])
    for arch in [None, "x86_64", "ppc64le", "src", "aarch64"]:
        for types in [[], ["variant"], ["optional", "addon"], ["variant", "optional", "addon", "layered-product"]]:
            for rec in [False, True]:
                if rng.random() < 0.5:
                    qs.append(["get_variants", 0, arch, types, rec])
    for i, p in enumerate(pool):
        if rng.random() < 0.3:
            qs.append(["get_variants", i + 1, rng.choice([None, "x86_64"]), rng.choice([[], ["self"], ["self", "addon"]]), rng.random() < 0.5])
    return qs


def generate(rng, n):
    cases = []
    for _ in range(n):
        pool = gen_pool(rng)
        cases.append({"pool": pool, "ops": gen_ops(rng, pool), "queries": gen_queries(rng, pool)})
    return cases


def to_model(c):
    return [c["pool"], c["ops"], c["queries"]]


def build(case):
    import productmd.composeinfo as CI
    ci = CI.ComposeInfo()
    objs = [ci.variants]
    for p in case["pool"]:
        v = CI.Variant(ci)
        v.id, v.uid, v.name, v.type = p["id"], p["uid"], p["name"], p["type"]
        v.arches = set(p["arches"])
        objs.append(v)
    return ci, objs


def snapshot(objs):
    ids = {id(o): i for i, o in enumerate(objs)}
    out = []
    for o in objs:
        par = getattr(o, "parent", None)
        out.append([ids.get(id(par)) if par is not None else None,
                    {k: ids.get(id(v), -1) for k, v in o.variants.items()}])
    return out


def impl(case):
    ci, objs = build(case)
    ids = {id(o): i for i, o in enumerate(objs)}
    steps = []
    for c, v, vid in case["ops"]:
        try:
            if vid is None:
                objs[c].add(objs[v])
            else:
                objs[c].add(objs[v], variant_id=vid)
            steps.append(["ok", snapshot(objs)])
        except RecursionError:
            steps.append(["err", "RecursionError", snapshot(objs)])
        except Exception as e:
            steps.append(["err", type(e).__name__, snapshot(objs)])
    answers = []
    for q in case["queries"]:
        try:
            if q[0] == "getitem":
                answers.append(["ok", ids.get(id(objs[q[1]][q[2]]), -1)])
            else:
                res = objs[q[1]].get_variants(arch=q[2], types=q[3], recursive=q[4])
                answers.append([ids.get(id(o), -1) for o in res])
        except RecursionError:
            answers.append(["err", "RecursionError"])
        except Exception as e:
            answers.append(["err", type(e).__name__])
    return [steps, answers]
