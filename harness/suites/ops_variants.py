"""composeinfo variant forest: add histories, lookups, get_variants vs Model/Variants.v"""
from suites.common import reflect

ARCHSETS = [["x86_64"], ["x86_64", "ppc64le"], ["ppc64le"], ["x86_64", "ppc64le", "aarch64"], ["aarch64"], [],
            ["src"], ["x86_64", "src"], ["noarch"], ["x86_64", "nosrc"]]
WIDE = ["aarch64", "alpha", "armhfp", "i386", "ia64", "mips", "ppc", "ppc64", "ppc64le", "riscv64", "s390", "s390x", "sparc64"]
TYPES = ["variant", "optional", "addon", "layered-product"]


def mkv(vid, uid, vtype, arches, name=None):
    return {"id": vid, "uid": uid, "name": name if name is not None else vid, "type": vtype, "arches": sorted(arches)}


def gen_pool(rng):
    pool = []
    tops = rng.sample(["Server", "Client", "Workstation", "AppStream"], rng.randint(1, 3))
    wide = rng.random() < 0.15      # at scale: a parent with 13 architectures, children with all of them (and one more)
    for t in tops:
        ta = list(WIDE) if wide else rng.choice(ARCHSETS[:4])
        pool.append(mkv(t, t, "variant", ta))
        for cid in rng.sample(["optional", "HA", "RS", "SAP"], rng.randint(0, 2)):
            k = rng.random()
            if k < 0.65:
                ca = rng.sample(ta, rng.randint(1, len(ta)))
            elif k < 0.85:
                ca = rng.choice(ARCHSETS)                      # possibly foreign (incl. the pseudo-architectures) / empty
            else:
                ca = ta
            if wide and rng.random() < 0.7:
                ca = list(ta) + rng.choice([["x86_64"], ["x86_64"], []])          # "x86_64" is not among WIDE and sorts after all of them
            cuid = "%s-%s" % (t, cid) if rng.random() < 0.85 else rng.choice([cid, "%s_%s" % (t, cid), "X-%s" % cid, t + cid, "%s-%s-%s" % (t[:3], t[3:], cid), "%s-%s-%s" % (t, cid[:2], cid[2:])])
            pool.append(mkv(cid, cuid, rng.choice(["optional", "addon", "variant", "layered-product"]), ca))
            if rng.random() < 0.4:
                pool.append(mkv("sub", cuid + "-sub", "addon", ca[:1] or ["x86_64"]))
    if rng.random() < 0.4:                                       # dashed top-level UID on a childless variant
        t = rng.choice(tops)
        pool.append(mkv(t + "optional", t + "-optional", rng.choice(["optional", "variant"]), ["x86_64"]))
        if rng.random() < 0.5:                                   # ... and a different object claiming the same id and UID
            pool.append(mkv(t + "optional", t + "-optional", rng.choice(["optional", "variant", "addon"]), rng.choice([["x86_64"], ["ppc64le"]]), name="twin"))
    if rng.random() < 0.25:                                      # invalid fields
        pool.append(mkv(rng.choice(["bad-id", "", "Ok"]), "Ok", rng.choice(TYPES + ["bogus"]), ["x86_64"], name=rng.choice(["", "n"])))
    if rng.random() < 0.2 and pool:                              # a second object with the same id/uid
        pool.append(dict(pool[0]))
    return pool[:7]


def gen_ops(rng, pool):
    n = len(pool)
    ops = []
    # mostly sensible: parents before children
    by_uid = {p["uid"]: i + 1 for i, p in enumerate(pool)}
    for i, p in enumerate(pool):
        idx = i + 1
        if rng.random() < 0.85:
            parent_uid = p["uid"].rsplit("-", 1)[0] if "-" in p["uid"] else None
            c = by_uid.get(parent_uid, 0) if (parent_uid and rng.random() < 0.85) else 0
            if "-" in p["uid"] and p["id"] == p["uid"].replace("-", "") and rng.random() < 0.85:
                c = 0                                            # a dashed top-level UID belongs at the top
            if rng.random() < 0.1:
                c = rng.randrange(n + 1)
            vid = None
            if c == 0 and "-" in p["uid"] and rng.random() < 0.5:
                vid = p["uid"]
            ops.append([c, idx, vid])
    for _ in range(rng.randint(0, 4)):                           # disturbances: re-adds, moves, cycles
        ops.insert(rng.randrange(len(ops) + 1), [rng.randrange(n + 1), rng.randrange(1, n + 1), None])
    return ops[:12]


def gen_queries(rng, pool):
    qs = []
    for p in pool:
        qs.append(["getitem", 0, p["uid"]])
    for i, p in enumerate(pool):
        if rng.random() < 0.3:
            qs.append(["getitem", rng.randrange(len(pool) + 1), p["id"]])
    for arch in [None, "x86_64", "ppc64le", "src", "aarch64", "nosrc", "noarch", "bogus"]:
        for types in [[], ["variant"], ["optional", "addon"], ["variant", "optional", "addon", "layered-product"]]:
            for rec in [False, True]:
                if rng.random() < 0.5:
                    qs.append(["get_variants", 0, arch, types, rec])
    for i, p in enumerate(pool):
        if rng.random() < 0.3:
            qs.append(["get_variants", i + 1, rng.choice([None, "x86_64"]), rng.choice([[], ["self"], ["self", "addon"]]), rng.random() < 0.5])
    return qs


def generate(rng, n):
    cases = []
    for _ in range(n):
        pool = gen_pool(rng)
        cases.append({"pool": pool, "ops": gen_ops(rng, pool), "queries": gen_queries(rng, pool)})
    return cases


def to_model(c):
    return [c["pool"], c["ops"], c["queries"]]


def build(case):
    import productmd.composeinfo as CI
    ci = CI.ComposeInfo()
    objs = [ci.variants]
    for p in case["pool"]:
        v = CI.Variant(ci)
        v.id, v.uid, v.name, v.type = p["id"], p["uid"], p["name"], p["type"]
        v.arches = set(p["arches"])
        objs.append(v)
    return ci, objs


def snapshot(objs):
    ids = {id(o): i for i, o in enumerate(objs)}
    out = []
    for o in objs:
        par = getattr(o, "parent", None)
        out.append([ids.get(id(par)) if par is not None else None,
                    {k: ids.get(id(v), -1) for k, v in o.variants.items()}])
    return out


def impl(case):
    ci, objs = build(case)
    ids = {id(o): i for i, o in enumerate(objs)}
    steps = []
    for c, v, vid in case["ops"]:
        try:
            if vid is None:
                objs[c].add(objs[v])
            else:
                objs[c].add(objs[v], variant_id=vid)
            steps.append(["ok", snapshot(objs)])
        except RecursionError:
            steps.append(["err", "RecursionError", snapshot(objs)])
        except Exception as e:
            steps.append(["err", type(e).__name__, snapshot(objs)])
    answers = []
    for q in case["queries"]:
        try:
            if q[0] == "getitem":
                answers.append(["ok", ids.get(id(objs[q[1]][q[2]]), -1)])
            else:
                res = objs[q[1]].get_variants(arch=q[2], types=q[3], recursive=q[4])
                answers.append([ids.get(id(o), -1) for o in res])
        except RecursionError:
            answers.append(["err", "RecursionError"])
        except Exception as e:
            answers.append(["err", type(e).__name__])
    return [steps, answers, after_cycle(ci)]


EXC = (ValueError, TypeError, AttributeError, KeyError, IndexError)


def _walk(container, path=()):
    """(path of container keys, uid, id) of every variant below a container, depth first in key order"""
    out = []
    for key in sorted(container.variants):
        v = container.variants[key]
        # (a top-level variant may have been filed under its UID by the caller; after a load it is filed under its id)
        out.append([list(path) + [v.id], v.uid, v.id])
        if len(path) < 6:
            out.extend(_walk(v, tuple(path) + (v.id,)))
    return out


def after_cycle(ci):
    """"the same forests after a write/read cycle": keys, lookups by UID from the top and by id from the parent, and
    get_variants must be what they were before the forest was written and read back"""
    import productmd.composeinfo as CI
    ci.release.name, ci.release.short, ci.release.version, ci.release.type = "Fedora", "F", "22", "ga"
    ci.release.is_layered = False
    ci.compose.id, ci.compose.type, ci.compose.date, ci.compose.respin = "F-22-20240101.n.0", "nightly", "20240101", 0
    def fill(container, depth=0):
        for v in container.variants.values():
            if v.type == "layered-product":
                v.release.name, v.release.short, v.release.version, v.release.type = "Layered", "L", "1", "ga"
            if depth < 6:
                fill(v, depth + 1)
    fill(ci.variants)
    if any("-" in v.uid and v.variants for v in ci.variants.variants.values() if isinstance(v.uid, str)):
        return None                      # a dashed top-level UID with children: outside the property's range (observation O11)
    before = _walk(ci.variants)
    uids = [b[1] for b in before]
    if len(uids) != len(set(uids)):
        return None                      # an object filed twice (observation O11): not a forest
    try:
        text = ci.dumps()
    except Exception:
        return None                      # not writable (e.g. a child whose parent was never added): nothing to cycle
    ci2 = CI.ComposeInfo()
    try:
        ci2.loads(text)
    except EXC:
        return None                      # histories that misfile an object (a child also placed at the top) are not forests: C01 covers well-formed ones
    problems = []
    try:
        after = _walk(ci2.variants)
    except Exception as e:
        return ["walk-failed", type(e).__name__]
    if after != before:
        problems.append("keys/uids/ids per level changed: %r -> %r" % (before, after))
    for path, uid, vid in before:
        try:
            if ci2.variants[uid].uid != uid:
                problems.append("variants[%r] after the cycle is %r" % (uid, ci2.variants[uid].uid))
        except EXC as e:
            problems.append("variants[%r] after the cycle raises %s" % (uid, type(e).__name__))
        try:
            parent = ci2.variants
            for k in path[:-1]:
                parent = parent.variants[k]
            if parent[vid].uid != uid:
                problems.append("looking %r up from its parent by id gives %r" % (vid, parent[vid].uid))
        except EXC as e:
            problems.append("looking %r up from its parent by id raises %s" % (vid, type(e).__name__))
    try:
        a = [v.uid for v in ci.variants.get_variants(recursive=True)]
        b = [v.uid for v in ci2.variants.get_variants(recursive=True)]
        if a != b:
            problems.append("get_variants(recursive=True): %r before, %r after" % (a, b))
    except EXC:
        pass
    return problems[:3]
