"""C07: valid current-version documents with exactly one corruption"""
import copy
import json
from suites.common import exc_result, reflect
from suites import docs_composeinfo as DC, ops_images as OI, docs_manifests as DM, ops_manifests as OM, docs_treeinfo as DT
from suites import corrupt as CR

EXC = (ValueError, TypeError, AttributeError, KeyError, IndexError)
KINDS = ["composeinfo", "images", "rpms", "modules", "extra"]
OTHER_TYPE = {"composeinfo": "productmd.images", "images": "productmd.rpms", "rpms": "productmd.composeinfo",
              "modules": "productmd.rpms", "extra": "productmd.modules", "treeinfo": "productmd.discinfo"}
BAD_VERSIONS = ["1", "1.2.3", "v1.2", "", "1,2", None, 1.2, "one.two", "102", "1_2", "0012", "1x2", "1-2", "1 2"]


def impl_valid_doc(case):
    """build valid content through the API and return the written document (parsed)"""
    kind, content = case["kind"], case["content"]
    if kind == "composeinfo":
        return json.loads(DC.build(content).dumps())
    if kind == "images":
        im, pool, ids = OI.build(content)
        for v, a, i in content["ops"]:
            im.add(v, a, pool[i])
        return json.loads(im.dumps())
    o = DM._new(kind)
    for k, v in content["compose"].items():
        setattr(o.compose, k, v)
    for op in content["ops"]:
        try:
            o.add(*op)
        except EXC:
            pass
    return json.loads(o.dumps())


def gen_content(rng, kind, R):
    if kind == "composeinfo":
        d = DC.gen_ci(rng, R)["desc"]
        if rng.random() < 0.5:
            d[1]["is_layered"] = True
            d[2] = {"name": "Base", "version": "7", "short": "RHEL", "type": "ga"}
        if not d[0].get("label"):
            d[0]["label"], d[0]["final"] = "RC-1.0", True
        return d
    comp = OI.valid_compose(rng, R)
    if not comp.get("label"):
        comp["label"], comp["final"] = "RC-1.0", True
    if kind == "images":
        pool = [OI.gen_image(rng, R, small=False, idx=j) for j in range(3)]
        for j, img in enumerate(pool):
            img["disc_number"] = j + 1
        return {"version": None, "compose": comp, "pool": pool, "ops": [["Server", "x86_64", 0], ["Server", "x86_64", 1], ["Client", "ppc64le", 2]]}
    return {"kind": kind, "compose": comp, "ops": [OM.GEN[kind](rng) for _ in range(4)]}


# fields whose loaded value is NOT coerced by the reader: a value outside the domain must be rejected
STRICT = {
    "compose": {"id": CR.COMPOSE["id"], "type": CR.COMPOSE["type"], "date": CR.COMPOSE["date"], "respin": CR.COMPOSE["respin"],
                "label": ["GA", "RC-1", 5, "Beta-1.0.1", "rc-1.0", "RC-100", "RC-1x0", "Beta-1-2", "Update-2_10", "EA-123456"]},
    "release": {"name": [None, 5], "short": [None, 5], "version": ["1.", "1..2", None, 5, "1a", ""], "type": ["bogus", None, 5]},
    "base_product": {"name": [None, 5], "short": [None, 5], "version": ["1.", None, "1a"], "type": ["bogus", None, "GA", "Eus"]},
    "variant": {"id": ["bad-id", "", None, 5], "uid": ["Misaligned", None, 5], "name": ["", None, 5], "type": ["bogus", None], "arches": [[], None, 5]},
    "image": {"path": ["", None, 5], "type": ["bogus", None, 5], "format": ["bogus", None], "arch": ["", None, 5], "checksums": [{}, None, []],
              "implant_md5": ["xyz", "A" * 32, 5], "volume_id": ["", 5], "subvariant": [None, 5], "size": [0, None, "x", []], "mtime": [None, "x", []],
              "disc_number": [None, "x"], "unified": ["yes", None], "additional_variants": ["Server", None]},
}
REQUIRED = {
    "compose": ["id", "type", "date", "respin"], "release": ["name", "short", "version"], "base_product": ["name", "short", "version"],
    "variant": ["id", "uid", "name", "type", "arches", "paths"],
    "image": ["path", "mtime", "size", "volume_id", "type", "arch", "disc_number", "disc_count", "checksums", "implant_md5", "bootable", "subvariant"],
}


def sections_of(kind, doc):
    """[(section kind, path to the dict in the document)]"""
    out = [("compose", ["payload", "compose"])]
    p = doc["payload"]
    if kind == "composeinfo":
        out.append(("release", ["payload", "release"]))
        if "base_product" in p:
            out.append(("base_product", ["payload", "base_product"]))
        for uid, v in p["variants"].items():
            out.append(("variant", ["payload", "variants", uid]))
            if "release" in v:
                out.append(("release", ["payload", "variants", uid, "release"]))
    elif kind == "images":
        for v, arches in p["images"].items():
            for a, imgs in arches.items():
                for i in range(len(imgs)):
                    out.append(("image", ["payload", "images", v, a, i]))
    return out


def at(doc, path):
    for k in path:
        doc = doc[k]
    return doc


def corruptions(rng, kind, doc, n):
    out = []
    secs = sections_of(kind, doc)
    for _ in range(n):
        d = copy.deepcopy(doc)
        k = rng.random()
        if k < 0.08:
            d["header"]["type"] = OTHER_TYPE[kind]
            out.append({"doc": d, "what": "header-type", "must_reject": True})
        elif k < 0.16:
            d["header"]["version"] = rng.choice(BAD_VERSIONS)
            out.append({"doc": d, "what": "header-version", "must_reject": True})
        elif k < 0.22:
            sec = rng.choice(["header", "payload"] + (["payload.compose"] if True else []))
            if sec == "payload.compose":
                del d["payload"]["compose"]
            else:
                del d[sec]
            out.append({"doc": d, "what": "delete-section:" + sec, "must_reject": True})
        elif k < 0.45:
            skind, path = rng.choice(secs)
            key = rng.choice(REQUIRED[skind])
            tgt = at(d, path)
            if key in tgt:
                del tgt[key]
                out.append({"doc": d, "what": "delete-key:%s.%s" % (skind, key), "must_reject": True})
        elif k < 0.52 and kind == "composeinfo":
            # cross-field rule between a child variant and its DIRECT parent: one architecture the parent does not have
            # (taken from the grandparent's set when there is one, so that some other ancestor does have it)
            vs = d["payload"]["variants"]
            parent_of = {pu + "-" + cid: pu for pu, pv in vs.items() for cid in pv.get("variants", []) if pu + "-" + cid in vs}
            if not parent_of:
                continue
            cu = rng.choice(sorted(parent_of, key=lambda u: (-u.count("-"), u))[:max(1, len(parent_of) // 2)])
            pu = parent_of[cu]
            pool = []
            if pu in parent_of:
                pool = [a for a in vs[parent_of[pu]]["arches"] if a not in vs[pu]["arches"]]
            extra = rng.choice(pool) if pool else rng.choice([a for a in ["s390x", "aarch64", "x86_64", "ppc64le", "i386"] if a not in vs[pu]["arches"]])
            vs[cu]["arches"] = sorted(set(vs[cu]["arches"]) | {extra})
            out.append({"doc": d, "what": "cross-field:variant %s lists the architecture %r that its parent %s does not have%s" % (
                cu, extra, pu, " (the grandparent does)" if pool else ""), "must_reject": True})
        elif k < 0.5 and kind == "images" and len([x for x in secs if x[0] == "image"]) >= 2:
            # identity rule across the whole manifest: give one image the identity of an image filed in ANOTHER cell, keep its checksums
            imgs = [x for x in secs if x[0] == "image"]
            (_, pa) = rng.choice(imgs)
            others = [x for x in imgs if x[1][:4] != pa[:4]] or [x for x in imgs if x[1] != pa]
            (_, pb) = rng.choice(others)
            a, b = at(d, pa), at(d, pb)
            for f in ["subvariant", "type", "format", "arch", "disc_number"]:
                b[f] = copy.deepcopy(a[f])
            for f in ["unified", "additional_variants"]:
                if f in a:
                    b[f] = copy.deepcopy(a[f])
                else:
                    b.pop(f, None)
            if rng.random() < 0.5:
                b["checksums"] = {"sha256": "e" * 64}
            else:                                            # same digests plus one more: still not the same checksums
                b["checksums"] = dict(copy.deepcopy(a["checksums"]), **{"sha1" if "sha1" not in a["checksums"] else "sha512": "1" * 40})
            out.append({"doc": d, "what": "cross-field:two images with one identity and different checksums (cells %s and %s)" % ("/".join(map(str, pa[2:4])), "/".join(map(str, pb[2:4]))), "must_reject": True})
        elif k < 0.55 and kind == "images":
            # cross-field rule: additional variants only on a unified image
            skind, path = rng.choice([x for x in secs if x[0] == "image"])
            tgt = at(d, path)
            if tgt.get("additional_variants"):
                if rng.random() < 0.5:
                    tgt["unified"] = False
                else:
                    tgt.pop("unified", None)
                out.append({"doc": d, "what": "cross-field:image.unified off with additional_variants", "must_reject": True})
            else:
                tgt["additional_variants"] = ["Server"]
                tgt.pop("unified", None)
                out.append({"doc": d, "what": "cross-field:image.additional_variants on a plain image", "must_reject": True})
        else:
            skind, path = rng.choice(secs)
            f, vals = rng.choice(list(STRICT[skind].items()))
            tgt = at(d, path)
            if skind == "release" and path[-1] == "release" and len(path) > 2 and f == "type":
                continue
            v = copy.deepcopy(rng.choice(vals))
            if f in ("unified", "additional_variants") and f not in tgt:
                continue
            tgt[f] = v
            # enumerated fields the readers do not coerce: a value outside the enumeration can only be rejected
            strict = f in ("type", "format") and skind in ("image", "variant", "base_product", "compose")
            out.append({"doc": d, "what": "%s:%s.%s=%r" % ("enum" if strict else "value", skind, f, v), "must_reject": True})
    return out


# ---------------- treeinfo (text level)
def render_ini(table):
    return "".join("[%s]\n%s\n" % (s, "".join("%s = %s\n" % kv for kv in sorted(opts.items()))) for s, opts in sorted(table.items()))


def impl_valid_treeinfo(case):
    ti = DT.build_treeinfo(case["content"])
    text = DT._dumps(ti, None)
    return DT.section_table(text)


def ti_corruptions(rng, table, n):
    out = []
    vsecs = [s for s in table if s.startswith("variant-") or s.startswith("addon-")]
    isecs = [s for s in table if s.startswith("images-")]
    for _ in range(n):
        t = copy.deepcopy(table)
        k = rng.random()
        if k < 0.1:
            t["header"]["type"] = "productmd.images"
            what = "header-type"
        elif k < 0.2:
            t["header"]["version"] = rng.choice(["1", "1.2.3", "v1.2", "one.two", "1,2", "102", "1_2", "0012", "1x2"])
            what = "header-version"
        elif k < 0.45:
            sec, key = rng.choice([("release", "name"), ("release", "version"), ("tree", "arch"), ("tree", "platforms"),
                                   ("tree", "build_timestamp"), ("header", "type"), ("header", "type")]
                                  + [(s, f) for s in vsecs for f in ("id", "uid", "name", "type")])
            if key in t.get(sec, {}):
                del t[sec][key]
                what = "delete-key:%s.%s" % (sec.split("-")[0], key)
            else:
                continue
        elif k < 0.55 and vsecs:
            s = rng.choice(vsecs)
            del t[s]
            what = "delete-section:variant"
        else:
            choices = [("release", "version", rng.choice(["1.", "2b", "1..2"])), ("tree", "arch", ""), ("tree", "build_timestamp", rng.choice(["abc", "0", "", "nan", "inf", "-inf", "Infinity", "1e999", "NaN"])),
                       ("release", "is_layered", "maybe")]
            choices += [(s, "type", "bogus") for s in vsecs] + [(s, "type", "layered-product") for s in vsecs] + [(s, "id", "a-b") for s in vsecs]
            choices += [(s, sorted(t[s])[0], "/abs/img") for s in isecs if t[s]]
            for isec in isecs:
                # images listed for a platform that [tree] no longer names (the tree's own architecture included)
                plat = isec[len("images-"):]
                rest = [x for x in t.get("tree", {}).get("platforms", "").split(",") if x and x != plat]
                choices.append(("tree", "platforms", ",".join(rest) or "zz"))
            if "checksums" in t and t["checksums"]:
                pth = sorted(t["checksums"])[0]
                choices += [("checksums", pth, rng.choice(["0123", "sha256:ab:cd", "x" * 33, "ab" * 40, "f" * 65, "0" * 128, "f" * 96]))]
            if "media" in t:
                choices += [("media", "discnum", "one")]
            if "stage2" in t and "mainimage" in t["stage2"]:
                choices += [("stage2", "mainimage", "/abs/install.img")]
            sec, key, v = rng.choice(choices)
            if sec not in t:
                continue
            t[sec][key] = v
            what = "value:%s.%s=%r" % (sec.split("-")[0], key, v)
            if key == "type" and (sec.startswith("variant-") or sec.startswith("addon-")):
                what = "enum:variant.type=%r" % v
            if (sec, key) == ("tree", "platforms"):
                what = "cross-field:tree.platforms=%r although an [images-*] section exists for a platform no longer listed" % v
        out.append({"text": render_ini(t), "what": what, "must_reject": True})
    return out
