"""NVRA parsing: productmd.common.parse_nvra / Rpms._check_nevra vs Model/Nvra.v"""
from suites.common import reflect, exc_result, rstr, LOWER, UPPER, DIGITS

NAME_SEG = LOWER + UPPER + DIGITS + "._+"
VR = LOWER + UPPER + DIGITS + "._+~^"


def gen_legal(rng, arches):
    nseg = rng.randint(1, 4)
    segs = []
    for _ in range(nseg):
        if rng.random() < 0.3:
            segs.append(rstr(rng, DIGITS, 1, 3))
        elif rng.random() < 0.1:
            segs.append(rng.choice(["lib.rpm", "x.rpm5", "rpm", ".rpm", "a.src", "noarch"]))      # extension-like text inside the name
        else:
            segs.append(rstr(rng, NAME_SEG, 1, 6))
    name = "-".join(segs)
    epoch = None if rng.random() < 0.4 else rng.choice([0, 1, 2, 7, 10, 123, 99999, 2 ** 40])
    version = rstr(rng, VR, 1, 8) if rng.random() < 0.9 else rng.choice(["4.rpm2", "1.rpm", "2.src", ".rpm.1"])
    release = rstr(rng, VR, 1, 8) if rng.random() < 0.9 else rng.choice(["1.rpm5", "3.rpm", "1.noarch", "2.el9.rpm"])
    arch = rng.choice(arches)
    d = ""
    if rng.random() < 0.5:
        d = "/".join(rstr(rng, NAME_SEG + "-", 0, 5) for _ in range(rng.randint(1, 3))) + "/"
        if rng.random() < 0.2:
            d = "/" + d
    if rng.random() < 0.02:                                  # "any directory prefix": also a very long one
        d = "/".join(rstr(rng, NAME_SEG, 20, 40) for _ in range(8)) + "/"
    sfx = ".rpm" if rng.random() < 0.5 else ""
    s = d + name + "-" + ("%d:" % epoch if epoch is not None else "") + version + "-" + release + "." + arch + sfx
    parts = {"name": name, "epoch": epoch or 0, "version": version, "release": release, "arch": arch}
    return {"s": s, "parts": parts}


MAL = "ab1-.:/\n_"


def gen_malformed(rng):
    k = rng.random()
    if k < 0.6:
        s = rstr(rng, MAL, 0, 12)
    elif k < 0.8:
        s = rstr(rng, "a-.:/1", 0, 9) + rng.choice(["", ".rpm", "\n", ".rpm\n", ".rpm.rpm"])
    else:
        s = rstr(rng, "a1", 0, 3) + "-" + rstr(rng, "1:a", 0, 4) + "-" + rstr(rng, "a.1/", 0, 4) + "." + rstr(rng, "a-/\n", 0, 3)
    return {"s": s, "parts": None}


def generate(rng, n):
    arches = reflect()["RPM_ARCHES"]
    cases = []
    for i in range(n):
        if i % 3 == 2:
            cases.append(gen_malformed(rng))
        else:
            cases.append(gen_legal(rng, arches))
    return cases


_LINKDIR = []


def _with_link(s):
    """the working directory holds a symbolic link named like the string (pointing at a differently named package)"""
    import os
    import tempfile
    if not _LINKDIR:
        from suites.common import VERIF
        d = tempfile.mkdtemp(prefix="nvra-", dir=os.path.join(VERIF, ".work"))
        _LINKDIR.append(d)
        os.chdir(d)
    if s and "/" not in s and "\x00" not in s and len(s) < 200 and not os.path.lexists(s):
        try:
            os.symlink("other-9:9.9-9.noarch.rpm", s)
        except OSError:
            pass


def impl(case):
    import productmd.common
    try:
        if len(case["s"]) % 3 == 0:
            _with_link(case["s"])
        first = productmd.common.parse_nvra(case["s"])
        snapshot = dict(first)
        first["name"], first["arch"] = "changed-by-the-caller", "src"      # the caller owns what it was given
        first.pop("epoch", None)
        again = productmd.common.parse_nvra(case["s"])
        if again != snapshot:
            return ["err", "HistoryDependent", "second parse_nvra(%r) = %r after the caller modified the first result %r" % (case["s"], again, snapshot)]
        return ["ok", snapshot]
    except (ValueError, TypeError, AttributeError, KeyError, IndexError) as e:
        return exc_result(e)


def impl_check_nevra(case):
    """Rpms._check_nevra: canonical re-formatting, then parse the canonical form again."""
    import productmd.rpms
    import productmd.common
    r = productmd.rpms.Rpms()
    try:
        canon, d = r._check_nevra(case["s"])
    except (ValueError, TypeError, AttributeError, KeyError, IndexError) as e:
        return exc_result(e)
    try:
        again = ["ok", productmd.common.parse_nvra(canon)]
    except (ValueError, TypeError, AttributeError, KeyError, IndexError) as e:
        again = exc_result(e)
    return ["ok", [canon, d, again]]
