"""composeinfo documents: build through the API, dump, load, describe, dump again vs Model/ComposeInfo.v"""
import copy
import json
from suites.common import api_consistency, exc_result, reflect, rstr, LOWER
from suites.ops_images import valid_compose

EXC = (ValueError, TypeError, AttributeError, KeyError, IndexError)
ARCHES = ["x86_64", "ppc64le", "aarch64", "s390x", "armhfp", "i386", "e2k", "hppa", "sw_64"]      # the last three: not in RPM_ARCHES
FRESH_REL = {"name": None, "version": None, "short": None, "type": None, "is_layered": True, "internal": False}
FRESH_BP = {"name": None, "version": None, "short": None, "type": None}


def gen_release(rng, R, layered=None):
    return {"name": rng.choice(["Fedora", "Red Hat Enterprise Linux", "Supp Tools"]),
            "version": rng.choice(["22", "7.9", "Rawhide", "1.0.1", "beta"]),
            "short": rng.choice(["Fedora", "RHEL", "f", "my-product"]),
            "type": rng.choice(R["RELEASE_TYPES"]),
            "is_layered": (rng.random() < 0.3) if layered is None else layered,
            "internal": rng.random() < 0.3}


def gen_paths(rng, R, arches):
    paths = {}
    for cat in rng.sample(R["CI_PATH_FIELDS"], rng.randint(0, len(R["CI_PATH_FIELDS"]))):
        tab = {}
        for a in arches:
            if rng.random() < 0.8:
                tab[a] = ("%s/%s/%s" % (rstr(rng, LOWER, 3, 6), a, cat) if rng.random() < 0.9 else "") if rng.random() < 0.9 else \
                    rng.choice(["Server/%s//os" % a, "a///b/", "./%s/" % cat])
        if rng.random() < 0.25:
            # an architecture the variant does not have (another real one, the source pseudo-architectures, or junk): not stored
            tab[rng.choice(["foreign", "src", "nosrc", "noarch", "s390x"])] = "nowhere"
        if tab:
            paths[cat] = tab
    return paths


def gen_tree(rng, R, vid, uid, arches, depth, top=False):
    vtype = rng.choice(R["CI_VARIANT_TYPES"] if not top else ["variant", "variant", "layered-product", "optional"])
    fields = {"id": vid, "uid": uid, "name": rng.choice([vid, "The %s" % vid]), "type": vtype, "arches": sorted(arches)}
    rel = gen_release(rng, R, layered=True) if vtype == "layered-product" else dict(FRESH_REL)
    children = {}
    if depth < 3:
        for cid in rng.sample(["optional", "HA", "RS", "SAP", "NFV", "ha", "Ha", "sap"], rng.choice([0, 0, 1, 2, 3, 4]) if depth < 2 else rng.choice([0, 1])):
            ca = sorted(rng.sample(arches, rng.randint(1, len(arches))))
            children[cid] = gen_tree(rng, R, cid, "%s-%s" % (uid, cid), ca, depth + 1)
    return [fields, gen_paths(rng, R, arches), rel, children]


def gen_ci(rng, R=None):
    R = R or reflect()
    rel = gen_release(rng, R)
    bp = {"name": "Base", "version": rng.choice(["7", "22"]), "short": rng.choice(["RHEL", "f"]), "type": rng.choice(R["RELEASE_TYPES"])} \
        if (rel["is_layered"] or rng.random() < 0.2) else dict(FRESH_BP)
    tops = {}
    for t in rng.sample(["Server", "Client", "Workstation", "AppStream", "HA", "SAP"], rng.choice([0, 1, 1, 2, 2, 3, 3])):      # ids are unique among siblings only
        arches = sorted(rng.sample(ARCHES, rng.randint(1, 3)))
        tops[t] = gen_tree(rng, R, t, t, arches, 1, top=True)
    free = [t for t in tops if "optional" not in tops[t][3] or rng.random() < 0.15]      # (rarely) colliding with a nested UID
    if rng.random() < 0.3 and free:            # the documented 'Server-optional' case: dashed top-level UID, childless
        t = rng.choice(free)
        key = t + "optional"
        tops[key] = [{"id": key, "uid": t + "-optional", "name": "opt", "type": "optional", "arches": ["x86_64"]},
                     gen_paths(rng, R, ["x86_64"]), dict(FRESH_REL), {}]
    for t in list(tops):
        for cid in list(tops[t][3]):
            if rng.random() < 0.12 and (t + cid) not in tops:
                # a top-level variant whose UID is a nested variant's UID without the dash ("ServerHA" beside Server/HA)
                tops[t + cid] = gen_tree(rng, R, t + cid, t + cid, ["x86_64"], 2, top=True)
    return {"desc": [valid_compose(rng, R), rel, bp, tops]}


def generate(rng, n):
    """for the write/read cycle: the id is a free-form field, it need not agree with date/type/respin stored next to it"""
    R = reflect()
    out = []
    for _ in range(n):
        c = gen_ci(rng, R)
        comp = c["desc"][0]
        k = rng.random()
        if k < 0.15:
            comp["respin"] = rng.choice([0, 0, comp["respin"] + 1])
        elif k < 0.25:
            comp["type"] = rng.choice(R["COMPOSE_TYPES"])
        elif k < 0.32:
            comp["date"] = "20150522"
        elif k < 0.4:
            comp["id"] = rng.choice(["F-22-20150522.xyz.3", "F-22-20150522", "Custom-1-20150522.n"])
        elif k < 0.46:
            comp["respin"] = rng.choice([2 ** 53 + 1, 2 ** 61 + 5, 2 ** 62 - 1, 9007199254740993])      # beyond what a double holds (the wire format stops at 2^62)
        out.append(c)
    return out


def build(desc):
    import productmd.composeinfo as CI
    compose, rel, bp, tops = desc
    ci = CI.ComposeInfo()
    for k, v in compose.items():
        setattr(ci.compose, k, v)
    for k, v in rel.items():
        setattr(ci.release, k, v)
    for k, v in bp.items():
        setattr(ci.base_product, k, v)

    def mk(tree, parent):
        fields, paths, vrel, children = tree
        v = CI.Variant(ci)
        v.id, v.uid, v.name, v.type = fields["id"], fields["uid"], fields["name"], fields["type"]
        v.arches = set(fields["arches"]) if isinstance(fields["arches"], list) else fields["arches"]
        for cat, tab in paths.items():
            setattr(v.paths, cat, copy.deepcopy(tab))
        for k, val in vrel.items():
            setattr(v.release, k, val)
        parent.add(v)
        for key in children:
            mk(children[key], v)
        return v

    for key in tops:
        mk(tops[key], ci.variants)
    return ci


def describe(ci):
    fields = None
    import productmd.composeinfo as CI

    def tree(v):
        f = {"id": v.id, "uid": v.uid, "name": v.name, "type": v.type, "arches": sorted(v.arches)}
        paths = {}
        for cat in v.paths._fields:
            tab = getattr(v.paths, cat)
            if tab:
                paths[cat] = dict(tab)
        rel = {k: getattr(v.release, k) for k in ["name", "version", "short", "type", "is_layered", "internal"]}
        return [f, paths, rel, {k: tree(c) for k, c in v.variants.items()}]

    comp = {k: getattr(ci.compose, k) for k in ["id", "type", "date", "respin", "label", "final"]}
    rel = {k: getattr(ci.release, k) for k in ["name", "version", "short", "type", "is_layered", "internal"]}
    bp = {k: getattr(ci.base_product, k) for k in ["name", "version", "short", "type"]}
    return [comp, rel, bp, {k: tree(v) for k, v in ci.variants.variants.items()}]


def impl_roundtrip(case):
    import productmd.composeinfo as CI
    try:
        ci = build(case["desc"])
    except EXC as e:
        return ["build-error", type(e).__name__]
    from suites.common import snap
    before = snap(ci)
    try:
        text = ci.dumps()
    except EXC as e:
        return exc_result(e)
    api = api_consistency(ci, CI.ComposeInfo, text, before=before)
    if api:
        return ["api-inconsistent", api]
    ci2 = CI.ComposeInfo()
    try:
        ci2.loads(text)
    except EXC as e:
        return ["ok", [text, exc_result(e)]]
    try:
        again = ["ok", ci2.dumps()]
    except EXC as e:
        again = exc_result(e)
    return ["ok", [text, ["ok", [describe(ci2), again]]]]


def _types_seen_by_the_id_parser(doc):
    """earlier in the process, release ids naming the document's release types were parsed (the parser accepts unknown types;
    what it has seen must not widen what a document may declare)"""
    import productmd.common as C
    found = []

    def walk(o):
        if isinstance(o, dict):
            for k, v in o.items():
                if k == "type" and isinstance(v, str):
                    found.append(v)
                walk(v)
        elif isinstance(o, list):
            for x in o:
                walk(x)
    walk(doc)
    for t in found:
        for rid in ("x-1-%s" % t, "x-1-%s@base-7-%s" % (t, t)):
            try:
                C.parse_release_id(rid)
            except Exception:
                pass


def impl_load(case):
    import productmd.composeinfo as CI
    _types_seen_by_the_id_parser(case["doc"])
    ci = CI.ComposeInfo()
    if case.get("preload"):
        try:
            ci.loads(json.dumps(case["preload"]))        # the same object is used for a second load
        except Exception:
            pass
    try:
        ci.loads(json.dumps(case["doc"]))
    except EXC as e:
        return exc_result(e)
    try:
        again = ["ok", ci.dumps()]
    except EXC as e:
        again = exc_result(e)
    return ["ok", [describe(ci), again]]
