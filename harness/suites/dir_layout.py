"""C20: Compose(path) over real directory layouts"""
import itertools
import json
import os
import shutil
import tempfile
from suites.common import VERIF
from suites import docs_composeinfo as DC, ops_images as OI, docs_manifests as DM, ops_manifests as OM
import core_rng

LAYOUTS = ["direct", "compose", "legacy"]
# per populated layout: which files exist and under which name
PATTERNS = {
    "all-current": {"composeinfo.json": "info", "images.json": "images", "rpms.json": "rpms", "modules.json": "modules"},
    "all-legacy": {"composeinfo.json": "info", "image-manifest.json": "images", "rpm-manifest.json": "rpms"},
    "info-only": {"composeinfo.json": "info"},
    "both-names": {"composeinfo.json": "info", "images.json": "images", "image-manifest.json": "images2", "rpms.json": "rpms", "rpm-manifest.json": "rpms2"},
    "no-info": {"images.json": "images", "rpms.json": "rpms"},
    "bad-images": {"composeinfo.json": "info", "images.json": "garbage", "rpms.json": "notjson", "modules.json": "listdoc"},
    # valid JSON with a valid header, wrong container types below it (each loader fails in a different way)
    "bad-containers": {"composeinfo.json": "ci_variants_list", "images.json": "images_list", "rpms.json": "rpms_nopayload", "modules.json": "modules_str"},
    "bad-paths": {"composeinfo.json": "ci_paths_str", "images.json": "images_cell_dict", "rpms.json": "rpms_cell_list"},
    # a zero-length file under the current name is an undecodable file, not a missing one
    "empty-current": {"composeinfo.json": "info", "images.json": "zero", "image-manifest.json": "images2", "rpms.json": "zero", "rpm-manifest.json": "rpms2"},
    "not-utf8": {"composeinfo.json": "info", "images.json": "latin1", "rpms.json": "rpms"},
    "empty": {},
}


def enumerate_cases(full):
    pats = list(PATTERNS)
    cases = []
    for k in range(0, 4):
        for layouts in itertools.combinations(LAYOUTS, k):
            choices = itertools.product(pats, repeat=len(layouts)) if (full or len(layouts) <= 1) else \
                [tuple(pats[(i + j) % len(pats)] for j in range(len(layouts))) for i in range(len(pats))]
            for ch in choices:
                for slash in (False, True):
                    cases.append({"layouts": dict(zip(layouts, ch)), "slash": slash})
    # the legacy subdirectory is named after the release version: any directory name will do
    extra = []
    names = ["7Server", "6.9.z", "7.2-beta", "20-Alpha", "Rawhide", "x y", "22"]
    for i, c in enumerate([c for c in cases if "legacy" in c["layouts"] and not c["slash"]]):
        if full or i % 5 == 0 or list(c["layouts"]) == ["legacy"]:
            extra.append(dict(c, legacy_name=names[i % len(names)]))
    return cases + extra


def _contents():
    rng = core_rng.Rng(5)
    from suites.common import reflect
    R = reflect()
    desc = DC.gen_ci(rng, R)["desc"]
    desc[0]["label"], desc[0]["final"] = "RC-1.0", True
    shared = dict(desc[0], label=None, final=False)          # the manifests of the same compose carry no label
    ci = DC.build(desc).dumps()
    ci2 = DC.build(DC.gen_ci(rng, R)["desc"]).dumps()
    out = {"info": ci}

    def images(seed):
        r = core_rng.Rng(seed)
        pool = [OI.gen_image(r, R, small=False, idx=j) for j in range(2)]
        for j, img in enumerate(pool):
            img["disc_number"] = j + 1
        im, objs, _ = OI.build({"version": None, "compose": (shared if seed == 1 else OI.valid_compose(r, R)), "pool": pool})
        im.add("Server", "x86_64", objs[0]); im.add("Client", "x86_64", objs[1])
        return im.dumps()

    def plain(kind, seed):
        r = core_rng.Rng(seed)
        o = DM._new(kind)
        for k, v in (shared if seed in (3, 6) else OI.valid_compose(r, R)).items():
            setattr(o.compose, k, v)
        for _ in range(4):
            try:
                o.add(*OM.GEN[kind](r))
            except Exception:
                pass
        return o.dumps()

    out["images"], out["images2"] = images(1), images(2)
    out["rpms"], out["rpms2"] = plain("rpms", 3), plain("rpms", 4)
    out["modules"] = plain("modules", 6)
    out["garbage"] = '{"header": {"version": "1.2", "type": "productmd.images"}, "payload": {"compose": {}, "images": {}}}'
    out["notjson"] = "this is not json {"
    out["zero"] = ""
    out["latin1"] = out["images"].replace('"Server"', '"Serv\udce9r"', 1)      # written back as the raw byte 0xE9
    out["listdoc"] = '{"header": {"version": "1.2", "type": "productmd.rpms"}, "payload": []}'
    d = json.loads(ci)
    d["payload"]["variants"] = list(d["payload"]["variants"])
    out["ci_variants_list"] = json.dumps(d)
    d = json.loads(ci)
    for v in d["payload"]["variants"].values():
        v["paths"]["os_tree"] = "Server/x86_64/os"
    out["ci_paths_str"] = json.dumps(d)
    d = json.loads(out["images"])
    d["payload"]["images"] = [d["payload"]["images"]]
    out["images_list"] = json.dumps(d)
    d = json.loads(out["images"])
    d["payload"]["images"]["Server"]["x86_64"] = {"0": d["payload"]["images"]["Server"]["x86_64"][0]}
    out["images_cell_dict"] = json.dumps(d)
    d = json.loads(out["rpms"])
    del d["payload"]
    out["rpms_nopayload"] = json.dumps(d)
    d = json.loads(out["rpms"])
    for v in d["payload"]["rpms"].values():
        for a in list(v):
            v[a] = [v[a]]
    out["rpms_cell_list"] = json.dumps(d)
    d = json.loads(out["modules"])
    d["payload"]["modules"] = "none"
    out["modules_str"] = json.dumps(d)
    return out


def impl(case):
    import productmd.compose as PC
    import productmd.composeinfo, productmd.images, productmd.rpms, productmd.modules
    work = tempfile.mkdtemp(prefix="cd-", dir=os.path.join(VERIF, ".work"))
    try:
        contents = _contents()
        rootname = "Compose-1.0-[Server]-20240101.0" if case.get("legacy_name") or not case["slash"] else "Compose-1.0-20240101.0"
        if "direct" in case["layouts"] and len(case["layouts"]) >= 2:
            rootname = "compose"             # the compose directory itself may be called like the sub-directory the library looks for
        root = os.path.join(work, rootname)
        os.makedirs(root)
        if len(case["layouts"]) % 2 == (1 if case["slash"] else 0):
            # the directory had another life before: a complete compose/ layout with the current names was opened and read at this
            # very path earlier in the process, then the tree was removed and laid out anew (nothing may be remembered)
            md = os.path.join(root, "compose", "metadata")
            os.makedirs(md)
            for fn, key in PATTERNS["all-current"].items():
                with open(os.path.join(md, fn), "w", encoding="utf-8") as f:
                    f.write(contents[key])
            try:
                c0 = PC.Compose(root + ("/" if case["slash"] else ""))
                for acc in ["info", "images", "rpms", "modules"]:
                    try:
                        getattr(c0, acc)
                    except Exception:
                        pass
            except Exception:
                pass
            shutil.rmtree(root)
            os.makedirs(root)
        sub = {"direct": "", "compose": "compose", "legacy": case.get("legacy_name", "1.0")}
        for layout, pat in case["layouts"].items():
            md = os.path.join(root, sub[layout], "metadata")
            os.makedirs(md, exist_ok=True)
            for fn, key in PATTERNS[pat].items():
                with open(os.path.join(md, fn), "w", encoding="utf-8", errors="surrogateescape") as f:
                    f.write(contents[key])
        if "legacy" in case["layouts"]:
            # at scale: the version-named directory sits among a few hundred other entries (logs, work files)
            for j in range(300):
                with open(os.path.join(root, "%s-%03d.log" % ("build" if j % 2 else "zwork", j)), "w") as f:
                    f.write("x")
        path = root + ("/" if case["slash"] else "")
        existing = []
        for dp, dns, fns in os.walk(root):
            for n in dns + fns:
                existing.append(os.path.join(dp, n))
        existing.append(root)
        listing = os.listdir(root)
        c = PC.Compose(path)
        res = [c.compose_path[len(work):]]
        loaders = {"info": productmd.composeinfo.ComposeInfo, "images": productmd.images.Images, "rpms": productmd.rpms.Rpms,
                   "modules": productmd.modules.Modules}
        names = {"info": ["composeinfo.json"], "images": ["images.json", "image-manifest.json"],
                 "rpms": ["rpms.json", "rpm-manifest.json"], "modules": ["modules.json"]}
        direct_state = {}
        for acc in ["info", "images", "rpms", "modules"]:
            # what loading the file that should be chosen (first existing name under the resolved path) gives on its own
            st = "missing"
            for n in names[acc]:
                p = os.path.join(c.compose_path, "metadata", n)
                if os.path.exists(p):
                    try:
                        d0 = loaders[acc]()
                        d0.load(p)
                        d0.dumps()
                        st = "loads"
                    except Exception:
                        st = "undecodable"
                    break
            direct_state[acc] = st
        for acc in ["info", "images", "rpms", "modules"]:
            try:
                o = getattr(c, acc)
                again = getattr(c, acc)
                direct = None
                for n in names[acc]:
                    p = os.path.join(c.compose_path, "metadata", n)
                    if os.path.exists(p):
                        d = loaders[acc]()
                        d.load(p)
                        direct = [p[len(work):], d.dumps()]
                        break
                res.append(["ok", o is again, direct is not None and o.dumps() == direct[1], direct[0] if direct else None])
            except RuntimeError as e:
                try:
                    second = getattr(c, acc)
                    res.append(["err", "RuntimeError-then-object", False])     # the failed load left an object in the cache
                except RuntimeError:
                    res.append(["err", "RuntimeError", c.compose_path in str(e) or "metadata" in str(e)])
                except Exception as e2:
                    res.append(["err", "RuntimeError-then-" + type(e2).__name__, False])
            except Exception as e:
                res.append(["err", type(e).__name__, False])
        res.append(direct_state)
        model_in = [path[len(work):], sorted(set(p[len(work):] for p in existing) | {path[len(work):]}), listing]
        # join() results carry no doubled slash; existence is by normalised path
        return [res, model_in]
    finally:
        shutil.rmtree(work, ignore_errors=True)
