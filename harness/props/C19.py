"""C19 - validation and parsing time grows polynomially with input length"""
import core
import wire
from suites import rx

TRUSTED = [
    "Coq 8.16.1 kernel (vm_compute for `safe` on the regenerated expressions)",
    "harness/translate.py: every pattern the library compiles or matches (module attributes by reflection, literals reaching re.*/"
    "_assert_matches_re by ast scan, patterns captured at run time) parsed by CPython's re._parser and mapped to Base/Regex.re; "
    "constructs outside the supported fragment become `Unsupported`, which is not `safe`",
    "CPython's sre engine is modelled as textbook greedy leftmost backtracking (Base/Regex.v, instrumented in Base/RegexCost.v); "
    "its running time is assumed to be within a polynomial factor of the model's step count; \\d modelled as [0-9]",
    "extraction (ExtrOcamlBasic only) + runner/driver.ml + wire format; differential rx_match suite (sampled)",
    "non-regex parsers (parse_release_id, split_version, _relative_to) are compositions of linear str primitives over small tables: argued, not proved",
]
PER = {"quick": 150, "thorough": 3000}


def model_steps(name, strings):
    return core.run_model([wire.encode_line("rx_steps", [name, s]) for s in strings])


def search_blowup(chk, name, pattern):
    """for an expression that is not `safe`: look for a pump family on which the model's step count
    explodes, then replay the exploding strings on the real engine under a timeout"""
    best = None
    for pre, pump, suf in rx.pump_families(pattern):
        ns = [3, 5, 7, 9]
        try:
            st = model_steps(name, [pre + pump * n + suf for n in ns])
        except Exception:
            continue
        if st[0] and st[-1] / max(1, st[0]) > 40:      # > ~1.85x per character over 6 characters
            ratio = st[-1] / max(1, st[0])
            best = (ratio, pre, pump, suf, st)
            break
    if best is None:
        return None
    ratio, pre, pump, suf, st = best
    chk.log("model steps explode for %s on %r+%r*n+%r: %s" % (name, pre, pump, suf, st))
    for n in [16, 20, 24, 28, 32, 36, 40]:
        s = pre + pump * n + suf
        if len(s) > 60:
            break
        ir = core.ImplRunner("rx", fn="impl_time", per_case_timeout=4.0)
        try:
            r = ir.run([{"pattern": pattern, "s": s}])[0]
        finally:
            ir.close()
        if r == ["timeout"] or (isinstance(r, float) and r > 2.0):
            return {"pattern": pattern, "s": s, "seconds": "timeout(4s)" if r == ["timeout"] else r,
                    "model_steps_at_3_5_7_9": st}
    return None


def run(chk):
    res = chk.build(["Props/C19.vo"])
    rng = core.Rng(chk.seed * 7919 + 19)
    table = rx.regex_table()
    names = core.run_model([wire.encode_line("rx_names", None)])[0]
    info = dict(zip(names, core.run_model([wire.encode_line("rx_info", n) for n in names])))
    bounds = {}
    unsafe = []
    for n in names:
        sup, safe, cw, dw, ce, de = info[n]
        bounds[n] = {"pattern": table.get(n, {}).get("pattern"), "supported": sup, "safe": safe,
                     "steps_bound": "%d*(n+1)^%d" % (cw, dw), "exits_bound": "%d*(n+1)^%d" % (ce, de)}
        chk.obligation("safe:" + n, safe, "" if safe else "pattern %r is not in the proved-polynomial fragment" % table.get(n, {}).get("pattern"))
        if not safe:
            unsafe.append(n)
    # tie: real engine vs model matcher
    cases = rx.generate(rng, PER[chk.tier], unsafe=set(unsafe))
    norm = lambda r: sorted(r) if isinstance(r, list) else r
    core.differential(chk, "rx", cases, "rx_match", model_cases=[[c["name"], c["s"]] for c in cases],
                      nontrivial=lambda c, a: a is not None and len(c["s"]) >= 2, normalise=norm)
    # search for a concrete blow-up for every unsafe expression
    for n in unsafe:
        pat = table.get(n, {}).get("pattern")
        if pat is None:
            continue
        w = search_blowup(chk, n, pat)
        if w:
            chk.violation("re.match(%r, %r) did not finish in time: exponential backtracking (model step counts %s)"
                          % (w["pattern"], w["s"], w["model_steps_at_3_5_7_9"]), w, "rx:blowup", "D2-" + n)
    # the public validators/parsers on pump families of a few dozen and of several hundred characters
    timing = []
    fam = [("a", "a", "!"), ("1", "1", "x"), ("a", "-a", "!"), ("1", ".1", "!"), ("a", "a-", "A"), ("", "1", ".x"),
           ("x-", "1.", "-"), ("a:", "b:", "!"), ("RC-", "1", "."), ("", "-", "."), ("", "a/", "-1-1."), ("", "9", ".n."),
           ("1e", "9", ""), ("", "1,", "x"), ("(x+x+)+", "x", "y")]
    sizes = [8, 24, 48] if chk.tier == "quick" else [6, 8, 9, 24, 48, 200, 800]
    tcases = []
    for fn in rx.FUNCTIONS:
        for pre, pump, suf in fam:
            for n in sizes:
                tcases.append({"fn": fn, "s": pre + pump * n + suf})
    ir = core.ImplRunner("rx", fn="impl_time", per_case_timeout=5.0)
    try:
        tres = ir.run(tcases, window=1)
    finally:
        ir.close()
    worst = 0.0
    for c, r in zip(tcases, tres):
        if r == ["timeout"] or r == ["crash"]:
            chk.violation("%s(%r) (%d characters) did not finish within 5 s" % (c["fn"], c["s"], len(c["s"])), c, "rx:timing",
                          "D2-" + c["fn"])
        elif isinstance(r, float):
            worst = max(worst, r)
    # the same question for nesting depth: the validators run while a document is read do work polynomial in its size
    depths = [4, 8, 16, 24] + ([40] if chk.tier == "thorough" else [])
    ncases = [{"fmt": f, "depth": d} for f in ("composeinfo", "treeinfo") for d in depths]
    ir = core.ImplRunner("rx", fn="impl_nesting", per_case_timeout=8.0)
    try:
        nres = ir.run(ncases, window=1)
    finally:
        ir.close()
    base = {}
    for c, r in zip(ncases, nres):
        if not (isinstance(r, list) and len(r) == 3):
            chk.violation("loading a %s whose variants nest %d deep (%d characters) did not finish within 8 s"
                          % (c["fmt"], c["depth"], len(rx.nested_text(c["fmt"], c["depth"]))), c, "rx:nesting")
            continue
        if r[2] != "ok":
            chk.violation("a legal %s whose variants nest %d deep was refused: %s" % (c["fmt"], c["depth"], r[2]), c, "rx:nesting")
            continue
        base.setdefault(c["fmt"], r[1])
        growth = (c["depth"] / float(depths[0])) ** 3
        if r[1] > base[c["fmt"]] * growth:
            chk.violation("loading a %s whose variants nest %d deep runs the field validators %d times (depth %d: %d times): faster than "
                          "cubic growth" % (c["fmt"], c["depth"], r[1], depths[0], base[c["fmt"]]), c, "rx:nesting")
        worst = max(worst, r[0])
    chk.add_cases(ncases, [True] * len(ncases))
    chk.record_suite("rx:nesting", {"cases": len(ncases), "depths": depths,
                                    "validator_calls": {"%s:%d" % (c["fmt"], c["depth"]): (r[1] if isinstance(r, list) and len(r) == 3 else None) for c, r in zip(ncases, nres)}})
    chk.add_cases(tcases, [True] * len(tcases))
    chk.record_suite("rx:timing", {"cases": len(tcases), "worst_seconds": round(worst, 4), "sizes": sizes})
    return chk.finish(
        rule="rx: per regenerated pattern, strings sampled from the pattern's own parse tree and mutated (75%) plus junk (25%), "
             "compared with CPython's re.match incl. group spans; timing: each public validator/parser on 12 pump families at "
             "the listed sizes, each call under a 5 s timeout; non-trivial = matched strings of length >= 2",
        trusted=TRUSTED, extra_cov={"per_regex_bounds": bounds})
