"""C01 - composeinfo survives a write/read cycle unchanged"""
import copy
import core
from suites import docs_composeinfo as S

TRUSTED = [
    "Coq 8.16.1 kernel", "harness/translate.py: validator inventory and bodies (Header, Compose, Release, BaseProduct, Variant), "
    "VERSION, RELEASE_TYPES, VARIANT_TYPES, the 14 path categories regenerated from /repo",
    "json text layers are CPython's; Base/Json.print_json is compared byte for byte with the real output on every case",
    "extraction (ExtrOcamlBasic only) + runner/driver.ml + wire format; sampled compose descriptions (forest depth <= 3)",
]
N = {"quick": 300, "thorough": 6000}


def norm(desc):
    comp, rel, bp, tops = copy.deepcopy(desc)
    if not comp.get("label"):
        comp["label"], comp["final"] = None, False
    if not rel["is_layered"]:
        bp = dict(S.FRESH_BP)

    def tree(t):
        f, paths, vrel, children = t
        out = {}
        for cat, tab in paths.items():
            keep = {a: p for a, p in tab.items() if a in f["arches"] and p}
            if keep:
                out[cat] = keep
        if f["type"] != "layered-product":
            vrel = dict(S.FRESH_REL)
        else:
            vrel = dict(vrel)
        return [f, out, vrel, {k: tree(c) for k, c in children.items()}]

    return [comp, rel, bp, {k: tree(t) for k, t in tops.items()}]


def run(chk):
    chk.build(["Props/C01.vo"])
    rng = core.Rng(chk.seed * 7919 + 1)
    cases = S.generate(rng, N[chk.tier])

    def uids(tops):
        out = []
        for t in tops.values():
            out.append(t[0]["uid"])
            out.extend(uids(t[3]))
        return out

    def oracle(c, r):
        u = uids(c["desc"][3])
        if len(u) != len(set(u)) and r[0] == "err" and r[1] == "ValueError":
            return None          # two variants with one UID: not a forest the library agrees to write
        if r[0] != "ok":
            return "a valid compose description could not be written: %r" % (r,)
        text, back = r[1]
        if back[0] != "ok":
            return "the written composeinfo could not be read back: %r" % (back,)
        desc2, again = back[1]
        want = norm(c["desc"])
        if desc2 != want:
            for i, nm in enumerate(["compose", "release", "base product", "variants"]):
                if desc2[i] != want[i]:
                    return "%s changed across the cycle: wrote %r, read %r" % (nm, want[i], desc2[i])
        if again != ["ok", text]:
            return "writing the re-read composeinfo does not reproduce the file byte for byte"
        return None

    def depth(t):
        return 1 + max([depth(c) for c in t[3].values()] or [0])

    ires, _, _ = core.differential(chk, "docs_composeinfo", cases, "roundtrip_ci", model_cases=[c["desc"] for c in cases],
                      impl_fn="impl_roundtrip", oracle=oracle,
                      nontrivial=lambda c, r: r[0] == "ok" and max([depth(t) for t in c["desc"][3].values()] or [0]) >= 2)
    # how many of the documents the real library wrote fall under the hypotheses of C01_document_roundtrip? The executable check
    # of Model/CiNormalB.v (proved sound: C01_executable_hypothesis_check_is_sound) is run on the object the model reader builds
    # from the text the IMPLEMENTATION wrote.
    import json as _json
    import wire as _wire
    docs = [_json.loads(r[1][0]) for r in ires if isinstance(r, list) and r and r[0] == "ok" and isinstance(r[1], list) and isinstance(r[1][0], str)]
    if docs:
        ares = core.run_model([_wire.encode_line("ci_applicable", d) for d in docs])
        covered = sum(1 for a in ares if a == ["ok", [True, True]])
        not_normal = sum(1 for a in ares if isinstance(a, list) and a and a[0] == "ok" and a[1][0] is not True)
        shared_uid = sum(1 for a in ares if isinstance(a, list) and a and a[0] == "ok" and a[1][0] is True and a[1][1] is not True)
        chk.log("C01_document_roundtrip applies to %d of %d written documents (not in normal form: %d, UIDs not distinct: %d)" %
                (covered, len(docs), not_normal, shared_uid))
        chk.obligation("theorem-applicability:C01_document_roundtrip", covered * 2 >= len(docs) and not_normal == 0,
                       "hypotheses met by %d of %d documents written by the implementation; %d not in the reader's normal form; "
                       "%d with a UID shared between two variants (outside the theorem: O11)" % (covered, len(docs), not_normal, shared_uid))
    return chk.finish(
        rule="compose descriptions: all compose/release types, labels, layered or not, 1-3 top-level variants, forests to depth 3 "
             "mixing all variant types incl. layered-product variants with their own release, child arch subsets, random subsets "
             "of the 14 path categories with empty and foreign-arch entries, dashed top-level UIDs on childless variants; "
             "written text, the re-read description and the second write compared (text byte for byte); non-trivial = depth >= 2",
        trusted=TRUSTED)
