"""C05 - older format versions are upgraded faithfully and idempotently"""
import json
import os
import copy
import core
import wire
from suites import docs_legacy as DL, docs_corrupt as DCo, docs_composeinfo as DC, docs_treeinfo as DT, ops_images as OI

TRUSTED = [
    "Coq 8.16.1 kernel", "harness/translate.py (validators, VERSION, header types) regenerated from /repo",
    "the version-gated branches of the composeinfo / images / rpms readers and the 1.0/1.1 treeinfo reader are modelled and "
    "compared with the real readers; the pre-productmd (0.0) and 0.3 treeinfo readers with their RHEL/Fedora heuristics are NOT "
    "modelled: for them the check is the implementation-side oracle (written as a current-version file with the proper header, "
    "re-load gives an identical second write) over generated [general]-only trees and every shipped fixture",
    "down-conversion follows the format documentation (fields that did not exist yet removed, legacy section names, compose "
    "date/type/respin only in the id, variants related only by UID prefix, 'src' cells)",
]
N = {"quick": 40, "thorough": 600}
CUR = {"version": "1.2"}
TYPES = {"composeinfo": "productmd.composeinfo", "images": "productmd.images", "rpms": "productmd.rpms", "modules": "productmd.modules",
         "treeinfo": "productmd.treeinfo"}


def check_upgrade(chk, c, r, suite, small):
    if r[0] == "load-err":
        return "an older-format document the format documentation allows was rejected: %r" % (r,)
    if r[0] == "dump-err":
        return "a loaded older-format document cannot be written: %s" % r[1]
    if r[0] != "ok":
        return "the upgraded file cannot be re-loaded/written: %r" % (r[:2],)
    same, header = r[1], r[2]
    if not same:
        return "the second write differs from the first: conversion did not happen exactly once"
    if c["fmt"] != "discinfo":
        if not header or header.get("version") != CUR["version"] or header.get("type") != TYPES[c["fmt"]]:
            return "the upgraded file does not carry the current version and proper type: %r" % (header,)
    return None


FAMILIES_00 = ["Red Hat Enterprise Linux", "Red Hat Enterprise Linux Server", "Subscription Asset Manager", "Subscription Asset Manager 2",
               "Red Hat Storage", "Red Hat Storage Software Appliance", "Red Hat Storage Server", "JBEAP", "JBEAP Tools", "Fedora",
               "Fedora Rawhide", "CentOS", "CentOS Linux", "EulerOS", "EulerOS V2", "Scientific Linux", "fedora", "My RHEL"]
VERSIONS_00 = ["7.0", "22", "6.5-Beta", "RHEL-6.5", "7.2_20150101", "Rawhide", "5.11-1.2-x", "20_Alpha-TC1", "3.0.1", "6", "5.3", "4.8", "3"]


def run(chk):
    chk.build(["Props/C05.vo"])
    CUR["version"] = ".".join(str(x) for x in OI.reflect()["VERSION"])
    rng = core.Rng(chk.seed * 7919 + 5)
    R = OI.reflect()
    # 1. composeinfo: down-convert documents written by the library
    contents = [{"kind": "composeinfo", "content": DCo.gen_content(rng, "composeinfo", R)} for _ in range(N[chk.tier])]
    for cont in contents:
        # from format 0.3 on date/type/respin are stored next to the id and need not agree with it (a promoted nightly keeps its id)
        if rng.random() < 0.4:
            comp = cont["content"][0]
            k = rng.random()
            if k < 0.4:
                comp["respin"] = comp["respin"] + 1
            elif k < 0.7:
                comp["type"] = rng.choice(R["COMPOSE_TYPES"])
            else:
                comp["date"] = "20150601"
            cont["decoupled"] = True
    ir = core.ImplRunner("docs_corrupt", fn="impl_valid_doc", per_case_timeout=20.0)
    try:
        docs = ir.run(contents)
    finally:
        ir.close()
    cases = []
    def depth(t):
        return 1 + max([depth(c) for c in t[3].values()] or [0])

    for cont, d in zip(contents, docs):
        if isinstance(d, dict):
            tops = cont["content"][3]
            # before 1.0 parent/child is expressed by the UID prefix alone: only two levels, no dashed top-level UID
            flat = max([depth(t) for t in tops.values()] or [0]) <= 2 and not any("-" in t[0]["uid"] for t in tops.values())
            older = ["0.3"] if cont.get("decoupled") else ["0.3", "0.2", "0.1"]        # before 0.3 the facts exist only inside the id
            for ver in ["1.1", "1.0"] + (older if flat else []):
                doc, desc = DL.down_composeinfo(d, ver), cont["content"]
                cid = doc["payload"]["compose"]["id"]
                if rng.random() < 0.4 and (".n." in cid or ".t." in cid):
                    # the documented long spellings of the type suffix; the id is carried over verbatim
                    cid = cid.replace(".n.", ".nightly.").replace(".t.", ".test.")
                    doc = copy.deepcopy(doc)
                    doc["payload"]["compose"]["id"] = cid
                    desc = copy.deepcopy(desc)
                    desc[0]["id"] = cid
                cases.append({"fmt": "composeinfo", "text": json.dumps(doc), "doc": doc, "version": ver, "desc": desc})
    ir = core.ImplRunner("docs_legacy", fn="impl_upgrade", per_case_timeout=20.0)
    try:
        ires = ir.run([{"fmt": c["fmt"], "text": c["text"]} for c in cases])
    finally:
        ir.close()
    mres = core.run_model([wire.encode_line("load_ci", c["doc"]) for c in cases])
    dis = 0
    flags = []
    for c, r, m in zip(cases, ires, mres):
        small = {"fmt": "composeinfo", "version": c["version"]}
        flags.append(True)
        v = check_upgrade(chk, c, r, "docs_legacy:composeinfo", small)
        if v:
            chk.violation("composeinfo %s: %s" % (c["version"], v), {"version": c["version"], "doc": c["doc"]}, "docs_legacy:composeinfo")
        elif r[0] == "ok":
            from props.C01 import norm
            want = norm(DL.forget_composeinfo(c["desc"], c["version"]))
            if r[3] != want:
                for i, nm in enumerate(["compose", "release", "base product", "variants"]):
                    if r[3][i] != want[i]:
                        chk.violation("composeinfo %s -> current: %s not carried over: %r vs %r" % (c["version"], nm, r[3][i], want[i]),
                                      {"version": c["version"], "doc": c["doc"]}, "docs_legacy:composeinfo")
                        break
        ok_i = r[0] == "ok"
        ok_m = isinstance(m, list) and m and m[0] == "ok"
        if ok_i != ok_m or (ok_i and (m[1][0] != r[3] or m[1][1] != ["ok", r[4]])):
            dis += 1
            if dis <= 3:
                chk.obligation("suite:docs_legacy:composeinfo[%d]" % dis, False, "version %s: impl %s vs model %s" % (c["version"], str(r[:2]), core.canon(m)[:200]))
    chk.add_cases([{"fmt": "composeinfo", "version": c["version"], "n": i} for i, c in enumerate(cases)], flags)
    chk.traces += len(cases)
    chk.obligation("suite:docs_legacy:composeinfo", dis == 0, "" if dis == 0 else "%d disagreements" % dis)
    chk.record_suite("docs_legacy:composeinfo", {"cases": len(cases), "disagreements": dis, "versions": ["1.1", "1.0", "0.3", "0.2", "0.1"]})
    # 2. images 1.0 / 1.1 and rpms 0.1-0.3 (generated older documents; model agreement is part of C10's suites)
    other = [{"fmt": "images", "text": json.dumps(DL.gen_images_doc(rng, R, version=v))} for v in ["1.0", "1.1"] for _ in range(N[chk.tier] // 2)]
    other += [{"fmt": "rpms", "text": json.dumps(DL.gen_rpms_doc(rng, R, version=v))} for v in ["0.3", "0.2"] for _ in range(N[chk.tier] // 2)]
    # ... and the same documents against the model readers with the re-filing oracle (shared with C10): faithful mapping
    from props import C10 as P10
    P10.legacy_suites(chk, rng, R, set(R["RPM_ARCHES"]), N[chk.tier], full=True)
    # 3. treeinfo 1.1 / 1.0 (down-converted tables) and pre-productmd [general]-only trees
    tconts = [{"content": DT.gen_treeinfo(rng, R)} for _ in range(N[chk.tier])]
    for tc in tconts:
        # format 0.3 cannot express binary paths in a source tree: make most source trees expressible (at every depth)
        if tc["content"]["tree"]["arch"] == "src" and rng.random() < 0.8:
            def strip(v):
                v["paths"].pop("packages", None)
                v["paths"].pop("repository", None)
                for c in v["children"].values():
                    strip(c)
            for v in tc["content"]["variants"].values():
                strip(v)
    ir = core.ImplRunner("docs_corrupt", fn="impl_valid_treeinfo", per_case_timeout=20.0)
    try:
        tables = ir.run(tconts)
    finally:
        ir.close()
    for t, tc in zip(tables, tconts):
        if isinstance(t, dict):
            for ver in ["1.1", "1.0", "0.3"]:
                dt = DL.down_treeinfo_table(t, ver)
                if dt is not None:
                    other.append({"fmt": "treeinfo", "text": DCo.render_ini(dt), "table": dt, "desc": tc["content"], "version": ver})
            g = {k: v for k, v in t["general"].items() if not k.startswith(";")}
            if "-" not in g.get("variant", ""):
                other.append({"fmt": "treeinfo", "text": DCo.render_ini({"general": g}), "pre_productmd": True})
                for _rep in range(5):
                    # the family / version heuristics of the pre-productmd reader (reference: Model/TreeInfo00.v)
                    g2 = dict(g)
                    g2["family"] = rng.choice(FAMILIES_00 + ["Red Hat Enterprise Linux", "Red Hat Enterprise Linux Server"] * 3)
                    g2["version"] = rng.choice(VERSIONS_00)
                    g2["name"] = "%s %s" % (g2["family"], g2["version"])
                    for key, pool in (("packagedir", ["Packages", ".", "Server", "RedHat/RPMS/", "", None]),
                                      ("repository", [".", "Server/repodata", "repo/", "Server", None, "Server/repodata/", "repodata/", "Server//repodata", "repodata"])):
                        val = rng.choice(pool + [g2.get(key)])
                        if val is None:
                            g2.pop(key, None)
                        else:
                            g2[key] = val
                    tab00 = {"general": g2}
                    paths00 = None
                    if rng.random() < 0.4:
                        # image, stage2 and checksum paths of such trees were often absolute: the tree root ends at the FIRST "/os/"
                        pool00 = ["images/install.img", "/mnt/tree/os/images/install.img", "/mnt/x86_64/os/images/os/install.img",
                                  "/images/boot.iso", "//srv/images/pxeboot/vmlinuz", "/a/os/b/os/c/os/d", "os/images/boot.iso", "/os/x"]
                        p1, p2, p3 = rng.choice(pool00), rng.choice(pool00), rng.choice(pool00)
                        tab00["stage2"] = {"mainimage": p1}
                        tab00["images-" + g2["arch"]] = {"boot.iso": p2}
                        tab00["checksums"] = {p3: "sha256:" + "ab" * 32}
                        paths00 = [p1, p2, p3]
                    other.append({"fmt": "treeinfo", "text": DCo.render_ini(tab00), "pre_productmd": True,
                                  "family": g2["family"], "version00": g2["version"], "general": g2, "paths00": paths00})
    # 4. every shipped fixture
    fx = DL.fixtures()
    allc = other + fx
    ir = core.ImplRunner("docs_legacy", fn="impl_upgrade", per_case_timeout=30.0)
    try:
        ores = ir.run([{k: v for k, v in c.items() if k in ("fmt", "text", "path")} for c in allc])
    finally:
        ir.close()
    # model agreement on the modelled treeinfo versions
    tl = [(i, c) for i, c in enumerate(allc) if "table" in c]
    tm = core.run_model([wire.encode_line("load_ti", c["table"]) for _, c in tl])
    tdis = 0
    for (i, c), m in zip(tl, tm):
        r = ores[i]
        ok_i = r[0] == "ok"
        ok_m = isinstance(m, list) and m and m[0] == "ok"
        if ok_i != ok_m or (ok_i and m[1][1] != ["ok", r[4]]):
            tdis += 1
            if tdis <= 3:
                chk.obligation("suite:docs_legacy:treeinfo[%d]" % tdis, False, "impl %s vs model %s" % (str(r[:2]), core.canon(m)[:200]))
    chk.obligation("suite:docs_legacy:treeinfo", tdis == 0, "" if tdis == 0 else "%d disagreements" % tdis)
    # pre-productmd release heuristics: implementation vs reference model
    fl = [(i, c) for i, c in enumerate(allc) if "family" in c]
    fm = core.run_model([wire.encode_line("release_00", [c["family"], c["version00"]]) for _, c in fl])
    fdis = 0
    for (i, c), m in zip(fl, fm):
        r = ores[i]
        if r[0] != "ok":
            chk.violation("a pre-productmd tree with family %r version %r could not be upgraded: %r" % (c["family"], c["version00"], r[:2]),
                          {"text": c["text"]}, "docs_legacy:release_00")
            continue
        rel = r[3].get("release", {})
        got = [rel.get("name"), rel.get("short"), rel.get("version")]
        if got != m:
            fdis += 1
            chk.violation("pre-productmd tree, family %r version %r: upgraded to name/short/version %r, documented mapping gives %r"
                          % (c["family"], c["version00"], got, m), {"text": c["text"]}, "docs_legacy:release_00")
    # ... and the packages / repository heuristics of the same reader, given what the release heuristics produced
    plines, pidx = [], []
    for (i, c), m in zip(fl, fm):
        if ores[i][0] == "ok" and isinstance(m, list) and len(m) == 3:
            g2 = c["general"]
            plines.append(wire.encode_line("paths_00", [m[1], m[2], g2["variant"], g2["arch"], g2.get("repository"),
                                                         g2.get("packages", g2.get("packagedir", g2.get("packagedirs")))]))
            pidx.append(i)
    pm = core.run_model(plines)
    for i, m in zip(pidx, pm):
        c, r = allc[i], ores[i]
        vp = r[3].get("variants", {}).get(c["general"]["variant"], {}).get("paths", {})
        got = [vp.get(k) for k in ("packages", "repository", "source_packages", "source_repository")]
        if got != m:
            fdis += 1
            chk.violation("pre-productmd tree %r: packages/repository/source_packages/source_repository upgraded to %r, documented "
                          "heuristics give %r" % ({k: c["general"].get(k) for k in ("family", "version", "arch", "variant", "packagedir", "repository")}, got, m),
                          {"text": c["text"]}, "docs_legacy:paths_00")
    def root00(p):
        if p.startswith("/"):
            return p[p.find("/os/") + 4:] if "/os/" in p else p.lstrip("/")
        return p
    for (i, c), m in zip(fl, fm):
        r = ores[i]
        if c.get("paths00") and r[0] == "ok":
            p1, p2, p3 = c["paths00"]
            got = [r[3]["stage2"]["mainimage"], r[3]["images"].get(c["general"]["arch"], {}).get("boot.iso"), sorted(r[3]["checksums"])]
            want = [root00(p1), root00(p2), [root00(p3)]]
            if got != want:
                fdis += 1
                chk.violation("pre-productmd tree with stage2/image/checksum paths %r: upgraded to %r, the reference mapping (relative to "
                              "the tree root, which ends at the first '/os/') gives %r" % (c["paths00"], got, want), {"text": c["text"]}, "docs_legacy:paths_00")
        elif c.get("paths00"):
            fdis += 1
            chk.violation("pre-productmd tree with stage2/image/checksum paths %r could not be upgraded: %r" % (c["paths00"], r[:3]),
                          {"text": c["text"]}, "docs_legacy:paths_00")
    chk.obligation("suite:docs_legacy:release_00", fdis == 0, "" if fdis == 0 else "%d disagreements" % fdis)
    chk.record_suite("docs_legacy:release_00", {"cases": len(fl), "disagreements": fdis, "families": FAMILIES_00, "versions": VERSIONS_00})
    kinds = {}
    for c, r in zip(allc, ores):
        tag = c["fmt"] + (":fixture" if "path" in c else (":pre-productmd" if c.get("pre_productmd") else ":generated"))
        kinds[tag] = kinds.get(tag, 0) + 1
        small = {"fmt": c["fmt"], "path": c.get("path"), "text": None if "path" in c else c["text"][:400]}
        v = check_upgrade(chk, c, r, "docs_legacy", small)
        if not v and c.get("desc") is not None and r[0] == "ok":
            from props.C04 import norm as norm_ti
            want = norm_ti(c["desc"])
            got = r[3]
            for k in want:
                if got.get(k) != want[k]:
                    v = "treeinfo %s -> current: %s not carried over: %r vs %r" % (c["version"], k, got.get(k), want[k])
                    break
        if v:
            fid = None
            if c.get("path", "").endswith("/treeinfo/opensuse"):
                fid = "K3-opensuse-fixture"
            chk.violation("%s %s: %s" % (c["fmt"], os.path.basename(c.get("path", "generated")), v), small, "docs_legacy", fid)
    chk.add_cases([{"fmt": c["fmt"], "path": c.get("path"), "n": i} for i, c in enumerate(allc)], [True] * len(allc))
    chk.traces += len(allc)
    chk.record_suite("docs_legacy:other", {"cases": len(allc), "by_kind": kinds, "fixtures": len(fx)})
    chk.samples.append({"suite": "docs_legacy", "fixtures": [os.path.relpath(c["path"], "/repo/tests") for c in fx[:5]]})
    return chk.finish(
        rule="composeinfo 1.1/1.0/0.3/0.2/0.1, images 1.0/1.1, rpms 0.2/0.3, treeinfo 1.1/1.0 documents obtained by down-converting "
             "valid content, pre-productmd [general]-only trees, and every historical fixture shipped under tests/ (treeinfo, "
             "discinfo, images, composeinfo): loaded, written (must be a current-version file with the proper type), re-loaded and "
             "written again (must be byte-identical); for composeinfo the upgraded object is compared with the documented mapping "
             "and with the model reader",
        trusted=TRUSTED)
