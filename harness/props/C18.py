"""C18 - a dump that fails validation leaves the destination file untouched"""
import core
from suites import fx_dump as S

TRUSTED = [
    "Coq 8.16.1 kernel",
    "the effect model of dump (Model/Dump.v) is tied to the code by fault enumeration on real files: every validator of every "
    "class reachable during a dump of each of the seven formats (enumerated from the regenerated inventory) is made to fail, one "
    "at a time, by replacing the bound method in the harness process; plus one really invalid nested value per format and one "
    "nested value of a type no validator inspects and the encoder cannot write",
    "the operating system's open/truncate/write semantics; only local paths (URL destinations are not modelled)",
]


def run(chk):
    chk.build(["Props/C18.vo"])
    rng = core.Rng(chk.seed * 7919 + 18)
    cases = []
    for _ in range(1 if chk.tier == "quick" else 8):
        cases.extend(S.generate(rng))
    ir = core.ImplRunner("fx_dump", per_case_timeout=20.0)
    try:
        res = ir.run(cases)
    finally:
        ir.close()
    fired = 0
    by_kind = {}
    for c, r in zip(cases, res):
        if not isinstance(r, list) or len(r) != 5:
            chk.violation("harness: %r" % (r,), c, "fx_dump")
            continue
        outcome, existed, exists, same, size = r
        k = by_kind.setdefault(c["kind"], {"points": 0, "fired": 0})
        k["points"] += 1
        if outcome == "no-error":
            continue
        fired += 1
        k["fired"] += 1
        names = {"unencodable": "a nested value the encoder cannot write",
                 "reader-refuses": "an object the writer accepts and the library's own reader would refuse",
                 "late-failure": "a failure inside the [general] compatibility writer"}
        where = (names[c["inject"]] if isinstance(c["inject"], str) else
                 "injected failure in %s.%s" % tuple(c["inject"])) if c["inject"] else "a really invalid nested value"
        fid = "D1-dump-truncates-before-nested-validation"
        if existed and not same:
            chk.violation("%s dump failed (%s, %s) and the previous file was changed (now %s bytes)" % (c["kind"], outcome, where, size),
                          {k2: c.get(k2) for k2 in ("kind", "pre", "inject", "dest")}, "fx_dump", fid)
        if not existed and exists:
            chk.violation("%s dump failed (%s, %s) and left a new file of %s bytes behind" % (c["kind"], outcome, where, size),
                          {k2: c.get(k2) for k2 in ("kind", "pre", "inject", "dest")}, "fx_dump", fid)
    chk.add_cases([{k2: c.get(k2) for k2 in ("kind", "pre", "inject", "dest")} for c in cases], [r[0] != "no-error" if isinstance(r, list) else False for r in res])
    chk.traces += len(cases)
    chk.obligation("suite:fx_dump", fired > 0, "no injected failure fired" if fired == 0 else "")
    chk.record_suite("fx_dump", {"cases": len(cases), "failures_fired": fired, "per_format": by_kind})
    chk.samples.extend([{"suite": "fx_dump", "case": {k2: c.get(k2) for k2 in ("kind", "pre", "inject", "dest")}, "impl": r} for c, r in list(zip(cases, res))[:6]])
    return chk.finish(
        level="proof",
        rule="for each of the seven formats: a valid object is written to the destination (or the destination does not exist), then a "
             "second dump to the same path is made to fail at each validator of each class reachable during the dump (one "
             "injected failure at a time), with one really invalid nested value and with one unencodable nested value; existence and bytes of the destination are "
             "compared before/after; non-trivial = the failure fired",
        trusted=TRUSTED, extra_cov={"exhaustive": True})
