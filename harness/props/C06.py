"""C06 - only objects meeting every documented field constraint can be written"""
import core
import wire
from suites import corrupt as S

TRUSTED = [
    "Coq 8.16.1 kernel (vm_compute for the obligations on the regenerated validator tables)",
    "harness/translate.py: the validator inventory (exactly what validate() runs, per class) and the bodies written in the "
    "library's assertion vocabulary are regenerated from the AST on every run; 12 context-dependent validators are hand-modelled "
    "(their AST hashes are regenerated)",
    "the rule table of suites/corrupt.py is written from the format documentation, not from the validators",
    "extraction (ExtrOcamlBasic only) + runner/driver.ml + wire format; sampled (object, position, field, bad value) tuples",
]
N = {"quick": 150, "thorough": 3000}


def run(chk):
    chk.build(["Props/C06.vo"])
    deeper = bool(core.hand_models_changed(chk))
    rng = core.Rng(chk.seed * 7919 + 6)
    total_dis = 0
    for kind in S.KINDS:
        cases = S.generate(rng, kind, N[chk.tier] * (5 if deeper else 1))
        ir = core.ImplRunner("corrupt", per_case_timeout=20.0)
        try:
            ires = ir.run(cases)
        finally:
            ir.close()
        mres = core.run_model([wire.encode_line(*S.to_model(c)) for c in cases])
        dis = 0
        per_field = {}
        flags = []
        for c, r, m in zip(cases, ires, mres):
            tag = "%s.%s" % (c["where"], c["field"])
            per_field[tag] = per_field.get(tag, 0) + 1
            small = {k: c[k] for k in ("kind", "where", "pos", "field", "value")}
            flags.append(True)
            mclass = m[1] if (isinstance(m, list) and m and m[0] == "err") else "ok"
            iclass = r[1] if (isinstance(r, list) and r and r[0] == "err") else ("ok" if r and r[0] == "ok" else str(r))
            if r[0] == "ok":
                fid = None
                if kind == "composeinfo" and c["where"] == "variant" and c["field"] == "paths.os_tree":
                    fid = "K4-composeinfo-path-value-type"
                if kind == "composeinfo" and c["where"] == "variant" and c["field"] == "arches" and c["value"] == [5]:
                    fid = "K4-composeinfo-arches-member-type"
                chk.violation("%s with %s = %r was written without error" % (kind, tag, c["value"]), small, "corrupt:" + kind, fid)
            elif r[0] == "err" and r[1] not in ("TypeError", "ValueError"):
                chk.violation("%s with %s = %r: dump raised %s (documented: TypeError/ValueError)" % (kind, tag, c["value"], r[1]),
                              small, "corrupt:" + kind)
            elif r[0] not in ("ok", "err"):
                chk.violation("harness: %r" % (r,), small, "corrupt:" + kind)
            if mclass != iclass:
                dis += 1
                if dis <= 3:
                    chk.obligation("suite:corrupt:%s[%d]" % (kind, dis), False, "impl %s vs model %s for %s" % (iclass, mclass, core.canon(small)[:300]))
        total_dis += dis
        chk.add_cases([{k: c[k] for k in ("kind", "where", "pos", "field", "value")} for c in cases], flags)
        chk.traces += len(cases)
        chk.obligation("suite:corrupt:" + kind, dis == 0, "" if dis == 0 else "%d disagreements" % dis)
        chk.record_suite("corrupt:" + kind, {"cases": len(cases), "disagreements": dis, "corruptions_per_field": per_field})
        chk.samples.append({"suite": "corrupt:" + kind, "case": {k: cases[0][k] for k in ("where", "pos", "field", "value")}, "impl": ires[0]})
    return chk.finish(
        rule="for each of the seven formats: a valid object, one position (any variant in the forest, any image, any section) and one "
             "field replaced by a value from the complement of its documented domain (wrong type, blank, out of enumeration, "
             "malformed pattern, structural: foreign child arch, misaligned UID, absolute path, unreferenced platform); the "
             "outcome class is compared with the model; distinct by (format, position, field, value)",
        trusted=TRUSTED)
