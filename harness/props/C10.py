"""C10 - source content is always filed under binary architectures"""
import core
from suites import ops_images as OI, ops_manifests as OM, docs_legacy as DL

TRUSTED = [
    "Coq 8.16.1 kernel", "harness/translate.py: RPM_ARCHES regenerated from /repo",
    "extraction (ExtrOcamlBasic only) + runner/driver.ml + wire format",
    "format 0.3 of the rpms manifest has no written specification: the down-converter follows the shape the reader consumes",
    "sampled add histories and legacy documents",
]
N = {"quick": 300, "thorough": 6000}
BAD = ("src", "nosrc")


def arch_keys(mapping):
    return [a for arches in mapping.values() for a in arches]


def model_load_images_norm(r):
    """model description -> [cells as field dicts sorted by path, compose, dump]"""
    if not (isinstance(r, list) and r and r[0] == "ok"):
        return r
    if len(r[1]) != 4:
        return r
    _, full, comp, dump = r[1]
    cells = {v: {a: sorted(([o for _, o in imgs]), key=lambda o: str(o["path"])) for a, imgs in arches.items()} for v, arches in full.items()}
    return ["ok", [cells, comp, dump]]


def placement_only(r):
    """for C10 the tie is about WHERE things are filed (variant / arch / path or name), not about every attribute"""
    if not (isinstance(r, list) and r and r[0] == "ok" and isinstance(r[1], list)):
        return [r[0], r[1]] if (isinstance(r, list) and len(r) > 1) else r
    body = r[1]
    if len(body) == 3 and isinstance(body[0], dict) and all(isinstance(a, dict) for a in body[0].values()):
        first = body[0]
        if all(isinstance(cell, list) for a in first.values() for cell in a.values()):          # images: cells of field dicts
            return ["ok", {v: {a: sorted(str(o.get("path")) for o in cell) for a, cell in arches.items()} for v, arches in first.items()}]
    if len(body) == 3 and isinstance(body[1], dict):                                            # rpms: compose, payload, dump
        return ["ok", {v: {a: {s: sorted(tab) for s, tab in srpms.items()} for a, srpms in arches.items()} for v, arches in body[1].items()}]
    return r


def legacy_suites(chk, rng, R, known, n, full=False):
    """older images (1.0/1.1) and rpms (0.1-0.3) documents: implementation vs model readers + re-filing oracle.
    full=True compares every attribute (C05: faithful upgrade); otherwise only the placement (C10)."""
    # legacy images documents with 'src' cells
    docs = [{"doc": DL.gen_images_doc(rng, R)} for _ in range(n)]
    # a legacy document in which a variant with source images ALSO lists a forbidden architecture with no image of its own: the
    # source images would have to be filed under it, so the document is refused
    for i in range(max(4, n // 10)):
        d = DL.gen_images_doc(rng, R, version=rng.choice(["1.0", "1.1"]))
        hit = False
        for v, arches in d["payload"]["images"].items():
            if arches.get("src") and any(a != "src" for a in arches):
                arches[rng.choice(["nosrc", "i786", "bogus"])] = []          # last key: not the first non-src one
                hit = True
        if hit:
            docs.append({"doc": d, "empty_bad_cell": True})

    def oracle_img(c, r):
        doc = c["doc"]
        ver = tuple(int(x) for x in doc["header"]["version"].split("."))
        if c.get("empty_bad_cell"):
            if r[0] == "ok":
                return "a %s document whose source images would be filed under a forbidden architecture was loaded" % doc["header"]["version"]
            return None if r[1] == "ValueError" else "refused with %s (documented: ValueError)" % r[1]
        if r[0] != "ok":
            if ver <= (1, 1):
                return "a valid %s images document with 'src' cells was rejected: %r" % (doc["header"]["version"], r)
            return None
        cells, comp, dump = r[1]
        for k in arch_keys(cells):
            if k not in known or k in BAD:
                return "loaded images manifest has the architecture key %r" % k
        if ver <= (1, 1):
            for v, arches in doc["payload"]["images"].items():
                binary = [a for a in arches if a != "src"]
                for img in arches.get("src", []):
                    for a in binary:
                        if img["path"] not in [o["path"] for o in cells.get(v, {}).get(a, [])]:
                            return "source image %s of variant %s was not re-filed under %s" % (img["path"], v, a)
        if dump[0] == "ok":
            for k in arch_keys(dump[1]["payload"]["images"]):
                if k in BAD:
                    return "written manifest still has a %r key" % k
        return None

    for i, c in enumerate(docs):
        if i % 3:
            c["pre"] = ("failed", "add")[i % 3 - 1]          # the loading object has a history (ops_images.impl_load)
    core.differential(chk, "docs_legacy:images", docs, "load_images", model_cases=[c["doc"] for c in docs],
                      impl_fn="impl_load_legacy_images", nontrivial=lambda c, r: r[0] == "ok" and any("src" in a for a in c["doc"]["payload"]["images"].values()),
                      oracle=oracle_img, normalise=(model_load_images_norm if full else (lambda r: placement_only(model_load_images_norm(r)))))
    # rpms 0.3 documents
    rdocs = [{"kind": "rpms", "doc": DL.gen_rpms_doc(rng, R)} for _ in range(n)]

    def oracle_rpms(c, r):
        if r[0] != "ok":
            return "a valid %s rpms document was rejected: %r" % (c["doc"]["header"]["version"], r)
        comp, payload, again = r[1]
        for k in arch_keys(payload):
            if k not in known or k in BAD:
                return "converted rpms manifest has the architecture key %r" % k
        man = c["doc"]["payload"]["manifest"]
        for v, arches in man.items():
            src = arches.get("src", {})
            for a, tab in arches.items():
                if a == "src":
                    continue
                for srpm, rpms in tab.items():
                    if srpm in src and rpms:
                        key = srpm[:-4] if srpm.endswith(".rpm") else srpm
                        ent = payload.get(v, {}).get(a, {}).get(key, {}).get(key)
                        if not ent or ent["category"] != "source" or ent["path"] != src[srpm]["path"]:
                            return "source RPM %s was not re-filed under %s/%s" % (srpm, v, a)
        return None

    for i, c in enumerate(rdocs):
        if i % 2:
            c["pre"] = "failed"
    core.differential(chk, "docs_legacy:rpms", rdocs, "load_rpms", model_cases=[c["doc"] for c in rdocs],
                      impl_fn="impl_load_rpms", nontrivial=lambda c, r: r[0] == "ok" and len(r[1][1]) >= 1, oracle=oracle_rpms,
                      normalise=(lambda r: (lambda x: x if full else placement_only(x))(
                          ["ok", [r[1][0], r[1][1], (r[1][2][0] if isinstance(r[1][2], list) else r[1][2])]] if (isinstance(r, list) and r and r[0] == "ok") else r)))


def run(chk):
    chk.build(["Props/C10.vo"])
    rng = core.Rng(chk.seed * 7919 + 10)
    R = OI.reflect()
    known = set(R["RPM_ARCHES"])
    # add histories with every kind of architecture string
    cases = OI.generate(rng, N[chk.tier])

    def oracle_add(c, r):
        for (v, a, i), st in zip(c["ops"], r[0]):
            bad = a not in known or a in BAD
            if bad and st[0] == "ok":
                return "Images.add accepted the architecture %r" % a
            snap = st[1] if st[0] == "ok" else st[2]
            for k in arch_keys(snap):
                if k not in known or k in BAD:
                    return "images manifest has the architecture key %r" % k
        if r[1][0] == "ok":
            for k in arch_keys(r[1][1]["payload"]["images"]):
                if k not in known or k in BAD:
                    return "written images manifest has the architecture key %r" % k
        return None

    core.differential(chk, "ops_images", cases, "ops_images", model_cases=[OI.to_model(c) for c in cases],
                      nontrivial=lambda c, r: any(s[0] == "err" for s in r[0]) and any(s[0] == "ok" for s in r[0]),
                      oracle=oracle_add, normalise=OI.norm_steps)
    rcases = OM.generate(rng, "rpms", N[chk.tier])

    def oracle_radd(c, r):
        for op, st in zip(c["ops"], r):
            bad = op[1] not in known or op[1] in BAD
            if bad and st[0] == "ok":
                return "Rpms.add accepted the architecture %r" % op[1]
            snap = st[1] if st[0] == "ok" else st[2]
            for k in arch_keys(snap):
                if k not in known or k in BAD:
                    return "rpms manifest has the architecture key %r" % k
        return None

    core.differential(chk, "ops_manifests:rpms", rcases, "ops_rpms", model_cases=[c["ops"] for c in rcases],
                      nontrivial=lambda c, r: any(s[0] == "ok" for s in r), oracle=oracle_radd)
    legacy_suites(chk, rng, R, known, N[chk.tier])
    return chk.finish(
        rule="add histories with known binary, src, nosrc and unknown architecture strings (images and rpms); images documents of "
             "format 1.0/1.1/1.2 and rpms documents of format 0.1-0.3 in which any subset of variants has a 'src' entry next to "
             "0-3 binary architectures; non-trivial = accepted and refused adds both occur / a 'src' cell is present",
        trusted=TRUSTED)
