"""C17 - the legacy [general] section mirrors the authoritative sections"""
import core
import wire
from suites import docs_treeinfo as S

TRUSTED = [
    "Coq 8.16.1 kernel", "harness/translate.py (treeinfo validators, tables) regenerated from /repo",
    "Base/Ini.print_ini as the model of the INI writer, compared byte for byte with the real output; the oracle reads the "
    "output with an independent minimal INI reader",
    "extraction (ExtrOcamlBasic only) + runner/driver.ml + wire format; sampled trees x main-variant choices",
]
N = {"quick": 250, "thorough": 5000}


def run(chk):
    chk.build(["Props/C17.vo"])
    rng = core.Rng(chk.seed * 7919 + 17)
    cases = []
    for _ in range(N[chk.tier]):
        d = S.gen_treeinfo(rng)
        if rng.random() < 0.3:
            d["tree"]["build_timestamp"] = rng.choice([1440000000.5, 12.75, 3.0])
        for mv in [None] + (sorted(d["variants"]) if rng.random() < 0.5 else []):
            cases.append({"desc": d, "main_variant": mv})

    def oracle(c, r):
        if r[0] != "ok":
            return "a valid tree could not be written: %r" % (r,)
        text, seen = r[1], r[2]
        d = c["desc"]
        if len(r) > 4 and r[4] is not None and c["main_variant"] is None:
            uid, paths, g2 = r[4][:3]
            if len(r[4]) > 3 and r[4][3] != ["Replaced/Packages", "Replaced"]:
                return ("after the nested variant %r was replaced under its parent by an object with other paths, writing with it as main "
                        "variant gives packagedir/repository %r" % (uid, r[4][3]))
            if not isinstance(g2, dict):
                return "a nested variant (%r) requested as main variant: %r" % (uid, g2)
            exp = {"variant": uid}
            for key, fld, src in [("packagedir", "packages", "source_packages"), ("repository", "repository", "source_repository")]:
                e = paths.get(fld)
                if e is None and d["tree"]["arch"] == "src":
                    e = paths.get(src)
                exp[key] = e
            if g2 != exp:
                return "main variant %r (nested): [general] has %r, that variant's facts are %r" % (uid, g2, exp)
        if len(r) > 3 and r[3] != sorted(d["variants"])[0]:
            return ("the tree written with main variant %r, loaded and written again without one, has [general] variant = %r; "
                    "the alphabetically first top-level variant is %r" % (c["main_variant"], r[3], sorted(d["variants"])[0]))
        ini = S.mini_ini(text)
        g = ini.get("general")
        if g is None:
            return "no [general] section was written"
        rel, tree = d["release"], d["tree"]
        want = {"family": rel["name"], "version": rel["version"], "name": "%s %s" % (rel["name"], rel["version"]),
                "arch": tree["arch"], "platforms": ",".join(sorted(set(tree["platforms"]) | {tree["arch"]})),
                "timestamp": str(int(tree["build_timestamp"]))}
        for k, v in want.items():
            if g.get(k) != v:
                return "[general] %s = %r, the authoritative sections say %r" % (k, g.get(k), v)
        if g.get("platforms") != ini["tree"].get("platforms"):
            return "[general] platforms differ from [tree] platforms"
        tops = sorted(d["variants"])
        mv = c["main_variant"] or tops[0]
        if g.get("variant") != mv:
            return "[general] variant = %r, expected %r" % (g.get("variant"), mv)
        paths = d["variants"][mv]["paths"]
        for key, fld, src in [("packagedir", "packages", "source_packages"), ("repository", "repository", "source_repository")]:
            exp = paths.get(fld)
            if exp is None and tree["arch"] == "src":
                exp = paths.get(src)
            if g.get(key) != exp:
                return "[general] %s = %r, variant %s has %r" % (key, g.get(key), mv, exp)
        # a pre-productmd reader given only [general] (productmd's own 0.0 reader as the stand-in; it cannot know the
        # type of a dashed top-level variant from [general] alone, so those main variants are not fed to it)
        if "-" in mv:
            return None
        if isinstance(seen, list):
            return "the compatibility section alone cannot be read by the pre-productmd reader: %r" % (seen,)
        if seen["arch"] != tree["arch"] or seen["version"] != rel["version"] or seen["variants"] != [mv]:
            return "a pre-productmd reader sees %r" % (seen,)
        if seen["timestamp"] != int(tree["build_timestamp"]):
            return "a pre-productmd reader sees timestamp %r" % (seen["timestamp"],)
        return None

    core.differential(chk, "docs_treeinfo:general", cases, "dump_ti", model_cases=[[c["desc"], c["main_variant"]] for c in cases],
                      impl_fn="impl_general", oracle=oracle,
                      nontrivial=lambda c, r: r[0] == "ok" and len(c["desc"]["variants"]) >= 2,
                      normalise=lambda r: r[:2] if (isinstance(r, list) and r and r[0] == "ok") else r)
    # floats that print in exponent form (float(time.time_ns()) = 1.7591e+18): outside the model's float tokens, so these trees
    # go to the implementation-side oracle only
    ecases = []
    for c in cases[:max(20, len(cases) // 10)]:
        e = {"desc": dict(c["desc"], tree=dict(c["desc"]["tree"], build_timestamp=rng.choice([1e16, 1.7591e+18, 3.25e22, float(2 ** 60)]))),
             "main_variant": c["main_variant"]}
        ecases.append(e)
    ir = core.ImplRunner("docs_treeinfo", fn="impl_general", per_case_timeout=10.0)
    try:
        eres = ir.run(ecases)
    finally:
        ir.close()
    for c, r in zip(ecases, eres):
        v = oracle(c, r) if isinstance(r, list) and r else "harness: %r" % (r,)
        if v:
            chk.violation(v, c, "docs_treeinfo:general:exponent-floats")
    chk.add_cases([{"exp": i, "ts": c["desc"]["tree"]["build_timestamp"]} for i, c in enumerate(ecases)], [True] * len(ecases))
    chk.record_suite("docs_treeinfo:general:exponent-floats", {"cases": len(ecases)})
    return chk.finish(
        rule="valid trees (as in C04) with 1-4 top-level variants, every choice of main variant (and none), binary and src trees, "
             "variants with and without packages/repository paths, float and integer timestamps, extra platforms; the written text "
             "is compared with the model's byte for byte and read with an independent INI reader; the [general] section alone is "
             "fed to the pre-productmd reader; non-trivial = >= 2 top-level variants",
        trusted=TRUSTED)
