"""C03 - rpms, modules and extra-files manifests survive a write/read cycle unchanged"""
import core
from suites import docs_manifests as S

TRUSTED = [
    "Coq 8.16.1 kernel (vm_compute for closed table obligations: current version, empty container validators)",
    "harness/translate.py: VERSION, header types, Compose/Header validators (AST -> assertion vocabulary) regenerated from /repo",
    "json.load / json.dump text layers are CPython's: the model starts at the parsed tree; Base/Json.print_json models the "
    "writer (indent 4, sorted keys, ensure_ascii) and is compared byte for byte with the real output on every case",
    "extraction (ExtrOcamlBasic only) + runner/driver.ml + wire format; sampled add histories",
]
N = {"quick": 300, "thorough": 6000}


def norm_final(c):
    c = dict(c)
    if not c.get("label"):
        c["label"] = None
        c["final"] = False
    return c


def run(chk):
    chk.build(["Props/C03.vo"])
    rng = core.Rng(chk.seed * 7919 + 3)
    for kind in ["rpms", "modules", "extra"]:
        cases = S.generate(rng, kind, N[chk.tier])

        def oracle(c, r, kind=kind):
            if r[0] != "ok":
                return "a manifest built by add calls with a valid compose section could not be written: %r" % (r,)
            (text, back), built = r[1], r[2]
            if kind == "rpms":
                for op in c["ops"]:
                    if not (isinstance(op[2], str) and isinstance(op[3], str) and isinstance(op[5], str)):
                        continue
                    for skey, tab in built.get(op[0], {}).get(op[1], {}).items() if isinstance(op[0], str) and isinstance(op[1], str) else []:
                        for rkey, ent in tab.items():
                            last = [o for o in c["ops"] if o[:2] == op[:2] and isinstance(o[2], str) and o[3] == ent.get("path") and o[5] == ent.get("category")]
                            if last and all((o[4].lower() if isinstance(o[4], str) else o[4]) != ent.get("sigkey") for o in last):
                                return "entry %r/%r carries the signing key %r; the adds with its path and category gave %r" % (
                                    skey, rkey, ent.get("sigkey"), [o[4] for o in last])
            if back[0] != "ok":
                return "the written manifest could not be read back: %r" % (back,)
            comp2, payload2, again = back[1]
            if payload2 != built:
                return "re-read mapping differs from the one built by add: %r vs %r" % (payload2, built)
            if comp2 != norm_final(c["compose"]):
                return "compose section changed across the cycle: %r -> %r" % (c["compose"], comp2)
            if again != ["ok", text]:
                return "writing the re-read manifest does not reproduce the file byte for byte"
            return None

        from suites import ops_manifests as OM
        _, _, dis = core.differential(chk, "docs_manifests:" + kind, cases, "roundtrip_" + kind,
                          model_cases=[[c["compose"], S.equivalent_ops(c)] for c in cases], impl_fn="impl_roundtrip",
                          nontrivial=lambda c, r: r[0] == "ok" and len(r[2]) >= 1, oracle=oracle,
                          normalise=lambda r: r[:2] if (isinstance(r, list) and len(r) == 3) else r)
        # the reference model files every entry where the add calls say: a written manifest that differs from the model's
        # (same calls, same compose section) is a failing input in its own right
        for d in dis[:3]:
            if isinstance(d["impl"], list) and d["impl"] and d["impl"][0] == "ok" and d["model"] and d["model"][0] == "ok":
                chk.violation("the %s manifest written after these add calls differs from the documented layout: %s, reference model: %s" %
                              (kind, core.canon(d["impl"][1][0])[:300], core.canon(d["model"][1][0])[:300]), d["case"], "docs_manifests:" + kind)
    return chk.finish(
        rule="a valid compose section (all compose types, labels or none) + a history of 0-10 add calls (valid and refused mixed); "
             "the written text, the re-read compose section and mapping, and the second write are compared with the model "
             "(text byte for byte); non-trivial = at least one entry filed",
        trusted=TRUSTED)
