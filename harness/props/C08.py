"""C08 - serialisation is canonical: output depends on content only"""
import core
import wire
from suites import order as S

TRUSTED = [
    "Coq 8.16.1 kernel", "Base/Json.print_json as the model of json.dump(indent=4, sort_keys=True) - compared byte for byte with the real writer",
    "harness/translate.py (validators, tables) ; extraction (ExtrOcamlBasic only) + runner/driver.ml + wire format",
    "hash-seed dependence is explored by running the implementation in separate interpreter processes with PYTHONHASHSEED in a "
    "finite set; the theorem covers all iteration orders of the modelled mappings",
    "treeinfo (INI) output: Base/Ini.print_ini models SortedConfigParser.write (sections and options sorted)",
]
N = {"quick": 60, "thorough": 600}
K = {"quick": 4, "thorough": 12}
SEEDS = {"quick": ["0", "1", "2"], "thorough": [str(i) for i in range(12)]}


def run(chk):
    chk.build(["Props/C08.vo"])
    rng = core.Rng(chk.seed * 7919 + 8)
    cases = S.generate(rng, N[chk.tier], K[chk.tier])
    # the model's bytes for the content (construction order as generated)
    lines = [wire.encode_line(*S.to_model(c)) for c in cases]
    mres = core.run_model(lines)
    mtext = []
    for c, r in zip(cases, mres):
        if c["kind"] in ("composeinfo", "treeinfo"):
            mtext.append(r[1] if r[0] == "ok" else r)
        else:
            mtext.append(r[1][0] if r[0] == "ok" else r)
    per_seed = {}
    distinct_orders = 0
    for seed in SEEDS[chk.tier]:
        ir = core.ImplRunner("order", per_case_timeout=20.0, hashseed=seed)
        try:
            per_seed[seed] = ir.run(cases)
        finally:
            ir.close()
    bad = 0
    for i, c in enumerate(cases):
        texts = set()
        for seed, res in per_seed.items():
            for r in res[i]:
                if r[0] != "ok":
                    chk.violation("%s content could not be written in one construction order: %r" % (c["kind"], r), c, "order")
                    bad += 1
                    continue
                if r[1] != r[2]:
                    chk.violation("%s: dumping twice gives different bytes" % c["kind"], c, "order")
                    bad += 1
                texts.add(r[1])
        if len(texts) > 1:
            chk.violation("%s: the same content gives %d different byte sequences across construction orders / hash seeds"
                          % (c["kind"], len(texts)), c, "order")
            bad += 1
        elif texts and isinstance(mtext[i], str) and texts != {mtext[i]}:
            chk.obligation("suite:order[%d]" % i, False, "model bytes differ from the implementation's for %s content" % c["kind"])
            bad += 1
    chk.obligation("suite:order", bad == 0, "" if bad == 0 else "%d problems" % bad)
    chk.add_cases(cases, [True] * len(cases))
    chk.traces += len(cases) * K[chk.tier] * len(SEEDS[chk.tier])
    chk.record_suite("order", {"contents": len(cases), "orders_per_content": K[chk.tier], "hash_seeds": SEEDS[chk.tier],
                               "kinds": ["rpms", "modules", "extra", "images", "composeinfo", "treeinfo"]})
    chk.samples.append({"suite": "order", "case": {k: cases[0][k] for k in cases[0] if k != "orders"}, "bytes": len(mtext[0]) if isinstance(mtext[0], str) else None})
    return chk.finish(
        rule="one content per case (rpms/modules/extra histories, image pools, compose descriptions), constructed in K interleavings "
             "(cell-internal order kept where the list order is content) and dumped twice, in separate interpreter processes "
             "under each PYTHONHASHSEED; all byte sequences must coincide with each other and with the model's",
        trusted=TRUSTED)
