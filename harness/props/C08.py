"""C08 - serialisation is canonical: output depends on content only"""
import core
import wire
from suites import order as S

TRUSTED = [
    "Coq 8.16.1 kernel", "Base/Json.print_json as the model of json.dump(indent=4, sort_keys=True) - compared byte for byte with the real writer",
    "harness/translate.py (validators, tables) ; extraction (ExtrOcamlBasic only) + runner/driver.ml + wire format",
    "hash-seed dependence is explored by running the implementation in separate interpreter processes with PYTHONHASHSEED in a "
    "finite set; the theorem covers all iteration orders of the modelled mappings",
    "treeinfo (INI) output: Base/Ini.print_ini models SortedConfigParser.write (sections and options sorted)",
]
N = {"quick": 60, "thorough": 600}
K = {"quick": 4, "thorough": 12}
SEEDS = {"quick": ["0", "1", "2"], "thorough": [str(i) for i in range(12)]}


def raw_table(text):
    """section -> option -> value exactly as written (the '; WARNING' pseudo-options of [general] included, which a
    ConfigParser would skip as comments)"""
    table, cur = {}, None
    for line in text.split("\n"):
        if line.startswith("[") and line.endswith("]"):
            cur = table.setdefault(line[1:-1], {})
        elif line and cur is not None:
            k, _, v = line.partition(" = ")
            cur[k] = v
    return table


def run(chk):
    chk.build(["Props/C08.vo"])
    rng = core.Rng(chk.seed * 7919 + 8)
    cases = S.generate(rng, N[chk.tier], K[chk.tier])
    per_seed = {}
    distinct_orders = 0
    for seed in SEEDS[chk.tier]:
        ir = core.ImplRunner("order", per_case_timeout=20.0, hashseed=seed)
        try:
            per_seed[seed] = ir.run(cases)
        finally:
            ir.close()
    bad = 0
    agreed = []
    for i, c in enumerate(cases):
        texts = set()
        allres = [r for res in per_seed.values() for r in res[i]]
        if allres and all(r[0] != "ok" for r in allres) and len(set(str(r[:2]) for r in allres)) == 1:
            continue        # content the library refuses to write in every order (e.g. two variants with one UID): nothing to compare
        for seed, res in per_seed.items():
            for r in res[i]:
                if r[0] != "ok":
                    chk.violation("%s content could not be written in one construction order: %r" % (c["kind"], r), c, "order")
                    bad += 1
                    continue
                if r[1] != r[2]:
                    chk.violation("%s: dumping twice gives different bytes" % c["kind"], c, "order")
                    bad += 1
                texts.add(r[1])
        thirds = set(r[3] for res in per_seed.values() for r in res[i] if r[0] == "ok" and len(r) > 3 and r[3] is not None)
        if len(thirds) > 1:
            chk.violation("%s: written with a nested variant as main variant, the same content gives %d different byte sequences "
                          "(some of the objects had a child replaced before; content is equal)" % (c["kind"], len(thirds)), c, "order")
            bad += 1
        if len(texts) > 1:
            chk.violation("%s: the same content gives %d different byte sequences across construction orders / hash seeds"
                          % (c["kind"], len(texts)), c, "order")
            bad += 1
        if len(texts) == 1:
            agreed.append((i, c["kind"], next(iter(texts))))
    # the tie for the theorems: the model's printers (print_json / print_ini) reproduce the real writers' bytes from the parsed
    # tree of what was written (the per-format section writers are not involved here: they belong to C01-C04)
    import json as _json
    from suites import docs_treeinfo as DT
    lines = []
    for i, kind, text in agreed:
        if kind == "treeinfo":
            lines.append(wire.encode_line("print_ini", raw_table(text)))
        else:
            lines.append(wire.encode_line("print_json", _json.loads(text)))
    pres = core.run_model(lines)
    for (i, kind, text), r in zip(agreed, pres):
        if r != text:
            chk.obligation("suite:printer[%d]" % i, False, "the model printer does not reproduce the written %s bytes" % kind)
            chk.disagreements.append({"suite": "printer", "case": {"kind": kind, "text": text[:2000]}, "impl": text[:300], "model": str(r)[:300]})
            bad += 1
    chk.obligation("suite:order", bad == 0, "" if bad == 0 else "%d problems" % bad)
    chk.add_cases(cases, [True] * len(cases))
    chk.traces += len(cases) * K[chk.tier] * len(SEEDS[chk.tier])
    chk.record_suite("order", {"contents": len(cases), "orders_per_content": K[chk.tier], "hash_seeds": SEEDS[chk.tier],
                               "kinds": ["rpms", "modules", "extra", "images", "composeinfo", "treeinfo"]})
    chk.samples.append({"suite": "order", "case": {k: cases[0][k] for k in cases[0] if k != "orders"}, "bytes": len(agreed[0][2]) if agreed else None})
    return chk.finish(
        rule="one content per case (rpms/modules/extra histories, image pools, compose descriptions), constructed in K interleavings "
             "(cell-internal order kept where the list order is content) and dumped twice, in separate interpreter processes "
             "under each PYTHONHASHSEED; all byte sequences must coincide with each other; the model printers (print_json, print_ini) "
             "must reproduce them from the parsed tree of what was written",
        trusted=TRUSTED)
