"""C11 - the variant forest stays consistent and every variant is findable"""
import core
from suites import ops_variants as S

TRUSTED = [
    "Coq 8.16.1 kernel", "harness/translate.py: composeinfo.Variant validator inventory and translated bodies, VARIANT_TYPES",
    "the three context-dependent validators (_validate_uid, _validate_parent_arch, _validate_variants) are hand-modelled "
    "(Model/Variants.v) and tied by the op-sequence correspondence; their AST hashes are regenerated",
    "extraction (ExtrOcamlBasic only) + runner/driver.ml + wire format; sampled histories over pools of <= 7 variants",
]
N = {"quick": 500, "thorough": 10000}


def placed(snap):
    """object -> list of (container, key)"""
    out = {}
    for c, (_, ch) in enumerate(snap):
        for k, v in ch.items():
            out.setdefault(v, []).append((c, k))
    return out


def run(chk):
    chk.build(["Props/C11.vo"])
    rng = core.Rng(chk.seed * 7919 + 11)
    cases = S.generate(rng, N[chk.tier] * (5 if core.hand_models_changed(chk) else 1))

    def oracle(c, r):
        steps, answers = r[0], r[1]
        if len(r) > 2 and r[2]:
            return "after a write/read cycle of the forest: %s" % (r[2],)
        pool = [None] + c["pool"]
        prev = [[None, {}] for _ in range(len(pool))]
        for (cont, v, vid), st in zip(c["ops"], steps):
            if st[0] == "err":
                if st[1] not in ("ValueError", "TypeError"):
                    return "add(container %d, variant %d) raised %s" % (cont, v, st[1])
                if st[2] != prev:
                    return "refused add(container %d, variant %d %r) changed the forest: %r -> %r" % (cont, v, pool[v]["uid"], prev, st[2])
                continue
            snap = st[1]
            pl_now = placed(snap)
            # invariants of the forest after every accepted add (objects filed in two places are outside the claim: O11)
            for ci, (_, ch) in enumerate(snap):
                for k, vi in ch.items():
                    if len(pl_now.get(vi, ())) > 1:
                        continue
                    ch_v = pool[vi]
                    if ci != 0:
                        par = pool[ci]
                        if snap[vi][0] != ci:
                            return "variant %r is filed under %r but its parent pointer says %r" % (ch_v["uid"], par["uid"], snap[vi][0])
                        if ch_v["uid"] != "%s-%s" % (par["uid"], ch_v["id"]):
                            return "child UID %r is not parent UID %r + '-' + id %r" % (ch_v["uid"], par["uid"], ch_v["id"])
                        if not set(ch_v["arches"]) <= set(par["arches"]):
                            return "child %r has arches %r outside its parent's %r" % (ch_v["uid"], ch_v["arches"], par["arches"])
            prev = snap
        # lookups and get_variants on the final forest
        final = prev
        pl = placed(final)
        uids = {}
        for vi in pl:
            uids.setdefault(pool[vi]["uid"], set()).add(vi)
        reach_top = set()
        def walk(ci):
            for k, vi in final[ci][1].items():
                if vi not in reach_top:
                    reach_top.add(vi)
                    walk(vi)
        walk(0)
        # the property's quantifier: dashed top-level UIDs occur only on childless variants
        dashed_top_with_children = any("-" in pool[vi]["uid"] and final[vi][1] for vi in final[0][1].values())
        for q, a in zip(c["queries"], answers):
            if q[0] == "getitem" and q[1] == 0 and not dashed_top_with_children:
                owners = [vi for vi in uids.get(q[2], ()) if vi in reach_top]
                consistent = all(final[vi][0] == ci for ci in range(1, len(final)) for vi in final[ci][1].values())
                if len(owners) == 1 and len(uids[q[2]]) == 1 and consistent and a != ["ok", owners[0]]:
                    return "variant with UID %r is in the forest but top[%r] gives %r" % (q[2], q[2], a)
            if q[0] == "get_variants":
                if isinstance(a, list) and a and a[0] == "err":
                    if "self" in q[3] and q[1] == 0:
                        continue        # observation O7: types=['self'] on the top container
                    return "get_variants%r raised %s" % (tuple(q[1:]), a[1])
                multiply_placed = any(len(v) > 1 for v in pl.values())   # one object filed twice: not a forest (observation O11)
                if len(set(a)) != len(a) and not multiply_placed:
                    return "get_variants%r returned a variant twice: %r" % (tuple(q[1:]), a)
                us = [pool[i]["uid"] for i in a if i > 0]
                if us != sorted(us):
                    return "get_variants%r is not ordered by UID: %r" % (tuple(q[1:]), us)
                for i in a:
                    if i == q[1]:
                        continue
                    if q[2] and q[2] != "src" and q[2] not in pool[i]["arches"]:
                        return "get_variants(arch=%r, types=%r, recursive=%r) returned %r whose arches are %r" % (q[2], q[3], q[4], pool[i]["uid"], pool[i]["arches"])
                    if q[3] and pool[i]["type"] not in q[3]:
                        return "get_variants(types=%r) returned %r of type %r" % (q[3], pool[i]["uid"], pool[i]["type"])
        return None

    def classify(c, r, v):
        return None

    core.differential(chk, "ops_variants", cases, "ops_variants", model_cases=[S.to_model(c) for c in cases],
                      nontrivial=lambda c, r: sum(1 for s in r[0] if s[0] == "ok") >= 2 and any(s[0] == "err" for s in r[0]),
                      oracle=oracle, classify=classify, normalise=lambda r: r[:2] if isinstance(r, list) else r)
    return chk.finish(
        rule="pools of 1-7 variants (families with aligned and misaligned UIDs, child arch subsets and foreign arches, dashed "
             "top-level UIDs, invalid fields, value-duplicates) and histories of up to 12 add calls (parents first, plus re-adds, "
             "moves and ancestor adds); after EVERY call the whole object graph (parent pointers and child maps of all objects) "
             "is compared, then uid/id lookups and get_variants for arch x types x recursive combinations; "
             "non-trivial = >=2 accepted and >=1 refused call",
        trusted=TRUSTED)
