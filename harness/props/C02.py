"""C02 - image manifests survive a write/read cycle unchanged"""
import core
from suites import ops_images as S

TRUSTED = [
    "Coq 8.16.1 kernel", "harness/translate.py: Image / Compose / Header validators, VERSION, header type regenerated from /repo",
    "json text layers are CPython's; Base/Json.print_json is compared byte for byte with the real output on every case",
    "extraction (ExtrOcamlBasic only) + runner/driver.ml + wire format; sampled manifests",
]
N = {"quick": 300, "thorough": 6000}


def norm_model(r):
    """model: describe_images has ids; bring it to the implementation's shape"""
    if not (isinstance(r, list) and r and r[0] == "ok"):
        return r
    body = r[1]
    if isinstance(body, list) and len(body) == 2 and isinstance(body[1], list) and body[1] and body[1][0] == "ok":
        desc, again = body[1][1]
        if isinstance(desc, list) and len(desc) == 4:
            _, full, comp, dump = desc
            cells = {v: {a: sorted([o for _, o in imgs], key=lambda o: str(o["path"])) for a, imgs in arches.items()} for v, arches in full.items()}
            desc = [cells, comp, dump]
        return ["ok", [body[0], ["ok", [desc, again]]]]
    return ["ok", body]


def run(chk):
    chk.build(["Props/C02.vo"])
    rng = core.Rng(chk.seed * 7919 + 2)
    cases = []
    for c in S.generate(rng, N[chk.tier] * 2):
        if c["version"] in (None, "1.2", "1.1", "2.0", "1.10"):
            # distinct paths per cell, as the property quantifies
            for i, img in enumerate(c["pool"]):
                img["path"] = "%s-%d" % (img["path"], i)
                if not img["checksums"]:
                    img["checksums"] = {"sha256": "d" * 64}        # the property is about images the library agrees to write
            # ... but two different images in different cells may carry the same path string
            if rng.random() < 0.4:
                where = {}
                for v, a, i in c["ops"]:
                    where.setdefault(i, set()).add((v, a))
                pairs = [(i, j) for i in where for j in where if i < j and not (where[i] & where[j])]
                if pairs:
                    i, j = rng.choice(pairs)
                    c["pool"][j]["path"] = c["pool"][i]["path"]
            if rng.random() < 0.3:
                c["empty_buckets"] = [[rng.choice(S.VARIANTS), rng.choice(S.ARCHES)]]       # a cell without images is not content
            cases.append(c)
    big = [c for c in cases if len(c["pool"]) > 50]                # the cells with many images stay in the sample
    cases = [c for c in cases if len(c["pool"]) <= 50][:N[chk.tier] - len(big)] + big
    # boundary probes: one numeric attribute of one image carries a value next to its documented type (a float as os.stat
    # returns it, a digit string). The library may refuse such an image; if it agrees to write it, the cycle must preserve it.
    import copy as _copy
    for c in [c for c in cases if c["ops"]][:max(20, N[chk.tier] // 6)]:
        p = _copy.deepcopy(c)
        img = p["pool"][p["ops"][0][2]]
        field = rng.choice(["mtime", "mtime", "size", "disc_number", "disc_count"])
        img[field] = rng.choice([1700000500.75, 1700000500.0, 2.5, "12"])
        p["probe"] = field
        cases.append(p)

    def oracle(c, r):
        if r[0] == "edit-leaked":
            return "after loading the written manifest, editing the image %r changed the images listed under %r" % (r[1], r[2])
        if r[0] != "ok":
            if c.get("probe"):
                return None
            if all(True for _ in c["pool"]):
                return "a manifest of valid images could not be written: %r" % (r,)
            return None
        (text, back), placed = r[1], r[2]
        accepted = r[3] if len(r) > 3 else {}
        for v, arches in accepted.items():
            for a, idxs in arches.items():
                have = len(placed.get(v, {}).get(a, []))
                if have != len(idxs):
                    return ("cell (%s, %s): %d distinct image objects were accepted by add, the manifest holds %d" % (v, a, len(idxs), have))
        if back[0] != "ok":
            return "the written manifest could not be read back: %r" % (back,)
        (full, comp, dump), again = back[1]
        if full != placed:
            return "images changed across the cycle: wrote %r, read %r" % (placed, full)
        want = dict(c["compose"])
        if not want.get("label"):
            want["label"], want["final"] = None, False
        if comp != want:
            return "compose section changed across the cycle: %r -> %r" % (want, comp)
        if again != ["ok", text]:
            return "writing the re-read manifest does not reproduce the file byte for byte"
        return None

    core.differential(chk, "ops_images:roundtrip", cases, "roundtrip_images", model_cases=[S.to_model(c) for c in cases],
                      impl_fn="impl_roundtrip", nontrivial=lambda c, r: r[0] == "ok" and sum(len(a) for a in r[2].values()) >= 2,
                      oracle=oracle, normalise=lambda r: norm_model(r[:2] if (isinstance(r, list) and len(r) in (3, 4)) else r))
    return chk.finish(
        rule="manifests built by 1-9 add calls from pools of 2-6 valid images (all types/formats, null/non-empty volume ids and "
             "implanted md5, 1-2 checksum types, sizes > 2^32, unified images with additional variants, the same object filed in "
             "several cells), distinct paths within a cell (different images in different cells may share a path string); written text, every attribute of every re-read image per cell, compose section and "
             "second write compared (text byte for byte); non-trivial = at least two cells",
        trusted=TRUSTED)
