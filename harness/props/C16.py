"""C16 - checksums recorded in metadata are the true digests of the right files"""
import os
import core
import wire
from suites import checksums as S, docs_treeinfo as DT

TRUSTED = [
    "Coq 8.16.1 kernel", "hashlib (its streaming law update(a); update(b) == update(a+b) is the hypothesis of C16_digest_chunking; "
    "the digest suite compares compute_checksum with the one-shot digest on real files)",
    "os.path.normpath is modelled for relative POSIX paths and corresponded; ConfigParser text parsing is CPython's",
    "harness/translate.py (treeinfo validators incl. the checksum-path validator) ; extraction + runner/driver.ml + wire format",
]
N = {"quick": 300, "thorough": 5000}


def run(chk):
    chk.build(["Props/C16.vo"])
    rng = core.Rng(chk.seed * 7919 + 16)
    # 1. digests of real files vs hashlib one-shot, every algorithm available by name
    dc = S.digest_cases(chk.tier)
    ir = core.ImplRunner("checksums", fn="impl_digest", per_case_timeout=60.0)
    try:
        dres = ir.run(dc)
    finally:
        ir.close()
    algs_ok = set()
    for c, r in zip(dc, dres):
        if not (isinstance(r, list) and len(r) == 4):
            chk.violation("harness: %r" % (r,), c, "checksums:digest")
            continue
        want, got, via, again = r
        if again is not None and len(again) > 2 and again[0][0] == "ok" and again[2] != [[c["alg"], again[0][1]]]:
            chk.violation("Checksums.add on an object that already holds a digest for the path recorded %r after the file changed; "
                          "the digest of the file is %r" % (again[2], again[0][1]), c, "checksums:digest")
        if again is not None and again[0] != again[1]:
            chk.violation("compute_checksum(%d bytes, %s) after the file was replaced in place by other content of the same length "
                          "and timestamps = %r, hashlib one-shot digest of the new content = %r" % (c["size"], c["alg"], again[1], again[0]),
                          c, "checksums:digest")
        if want != got:
            chk.violation("compute_checksum(%d bytes, %s) = %r, hashlib one-shot digest = %r" % (c["size"], c["alg"], got, want), c, "checksums:digest")
        elif want[0] == "ok":
            algs_ok.add(c["alg"])
            if via != [["blob"], [[c["alg"], want[1]]]]:
                chk.violation("Checksums.add('./x/..//blob', %s) recorded %r" % (c["alg"], via), c, "checksums:digest")
    chk.add_cases(dc, [True] * len(dc))
    chk.traces += len(dc)
    chk.record_suite("checksums:digest", {"cases": len(dc), "algorithms_with_digest": sorted(algs_ok),
                                          "sizes": sorted(set(c["size"] for c in dc))})
    chk.obligation("suite:checksums:digest", len(algs_ok) >= 5, "")
    # 2. normpath
    pc = S.gen_paths(rng, N[chk.tier])
    core.differential(chk, "checksums:normpath", pc, "normpath", model_cases=[c["p"] for c in pc], impl_fn="impl_normpath",
                      nontrivial=lambda c, r: r != c["p"],
                      oracle=lambda c, r: None if (not r.startswith("/") and "//" not in r and "/./" not in "/" + r + "/" or r == ".") else "normpath(%r) = %r" % (c["p"], r))
    # 3. Checksums.add sequences
    ac = S.gen_add_ops(rng, N[chk.tier])

    def oracle_add(c, r):
        for (p, t, v), st in zip(c["ops"], r):
            if p.startswith("/") and st[0] == "ok":
                return "Checksums.add accepted the absolute path %r" % p
            if st[0] == "ok":
                for k in st[1]:
                    if k.startswith("/") or k != os.path.normpath(k):
                        return "checksum recorded under the non-normalised path %r" % k
        return None

    core.differential(chk, "checksums:add", ac, "checksums_add_ops", model_cases=[c["ops"] for c in ac], impl_fn="impl_checksums_add",
                      oracle=oracle_add, nontrivial=lambda c, r: any(s[0] == "err" for s in r) and any(s[0] == "ok" for s in r))
    # 4. Image.add_checksum sequences
    cc = S.gen_checksum_ops(rng, N[chk.tier])

    def oracle_cs(c, r):
        cur = dict(c["start"])
        for (t, v), st in zip(c["ops"], r):
            after = st[2]
            for k, old in cur.items():
                if after.get(k) != old:
                    return "add_checksum(%r, %r) replaced the recorded %s checksum %r by %r" % (t, v, k, old, after.get(k))
            if t in cur and v and v != cur[t] and st[0] != "err":
                return "add_checksum(%r, %r) did not refuse a value different from the recorded %r" % (t, v, cur[t])
            cur = dict(after)
        return None

    core.differential(chk, "checksums:add_checksum", cc, "add_checksum_ops", model_cases=[[c["start"], c["ops"]] for c in cc],
                      impl_fn="impl_add_checksum", oracle=oracle_cs, nontrivial=lambda c, r: any(s[0] == "err" for s in r))
    # 5. [checksums] sections: every path maps to exactly the algorithm and value given for it
    sc = S.gen_sections(rng, N[chk.tier])
    ir = core.ImplRunner("docs_treeinfo", fn="impl_load_text", per_case_timeout=10.0)
    try:
        sres = ir.run(sc)
    finally:
        ir.close()
    tables = [DT.section_table(c["text"]) for c in sc]
    mres = core.run_model([wire.encode_line("load_ti", t) for t in tables])
    dis = 0
    for c, r, m in zip(sc, sres, mres):
        ok_i = isinstance(r, list) and r and r[0] == "ok"
        ok_m = isinstance(m, list) and m and m[0] == "ok"
        if not c.get("legacy00") and (ok_i != ok_m or (ok_i and r[1][0]["checksums"] != m[1][0]["checksums"])):
            dis += 1
            chk.obligation("suite:checksums:section[%d]" % dis, False, "impl %s vs model %s on %r" % (core.canon(r)[:200], core.canon(m)[:200], c["entries"]))
        hexlen = {32: "md5", 40: "sha1", 64: "sha256"}
        def root00(p):
            # pre-productmd files carried absolute keys: relative to the tree root, which ends at the FIRST "/os/"
            if c.get("legacy00") and p.startswith("/"):
                return p[p.find("/os/") + 4:] if "/os/" in p else p.lstrip("/")
            return p
        bad_entry = any((":" not in v and len(v) not in hexlen) or v.count(":") > 1 or (p.startswith("/") and not c.get("legacy00")) for p, v in c["entries"])
        if ok_i:
            if bad_entry:
                chk.violation("a [checksums] section with an untypable/absolute entry was accepted: %r -> %r" % (c["entries"], r[1][0]["checksums"]),
                              c, "checksums:section", "D7-checksum-carried-over")
            for p, v in c["entries"]:
                want = v.split(":") if ":" in v else [hexlen.get(len(v)), v]
                if r[1][0]["checksums"].get(root00(p)) != want and not bad_entry:
                    chk.violation("path %r was given %r in the file but carries %r" % (p, v, r[1][0]["checksums"].get(p)), c, "checksums:section")
        elif not bad_entry:
            chk.violation("a well-formed [checksums] section was rejected: %r -> %r" % (c["entries"], r), c, "checksums:section")
    chk.add_cases(sc, [len(c["entries"]) >= 2 for c in sc])
    chk.traces += len(sc)
    chk.obligation("suite:checksums:section", dis == 0, "" if dis == 0 else "%d disagreements" % dis)
    chk.record_suite("checksums:section", {"cases": len(sc), "disagreements": dis})
    return chk.finish(
        rule="digests: files of sizes straddling the 1 MiB chunk (0, 1, 4097, 2^20-1, 2^20, 2^20+1, ...) x every algorithm hashlib "
             "offers by name; normpath/add: relative paths with './', '//', 'x/../' and absolute ones; [checksums] sections mixing "
             "'type:value' with bare digests of recognised and unrecognised lengths in any order; add_checksum sequences with "
             "equal, different and empty values",
        trusted=TRUSTED)
