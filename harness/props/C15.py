"""C15 - compose ids encode date, type and respin recoverably"""
import core
from suites import str_composeid as S

TRUSTED = [
    "Coq 8.16.1 kernel (vm_compute for table obligations)",
    "harness/translate.py: COMPOSE_TYPES, COMPOSE_TYPE_SUFFIXES, Compose.type_suffix (tabulated over its finite domain), "
    "the compose-id and decoder patterns regenerated from /repo",
    "extraction (ExtrOcamlBasic only) + runner/driver.ml + wire format",
    "hand model of the decoder (last 8-digit window) tied to the code by differential runs, and to the regenerated pattern by a "
    "second model entry that runs the verified matcher on that pattern (three-way comparison)",
    "create_compose_id is modelled as a function of the object's current fields: each description is evaluated on a fresh object "
    "and on one long-lived object whose fields are re-assigned from case to case, and the two must agree",
]
N = {"quick": 4000, "thorough": 80000}


def run(chk):
    chk.build(["Props/C15.vo"])
    rng = core.Rng(chk.seed * 7919 + 15)
    R = S.reflect()
    cases = S.generate(rng, N[chk.tier])

    def oracle(a, r):
        if r[0] == "err" and r[1] == "HistoryDependent":
            return "create_compose_id depends on earlier field values of the same object: %s" % (r[2] if len(r) > 2 else "")
        if r[0] == "err":
            if a["ct"] in R["COMPOSE_TYPES"]:
                return "create_compose_id refused a valid description: %r" % (r,)
            return None
        cid, valid, dec = r[1]
        pre = "%s-%s" % (a["rs"], a["rv"])
        t = (a["rt"] or "").lower()
        if t and t != "ga":
            pre += "-" + t
        if not cid.startswith(pre):
            return "compose id %r does not start with %r" % (cid, pre)
        if not valid:
            return "compose id %r is refused by the library's own compose-id validation" % cid
        if a["respin"] < 10 ** 8 and dec != ["ok", [a["date"], a["ct"], a["respin"]]]:
            return "get_date_type_respin(%r) = %r, created from date=%s type=%s respin=%d" % (cid, dec, a["date"], a["ct"], a["respin"])
        return None

    def classify(a, r, v):
        if r[0] == "ok" and 10 ** 7 <= a["respin"] < 10 ** 8 and "get_date_type_respin" in v:
            return "K1-eight-digit-respin"
        return None

    nt = lambda a, r: r[0] == "ok" and (a["layered"] or a["ct"] != "production")
    norm = lambda r: ["ok", r[1][:2]] if (isinstance(r, list) and r and r[0] == "ok" and isinstance(r[1], list)) else r
    ires, _, _ = core.differential(chk, "str_composeid:create", cases, "create_compose_id",
                                   model_cases=[S.to_model(a) for a in cases], impl_fn="impl_roundtrip",
                                   nontrivial=nt, oracle=oracle, classify=classify, normalise=norm)
    # legacy (pre-0.3) composeinfo documents: the facts exist only inside the id and must come back when the document is loaded
    lcases = [{"s": r[1][0], "version": rng.choice(["0.2", "0.1", "0.0"]), "want": [a["date"], a["ct"], a["respin"]]}
              for a, r in zip(cases, ires) if r[0] == "ok" and a["respin"] < 10 ** 7][:N[chk.tier] // 4]
    # ... also in the other documented spellings of the same facts: the long suffixes and a missing respin
    alt = []
    for c in lcases:
        date, ct, respin = c["want"]
        tail = {"nightly": ".n", "test": ".t"}.get(ct)
        long_ = {"nightly": ".nightly", "test": ".test"}.get(ct)
        end = "%s%s.%d" % (date, tail or {"production": "", "ci": ".ci", "development": ".d"}.get(ct, ""), respin)
        if not c["s"].endswith(end):
            continue
        head = c["s"][:-len(end)]
        if long_:
            alt.append({"s": "%s%s%s.%d" % (head, date, long_, respin), "version": c["version"], "want": [date, ct, respin]})
        alt.append({"s": head + end[:-len(".%d" % respin)], "version": c["version"], "want": [date, ct, 0]})
    lcases = lcases + alt[:len(lcases)]
    ir = core.ImplRunner("str_composeid", fn="impl_legacy_doc", per_case_timeout=10.0)
    try:
        lres = ir.run(lcases)
    finally:
        ir.close()
    for c, r in zip(lcases, lres):
        if r != ["ok", c["want"]]:
            chk.violation("a format %s composeinfo with id %r loads as %r; the id was created from date/type/respin %r"
                          % (c["version"], c["s"], r, c["want"]), {"s": c["s"], "version": c["version"]}, "str_composeid:legacy_doc")
    chk.add_cases([{"s": c["s"], "legacy": c["version"]} for c in lcases], [True] * len(lcases))
    chk.traces += len(lcases)
    chk.record_suite("str_composeid:legacy_doc", {"cases": len(lcases)})
    ids = [{"s": r[1][0]} for r in ires if r[0] == "ok"] + S.gen_ids(rng, N[chk.tier])
    # documented suffixes, missing respin, unknown suffix
    doc = {"": "production", ".n": "nightly", ".nightly": "nightly", ".t": "test", ".test": "test", ".ci": "ci", ".d": "development"}
    fixed = []
    for sfx, ty in doc.items():
        fixed.append(({"s": "X-1-20240102%s.3" % sfx}, ["ok", ["20240102", ty, 3]]))
        fixed.append(({"s": "X-1-20240102%s" % sfx}, ["ok", ["20240102", ty, 0]]))
    fixed.append(({"s": "X-1-20240102.zz.3"}, ["err", "ValueError"]))
    fixed.append(({"s": "X-1-20240102.production.3"}, ["err", "ValueError"]))
    want = {core.canon(c): w for c, w in fixed}

    def oracle_dec(c, r):
        w = want.get(core.canon(c))
        if w is not None and r != w:
            return "get_date_type_respin(%r) = %r, documented: %r" % (c["s"], r, w)
        return None

    ids = [c for c, _ in fixed] + ids
    core.differential(chk, "str_composeid:decode", ids, "get_date_type_respin", model_cases=[c["s"] for c in ids],
                      impl_fn="impl_decode", nontrivial=lambda c, r: r[0] == "ok" and r[1] is not None, oracle=oracle_dec)
    # second opinion for the hand model: the same decoder computed by the generic matcher on the REGENERATED pattern
    core.differential(chk, "str_composeid:decode_rx", ids, "get_date_type_respin_rx", model_cases=[c["s"] for c in ids],
                      impl_fn="impl_decode", nontrivial=lambda c, r: r[0] == "ok" and r[1] is not None)
    core.differential(chk, "str_composeid:valid", ids, "compose_id_valid", model_cases=[c["s"] for c in ids],
                      impl_fn="impl_valid", nontrivial=lambda c, r: r is True)
    return chk.finish(
        rule="create: release/base-product shorts+versions (incl. long digit runs, RHEL-5 hack), all release and compose types, "
             "respins incl. the 10^7 boundary; decode/validate: created ids + documented suffix table + digit/dot/newline junk; "
             "non-trivial = accepted and (layered or non-production) / decodable / valid",
        trusted=TRUSTED)
