"""C14 - release ids round-trip; validators accept exactly the documented names"""
import core
from suites import str_relid

TRUSTED = [
    "Coq 8.16.1 kernel (vm_compute for table obligations)",
    "harness/translate.py: RELEASE_TYPES and the three RELEASE_*_RE regenerated from /repo (reflection + CPython re._parser)",
    "extraction (ExtrOcamlBasic only) + runner/driver.ml + wire format",
    "CPython's re engine modelled as greedy leftmost backtracking (Base/Regex.v)",
    "differential harness (sampled argument tuples; exhaustive strings up to the stated length for the predicates)",
]

N = {"quick": 4000, "thorough": 80000}
MAXLEN = {"quick": 5, "thorough": 7}


def run(chk):
    chk.build(["Props/C14.vo"])
    rng = core.Rng(chk.seed * 7919 + 14)
    types = str_relid.reflect()["RELEASE_TYPES"]
    cases = str_relid.generate(rng, N[chk.tier])
    # every (short, version-kind, type) combination at least once, with and without base product
    for s in str_relid.SHORTS:
        for v in ["1.0", "rawhide", "Xga", "eus"]:
            for t in types:
                cases.append({"args": [s, v, t, None]})
                cases.append({"args": ["bp", "2", "ga", [s, v, t]]})

    def oracle(c, a):
        s, v, t, bp = c["args"]
        ok_args = (str_relid.doc_short(s) and str_relid.doc_version(v) and str_relid.doc_short(t)
                   and (bp is None or bp[0] == "" or (str_relid.doc_short(bp[0]) and str_relid.doc_version(bp[1]) and str_relid.doc_short(bp[2]))))
        if a[0] == "err":
            if ok_args:
                return "create_release_id%r refused arguments in the documented language: %r" % (tuple(c["args"]), a)
            return None
        if a[0] != "ok":
            return "create_release_id%r: %r" % (tuple(c["args"]), a)
        if not ok_args:
            return "create_release_id%r accepted arguments outside the documented language -> %r" % (tuple(c["args"]), a[1][0])
        rid, parsed = a[1]
        bpe = bp if (bp is not None and bp[0]) else None
        in_domain = (t in types and "-" not in v and "@" not in v and
                     (bpe is None or (bpe[2] in types and "-" not in bpe[1] and "@" not in bpe[1])))
        if in_domain and parsed != ["ok", [[s, v, t], bpe]]:
            return "parse_release_id(create_release_id%r = %r) = %r" % (tuple(c["args"]), rid, parsed)
        return None

    def classify(c, a, v):
        s, ve, t, bp = c["args"]
        if a[0] == "ok":
            if str_relid.in_k2(s, ve, t) or (bp and bp[0] and str_relid.in_k2(*bp)):
                return "K2-dashed-short-ga-typelike-version"
        return None

    nt = lambda c, a: a[0] == "ok" and ("-" in c["args"][0] or c["args"][3] is not None)
    # model entry takes [s, v, t, bp]; a falsy bp_short means no base product in the code
    margs = [[c["args"][0], c["args"][1], c["args"][2], (c["args"][3] if (c["args"][3] and c["args"][3][0]) else None)] for c in cases]
    core.differential(chk, "str_relid:create", cases, "create_release_id", model_cases=margs, impl_fn="impl_create",
                      nontrivial=nt)
    ires, _, _ = core.differential(chk, "str_relid:roundtrip", cases, "create_release_id", model_cases=margs,
                                   impl_fn="impl_roundtrip", nontrivial=nt, oracle=oracle, classify=classify,
                                   normalise=lambda r: ["ok", r[1][0]] if (isinstance(r, list) and r and r[0] == "ok" and isinstance(r[1], list)) else r)
    ids = [{"s": r[1][0]} for r in ires if r[0] == "ok"] + str_relid.generate_ids(rng, N[chk.tier] // 2)
    core.differential(chk, "str_relid:parse", ids, "parse_release_id", model_cases=[c["s"] for c in ids],
                      impl_fn="impl_parse", nontrivial=lambda c, a: a[0] == "ok" and c["s"].count("-") >= 2)

    # predicates: exhaustive over the 7-class alphabet up to MAXLEN
    strs = [{"s": s} for s in str_relid.enumerate_strings(MAXLEN[chk.tier])]
    # ... and long strings whose only defect (or only merit) lies beyond a few hundred characters
    strs += [{"s": s} for s in ["a" * 255 + "A", "a" * 300, "a" * 254 + "-" + "b" * 10, "1." * 150 + "1", "1" * 256 + ".x", "x" * 255 + "-",
                                "a" * 256 + "-", "a" * 1000, "A" * 1000, "ab1-" * 80 + "z", "1.2." * 70 + "9", "1.2." * 70 + "x",
                                "a" * 254 + "-b", "a" * 255 + "-b", "9" * 254 + ".1", "9" * 255 + ".1", "a" * 700 + "@", "r" + "0" * 300 + "."]]

    def oracle_pred(c, a):
        s = c["s"]
        want = [str_relid.doc_short(s), str_relid.doc_version(s), str_relid.doc_short(s)]
        if a != want:
            return "is_valid_release_(short,version,type)(%r) = %r, documented language says %r" % (s, a, want)
        return None

    core.differential(chk, "str_relid:pred", strs, "valid3", model_cases=[c["s"] for c in strs], impl_fn="impl_valid3",
                      nontrivial=lambda c, a: any(a), oracle=oracle_pred, per_case_timeout=10.0)
    chk.cov["exhaustive_predicate_length"] = MAXLEN[chk.tier]
    return chk.finish(
        rule="create/parse: argument tuples from valid+invalid pools incl. dashed shorts, free-form versions, all RELEASE_TYPES, "
             "optional base product; predicates: ALL strings over {a,A,1,-,.,@,_} up to length %d; non-trivial = accepted and "
             "(dashed short or base product) / accepted by a predicate" % MAXLEN[chk.tier],
        trusted=TRUSTED, extra_cov={"exhaustive": False})
