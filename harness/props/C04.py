"""C04 - treeinfo and discinfo survive a write/read cycle unchanged"""
import copy
import core
import wire
from suites import docs_treeinfo as S

TRUSTED = [
    "Coq 8.16.1 kernel", "harness/translate.py: treeinfo validator inventory/bodies, VERSION, header type, path field list regenerated from /repo",
    "configparser's text parsing is CPython's: the model reader starts at the section table the real parser produced (raw values; "
    "'%' interpolation is outside the generated domain, observation O2); Base/Ini.print_ini models the writer and is compared "
    "byte for byte with the real output on every case",
    "float repr/parse for discinfo timestamps is CPython's (the model prints the repr token it is given)",
    "extraction (ExtrOcamlBasic only) + runner/driver.ml + wire format; sampled trees",
]
N = {"quick": 250, "thorough": 5000}


def norm(d):
    d = copy.deepcopy(d)
    d["tree"]["platforms"] = sorted(set(d["tree"]["platforms"]) | {d["tree"]["arch"]})
    if not d["base_product"]:
        d["base_product"] = {"name": None, "short": None, "version": None}
    return d


def run(chk):
    chk.build(["Props/C04.vo"])
    rng = core.Rng(chk.seed * 7919 + 4)
    cases = []
    for _ in range(N[chk.tier]):
        d = S.gen_treeinfo(rng, uid_twins=True)
        mv = None
        if rng.random() < 0.4:
            mv = rng.choice(sorted(d["variants"]))
        cases.append({"desc": d, "main_variant": mv})
    # how many generated trees fall under the hypotheses of the two flat-variant theorems (childless top-level variants, none of type
    # 'addon', no comma in a UID) - counted here from the descriptions; the other C04 theorems have no such hypothesis
    flat_n = sum(1 for c in cases if all(not v["children"] and v["type"] != "addon" and "," not in v["uid"] for v in c["desc"]["variants"].values()))
    chk.obligation("theorem-applicability:C04_flat_variants", flat_n > 0, "%d of %d generated trees" % (flat_n, len(cases)))
    chk.record_suite("docs_treeinfo:flat_variant_theorems_applicability", {"trees": len(cases), "under_the_theorems": flat_n})
    ir = core.ImplRunner("docs_treeinfo", fn="impl_roundtrip", per_case_timeout=10.0)
    try:
        ires = ir.run(cases)
    finally:
        ir.close()
    # model: dump the description; load the section table the real parser produced
    mdump = core.run_model([wire.encode_line("dump_ti", [c["desc"], c["main_variant"]]) for c in cases])
    tables = [r[2] if (r[0] == "ok") else {} for r in ires]
    mload = core.run_model([wire.encode_line("load_ti", t) for t in tables])
    dis = 0
    flags = []
    for c, r, md, ml in zip(cases, ires, mdump, mload):
        flags.append(r[0] == "ok" and len(c["desc"]["variants"]) >= 2)
        if r[0] != "ok":
            chk.violation("a valid tree could not be written: %r" % (r,), c, "docs_treeinfo")
            if md[0] != "err":
                dis += 1
            continue
        text, table, back = r[1], r[2], r[3]
        if md != ["ok", text]:
            dis += 1
            chk.obligation("suite:docs_treeinfo:dump", False, "model text differs for %s" % core.canon(c)[:300])
        if back[0] != "ok":
            chk.violation("the written .treeinfo could not be read back: %r" % (back,), c, "docs_treeinfo", "D10-child-variant-section")
            if ml[0] == "ok":
                dis += 1
            continue
        desc2, again = back[1]
        want = norm(c["desc"])
        if desc2 != want:
            for k in want:
                if desc2.get(k) != want[k]:
                    chk.violation("%s changed across the cycle: wrote %r, read %r" % (k, want[k], desc2.get(k)), c, "docs_treeinfo")
                    break
        # the re-dump uses the default main variant; compare with a dump of the same default
        if c["main_variant"] is None and again != ["ok", text]:
            chk.violation("writing the re-read tree does not reproduce the file byte for byte", c, "docs_treeinfo")
        if ml[0] != "ok" or ml[1][0] != desc2 or ml[1][1] != again:
            dis += 1
            chk.obligation("suite:docs_treeinfo:load", False, "model load differs: %s vs %s" % (core.canon(ml)[:300], core.canon([desc2, again])[:300]))
    chk.add_cases(cases, flags)
    chk.traces += len(cases)
    chk.obligation("suite:docs_treeinfo", dis == 0, "" if dis == 0 else "%d disagreements" % dis)
    chk.record_suite("docs_treeinfo", {"cases": len(cases), "disagreements": dis})
    chk.samples.append({"suite": "docs_treeinfo", "case": cases[0], "impl_text_bytes": len(ires[0][1]) if ires[0][0] == "ok" else None})
    # discinfo
    dcases = [{"desc": S.gen_discinfo(rng)} for _ in range(N[chk.tier] // 2)]

    def oracle_di(c, r):
        if r[0] != "ok":
            return "a valid discinfo could not be written: %r" % (r,)
        text, back = r[1], r[2]
        if back[0] != "ok":
            return "the written .discinfo could not be read back: %r" % (back,)
        got, again = back[1]
        if got != c["desc"]:
            return ".discinfo changed across the cycle: wrote %r, read %r" % (c["desc"], got)
        if again != ["ok", text]:
            return "writing the re-read .discinfo does not reproduce the file byte for byte"
        return None

    core.differential(chk, "docs_treeinfo:discinfo", dcases, "dump_di", model_cases=[c["desc"] for c in dcases], impl_fn="impl_discinfo",
                      oracle=oracle_di, nontrivial=lambda c, r: c["desc"]["disc_numbers"] != ["ALL"],
                      normalise=lambda r: r[:2] if (isinstance(r, list) and r and r[0] == "ok") else r)
    # how many of the generated .discinfo objects fall under the hypotheses of C04_discinfo_roundtrip (executable test, proved sound)
    app = core.run_model([wire.encode_line("di_applicable", c["desc"]) for c in dcases])
    covered = sum(1 for a in app if a is True)
    chk.obligation("theorem-applicability:C04_discinfo_roundtrip", covered > 0, "%d of %d generated objects" % (covered, len(dcases)))
    chk.record_suite("docs_treeinfo:discinfo_theorem_applicability", {"objects": len(dcases), "under_the_theorem": covered})
    # the .discinfo READER on arbitrary texts: model reader (load_di) vs DiscInfo.loads, and what the re-read object writes
    tcases = S.gen_discinfo_texts(rng, 4 * N[chk.tier])
    ir = core.ImplRunner("docs_treeinfo", fn="impl_load_discinfo", per_case_timeout=10.0)
    try:
        tres = ir.run(tcases)
    finally:
        ir.close()
    tm = core.run_model([wire.encode_line("load_di", c["text"]) for c in tcases])
    rdis, skipped, agree_ok, agree_err = 0, 0, 0, 0
    for c, r, m in zip(tcases, tres, tm):
        if m == ["err", "OtherError"]:
            skipped += 1                  # float() of a token outside the modelled (canonical) ones
            continue
        if core.canon(r) != core.canon(m):
            rdis += 1
            if rdis <= 3:
                chk.obligation("suite:docs_treeinfo:discinfo_reader[%d]" % rdis, False,
                               "on %r impl %s vs model %s" % (c["text"], core.canon(r)[:200], core.canon(m)[:200]))
        elif r[0] == "ok":
            agree_ok += 1
        else:
            agree_err += 1
    chk.add_cases(tcases, [isinstance(r, list) and r and r[0] == "ok" for r in tres])
    chk.traces += len(tcases)
    chk.obligation("suite:docs_treeinfo:discinfo_reader", rdis == 0 and agree_ok > 0 and agree_err > 0,
                   "%d disagreements, %d accepted alike, %d refused alike, %d outside the float model" % (rdis, agree_ok, agree_err, skipped))
    chk.record_suite("docs_treeinfo:discinfo_reader", {"cases": len(tcases), "disagreements": rdis, "accepted_alike": agree_ok,
                                                        "refused_alike": agree_err, "outside_float_model": skipped})
    # the same cycle through file paths, in child interpreters whose locale encoding is and is not UTF-8: whatever is written is read back
    lcases = [{"env": e} for e in ({"LC_ALL": "C.UTF-8", "LANG": "C.UTF-8"},
                                   {"LC_ALL": "C", "LANG": "C", "PYTHONUTF8": "0", "PYTHONCOERCECLOCALE": "0"},
                                   {"LC_ALL": "POSIX", "LANG": "POSIX", "PYTHONUTF8": "0", "PYTHONCOERCECLOCALE": "0"})]
    ir = core.ImplRunner("docs_treeinfo", fn="impl_locale_cycle", per_case_timeout=90.0)
    try:
        lres = ir.run(lcases)
    finally:
        ir.close()
    lstat = {}
    for c, r in zip(lcases, lres):
        if not (isinstance(r, list) and r and r[0] == "ok"):
            chk.obligation("suite:docs_treeinfo:locale", False, "child interpreter failed under %r: %r" % (c["env"], r))
            continue
        for kind, name, what, detail in r[1]:
            lstat[what] = lstat.get(what, 0) + 1
            if what == "written-but-unreadable" or (what == "read-back" and detail is not True):
                chk.violation("with the environment %r, a %s naming %r was written to a path and then %s" %
                              (c["env"], kind, name, "could not be read back (%s)" % detail if what != "read-back" else "read back changed"),
                              {"env": c["env"], "kind": kind, "name": name}, "docs_treeinfo:locale")
    chk.add_cases(lcases, [True] * len(lcases))
    chk.obligation("suite:docs_treeinfo:locale", lstat.get("read-back", 0) > 0, str(lstat))
    chk.record_suite("docs_treeinfo:locale", {"environments": [c["env"] for c in lcases], "outcomes": lstat})
    return chk.finish(
        rule="trees: binary and src arches, layered releases, 1-3 top-level variants incl. dashed UIDs, child variants of every type to "
             "depth 3, any subset of the seven path kinds, image tables per platform, stage2, media, checksums; every main-variant "
             "choice; the written text is compared with the model's byte for byte, the section table produced by the real parser "
             "is loaded by the model and compared with the re-read object; discinfo: float timestamps, ALL or disc number lists; "
             "non-trivial = >= 2 top-level variants",
        trusted=TRUSTED)
