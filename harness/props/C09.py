"""C09 - image identity is unique within a manifest"""
import core
from suites import ops_images as S

TRUSTED = [
    "Coq 8.16.1 kernel (vm_compute for the table obligation on UNIQUE_IMAGE_ATTRIBUTES)",
    "harness/translate.py: UNIQUE_IMAGE_ATTRIBUTES, RPM_ARCHES, the Image validators (bodies translated from the AST into the "
    "assertion vocabulary of Base/Obj.v) regenerated from /repo",
    "extraction (ExtrOcamlBasic only) + runner/driver.ml + wire format",
    "Python == on attribute values is modelled structurally (bool as int, dicts as mappings); float==int cross-type equality "
    "is outside the modelled domain",
    "op-sequence differential harness (sampled histories over small pools so identity collisions occur)",
]
N = {"quick": 500, "thorough": 10000}


def ident(img):
    return [img["subvariant"], img["type"], img["format"], img["arch"], img["disc_number"], img["unified"] or False,
            img["additional_variants"] or []]


def vt(version):
    if version is None:          # a fresh manifest is written as a current-version file
        return (9, 9)
    a, b = version.split(".")
    return (int(a), int(b))


def run(chk):
    chk.build(["Props/C09.vo"])
    rng = core.Rng(chk.seed * 7919 + 9)
    cases = S.generate(rng, N[chk.tier])

    def oracle(c, r):
        steps, final = r
        prev = {}
        placed = []          # pool indices currently in the manifest
        for (v, a, i), st in zip(c["ops"], steps):
            img = c["pool"][i]
            if st[0] == "err":
                if st[1] != "ValueError":
                    return "add(%r, %r, image %d) raised %s" % (v, a, i, st[1])
                if st[2] != prev:
                    return "refused add(%r, %r, image %d) changed the manifest" % (v, a, i)
            else:
                if vt(c["version"]) >= (1, 1):
                    for j in set(placed):
                        o = c["pool"][j]
                        if ident(o) == ident(img) and o["checksums"] != img["checksums"]:
                            return ("format %s (None = fresh Images()) manifest accepted image %d although image %d has the same identity %r and "
                                    "different checksums" % (c["version"], i, j, ident(img)))
                placed.append(i)
                prev = st[1]
        return None

    core.differential(chk, "ops_images", cases, "ops_images", model_cases=[S.to_model(c) for c in cases],
                      nontrivial=lambda c, r: sum(1 for s in r[0] if s[0] == "ok") >= 2 and any(s[0] == "err" for s in r[0]),
                      oracle=oracle, normalise=S.norm_steps)
    # a manifest loaded from an older document is a current-version manifest: the uniqueness rule applies to what is added next
    from suites import docs_legacy as DL
    Rr = S.reflect()
    ldocs = [{"doc": DL.gen_images_doc(rng, Rr, version=v)} for v in ["1.0", "1.0", "1.1", "1.2"] for _ in range(10 if chk.tier == "quick" else 100)]
    ir = core.ImplRunner("ops_images", fn="impl_load_then_add", per_case_timeout=20.0)
    try:
        lres = ir.run(ldocs)
    finally:
        ir.close()
    fired = 0
    for c, r in zip(ldocs, lres):
        small = {"doc": c["doc"]}
        if not isinstance(r, list) or not r:
            chk.violation("harness: %r" % (r,), small, "load_then_add")
        elif isinstance(r[0], str) and r[0].startswith("load-"):
            continue
        elif len(r) > 1:
            fired += 1
            if r[1][0] == "accepted":
                chk.violation("a manifest loaded from a format %s document accepted an image with the identity of %s and different "
                              "checksums (header.version after load: %r)" % (c["doc"]["header"]["version"], r[1][3], r[0]), small, "load_then_add")
            elif r[1][0] != "ValueError":
                chk.violation("add after load raised %s" % r[1][0], small, "load_then_add")
    chk.add_cases([{"n": i} for i in range(len(ldocs))], [True] * len(ldocs))
    chk.traces += len(ldocs)
    chk.obligation("suite:load_then_add", fired > 0, "")
    chk.record_suite("load_then_add", {"cases": len(ldocs), "adds_after_load": fired})
    # ... and the other way round: an object that already holds an image loads a document with a clashing one
    acases = [dict(c, other_cell=(i % 2 == 0)) for i, c in enumerate(ldocs)]
    ir = core.ImplRunner("ops_images", fn="impl_add_then_load", per_case_timeout=20.0)
    try:
        ares = ir.run(acases)
    finally:
        ir.close()
    afired = 0
    for c, r in zip(acases, ares):
        small = {"doc": c["doc"], "other_cell": c["other_cell"]}
        if not isinstance(r, list) or not r:
            chk.violation("harness: %r" % (r,), small, "add_then_load")
        elif r[0] == "refused":
            afired += 1
        elif r[0] == "accepted":
            afired += 1
            chk.violation("a manifest that holds an image loaded a document in which %s (cell %s/%s) has the same identity and different "
                          "checksums, without an exception" % (r[3], r[1], r[2]), small, "add_then_load")
        elif r[0] == "raised":
            chk.violation("loading into a manifest that holds a clashing image raised %s (documented: ValueError)" % r[1], small, "add_then_load")
    chk.add_cases([{"a": i} for i in range(len(acases))], [True] * len(acases))
    chk.obligation("suite:add_then_load", afired > 0, "")
    chk.record_suite("add_then_load", {"cases": len(acases), "loads_into_holding_manifest": afired})
    # documents that already contain a clash (in any pair of cells, 'src' buckets of older documents included): from 1.1 on they
    # are refused, a 1.0 document is exempt
    import copy as _copy
    cdocs = []
    for ver in ["1.0", "1.1", "1.1", "1.2"]:
        for _ in range(8 if chk.tier == "quick" else 80):
            doc = DL.gen_images_doc(rng, Rr, version=ver)
            if ver == "1.2":
                for arches in doc["payload"]["images"].values():
                    arches.pop("src", None)          # a current document has no 'src' cells: the clash must be its only defect
            # (a 'src' image of a variant that lists no binary architecture is filed nowhere: it cannot clash)
            cells = [(v, a, i) for v, arches in doc["payload"]["images"].items() for a, l in arches.items() for i in range(len(l))
                     if a != "src" or any(x != "src" for x in arches)]
            srcs = [c for c in cells if c[1] == "src"]
            pick = (srcs if len(srcs) >= 2 and rng.random() < 0.6 else cells)
            if len(pick) < 2:
                continue
            (v1, a1, i1), (v2, a2, i2) = rng.sample(pick, 2)
            a_, b_ = doc["payload"]["images"][v1][a1][i1], doc["payload"]["images"][v2][a2][i2]
            for f in ["subvariant", "type", "format", "arch", "disc_number", "unified", "additional_variants"]:
                if f in a_:
                    b_[f] = _copy.deepcopy(a_[f])
                else:
                    b_.pop(f, None)
            b_["checksums"] = {"sha256": "9" * 64}
            cdocs.append({"doc": doc, "cells": [[v1, a1], [v2, a2]]})

    # ... at scale: the clashing pair sits in ONE long list (40, 100 entries) of a current document
    for m in (40, 100):
        for ver in ("1.1", "1.2"):
            doc = DL.gen_images_doc(rng, Rr, version=ver)
            if ver == "1.2":
                for arches in doc["payload"]["images"].values():
                    arches.pop("src", None)          # a current document has no 'src' cells: the clash must be the only defect
            cells = [(v, a) for v, arches in doc["payload"]["images"].items() for a, l in arches.items() if a != "src" and l]
            if not cells:
                continue
            v1, a1 = cells[0]
            first = doc["payload"]["images"][v1][a1][0]
            lst = []
            for i in range(m):
                o = _copy.deepcopy(first)
                o["path"] = "%s/%s/iso/many-%03d.iso" % (v1, a1, i)
                o["disc_number"] = i + 1
                o["disc_count"] = m
                lst.append(o)
            twin = _copy.deepcopy(lst[m - 3])
            twin["path"] += ".twin"
            twin["checksums"] = {"sha256": "8" * 64}
            lst.append(twin)
            doc["payload"]["images"][v1][a1] = lst
            cdocs.append({"doc": doc, "cells": [[v1, a1], [v1, a1]]})

    def oracle_clash(c, r):
        ver = c["doc"]["header"]["version"]
        if ver == "1.0":
            return None if r[0] == "ok" else "a 1.0 document (identity not checked before 1.1) was refused: %r" % (r,)
        if r[0] == "ok":
            return "a %s document holding two images with one identity and different checksums (cells %r) was loaded" % (ver, c["cells"])
        if r[1] != "ValueError":
            return "clash in a %s document raised %s" % (ver, r[1])
        return None

    from props.C10 import model_load_images_norm
    core.differential(chk, "docs_legacy:clash", cdocs, "load_images", model_cases=[c["doc"] for c in cdocs],
                      impl_fn="impl_load_legacy_images", nontrivial=lambda c, r: r[0] != "ok", oracle=oracle_clash,
                      normalise=lambda r: [r[0], r[1]] if (isinstance(r, list) and r and r[0] == "err") else (["ok"] if (isinstance(r, list) and r and r[0] == "ok") else r))
    # identity of an object == identity of its serialised dictionary
    R = S.reflect()
    imgs = [S.gen_image(rng, R, small=False, idx=i) for i in range(N[chk.tier])]

    def oracle_id(img, r):
        a, b = r
        if isinstance(b, list) and b and b[0] == "err":
            return "a valid image could not be serialised: %r" % (b,)
        if a != b:
            return "identify_image(object) = %r but identify_image(serialised dict) = %r" % (a, b)
        if a != ident(img):
            return "identify_image = %r, the documented seven attributes give %r" % (a, ident(img))
        return None

    core.differential(chk, "ops_images:identify", imgs, "identify", impl_fn="impl_identify",
                      nontrivial=lambda c, r: bool(c["unified"]) or c["subvariant"] != "", oracle=oracle_id)
    return chk.finish(
        rule="histories of 1-9 add calls over a pool of 2-6 images drawn from a small identity domain (so collisions with equal "
             "and different checksums occur within and across cells), header versions 0.9/1.0/1.1/1.2/1.10/2.0; state compared "
             "after every call, then the dump; non-trivial = >=2 accepted and >=1 refused call",
        trusted=TRUSTED)
