"""C12 - manifest builders file each entry exactly where the arguments say"""
import re
import core
from suites import ops_manifests as S

TRUSTED = [
    "Coq 8.16.1 kernel", "harness/translate.py: RPM_ARCHES (as imported by rpms/modules/extra_files), SUPPORTED_CATEGORIES, "
    "RPM_NVRA_RE and the module-UID pattern regenerated from /repo",
    "extraction (ExtrOcamlBasic only) + runner/driver.ml + wire format",
    "op-sequence differential harness (sampled histories); argument types as the docstrings type them (str, str-or-None sigkey, "
    "list/tuple rpms) - wrongly typed arguments are outside the modelled domain (observation O9)",
]
N = {"quick": 600, "thorough": 12000}


def cells(kind, snap):
    out = {}
    for v, arches in snap.items():
        for a, cell in arches.items():
            out[(v, a)] = cell
    return out


def run(chk):
    chk.build(["Props/C12.vo"])
    rng = core.Rng(chk.seed * 7919 + 12)
    for kind in ["rpms", "modules", "extra"]:
        cases = S.generate(rng, kind, N[chk.tier])

        def oracle(c, res, kind=kind):
            prev = {}
            for op, r in zip(S.resolve_ops(c, False), res):
                if r[0] == "err":
                    if r[1] not in ("ValueError", "TypeError"):
                        return "add%r raised %s (documented: ValueError/TypeError)" % (tuple(op), r[1])
                    if r[2] != prev:
                        return "refused add%r changed the manifest: %r -> %r" % (tuple(op), prev, r[2])
                elif r[0] == "ok":
                    new = r[1]
                    pc, nc = cells(kind, prev), cells(kind, new)
                    for key in set(pc) | set(nc):
                        if key != (op[0], op[1]) and pc.get(key) != nc.get(key):
                            return "add%r changed the unaddressed cell %r" % (tuple(op), key)
                    if (op[0], op[1]) not in nc:
                        return "add%r succeeded but the addressed cell is missing" % (tuple(op),)
                    if kind == "rpms" and isinstance(op[2], str) and isinstance(op[5], str):
                        own = (op[2][:-4] if op[2].endswith(".rpm") else op[2]).rsplit(".", 1)[-1]
                        if (own in ("src", "nosrc")) != (op[5] == "source"):
                            return "add%r succeeded although the category %r disagrees with the RPM's own arch %r" % (tuple(op), op[5], own)
                    if kind == "rpms" and isinstance(op[2], str):
                        # documented layout: source package's canonical name -> RPM's canonical name (directory and one '.rpm' dropped)
                        def canon(n):
                            n = (n[:-4] if n.endswith(".rpm") else n).rsplit("/", 1)[-1]
                            m = re.match(r"^(.*)-(\d+):([^-]*)-([^-]*)$", n)         # name-epoch:version-release.arch, epoch as a number
                            return "%s-%d:%s-%s" % (m.group(1), int(m.group(2)), m.group(3), m.group(4)) if m else n
                        skey, rkey = canon(op[6] or op[2]), canon(op[2])
                        ent = new[op[0]][op[1]].get(skey, {}).get(rkey)
                        if not ent or ent.get("path") != op[3]:
                            return "add%r succeeded but nothing is filed under [%r][%r]" % (tuple(op), skey, rkey)
                    if kind == "rpms":
                        hit = [e for sr in new[op[0]][op[1]].values() for e in sr.values()
                               if e["path"] == op[3] and e["category"] == op[5] and e["sigkey"] == (op[4].lower() if op[4] is not None else None)]
                        if not hit:
                            return "add%r succeeded but no entry with the given path/category/lower-cased sigkey is filed" % (tuple(op),)
                    prev = new
                else:
                    return "harness: %r" % (r,)
            return None

        def classify(c, res, v):
            return None

        _, _, dis = core.differential(chk, "ops_manifests:" + kind, cases, "ops_" + kind, model_cases=[S.resolve_ops(c, False) for c in cases],
                          nontrivial=lambda c, r: sum(1 for x in r if x[0] == "ok") >= 2, oracle=oracle, classify=classify,
                          normalise=lambda r: r)
        # the property is stated against the reference model of the documented layout: a step on which the mapping differs from
        # it is a failing input in its own right
        for d in dis[:3]:
            step = next((i for i, (x, y) in enumerate(zip(d["impl"], d["model"] or [])) if x != y), None)
            if step is not None:
                op = S.resolve_ops(d["case"], False)[step]
                chk.violation("after add%r the %s mapping differs from the documented layout: %s, reference model: %s" %
                              (tuple(op), kind, core.canon(d["impl"][step])[:300], core.canon(d["model"][step])[:300]),
                              d["case"], "ops_manifests:" + kind)
    # histories with a deletion (del manifest[variant]) between adds: what is filed afterwards is in the public mapping
    from suites import docs_manifests as DMS
    for kind in ["rpms", "modules", "extra"]:
        hc = [c for c in DMS.generate(rng, kind, N[chk.tier]) if c.get("del_before")][:max(30, N[chk.tier] // 6)]

        def oracle_del(c, r, kind=kind):
            if r[0] != "ok":
                return "a %s manifest built by adds, a deletion and more adds could not be written: %r" % (kind, r)
            return None

        _, _, dis = core.differential(chk, "docs_manifests:%s:del-history" % kind, hc, "roundtrip_" + kind,
                                      model_cases=[[c["compose"], DMS.equivalent_ops(c)] for c in hc], impl_fn="impl_roundtrip",
                                      nontrivial=lambda c, r: r[0] == "ok", oracle=oracle_del,
                                      normalise=lambda r: r[:2] if (isinstance(r, list) and len(r) == 3) else r)
        for d in dis[:3]:
            if isinstance(d["impl"], list) and d["impl"] and d["impl"][0] == "ok" and d["model"] and d["model"][0] == "ok":
                chk.violation("after add calls, del manifest[%r] and more add calls the %s manifest is not what the calls say: %s, reference model: %s" %
                              (d["case"]["del_before"][1], kind, core.canon(d["impl"][1][0])[:300], core.canon(d["model"][1][0])[:300]),
                              d["case"], "docs_manifests:%s:del-history" % kind)
    # every documented architecture (frozen copy of the shipped table; src/nosrc are refused as tree architectures) is accepted by
    # each builder, whatever the live table has become
    from suites.common import DOC_RPM_ARCHES
    for kind, mk in [("rpms", lambda a: ["Server", a, "bash-0:5.1-2.el9.x86_64", "p", None, "binary", "bash-0:5.1-2.el9.src"]),
                     ("modules", lambda a: ["Server", a, "mod:stream:123:ctx", "tag", "md.yaml", "binary", ["a-0:1-1.x86_64"]]),
                     ("extra", lambda a: ["Server", a, "GPL", 1234, {"sha256": "ab" * 32}])]:
        dc = [{"kind": kind, "ops": [mk(a)]} for a in DOC_RPM_ARCHES if a not in (["src", "nosrc"] if kind == "rpms" else [])]

        def oracle_doc(c, res, kind=kind):
            if not res or res[0][0] != "ok":
                return "%s add under the documented architecture %r was refused: %r" % (kind, c["ops"][0][1], res[0][:2] if res else res)
            return None

        core.differential(chk, "ops_manifests:%s:documented-arches" % kind, dc, "ops_" + kind, model_cases=[c["ops"] for c in dc],
                          nontrivial=lambda c, r: True, oracle=oracle_doc, normalise=lambda r: r)
    # dump_for_tree / base path stripping
    dcases = []
    for _ in range(N[chk.tier] // 2):
        ops = [S.gen_extra_op(rng) for _ in range(rng.randint(1, 5))]
        base = rng.choice(["Server/x86_64/os", "Server/x86_64/os/", "Server/x86_64/os//", "Server/x86_64", "", "/", "Server/x86_64/o", "GPL", "a"])
        dcases.append({"ops": ops, "variant": rng.choice(S.VARIANTS), "arch": rng.choice(S.ARCHES_OK), "base": base})

    def oracle_d(c, r):
        if r[0] in ("dump-changed-manifest", "dump-not-repeatable"):
            return "dump_for_tree(%r, %r, base=%r) is not a read-only, repeatable operation on the manifest: %s" % (
                c["variant"], c["arch"], c["base"], core.canon(r)[:400])
        if r[0] == "ok":
            root = c["base"].rstrip("/") + "/"
            for e in r[1]:
                if e["file"].startswith(root) and root != "/":
                    pass
            # every stored path must come back either untouched or minus exactly root
        return None

    core.differential(chk, "ops_manifests:dump_for_tree", dcases, "dump_for_tree",
                      model_cases=[[c["ops"], c["variant"], c["arch"], c["base"]] for c in dcases],
                      impl_fn="impl_dump_for_tree", nontrivial=lambda c, r: r[0] == "ok" and len(r[1]) >= 1, oracle=oracle_d)
    rcases = [{"path": p, "root": r} for p in S.XPATHS + ["Server/x86_64/os", "Server/x86_64/os/", "/x/y", "x//y"]
              for r in ["Server/x86_64/os", "Server/x86_64/os/", "Server/x86_64/os///", "Server", "", "/", "//", "Server/x86_64/o", "x", "/x"]]
    # an absolute base that lines up with the working directory ("<cwd>" is replaced by os.getcwd() in the implementation run):
    # the stored paths are relative, so nothing may be stripped
    rcases += [{"path": p, "root": r} for p in ["Server/x86_64/os/GPL", "GPL", "a/b"] for r in ["<cwd>", "<cwd>/", "<cwd>/Server/x86_64/os", "<cwd>/a"]]

    def oracle_rel(c, r):
        if c["root"].startswith("<cwd>"):
            return None if r == c["path"] else "_relative_to(%r, <working directory>%s) = %r: an absolute base cannot prefix a relative path" % (
                c["path"], c["root"][5:], r)
        # the base path, however many slashes it ends in, is stripped exactly when it is a prefix on a component boundary
        base = c["root"].rstrip("/")
        want = c["path"][len(base) + 1:] if c["path"].startswith(base + "/") else c["path"]
        if r != want:
            return "_relative_to(%r, %r) = %r, documented: %r" % (c["path"], c["root"], r, want)
        return None

    core.differential(chk, "ops_manifests:relative_to", rcases, "relative_to", model_cases=[[c["path"], c["root"]] for c in rcases],
                      impl_fn="impl_relative_to", nontrivial=lambda c, r: r != c["path"], oracle=oracle_rel)
    return chk.finish(
        rule="histories of 1-8 add calls per manifest kind, 65-70% with consistent valid arguments, the rest with every parameter "
             "drawn from valid and invalid pools; after EACH call the outcome class and the whole mapping are compared with the "
             "model; non-trivial = at least two accepted calls; dump_for_tree/relative_to over base paths that are, are not, or "
             "only textually prefix the stored paths",
        trusted=TRUSTED)
