"""C07 - documents violating a documented constraint are rejected on load"""
import core
import wire
from suites import docs_corrupt as S, docs_composeinfo as DC, ops_images as OI, docs_manifests as DM, docs_treeinfo as DT

TRUSTED = [
    "Coq 8.16.1 kernel", "harness/translate.py: validator inventory/bodies, VERSION, header types regenerated from /repo",
    "json / configparser text parsing is CPython's: the model readers start at the parsed tree / section table",
    "the corruption table is written from the format documentation; reader coercions (bool(), int(), lower(), 'or None') are part "
    "of the modelled reader and corruptions are drawn for fields the reader does not coerce (observation O10)",
    "extraction (ExtrOcamlBasic only) + runner/driver.ml + wire format; sampled documents x corruptions",
]
N = {"quick": 40, "thorough": 800}
LOAD_IMPL = {"composeinfo": ("docs_composeinfo", "impl_load"), "images": ("ops_images", "impl_load"),
             "rpms": ("docs_manifests", "impl_load"), "modules": ("docs_manifests", "impl_load"), "extra": ("docs_manifests", "impl_load")}
LOAD_MODEL = {"composeinfo": "load_ci", "images": "load_images", "rpms": "load_rpms", "modules": "load_modules", "extra": "load_extra"}


def run(chk):
    chk.build(["Props/C07.vo"])
    deeper = bool(core.hand_models_changed(chk))
    rng = core.Rng(chk.seed * 7919 + 7)
    R = S.reflect()
    for kind in S.KINDS:
        contents = [{"kind": kind, "content": S.gen_content(rng, kind, R)} for _ in range(N[chk.tier] * (5 if deeper else 1))]
        ir = core.ImplRunner("docs_corrupt", fn="impl_valid_doc", per_case_timeout=20.0)
        try:
            docs = ir.run(contents)
        finally:
            ir.close()
        cases = []
        for d in docs:
            if isinstance(d, dict):
                cases.append({"kind": kind, "doc": d, "what": "unchanged", "must_reject": False})
                for c in S.corruptions(rng, kind, d, 6):
                    c["kind"] = kind
                    cases.append(c)
                    if c["what"] in ("header-type", "header-version") and rng.random() < 0.6:
                        # the same rule on an object that has just loaded a format 1.0 document (no type gate there)
                        import copy as _copy
                        old = _copy.deepcopy(d)
                        old["header"] = {"version": "1.0"}
                        cases.append(dict(c, preload=old, what=c["what"]))
        mod, fn = LOAD_IMPL[kind]
        ir = core.ImplRunner(mod, fn=fn, per_case_timeout=20.0)
        try:
            ires = ir.run(cases)
        finally:
            ir.close()
        mres = core.run_model([wire.encode_line(LOAD_MODEL[kind], c["doc"]) for c in cases])
        dis = 0
        kinds = {}
        flags = []
        for c, r, m in zip(cases, ires, mres):
            tag = c["what"].split("=")[0]
            kinds[tag.split(":")[0]] = kinds.get(tag.split(":")[0], 0) + 1
            ok_i = isinstance(r, list) and r and r[0] == "ok"
            ok_m = isinstance(m, list) and m and m[0] == "ok"
            flags.append(c["what"] != "unchanged")
            small = {"kind": kind, "what": c["what"]}
            if ok_i != ok_m:
                dis += 1
                if dis <= 3:
                    chk.obligation("suite:docs_corrupt:%s[%d]" % (kind, dis), False,
                                   "impl %s vs model %s for %s" % (core.canon(r)[:120], core.canon(m)[:120], c["what"]))
            if c["what"] == "unchanged":
                if not ok_i:
                    chk.violation("a document written by the library was rejected on load: %r" % (r,), small, "docs_corrupt:" + kind)
                continue
            if ok_i:
                # accepted: everything a caller obtains must satisfy what writing enforces
                redump = r[1][-1] if kind in ("rpms", "modules", "extra", "composeinfo") else r[1][2]
                valid = isinstance(redump, list) and redump and redump[0] == "ok"
                if c["must_reject"] and not (c["what"].startswith("value:") and valid):
                    chk.violation("%s document with %s was loaded without an exception" % (kind, c["what"]),
                                  {"kind": kind, "what": c["what"], "doc": c["doc"]}, "docs_corrupt:" + kind)
                elif not valid:
                    chk.violation("%s document with %s was loaded but the object cannot be written (%r)" % (kind, c["what"], redump),
                                  {"kind": kind, "what": c["what"], "doc": c["doc"]}, "docs_corrupt:" + kind)
        chk.add_cases([{"kind": kind, "what": c["what"], "n": i} for i, c in enumerate(cases)], flags)
        chk.traces += len(cases)
        chk.obligation("suite:docs_corrupt:" + kind, dis == 0, "" if dis == 0 else "%d disagreements" % dis)
        chk.record_suite("docs_corrupt:" + kind, {"cases": len(cases), "disagreements": dis, "corruption_kinds": kinds,
                                                  "rejected": sum(1 for r in ires if not (isinstance(r, list) and r and r[0] == "ok"))})
        chk.samples.append({"suite": "docs_corrupt:" + kind, "what": cases[1]["what"] if len(cases) > 1 else None,
                            "impl": str(ires[1])[:200] if len(ires) > 1 else None})
    # ---- treeinfo: corruptions at the text level
    contents = [{"content": DT.gen_treeinfo(rng, R)} for _ in range(N[chk.tier] * (5 if deeper else 1))]
    ir = core.ImplRunner("docs_corrupt", fn="impl_valid_treeinfo", per_case_timeout=20.0)
    try:
        tables = ir.run(contents)
    finally:
        ir.close()
    cases = []
    for t in tables:
        if isinstance(t, dict):
            cases.append({"text": S.render_ini(t), "what": "unchanged", "must_reject": False})
            cases.extend(S.ti_corruptions(rng, t, 6))
    for i, c in enumerate(cases):
        if i % 4:
            c["reuse"] = i % 4                # the reading object has a history (docs_treeinfo.impl_load_text)
    ir = core.ImplRunner("docs_treeinfo", fn="impl_load_text", per_case_timeout=20.0)
    try:
        ires = ir.run(cases)
    finally:
        ir.close()
    mlines, midx = [], []
    for i, r in enumerate(ires):
        table = r[2] if (isinstance(r, list) and r and r[0] == "ok") else None
        if table is None:
            try:
                table = DT.section_table(cases[i]["text"])
            except Exception:
                table = None
        if table is not None:
            mlines.append(wire.encode_line("load_ti", table))
            midx.append(i)
    mres = dict(zip(midx, core.run_model(mlines)))
    dis = 0
    kinds = {}
    flags = []
    for i, (c, r) in enumerate(zip(cases, ires)):
        kinds[c["what"].split("=")[0].split(":")[0]] = kinds.get(c["what"].split("=")[0].split(":")[0], 0) + 1
        ok_i = isinstance(r, list) and r and r[0] == "ok"
        m = mres.get(i)
        flags.append(c["what"] != "unchanged")
        if m is not None:
            ok_m = isinstance(m, list) and m and m[0] == "ok"
            if ok_i != ok_m:
                dis += 1
                if dis <= 3:
                    chk.obligation("suite:docs_corrupt:treeinfo[%d]" % dis, False, "impl %s vs model %s for %s" % (core.canon(r)[:120], core.canon(m)[:120], c["what"]))
        if c["what"] == "unchanged":
            if not ok_i:
                chk.violation("a .treeinfo written by the library was rejected on load: %r" % (r,), {"what": c["what"]}, "docs_corrupt:treeinfo")
            continue
        if ok_i:
            redump = r[1][1]
            valid = isinstance(redump, list) and redump and redump[0] == "ok"
            if not (c["what"].startswith("value:") and valid):
                chk.violation("treeinfo with %s was loaded without an exception" % c["what"], {"what": c["what"], "text": c["text"]}, "docs_corrupt:treeinfo")
    chk.add_cases([{"kind": "treeinfo", "what": c["what"], "n": i} for i, c in enumerate(cases)], flags)
    chk.traces += len(cases)
    chk.obligation("suite:docs_corrupt:treeinfo", dis == 0, "" if dis == 0 else "%d disagreements" % dis)
    chk.record_suite("docs_corrupt:treeinfo", {"cases": len(cases), "disagreements": dis, "corruption_kinds": kinds,
                                               "rejected": sum(1 for r in ires if not (isinstance(r, list) and r and r[0] == "ok"))})
    return chk.finish(
        rule="for each JSON format: valid current-version documents written by the library, each with one corruption: header type "
             "of another format, mangled version, a deleted section or required key, or one value (at any variant / image / "
             "section) replaced by a value outside its documented domain; accepted-vs-rejected is compared with the model reader "
             "and, when accepted, the loaded object must be writable; non-trivial = a corrupted document",
        trusted=TRUSTED)
