"""C13 - NVRA strings are parsed back to their parts"""
import core
from suites import str_nvra

TRUSTED = [
    "Coq 8.16.1 kernel (vm_compute used for table obligations; no native_compute)",
    "harness/translate.py: RPM_ARCHES and RPM_NVRA_RE regenerated from /repo by reflection + CPython re._parser",
    "extraction (ExtrOcamlBasic only) + runner/driver.ml + wire format",
    "differential harness: sampled strings, not exhaustive",
    "CPython's re engine modelled as greedy leftmost backtracking (Base/Regex.v); \\d modelled as [0-9]",
]

N = {"quick": 3000, "thorough": 60000}


def run(chk):
    chk.build(["Props/C13.vo"])
    rng = core.Rng(chk.seed * 7919 + 13)
    cases = str_nvra.generate(rng, N[chk.tier])
    strs = [c["s"] for c in cases]

    def oracle(c, a):
        if isinstance(a, list) and len(a) > 2 and a[1] == "HistoryDependent":
            return "parse_nvra is not a function of its argument: %s" % a[2]
        if c["parts"] is not None and a != ["ok", c["parts"]]:
            return "parse_nvra(%r) = %r, expected the parts %r" % (c["s"], a, c["parts"])
        return None

    nt = lambda c, a: c["parts"] is not None and ("-" in c["parts"]["name"] or "/" in c["s"])
    core.differential(chk, "str_nvra", cases, "parse_nvra", model_cases=strs, nontrivial=nt, oracle=oracle)
    core.differential(chk, "str_nvra:regex", cases, "parse_nvra_re", model_cases=strs, nontrivial=nt)

    def oracle_fix(c, a):
        if a[0] == "ok":
            canon, d, again = a[1]
            if again != ["ok", d]:
                return "canonical form %r of %r re-parses to %r, not %r" % (canon, c["s"], again, d)
        elif c["parts"] is not None and ":" in c["s"]:
            return "_check_nevra(%r) refused a legal name: %r" % (c["s"], a)
        return None

    legal = [c for c in cases if c["parts"] is not None]
    core.differential(chk, "str_nvra:check_nevra", legal, "check_nevra", model_cases=[c["s"] for c in legal],
                      impl_fn="impl_check_nevra", nontrivial=nt, oracle=oracle_fix)
    return chk.finish(
        rule="strings name-[epoch:]version-release.arch over the property's alphabet (2/3, with directory/.rpm variants) "
             "and a malformed stream (1/3); non-trivial = legal parts with a dashed name or a directory prefix; distinct by content",
        trusted=TRUSTED)
