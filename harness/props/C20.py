"""C20 - a compose directory is resolved to the same metadata in every supported layout"""
import core
import wire
from suites import dir_layout as S

TRUSTED = [
    "Coq 8.16.1 kernel", "the directory oracle (os.path.exists / os.listdir) is a section variable of the theorems; the harness "
    "passes the real listing and the real set of existing paths to the model",
    "os.path.join modelled for POSIX; URL paths (http/https/ftp) are not modelled",
    "extraction (ExtrOcamlBasic only) + runner/driver.ml + wire format",
]


NAMES = {"info": ["composeinfo.json"], "images": ["images.json", "image-manifest.json"],
         "rpms": ["rpms.json", "rpm-manifest.json"], "modules": ["modules.json"]}


def run(chk):
    chk.build(["Props/C20.vo"])
    cases = S.enumerate_cases(full=(chk.tier == "thorough"))
    ir = core.ImplRunner("dir_layout", per_case_timeout=30.0)
    try:
        res = ir.run(cases)
    finally:
        ir.close()
    lines = []
    for r in res:
        if isinstance(r, list) and len(r) == 2 and isinstance(r[1], list):
            p, ex, ls = r[1]
            # existence is insensitive to a doubled slash: give the model both spellings of the root
            ex2 = sorted(set(ex) | set(e.replace(p.rstrip("/"), p.rstrip("/") + "/", 1) for e in ex) | set(e.replace("//", "/") for e in ex))
            lines.append(wire.encode_line("resolve", [p, ex2, ls]))
        else:
            lines.append(wire.encode_line("resolve", ["", [], []]))
    mres = core.run_model(lines)
    dis = 0
    flags = []
    for c, r, m in zip(cases, res, mres):
        flags.append(len(c["layouts"]) >= 1)
        if not (isinstance(r, list) and len(r) == 2 and isinstance(r[0], list)):
            chk.violation("harness: %r" % (r,), c, "dir_layout")
            continue
        got = r[0]
        cp = got[0]
        norm = lambda p: p.replace("//", "/").rstrip("/") if isinstance(p, str) else p
        if norm(m[0]) != norm(cp):
            dis += 1
            chk.obligation("suite:dir_layout[%d]" % dis, False, "compose_path: impl %r model %r for %r" % (cp, m[0], c))
        lay = c["layouts"]
        # property: compose/ preferred (when it has composeinfo), else the single populated legacy/direct layout
        root = norm(r[1][0])
        if "compose" in lay and "composeinfo.json" in S.PATTERNS[lay["compose"]]:
            want = root + "/compose"
            if norm(cp) != want:
                chk.violation("compose/ holds composeinfo.json but compose_path is %r" % cp, c, "dir_layout")
        elif list(lay) == ["compose"] and S.PATTERNS[lay["compose"]] and norm(cp) != root + "/compose":
            chk.violation("only the compose/ layout is populated but compose_path is %r" % cp, c, "dir_layout")
        elif list(lay) == ["direct"] and norm(cp) != root:
            chk.violation("only the direct layout is populated but compose_path is %r" % cp, c, "dir_layout")
        elif list(lay) == ["legacy"] and norm(cp) != root + "/" + c.get("legacy_name", "1.0"):
            chk.violation("only the legacy layout is populated but compose_path is %r" % cp, c, "dir_layout")
        for acc, a, ma in zip(["info", "images", "rpms", "modules"], got[1:], m[1:]):
            if len(lay) == 1 and a[0] != "ok":
                pat = S.PATTERNS[list(lay.values())[0]]
                first = [fn for fn in NAMES[acc] if fn in pat][:1]           # the current name wins over the legacy one
                if first and pat[first[0]].rstrip("2") == acc:
                    chk.violation("%s is stored as %s in the only populated layout but the accessor raised %s" % (acc, first[0], a[1]), c, "dir_layout")
            ds = got[5].get(acc) if len(got) > 5 and isinstance(got[5], dict) else None
            if a[0] == "ok" and ds == "undecodable":
                chk.violation("%s: the file under the resolved path cannot be loaded on its own, yet the accessor returned an object (from %s)" % (acc, a[3]), c, "dir_layout")
            if a[0] != "ok" and ds == "loads":
                chk.violation("%s: the file under the resolved path loads on its own, but the accessor raised %s" % (acc, a[1]), c, "dir_layout")
            if a[0] == "ok":
                if not a[1]:
                    chk.violation("%s was loaded twice (second access returned another object)" % acc, c, "dir_layout")
                if not a[2]:
                    chk.violation("%s differs from loading %s directly" % (acc, a[3]), c, "dir_layout")
                if ma[0] != "ok" or norm(ma[1]) != norm(a[3]):
                    dis += 1
                    chk.obligation("suite:dir_layout[%d]" % dis, False, "%s file: impl %r model %r for %r" % (acc, a[3], ma, c))
            else:
                if a[1] != "RuntimeError":
                    chk.violation("%s on a missing/undecodable file raised %s" % (acc, a[1]), c, "dir_layout")
                elif not a[2]:
                    chk.violation("%s RuntimeError does not name the location" % acc, c, "dir_layout")
                # a missing file: the model must say RuntimeError too; an undecodable one exists for the model
                if ma[0] == "err" and ma[1] != "RuntimeError":
                    dis += 1
    chk.add_cases(cases, flags)
    chk.traces += len(cases)
    chk.obligation("suite:dir_layout", dis == 0, "" if dis == 0 else "%d disagreements" % dis)
    chk.record_suite("dir_layout", {"cases": len(cases), "disagreements": dis, "layout_subsets": 8, "patterns": list(S.PATTERNS)})
    chk.samples.extend([{"suite": "dir_layout", "case": c, "impl": r[0] if isinstance(r, list) else r} for c, r in list(zip(cases, res))[:4]])
    return chk.finish(
        rule="every subset of {direct, compose/, legacy subdirectory} x file-presence patterns per populated layout (all files under "
             "current names, under legacy names, both, composeinfo only, no composeinfo, undecodable content, empty) x trailing "
             "slash, on real directories; the quick tier takes a covering selection of pattern combinations, the thorough tier the "
             "full product; non-trivial = at least one layout populated",
        trusted=TRUSTED, extra_cov={"exhaustive": chk.tier == "thorough"})
