"""Python value <-> wire tokens understood by runner/driver.ml (see there)."""


def enc(v, out):
    if v is None:
        out.append("n")
    elif v is True:
        out.append("t")
    elif v is False:
        out.append("f")
    elif isinstance(v, int):
        if abs(v) >= 2 ** 62:
            raise ValueError("integer too large for the wire format: %r" % v)
        out.append("i")
        out.append(str(v))
    elif isinstance(v, float):
        r = repr(v)
        out.append("x")
        out.append(str(len(r)))
        out.extend(str(ord(c)) for c in r)
    elif isinstance(v, str):
        out.append("s")
        out.append(str(len(v)))
        out.extend(str(ord(c)) for c in v)
    elif isinstance(v, (list, tuple)):
        out.append("l")
        out.append(str(len(v)))
        for x in v:
            enc(x, out)
    elif isinstance(v, dict):
        out.append("d")
        out.append(str(len(v)))
        for k, x in v.items():
            if not isinstance(k, str):
                raise ValueError("dict key must be str: %r" % (k,))
            enc(k, out)
            enc(x, out)
    else:
        raise ValueError("cannot encode %r" % (v,))


def encode_line(entry, v):
    out = [entry]
    enc(v, out)
    return " ".join(out)


class _Reader:
    def __init__(self, toks):
        self.t = toks
        self.i = 0

    def next(self):
        x = self.t[self.i]
        self.i += 1
        return x

    def read_str(self):
        n = int(self.next())
        s = "".join(chr(int(x)) for x in self.t[self.i:self.i + n])
        self.i += n
        return s

    def read(self):
        t = self.next()
        if t == "n":
            return None
        if t == "t":
            return True
        if t == "f":
            return False
        if t == "i":
            return int(self.next())
        if t == "x":
            return {"__float__": self.read_str()}
        if t == "s":
            return self.read_str()
        if t == "l":
            n = int(self.next())
            return [self.read() for _ in range(n)]
        if t == "d":
            n = int(self.next())
            d = {}
            pairs = []
            for _ in range(n):
                assert self.next() == "s"
                k = self.read_str()
                v = self.read()
                pairs.append((k, v))
                d[k] = v
            if len(d) != len(pairs):
                return {"__dupkeys__": [[k, v] for k, v in pairs]}
            return d
        raise ValueError("bad token %r" % t)


def decode_line(line):
    return _Reader(line.split()).read()
