#!/bin/bash
# independent re-check of every compiled property module (and everything it depends on) with coqchk; prints the axiom summary
cd "$(dirname "$0")" && ./setup.sh >/dev/null && cd coq || exit 2
mods=$(for i in 01 02 03 04 05 06 07 08 09 10 11 12 13 14 15 16 17 18 19 20; do echo PM.Props.C$i; done)
timeout 3000 coqchk -silent -o -Q . PM $mods PM.Extract.Extract > ../coqchk.log 2>&1
rc=$?
tail -14 ../coqchk.log
exit $rc
