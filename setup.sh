#!/bin/bash
# MANIFEST.setup_cmd: clean offline build of the Coq development, extraction and OCaml runner.
set -e
cd "$(dirname "$0")"
mkdir -p .work evidence replays
/venv/bin/python harness/translate.py
cd coq
coq_makefile -f _CoqProject -o Makefile > /dev/null
timeout 3000 make -j16 2>&1 | grep -v '^COQC\|^COQDEP\|Closed under the global context' || true
test -f Extract/Extract.vo
cd ../runner
ocamlfind ocamlopt -w -a model.mli model.ml driver.ml -o driver
echo "setup ok"
