(* Cost semantics of the backtracking matcher.
   [exits r s]: the suffixes of s (with multiplicity) at which r hands over to
   its continuation when EVERY alternative is explored (the worst case: the
   continuation keeps failing).  [work r s]: the number of matcher nodes
   visited in that exploration.  Capture groups are transparent; Bol is
   over-approximated by Eps (it can only cut the search). *)
From PM Require Export Base.Regex.
Open Scope nat_scope.

Fixpoint star_exits (f : str -> list str) (fuel : nat) (s : str) : list str :=
  match fuel with
  | O => [s]
  | S n => flat_map (fun s' => if Nat.ltb (length s') (length s) then star_exits f n s' else []) (f s) ++ [s]
  end.

Fixpoint exits (r : re) (s : str) : list str :=
  match r with
  | Eps | Bol => [s]
  | Cls cs => match s with x :: s' => if cs_mem x cs then [s'] else [] | [] => [] end
  | Cat a b => flat_map (exits b) (exits a s)
  | Alt a b => exits a s ++ exits b s
  | Star a => star_exits (exits a) (S (length s)) s
  | Eol => match s with [] => [s] | [x] => if N.eqb x 10 then [s] else [] | _ => [] end
  | Grp _ a => exits a s
  | Unsupported => []
  end.

Definition sum_map {A} (f : A -> nat) (l : list A) : nat := fold_right (fun x acc => f x + acc) 0 l.

Fixpoint star_work (w : str -> nat) (f : str -> list str) (fuel : nat) (s : str) : nat :=
  match fuel with
  | O => 1
  | S n => 1 + w s + sum_map (fun s' => if Nat.ltb (length s') (length s) then star_work w f n s' else 0) (f s)
  end.

Fixpoint work (r : re) (s : str) : nat :=
  match r with
  | Eps | Bol | Eol | Cls _ | Unsupported => 1
  | Cat a b => 1 + work a s + sum_map (work b) (exits a s)
  | Alt a b => 1 + work a s + work b s
  | Star a => star_work (work a) (exits a) (S (length s)) s
  | Grp _ a => 1 + work a s
  end.

(* ---- the syntactic safety criterion *)
Fixpoint ungroup (r : re) : re :=
  match r with
  | Grp _ a => ungroup a
  | Cat a b => Cat (ungroup a) (ungroup b)
  | Alt a b => Alt (ungroup a) (ungroup b)
  | Star a => Star (ungroup a)
  | _ => r
  end.

Definition ranges_disjoint (r1 r2 : list (N * N)) : bool :=
  forallb (fun a => forallb (fun b => N.ltb (snd a) (fst b) || N.ltb (snd b) (fst a)) r2) r1.

Definition cs_disjoint (c d : cset) : bool :=
  match c, d with
  | CS false r1, CS false r2 => ranges_disjoint r1 r2
  | _, _ => false
  end.

(* every class occurring in r is disjoint from d *)
Fixpoint dfree (d : cset) (r : re) : bool :=
  match r with
  | Cls c => cs_disjoint c d
  | Cat a b | Alt a b => dfree d a && dfree d b
  | Star a | Grp _ a => dfree d a
  | Unsupported => false
  | _ => true
  end.

(* a sequence of single classes, optionally ending in a star of a class: unambiguous *)
Fixpoint simple (r : re) : bool :=
  match r with
  | Cls _ => true
  | Star (Cls _) => true
  | Cat (Cls _) b => simple b
  | _ => false
  end.

Definition star_ok (a : re) : bool :=
  match ungroup a with
  | Cls _ => true
  | Cat (Cls d) b => dfree d b && simple b
  | _ => false
  end.

Fixpoint safe (r : re) : bool :=
  match r with
  | Unsupported => false
  | Cat a b | Alt a b => safe a && safe b
  | Star a => star_ok a
  | Grp _ a => safe a
  | _ => true
  end.

(* ---- the polynomial c * (n+1)^d computed from r *)
Definition poly := (nat * nat)%type.
Definition evalP (p : poly) (n : nat) : nat := fst p * (n + 1) ^ snd p.
Definition oneP : poly := (1, 0).
Definition addP (p q : poly) : poly := (fst p + fst q, Nat.max (snd p) (snd q)).
Definition mulP (p q : poly) : poly := (fst p * fst q, snd p + snd q).

Fixpoint EP (r : re) : poly :=      (* bound on the number of exits *)
  match r with
  | Cat a b => mulP (EP a) (EP b)
  | Alt a b => addP (EP a) (EP b)
  | Star _ => (1, 1)
  | Grp _ a => EP a
  | _ => oneP
  end.

Fixpoint WP (r : re) : poly :=      (* bound on the work *)
  match r with
  | Cat a b => addP (addP oneP (WP a)) (mulP (EP a) (WP b))
  | Alt a b => addP (addP oneP (WP a)) (WP b)
  | Star a => mulP (1, 1) (addP oneP (WP a))
  | Grp _ a => addP oneP (WP a)
  | _ => oneP
  end.

(* ---- the matcher of Base/Regex.v instrumented with a step counter: same
   control flow, every node visit counts 1, the continuation reports its own steps *)
Definition skont := str -> nat -> caps -> nat * option caps.

Fixpoint star_ms (body : str -> nat -> caps -> skont -> nat * option caps)
         (fuel : nat) (s : str) (pos : nat) (c : caps) (k : skont) : nat * option caps :=
  match fuel with
  | O => k s pos c
  | S f =>
      let '(n1, r1) := body s pos c (fun s' pos' c' =>
                          if Nat.ltb (length s') (length s) then star_ms body f s' pos' c' k else (0, None)) in
      match r1 with
      | Some r => (S n1, Some r)
      | None => let '(n2, r2) := k s pos c in (S (n1 + n2), r2)
      end
  end.

Fixpoint ms (r : re) (s : str) (pos : nat) (c : caps) (k : skont) : nat * option caps :=
  match r with
  | Eps => let '(n, x) := k s pos c in (S n, x)
  | Cls cs => match s with
              | y :: s' => if cs_mem y cs then let '(n, x) := k s' (S pos) c in (S n, x) else (1, None)
              | [] => (1, None)
              end
  | Cat a b => let '(n, x) := ms a s pos c (fun s' pos' c' => ms b s' pos' c' k) in (S n, x)
  | Alt a b => let '(n1, r1) := ms a s pos c k in
               match r1 with
               | Some x => (S n1, Some x)
               | None => let '(n2, r2) := ms b s pos c k in (S (n1 + n2), r2)
               end
  | Star a => star_ms (ms a) (S (length s)) s pos c k
  | Bol => if Nat.eqb pos 0 then let '(n, x) := k s pos c in (S n, x) else (1, None)
  | Eol => match s with
           | [] => let '(n, x) := k s pos c in (S n, x)
           | [y] => if N.eqb y 10 then let '(n, x) := k s pos c in (S n, x) else (1, None)
           | _ => (1, None)
           end
  | Grp g a => let '(n, x) := ms a s pos c (fun s' pos' c' => k s' pos' (cap_set g (pos, pos') c')) in (S n, x)
  | Unsupported => (1, None)
  end.

(* steps of re.match *)
Definition match_steps (r : re) (s : str) : nat := fst (ms r s O [] (fun _ _ c => (0, Some c))).
