(* Generic metadata objects (attribute name -> Python value) and the little
   assertion vocabulary the library's _validate_* methods are written in. *)
From PM Require Export Base.PyVal Base.Regex.

Definition obj := list (str * pyval).

(* attributes are always initialised by __init__; a missing one reads as None *)
Definition getf (o : obj) (f : str) : pyval := match assoc f o with Some v => v | None => PNone end.
Definition setf (o : obj) (f : str) (v : pyval) : obj := assoc_set f v o.

(* ---- Python == on values: bool is an int; dicts compare as mappings *)
Fixpoint insert_kv (k : str) (v : pyval) (l : list (str * pyval)) : list (str * pyval) :=
  match l with
  | [] => [(k, v)]
  | (k', v') :: l' => if str_leb k k' then (k, v) :: l else (k', v') :: insert_kv k v l'
  end.

Fixpoint norm (v : pyval) : pyval :=
  match v with
  | PBool b => PInt (if b then 1 else 0)%Z
  | PList l => PList ((fix go (l : list pyval) : list pyval :=
                         match l with [] => [] | x :: l' => norm x :: go l' end) l)
  | PDict kv => PDict ((fix go (kv : list (str * pyval)) : list (str * pyval) :=
                          match kv with [] => [] | (k, x) :: kv' => insert_kv k (norm x) (go kv') end) kv)
  | _ => v
  end.

Definition py_eq (a b : pyval) : bool := pyval_eqb (norm a) (norm b).

Fixpoint py_in (v : pyval) (l : list pyval) : bool :=
  match l with [] => false | x :: l' => py_eq v x || py_in v l' end.

(* ---- conditions and assertions *)
Inductive vcond :=
| CTruthy (f : str)
| CNotNone (f : str)
| CMatch (r : re) (f : str)           (* re.match(pattern, self.f) *)
| CNot (c : vcond)
| CAnd (a b : vcond)
| COr (a b : vcond).

Inductive vexpr :=
| AssertType (f : str) (tags : list pytag)
| AssertValue (f : str) (tbl : list pyval)
| AssertNotBlank (f : str)
| AssertMatchesRe (f : str) (rs : list re)
| VIf (c : vcond) (body : list vexpr)
| VRaise (e : exc)
| VPass.

Fixpoint eval_cond (o : obj) (c : vcond) : result bool :=
  match c with
  | CTruthy f => Ok (truthy (getf o f))
  | CNotNone f => Ok (match getf o f with PNone => false | _ => true end)
  | CMatch r f => match getf o f with
                  | PStr s => Ok (re_matches r s)
                  | _ => Err TypeError
                  end
  | CNot c => do b <- eval_cond o c; Ok (negb b)
  | CAnd a b => do x <- eval_cond o a; if x then eval_cond o b else Ok false
  | COr a b => do x <- eval_cond o a; if x then Ok true else eval_cond o b
  end.

Fixpoint run_vexpr (o : obj) (e : vexpr) : result unit :=
  match e with
  | AssertType f tags => guard (existsb (has_tag (getf o f)) tags) TypeError
  | AssertValue f tbl => guard (py_in (getf o f) tbl) ValueError
  | AssertNotBlank f => guard (truthy (getf o f)) ValueError
  | AssertMatchesRe f rs =>
      match getf o f with
      | PStr s => guard (existsb (fun r => re_matches r s) rs) ValueError
      | _ => match rs with [] => Err ValueError | _ => Err TypeError end
      end
  | VIf c body =>
      do b <- eval_cond o c;
      if b then (fix go (l : list vexpr) : result unit :=
                   match l with [] => Ok tt | x :: l' => check run_vexpr o x; go l' end) body
      else Ok tt
  | VRaise e => Err e
  | VPass => Ok tt
  end.

Definition run_vexprs (o : obj) (l : list vexpr) : result unit := iterM (run_vexpr o) l.

(* a validator method: translated body, or a hand-modelled one looked up by qualified name *)
Inductive vmethod := VBody (body : list vexpr) | VCustom (qualname : str).

Definition custom_table := str -> option (obj -> result unit).

Definition run_method (ct : custom_table) (o : obj) (m : vmethod) : result unit :=
  match m with
  | VBody b => run_vexprs o b
  | VCustom q => match ct q with Some f => f o | None => Err OtherError end
  end.

(* validate(): every _validate* method in sorted name order *)
Definition run_validators (ct : custom_table) (ms : list (str * vmethod)) (o : obj) : result unit :=
  iterM (fun m => run_method ct o (snd m)) ms.
