(* Strings as lists of Unicode code points (N).  Code-point order is Python's
   str order, so sorting with N.ltb is faithful. *)
From Coq Require Export List NArith ZArith Bool Lia ZifyBool.
From Coq Require Ascii String.
Export String.StringSyntax.
Export ListNotations.
Open Scope N_scope.
Global Ltac Zify.zify_post_hook ::= Z.to_euclidean_division_equations.

Definition chr := N.
Definition str := list chr.

(* literals: [lit "abc"] computes to [97;98;99] *)
Fixpoint lit (s : String.string) : str :=
  match s with
  | String.EmptyString => []
  | String.String a s' => Ascii.N_of_ascii a :: lit s'
  end.

Definition c_dash : chr := 45.
Definition c_dot : chr := 46.
Definition c_slash : chr := 47.
Definition c_colon : chr := 58.
Definition c_at : chr := 64.
Definition c_nl : chr := 10.
Definition c_comma : chr := 44.

Fixpoint str_eqb (a b : str) : bool :=
  match a, b with
  | [], [] => true
  | x :: a', y :: b' => N.eqb x y && str_eqb a' b'
  | _, _ => false
  end.

Lemma str_eqb_spec a b : reflect (a = b) (str_eqb a b).
Proof.
  revert b; induction a as [|x a IH]; intros [|y b]; cbn; try (constructor; congruence).
  destruct (N.eqb_spec x y) as [->|Hn]; cbn.
  - destruct (IH b) as [->|Hn]; constructor; congruence.
  - constructor; congruence.
Qed.

Lemma str_eqb_eq a b : str_eqb a b = true <-> a = b.
Proof. destruct (str_eqb_spec a b); split; congruence. Qed.

Lemma str_eqb_refl a : str_eqb a a = true.
Proof. apply str_eqb_eq; reflexivity. Qed.

Lemma str_eqb_neq a b : str_eqb a b = false <-> a <> b.
Proof. destruct (str_eqb_spec a b); split; congruence. Qed.

Definition str_eq_dec (a b : str) : {a = b} + {a <> b}.
Proof. destruct (str_eqb_spec a b); [left|right]; assumption. Defined.

(* lexicographic strict order = Python's < on str *)
Fixpoint str_ltb (a b : str) : bool :=
  match a, b with
  | [], [] => false
  | [], _ :: _ => true
  | _ :: _, [] => false
  | x :: a', y :: b' => if N.ltb x y then true else if N.eqb x y then str_ltb a' b' else false
  end.

Definition str_leb (a b : str) : bool := negb (str_ltb b a).

Fixpoint mem_str (x : str) (l : list str) : bool :=
  match l with
  | [] => false
  | y :: l' => str_eqb x y || mem_str x l'
  end.

Lemma mem_str_In x l : mem_str x l = true <-> In x l.
Proof.
  induction l as [|y l IH]; cbn; [split; [discriminate|tauto]|].
  rewrite orb_true_iff, IH, str_eqb_eq. split; intros [H|H]; auto.
Qed.

Fixpoint memc (c : chr) (s : str) : bool :=
  match s with
  | [] => false
  | x :: s' => N.eqb c x || memc c s'
  end.

Lemma memc_In c s : memc c s = true <-> In c s.
Proof.
  induction s as [|x s IH]; cbn; [split; [discriminate|tauto]|].
  rewrite orb_true_iff, IH, N.eqb_eq. split; intros [H|H]; auto.
Qed.

Lemma memc_false c s : memc c s = false <-> ~ In c s.
Proof. rewrite <- memc_In. destruct (memc c s); split; congruence. Qed.

Lemma memc_app c a b : memc c (a ++ b) = memc c a || memc c b.
Proof. induction a as [|x a IH]; cbn; [reflexivity|]. rewrite IH, orb_assoc; reflexivity. Qed.

(* prefix / suffix *)
Fixpoint startswith (s p : str) {struct p} : bool :=
  match p with
  | [] => true
  | y :: p' => match s with
               | [] => false
               | x :: s' => N.eqb x y && startswith s' p'
               end
  end.

Lemma startswith_app p s : startswith (p ++ s) p = true.
Proof. induction p as [|x p IH]; cbn; [reflexivity|]. rewrite N.eqb_refl, IH; reflexivity. Qed.

Lemma startswith_spec s p : startswith s p = true <-> exists t, s = p ++ t.
Proof.
  revert s; induction p as [|y p IH]; intros s; cbn.
  - split; [intros _; exists s; reflexivity|reflexivity].
  - destruct s as [|x s]; [split; [discriminate|intros [t Ht]; discriminate]|].
    rewrite andb_true_iff, N.eqb_eq, IH. split.
    + intros [-> [t ->]]. exists t; reflexivity.
    + intros [t Ht]. injection Ht as -> ->. split; [reflexivity|exists t; reflexivity].
Qed.

Definition endswith (s p : str) : bool := startswith (rev s) (rev p).

Lemma endswith_app s p : endswith (s ++ p) p = true.
Proof. unfold endswith. rewrite rev_app_distr. apply startswith_app. Qed.

Lemma endswith_spec s p : endswith s p = true <-> exists t, s = t ++ p.
Proof.
  unfold endswith. rewrite startswith_spec. split; intros [t Ht].
  - exists (rev t). rewrite <- (rev_involutive s), Ht, rev_app_distr, rev_involutive. reflexivity.
  - exists (rev t). rewrite Ht, rev_app_distr. reflexivity.
Qed.

(* drop the last n characters: s[:-n] for n <= len s *)
Definition drop_last (n : nat) (s : str) : str := firstn (length s - n) s.

Lemma drop_last_app s p : drop_last (length p) (s ++ p) = s.
Proof.
  unfold drop_last. rewrite app_length.
  replace (length s + length p - length p)%nat with (length s + 0)%nat by lia.
  rewrite firstn_app_2. cbn. apply app_nil_r.
Qed.

(* split at the first occurrence of c *)
Fixpoint split_first (c : chr) (s : str) : option (str * str) :=
  match s with
  | [] => None
  | x :: s' =>
      if N.eqb x c then Some ([], s')
      else match split_first c s' with
           | Some (a, b) => Some (x :: a, b)
           | None => None
           end
  end.

Lemma split_first_app c a b : ~ In c a -> split_first c (a ++ c :: b) = Some (a, b).
Proof.
  induction a as [|x a IH]; cbn; intros H.
  - rewrite N.eqb_refl; reflexivity.
  - destruct (N.eqb_spec x c) as [->|Hn]; [exfalso; apply H; left; reflexivity|].
    rewrite IH; [reflexivity|]. intros Hin; apply H; right; exact Hin.
Qed.

Lemma split_first_none c s : ~ In c s -> split_first c s = None.
Proof.
  induction s as [|x s IH]; cbn; intros H; [reflexivity|].
  destruct (N.eqb_spec x c) as [->|Hn]; [exfalso; apply H; left; reflexivity|].
  rewrite IH; [reflexivity|]. intros Hin; apply H; right; exact Hin.
Qed.

Lemma split_first_some c s a b :
  split_first c s = Some (a, b) -> s = a ++ c :: b /\ ~ In c a.
Proof.
  revert a; induction s as [|x s IH]; cbn; intros a; [discriminate|].
  destruct (N.eqb_spec x c) as [->|Hn].
  - intros H; injection H as <- <-. split; [reflexivity|intros []].
  - destruct (split_first c s) as [[a' b']|] eqn:E; [|discriminate].
    intros H; injection H as <- <-. destruct (IH a' eq_refl) as [-> Hni].
    split; [reflexivity|]. intros [Hx|Hx]; [congruence|tauto].
Qed.

Lemma split_first_none_inv c s : split_first c s = None -> ~ In c s.
Proof.
  induction s as [|x s IH]; cbn; [intros _ []|].
  destruct (N.eqb_spec x c) as [->|Hn]; [discriminate|].
  destruct (split_first c s) as [[a b]|]; [discriminate|].
  intros _ [Hx|Hx]; [congruence|]. exact (IH eq_refl Hx).
Qed.

(* split at the last occurrence of c *)
Definition split_last (c : chr) (s : str) : option (str * str) :=
  match split_first c (rev s) with
  | Some (b, a) => Some (rev a, rev b)
  | None => None
  end.

Lemma split_last_app c a b : ~ In c b -> split_last c (a ++ c :: b) = Some (a, b).
Proof.
  intros H. unfold split_last. rewrite rev_app_distr. cbn [rev]. rewrite <- app_assoc. cbn [app].
  rewrite split_first_app; [rewrite !rev_involutive; reflexivity|].
  intros Hin; apply H. apply in_rev; exact Hin.
Qed.

Lemma split_last_none c s : ~ In c s -> split_last c s = None.
Proof.
  intros H. unfold split_last. rewrite split_first_none; [reflexivity|].
  intros Hin; apply H. apply in_rev; exact Hin.
Qed.

Lemma split_last_some c s a b :
  split_last c s = Some (a, b) -> s = a ++ c :: b /\ ~ In c b.
Proof.
  unfold split_last. destruct (split_first c (rev s)) as [[b' a']|] eqn:E; [|discriminate].
  intros H; injection H as <- <-. apply split_first_some in E. destruct E as [E Hni].
  split.
  - rewrite <- (rev_involutive s), E, rev_app_distr. cbn [rev]. rewrite <- app_assoc. reflexivity.
  - intros Hin; apply Hni. apply in_rev. exact Hin.
Qed.

Lemma split_last_none_inv c s : split_last c s = None -> ~ In c s.
Proof.
  unfold split_last. destruct (split_first c (rev s)) as [[b a]|] eqn:E; [discriminate|].
  intros _ Hin. apply split_first_none_inv in E. apply E. apply in_rev. rewrite rev_involutive. exact Hin.
Qed.

(* str.split(c): always non-empty list *)
Fixpoint split_acc (c : chr) (acc : str) (s : str) : list str :=
  match s with
  | [] => [rev acc]
  | x :: s' => if N.eqb x c then rev acc :: split_acc c [] s' else split_acc c (x :: acc) s'
  end.
Definition split (c : chr) (s : str) : list str := split_acc c [] s.

Fixpoint join (sep : str) (l : list str) : str :=
  match l with
  | [] => []
  | [x] => x
  | x :: l' => x ++ sep ++ join sep l'
  end.

Fixpoint count (c : chr) (s : str) : nat :=
  match s with
  | [] => O
  | x :: s' => if N.eqb x c then S (count c s') else count c s'
  end.

Lemma count_app c a b : count c (a ++ b) = (count c a + count c b)%nat.
Proof. induction a as [|x a IH]; cbn; [reflexivity|]. destruct (N.eqb x c); rewrite IH; reflexivity. Qed.

Lemma count_0 c s : count c s = O <-> ~ In c s.
Proof.
  induction s as [|x s IH]; cbn; [tauto|].
  destruct (N.eqb_spec x c) as [->|Hn].
  - split; [discriminate|]. intros H; exfalso; apply H; left; reflexivity.
  - rewrite IH. split; intros H; [intros [Hx|Hx]; [congruence|tauto]|tauto].
Qed.

(* character classes *)
Definition is_digit (c : chr) : bool := (48 <=? c) && (c <=? 57).
Definition is_lower (c : chr) : bool := (97 <=? c) && (c <=? 122).
Definition is_upper (c : chr) : bool := (65 <=? c) && (c <=? 90).

Fixpoint span (p : chr -> bool) (s : str) : str * str :=
  match s with
  | [] => ([], [])
  | x :: s' => if p x then let (a, b) := span p s' in (x :: a, b) else ([], s)
  end.

Lemma span_app p s : let (a, b) := span p s in s = a ++ b.
Proof.
  induction s as [|x s IH]; cbn; [reflexivity|].
  destruct (p x); [|reflexivity]. destruct (span p s) as [a b]. cbn. congruence.
Qed.

Lemma span_all p a b : forallb p a = true -> (match b with [] => True | y :: _ => p y = false end) ->
  span p (a ++ b) = (a, b).
Proof.
  induction a as [|x a IH]; cbn; intros Ha Hb.
  - destruct b as [|y b]; [reflexivity|]. cbn. rewrite Hb. reflexivity.
  - apply andb_true_iff in Ha. destruct Ha as [Hx Ha]. rewrite Hx, (IH Ha Hb). reflexivity.
Qed.

(* decimal *)
Definition digit_val (c : chr) : N := c - 48.

Fixpoint parse_dec_acc (acc : N) (s : str) : N :=
  match s with
  | [] => acc
  | x :: s' => parse_dec_acc (acc * 10 + digit_val x) s'
  end.
Definition parse_dec (s : str) : N := parse_dec_acc 0 s.

(* N -> decimal string, fuelled by the number of binary digits (always enough) *)
Fixpoint show_dec_fuel (fuel : nat) (n : N) (acc : str) : str :=
  match fuel with
  | O => acc
  | S f =>
      let d := 48 + n mod 10 in
      let q := n / 10 in
      if N.eqb q 0 then d :: acc else show_dec_fuel f q (d :: acc)
  end.
Fixpoint pos_bits (p : positive) : nat :=
  match p with xH => 1%nat | xO p' | xI p' => S (pos_bits p') end.
Definition n_bits (n : N) : nat := match n with N0 => 1%nat | Npos p => pos_bits p end.
Definition show_dec (n : N) : str := show_dec_fuel (n_bits n) n [].

Definition show_Z (z : Z) : str :=
  match z with
  | Z0 => [48]
  | Zpos p => show_dec (Npos p)
  | Zneg p => 45 :: show_dec (Npos p)
  end.

Definition lower_c (c : chr) : chr := if is_upper c then c + 32 else c.
(* ASCII-only lower(); non-ASCII case folding is outside the modelled alphabet *)
Definition lower (s : str) : str := map lower_c s.

Fixpoint strip_right (p : chr -> bool) (s : str) : str :=
  match s with
  | [] => []
  | x :: s' => match strip_right p s' with
               | [] => if p x then [] else [x]
               | t => x :: t
               end
  end.
Fixpoint strip_left (p : chr -> bool) (s : str) : str :=
  match s with
  | [] => []
  | x :: s' => if p x then strip_left p s' else s
  end.

Definition replace_none (c : chr) (s : str) : str := filter (fun x => negb (N.eqb x c)) s.

Arguments lit _%string_scope.
