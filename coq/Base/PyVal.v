(* Python values, exceptions, results *)
From PM Require Export Base.Str.

Inductive exc := TypeError | ValueError | KeyError | AttributeError | IndexError
               | UnboundLocalError | RuntimeError | OtherError.

Definition exc_eqb (a b : exc) : bool :=
  match a, b with
  | TypeError, TypeError | ValueError, ValueError | KeyError, KeyError
  | AttributeError, AttributeError | IndexError, IndexError
  | UnboundLocalError, UnboundLocalError | RuntimeError, RuntimeError
  | OtherError, OtherError => true
  | _, _ => false
  end.

Inductive result (A : Type) := Ok (a : A) | Err (e : exc).
Arguments Ok {A} a.
Arguments Err {A} e.

Definition bind {A B} (r : result A) (f : A -> result B) : result B :=
  match r with Ok a => f a | Err e => Err e end.
Notation "'do' x <- r ; k" := (bind r (fun x => k)) (at level 200, x pattern, r at level 100, k at level 200).
Notation "'check' r ; k" := (bind r (fun _ : unit => k)) (at level 200, r at level 100, k at level 200).

Definition of_option {A} (e : exc) (o : option A) : result A :=
  match o with Some a => Ok a | None => Err e end.

Definition guard (b : bool) (e : exc) : result unit := if b then Ok tt else Err e.

Fixpoint mapM {A B} (f : A -> result B) (l : list A) : result (list B) :=
  match l with
  | [] => Ok []
  | x :: l' => do y <- f x; do ys <- mapM f l'; Ok (y :: ys)
  end.

Fixpoint iterM {A} (f : A -> result unit) (l : list A) : result unit :=
  match l with
  | [] => Ok tt
  | x :: l' => check f x; iterM f l'
  end.

(* Python values.  Dict keys are strings (every dict in this library is
   str-keyed); a dict is a list in iteration order.  Floats are opaque
   tokens: the repr() text. *)
Inductive pyval :=
| PNone
| PBool (b : bool)
| PInt (z : Z)
| PFloat (tok : str)
| PStr (s : str)
| PList (l : list pyval)
| PDict (kv : list (str * pyval)).

Section pyval_ind.
  Variable P : pyval -> Prop.
  Hypothesis HNone : P PNone.
  Hypothesis HBool : forall b, P (PBool b).
  Hypothesis HInt : forall z, P (PInt z).
  Hypothesis HFloat : forall t, P (PFloat t).
  Hypothesis HStr : forall s, P (PStr s).
  Hypothesis HList : forall l, Forall P l -> P (PList l).
  Hypothesis HDict : forall kv, Forall (fun p => P (snd p)) kv -> P (PDict kv).
  Fixpoint pyval_ind' (v : pyval) : P v :=
    match v with
    | PNone => HNone
    | PBool b => HBool b
    | PInt z => HInt z
    | PFloat t => HFloat t
    | PStr s => HStr s
    | PList l => HList l ((fix go (l : list pyval) : Forall P l :=
                             match l with
                             | [] => Forall_nil _
                             | x :: l' => Forall_cons _ (pyval_ind' x) (go l')
                             end) l)
    | PDict kv => HDict kv ((fix go (kv : list (str * pyval)) : Forall (fun p => P (snd p)) kv :=
                               match kv with
                               | [] => Forall_nil _
                               | p :: kv' => Forall_cons _ (pyval_ind' (snd p)) (go kv')
                               end) kv)
    end.
End pyval_ind.

Fixpoint pyval_eqb (a b : pyval) : bool :=
  match a, b with
  | PNone, PNone => true
  | PBool x, PBool y => Bool.eqb x y
  | PInt x, PInt y => Z.eqb x y
  | PFloat x, PFloat y => str_eqb x y
  | PStr x, PStr y => str_eqb x y
  | PList x, PList y =>
      (fix go (x y : list pyval) : bool :=
         match x, y with
         | [], [] => true
         | u :: x', v :: y' => pyval_eqb u v && go x' y'
         | _, _ => false
         end) x y
  | PDict x, PDict y =>
      (fix go (x y : list (str * pyval)) : bool :=
         match x, y with
         | [], [] => true
         | (k, u) :: x', (k', v) :: y' => str_eqb k k' && pyval_eqb u v && go x' y'
         | _, _ => false
         end) x y
  | _, _ => false
  end.

(* Python truthiness *)
Definition truthy (v : pyval) : bool :=
  match v with
  | PNone => false
  | PBool b => b
  | PInt z => negb (Z.eqb z 0)
  | PFloat t => negb (str_eqb t (lit "0.0") || str_eqb t (lit "-0.0"))
  | PStr s => match s with [] => false | _ => true end
  | PList l => match l with [] => false | _ => true end
  | PDict kv => match kv with [] => false | _ => true end
  end.

(* type tags for isinstance checks; bool is an int in Python *)
Inductive pytag := TNone | TBool | TInt | TFloat | TStr | TList | TDict.

Definition has_tag (v : pyval) (t : pytag) : bool :=
  match t, v with
  | TNone, PNone => true
  | TBool, PBool _ => true
  | TInt, PInt _ => true
  | TInt, PBool _ => true
  | TFloat, PFloat _ => true
  | TStr, PStr _ => true
  | TList, PList _ => true
  | TDict, PDict _ => true
  | _, _ => false
  end.

(* association lists *)
Fixpoint assoc {A} (k : str) (l : list (str * A)) : option A :=
  match l with
  | [] => None
  | (k', v) :: l' => if str_eqb k k' then Some v else assoc k l'
  end.

Fixpoint assoc_set {A} (k : str) (v : A) (l : list (str * A)) : list (str * A) :=
  match l with
  | [] => [(k, v)]
  | (k', v') :: l' => if str_eqb k k' then (k, v) :: l' else (k', v') :: assoc_set k v l'
  end.

Fixpoint assoc_remove {A} (k : str) (l : list (str * A)) : list (str * A) :=
  match l with
  | [] => []
  | (k', v') :: l' => if str_eqb k k' then assoc_remove k l' else (k', v') :: assoc_remove k l'
  end.

(* dict.setdefault(k, default) followed by an in-place update *)
Fixpoint upd {A} (k : str) (f : option A -> A) (l : list (str * A)) : list (str * A) :=
  match l with
  | [] => [(k, f None)]
  | (k', v) :: l' => if str_eqb k k' then (k', f (Some v)) :: l' else (k', v) :: upd k f l'
  end.

Definition dflt {A} (d : A) (o : option A) : A := match o with Some a => a | None => d end.

Definition keys {A} (l : list (str * A)) : list str := map fst l.

Lemma assoc_set_same {A} k (v : A) l : assoc k (assoc_set k v l) = Some v.
Proof.
  induction l as [|[k' v'] l IH]; cbn.
  - rewrite str_eqb_refl; reflexivity.
  - destruct (str_eqb k k') eqn:E; cbn; rewrite ?str_eqb_refl, ?E; auto.
Qed.

Lemma assoc_set_other {A} k k' (v : A) l : k <> k' -> assoc k' (assoc_set k v l) = assoc k' l.
Proof.
  intros Hn. induction l as [|[k2 v2] l IH]; cbn.
  - apply str_eqb_neq in Hn. destruct (str_eqb k' k) eqn:E; [apply str_eqb_eq in E; subst; rewrite str_eqb_refl in Hn; discriminate|reflexivity].
  - destruct (str_eqb_spec k k2) as [->|Hk]; cbn.
    + destruct (str_eqb_spec k' k2) as [->|Hk']; [congruence|reflexivity].
    + destruct (str_eqb k' k2); [reflexivity|exact IH].
Qed.

Lemma assoc_In {A} k (v : A) l : assoc k l = Some v -> In (k, v) l.
Proof.
  induction l as [|[k' v'] l IH]; cbn; [discriminate|].
  destruct (str_eqb_spec k k') as [->|Hn]; [intros H; injection H as ->; left; reflexivity|].
  intros H; right; exact (IH H).
Qed.

Lemma assoc_None {A} k (l : list (str * A)) : assoc k l = None <-> ~ In k (keys l).
Proof.
  induction l as [|[k' v'] l IH]; cbn; [tauto|].
  destruct (str_eqb_spec k k') as [->|Hn].
  - split; [discriminate|]. intros H; exfalso; apply H; left; reflexivity.
  - rewrite IH. split; intros H; [intros [Hx|Hx]; [congruence|tauto]|tauto].
Qed.
