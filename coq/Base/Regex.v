(* Regular expressions: the fragment of Python's `re` the library uses, and a
   greedy leftmost backtracking matcher with capture groups in the shape of
   CPython's sre engine.  Repetition operators other than `*` are expanded by
   the translator (a+ = a a*, a? = (a|), a{n} = a^n). *)
From PM Require Export Base.Str.

Inductive cset := CS (neg : bool) (ranges : list (N * N)).

Definition in_ranges (c : chr) (rs : list (N * N)) : bool :=
  existsb (fun r => (fst r <=? c) && (c <=? snd r)) rs.

Definition cs_mem (c : chr) (cs : cset) : bool :=
  match cs with CS neg rs => xorb neg (in_ranges c rs) end.

Inductive re :=
| Eps
| Cls (c : cset)
| Cat (a b : re)
| Alt (a b : re)
| Star (a : re)
| Bol
| Eol
| Grp (n : nat) (a : re)
| Unsupported.

Definition caps := list (nat * (nat * nat)).

Fixpoint cap_set (n : nat) (v : nat * nat) (c : caps) : caps :=
  match c with
  | [] => [(n, v)]
  | (n', v') :: c' => if Nat.eqb n n' then (n, v) :: c' else (n', v') :: cap_set n v c'
  end.

Fixpoint cap_get (n : nat) (c : caps) : option (nat * nat) :=
  match c with
  | [] => None
  | (n', v') :: c' => if Nat.eqb n n' then Some v' else cap_get n c'
  end.

Definition kont := str -> nat -> caps -> option caps.

Fixpoint star_m (body : str -> nat -> caps -> kont -> option caps)
         (fuel : nat) (s : str) (pos : nat) (c : caps) (k : kont) : option caps :=
  match fuel with
  | O => k s pos c
  | S f =>
      match body s pos c (fun s' pos' c' =>
                            if Nat.ltb (length s') (length s) then star_m body f s' pos' c' k else None) with
      | Some r => Some r
      | None => k s pos c
      end
  end.

Fixpoint m (r : re) (s : str) (pos : nat) (c : caps) (k : kont) : option caps :=
  match r with
  | Eps => k s pos c
  | Cls cs => match s with
              | x :: s' => if cs_mem x cs then k s' (S pos) c else None
              | [] => None
              end
  | Cat a b => m a s pos c (fun s' pos' c' => m b s' pos' c' k)
  | Alt a b => match m a s pos c k with
               | Some r => Some r
               | None => m b s pos c k
               end
  | Star a => star_m (m a) (S (length s)) s pos c k
  | Bol => if Nat.eqb pos 0 then k s pos c else None
  | Eol => match s with
           | [] => k s pos c
           | [x] => if N.eqb x 10 then k s pos c else None
           | _ => None
           end
  | Grp n a => m a s pos c (fun s' pos' c' => k s' pos' (cap_set n (pos, pos') c'))
  | Unsupported => None
  end.

(* re.match(r, s): anchored at the start, free at the end *)
Definition re_match (r : re) (s : str) : option caps := m r s O [] (fun _ _ c => Some c).
Definition re_matches (r : re) (s : str) : bool :=
  match re_match r s with Some _ => true | None => false end.

Definition substr (s : str) (span : nat * nat) : str :=
  firstn (snd span - fst span) (skipn (fst span) s).

Definition group (s : str) (c : caps) (n : nat) : option str :=
  match cap_get n c with Some sp => Some (substr s sp) | None => None end.

(* helper constructors used by the translator *)
Fixpoint cat_n (n : nat) (a : re) : re :=
  match n with O => Eps | S O => a | S n' => Cat a (cat_n n' a) end.
Definition plus (a : re) : re := Cat a (Star a).
Definition opt (a : re) : re := Alt a Eps.
Fixpoint cat_list (l : list re) : re :=
  match l with [] => Eps | [a] => a | a :: l' => Cat a (cat_list l') end.
Fixpoint alt_list (l : list re) : re :=
  match l with [] => Unsupported | [a] => a | a :: l' => Alt a (alt_list l') end.
Fixpoint lit_re (s : str) : re :=
  match s with [] => Eps | [x] => Cls (CS false [(x, x)]) | x :: s' => Cat (Cls (CS false [(x, x)])) (lit_re s') end.

Definition any_but_nl : cset := CS true [(10, 10)].
Definition digit_cs : cset := CS false [(48, 57)].

Fixpoint supported (r : re) : bool :=
  match r with
  | Unsupported => false
  | Cat a b | Alt a b => supported a && supported b
  | Star a | Grp _ a => supported a
  | _ => true
  end.
