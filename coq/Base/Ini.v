(* The operations of SortedConfigParser the library uses, on a section table, and the writer *)
From PM Require Export Base.Obj.

Definition ini := list (str * list (str * str)).     (* section -> option -> value, in insertion order *)

Definition has_section (t : ini) (s : str) : bool := match assoc s t with Some _ => true | None => false end.
Definition has_option (t : ini) (s o : str) : bool :=
  match assoc s t with Some opts => match assoc o opts with Some _ => true | None => false end | None => false end.

(* add_section: DuplicateSectionError is not a ValueError/TypeError: modelled as OtherError *)
Definition add_section (t : ini) (s : str) : result ini :=
  if has_section t s then Err OtherError else Ok (t ++ [(s, [])]).

(* set(section, option, value): the value must be a str *)
Definition ini_set (t : ini) (s o : str) (v : pyval) : result ini :=
  match v with
  | PStr x => match assoc s t with
              | Some opts => Ok (assoc_set s (assoc_set o x opts) t)
              | None => Err OtherError
              end
  | _ => Err TypeError
  end.

Definition ini_get (t : ini) (s o : str) : result str :=
  match assoc s t with
  | Some opts => of_option OtherError (assoc o opts)
  | None => Err OtherError
  end.

Definition sections (t : ini) : list str := map fst t.

Fixpoint insert_ss (kv : str * str) (l : list (str * str)) : list (str * str) :=
  match l with
  | [] => [kv]
  | x :: l' => if str_leb (fst kv) (fst x) then kv :: l else x :: insert_ss kv l'
  end.
Definition sort_opts (l : list (str * str)) : list (str * str) := fold_right insert_ss [] l.

Fixpoint insert_sec (kv : str * list (str * str)) (l : ini) : ini :=
  match l with
  | [] => [kv]
  | x :: l' => if str_leb (fst kv) (fst x) then kv :: l else x :: insert_sec kv l'
  end.
Definition sort_secs (t : ini) : ini := fold_right insert_sec [] t.

(* RawConfigParser.write with the default delimiter: sections and options sorted (SortedDict) *)
Definition print_ini (t : ini) : str :=
  flat_map (fun sec =>
              lit "[" ++ fst sec ++ lit "]" ++ [c_nl] ++
              flat_map (fun kv => fst kv ++ lit " = " ++
                                  flat_map (fun c => if N.eqb c c_nl then [c_nl; 9] else [c]) (snd kv) ++ [c_nl])
                       (sort_opts (snd sec)) ++ [c_nl])
           (sort_secs t).

(* configparser booleans *)
Definition ini_getboolean (s : str) : result bool :=
  let l := lower s in
  if mem_str l [lit "1"; lit "yes"; lit "true"; lit "on"] then Ok true
  else if mem_str l [lit "0"; lit "no"; lit "false"; lit "off"] then Ok false
  else Err ValueError.
