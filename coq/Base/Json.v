(* json.dump(obj, indent=4, sort_keys=True, separators=(",", ": ")) with the default ensure_ascii *)
From PM Require Export Base.Obj.

Definition hex_digit (n : N) : chr := if n <? 10 then 48 + n else 87 + n.   (* lower-case *)
Definition hex4 (n : N) : str :=
  [hex_digit ((n / 4096) mod 16); hex_digit ((n / 256) mod 16); hex_digit ((n / 16) mod 16); hex_digit (n mod 16)].
Definition u_escape (n : N) : str := 92 :: 117 :: hex4 n.

Definition json_char (c : chr) : str :=
  if N.eqb c 34 then [92; 34]
  else if N.eqb c 92 then [92; 92]
  else if N.eqb c 10 then [92; 110]
  else if N.eqb c 13 then [92; 114]
  else if N.eqb c 9 then [92; 116]
  else if N.eqb c 8 then [92; 98]
  else if N.eqb c 12 then [92; 102]
  else if c <? 32 then u_escape c
  else if c <? 127 then [c]
  else if N.eqb c 127 then [c]
  else if c <? 65536 then u_escape c
  else let v := c - 65536 in u_escape (55296 + v / 1024) ++ u_escape (56320 + v mod 1024).

Definition json_string (s : str) : str := 34 :: flat_map json_char s ++ [34].

Fixpoint spaces (n : nat) : str := match n with O => [] | S n' => 32 :: spaces n' end.
Definition indent (lvl : nat) : str := spaces (4 * lvl).

Fixpoint sort_kv (l : list (str * pyval)) : list (str * pyval) :=
  match l with [] => [] | (k, v) :: l' => insert_kv k v (sort_kv l') end.

Fixpoint print_json_at (lvl : nat) (v : pyval) : str :=
  match v with
  | PNone => lit "null"
  | PBool true => lit "true"
  | PBool false => lit "false"
  | PInt z => show_Z z
  | PFloat t => t
  | PStr s => json_string s
  | PList [] => lit "[]"
  | PList (x :: l) =>
      lit "[" ++ [c_nl] ++ indent (S lvl) ++ print_json_at (S lvl) x ++
      (fix go (l : list pyval) : str :=
         match l with
         | [] => []
         | y :: l' => lit "," ++ [c_nl] ++ indent (S lvl) ++ print_json_at (S lvl) y ++ go l'
         end) l ++ [c_nl] ++ indent lvl ++ lit "]"
  | PDict kv =>
      (* keys are printed in sorted order; the recursion goes through the unsorted list, then entries are sorted *)
      let entries := (fix go (kv : list (str * pyval)) : list (str * pyval) :=
                        match kv with
                        | [] => []
                        | (k, x) :: kv' => insert_kv k (PStr (json_string k ++ lit ": " ++ print_json_at (S lvl) x)) (go kv')
                        end) kv in
      match entries with
      | [] => lit "{}"
      | (_, e) :: es =>
          let txt v := match v with PStr s => s | _ => [] end in
          lit "{" ++ [c_nl] ++ indent (S lvl) ++ txt e ++
          flat_map (fun ke => lit "," ++ [c_nl] ++ indent (S lvl) ++ txt (snd ke)) es ++
          [c_nl] ++ indent lvl ++ lit "}"
      end
  end.

Definition print_json (v : pyval) : str := print_json_at O v.
