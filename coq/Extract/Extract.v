(* Extraction: ExtrOcamlBasic only (bool, option, unit, list, prod, sumbool, sumor
   mapped to OCaml's; andb/orb/fst/snd inlined).  N, Z, positive, nat stay the
   extracted inductives.  No Extract Constant of ours. *)
From Coq Require Extraction.
From Coq Require Import ExtrOcamlBasic.
From PM Require Import Model.EntryBase Model.EntryStr Model.EntryOps Model.EntryDocs.

Definition entries : list (str * (pyval -> pyval)) := entries_str ++ entries_ops ++ entries_images ++ entries_docs ++ entries_docs2 ++ entries_ci ++ entries_ti ++ entries_cs ++ entries_dir ++ entries_variants.

Extraction "../runner/model.ml" entries.
