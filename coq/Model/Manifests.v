(* rpms / modules / extra-files manifests: the add operations, dump_for_tree *)
From PM Require Export Base.PyVal Base.Regex.
From PM Require Import Model.Nvra Gen.Regexes Gen.Tables.

Definition s_src : str := Eval cbv in lit "src".
Definition s_nosrc : str := Eval cbv in lit "nosrc".
Definition s_source : str := Eval cbv in lit "source".
Definition is_src_arch (a : str) : bool := str_eqb a s_src || str_eqb a s_nosrc.

(* ---------------- rpms *)
Record rpm_entry := { e_sigkey : option str; e_path : str; e_category : str }.
Definition rpms_t := list (str * list (str * list (str * list (str * rpm_entry)))).

Definition rpms_add (m : rpms_t) (variant arch nevra path : str) (sigkey : option str) (category : str)
           (srpm : option str) : result rpms_t :=
  check guard (mem_str arch RPM_ARCHES) ValueError;
  check guard (negb (is_src_arch arch)) ValueError;
  check guard (mem_str category SUPPORTED_CATEGORIES) ValueError;
  check guard (negb (startswith path [c_slash])) ValueError;
  do np <- check_nevra nevra;
  let (nevra_c, nd) := np in
  check guard (negb (str_eqb category s_source && match srpm with Some _ => true | None => false end)) ValueError;
  check guard (negb (negb (str_eqb category s_source) && match srpm with Some _ => false | None => true end)) ValueError;
  check guard (Bool.eqb (str_eqb category s_source) (is_src_arch (n_arch nd))) ValueError;
  let sig := option_map lower sigkey in
  do srpm_c <- match srpm with
               | Some (x :: xs) => do sp <- check_nevra (x :: xs); Ok (fst sp)
               | _ => Ok nevra_c
               end;
  Ok (upd variant (fun o => upd arch (fun o => upd srpm_c (fun o =>
        upd nevra_c (fun _ => {| e_sigkey := sig; e_path := path; e_category := category |}) (dflt [] o))
        (dflt [] o)) (dflt [] o)) m).

Definition rpms_get (m : rpms_t) (v a s r : str) : option rpm_entry :=
  match assoc v m with
  | None => None
  | Some ma => match assoc a ma with
               | None => None
               | Some ms => match assoc s ms with
                            | None => None
                            | Some mr => assoc r mr
                            end
               end
  end.

(* ---------------- modules *)
Record mod_entry := {
  md_uid : str; md_name : str; md_stream : str; md_version : str; md_context : str; md_koji_tag : str;
  md_paths : list (str * str); md_rpms : list pyval }.
Definition modules_t := list (str * list (str * list (str * mod_entry))).

Definition parse_uid (uid : str) : result (str * str * str * str) :=
  match re_match re_module_uid uid with
  | None => Err ValueError
  | Some c =>
      let g n := match group uid c n with Some x => x | None => [] end in
      Ok (g re_module_uid_g_module_name, g re_module_uid_g_stream, g re_module_uid_g_version, g re_module_uid_g_context)
  end.

Definition check_uid (uid : str) : result (str * (str * str * str * str)) :=
  if memc c_colon uid then
    do d <- parse_uid uid;
    let '(name, stream, version, context) := d in
    let u := name ++ c_colon :: stream in
    let u := match version with [] => u | _ => u ++ c_colon :: version end in
    let u := match context with [] => u | _ => u ++ c_colon :: context end in
    Ok (u, d)
  else Err ValueError.

(* rpms: None models an argument that is not a list/tuple *)
Definition modules_add (m : modules_t) (variant arch uid koji_tag modulemd_path category : str)
           (rpms : option (list pyval)) : result modules_t :=
  check guard (match variant with [] => false | _ => true end) ValueError;
  check guard (mem_str arch MODULES_ARCHES) ValueError;
  check guard (mem_str category MODULES_CATEGORIES) ValueError;
  do ud <- check_uid uid;
  let '(uid_c, (name, stream, version, context)) := ud in
  check guard (negb (startswith modulemd_path [c_slash])) ValueError;
  check guard (match koji_tag with [] => false | _ => true end) ValueError;
  check guard (match modulemd_path with [] => false | _ => true end) ValueError;
  do rl <- of_option ValueError rpms;
  Ok (upd variant (fun o => upd arch (fun o => upd uid_c (fun o =>
        let old_paths := match o with Some e => md_paths e | None => [] end in
        let old_rpms := match o with Some e => md_rpms e | None => [] end in
        {| md_uid := uid_c; md_name := name; md_stream := stream; md_version := version; md_context := context;
           md_koji_tag := koji_tag; md_paths := assoc_set category modulemd_path old_paths;
           md_rpms := old_rpms ++ rl |}) (dflt [] o)) (dflt [] o)) m).

(* ---------------- extra files *)
Record extra_entry := { x_file : str; x_size : pyval; x_checksums : list (str * pyval) }.
Definition extra_t := list (str * list (str * list extra_entry)).

(* checksums: None models an argument that is not a dict *)
Definition extra_add (m : extra_t) (variant arch path : str) (size : pyval) (checksums : option (list (str * pyval)))
  : result extra_t :=
  check guard (match variant with [] => false | _ => true end) ValueError;
  check guard (mem_str arch EXTRA_ARCHES) ValueError;
  check guard (match path with [] => false | _ => true end) ValueError;
  check guard (negb (startswith path [c_slash])) ValueError;
  do cs <- of_option TypeError checksums;
  Ok (upd variant (fun o => upd arch (fun o => dflt [] o ++ [{| x_file := path; x_size := size; x_checksums := cs |}])
        (dflt [] o)) m).

Definition relative_to (path root : str) : str :=
  let root' := strip_right (fun c => N.eqb c c_slash) root ++ [c_slash] in
  if startswith path root' then skipn (length root') path else path.

Definition dump_for_tree (m : extra_t) (variant arch basepath : str) : result (list extra_entry) :=
  do ma <- of_option KeyError (assoc variant m);
  do l <- of_option KeyError (assoc arch ma);
  Ok (map (fun e => {| x_file := relative_to (x_file e) basepath; x_size := x_size e; x_checksums := x_checksums e |}) l).

(* ---------------- JSON payloads (stored verbatim by the writers) *)
Definition p_ostr (o : option str) : pyval := match o with Some s => PStr s | None => PNone end.

Definition rpm_entry_json (e : rpm_entry) : pyval :=
  PDict [(lit "sigkey", p_ostr (e_sigkey e)); (lit "path", PStr (e_path e)); (lit "category", PStr (e_category e))].

Definition map_vals {A} (f : A -> pyval) (l : list (str * A)) : pyval := PDict (map (fun kv => (fst kv, f (snd kv))) l).

Definition rpms_json (m : rpms_t) : pyval :=
  map_vals (map_vals (map_vals (map_vals rpm_entry_json))) m.

Definition mod_entry_json (e : mod_entry) : pyval :=
  PDict [(lit "metadata", PDict [(lit "uid", PStr (md_uid e)); (lit "name", PStr (md_name e)); (lit "stream", PStr (md_stream e));
                                 (lit "version", PStr (md_version e)); (lit "context", PStr (md_context e));
                                 (lit "koji_tag", PStr (md_koji_tag e))]);
         (lit "modulemd_path", map_vals PStr (md_paths e));
         (lit "rpms", PList (md_rpms e))].

Definition modules_json (m : modules_t) : pyval := map_vals (map_vals (map_vals mod_entry_json)) m.

Definition extra_entry_json (e : extra_entry) : pyval :=
  PDict [(lit "file", PStr (x_file e)); (lit "size", x_size e); (lit "checksums", PDict (x_checksums e))].

Definition extra_json (m : extra_t) : pyval := map_vals (map_vals (fun l => PList (map extra_entry_json l))) m.
