(* productmd.images: Image, Images.add / serialize / deserialize, identify_image *)
From PM Require Export Model.Common.
From PM Require Import Gen.Tables Model.Manifests.

Definition image_cls : str := Eval cbv in F"images.Image".

Definition IMAGE_FIELDS : list str :=
  [F"path"; F"mtime"; F"size"; F"volume_id"; F"type"; F"format"; F"arch"; F"disc_number"; F"disc_count";
   F"checksums"; F"implant_md5"; F"bootable"; F"subvariant"; F"unified"; F"additional_variants"].

(* an Image object: identity (hash by id) + attribute values *)
Definition image := (nat * obj)%type.

(* variant -> arch -> set of images (a set of objects: the same object is stored once) *)
Definition cells_t := list (str * list (str * list image)).

Record images_st := { im_version : pyval; im_compose : obj; im_cells : cells_t }.

(* ---- identity *)
Definition identify_attr (get : str -> pyval) (a : str) : pyval :=
  let v := get a in
  if str_eqb a (F"unified") then (if truthy v then v else PBool false)
  else if str_eqb a (F"additional_variants") then (if truthy v then v else PList [])
  else v.

(* from an Image object *)
Definition identify_obj (o : obj) : list pyval := map (identify_attr (getf o)) UNIQUE_IMAGE_ATTRIBUTES.
(* from a plain (serialised) dict: missing keys read as None *)
Definition identify_dict (d : list (str * pyval)) : list pyval :=
  map (identify_attr (fun a => dflt PNone (assoc a d))) UNIQUE_IMAGE_ATTRIBUTES.

Definition same_identity (a b : obj) : bool := py_eq (PList (identify_obj a)) (PList (identify_obj b)).
Definition same_checksums (a b : obj) : bool := py_eq (getf a (F"checksums")) (getf b (F"checksums")).

Definition all_images (c : cells_t) : list image := flat_map (fun va => flat_map snd (snd va)) c.

Definition collides (c : cells_t) (img : obj) : bool :=
  existsb (fun cur => same_identity (snd cur) img && negb (same_checksums (snd cur) img)) (all_images c).

Fixpoint set_add (img : image) (l : list image) : list image :=
  match l with
  | [] => [img]
  | x :: l' => if Nat.eqb (fst x) (fst img) then l else x :: set_add img l'
  end.

(* Images.add, given the header's version tuple *)
Definition images_add (vt : N * N) (c : cells_t) (variant arch : str) (img : image) : result cells_t :=
  check guard (mem_str arch RPM_ARCHES) ValueError;
  check guard (negb (is_src_arch arch)) ValueError;
  check guard (negb (vt_leb (1, 1) vt && collides c (snd img))) ValueError;
  Ok (upd variant (fun o => upd arch (fun o => set_add img (dflt [] o)) (dflt [] o)) c).

(* ---- Image.serialize / deserialize *)
Definition ser_image (o : obj) : result pyval :=
  check validate image_cls o;
  let base := map (fun f => (f, getf o f))
                  [F"path"; F"mtime"; F"size"; F"volume_id"; F"type"; F"format"; F"arch"; F"disc_number"; F"disc_count";
                   F"checksums"; F"implant_md5"; F"bootable"; F"subvariant"] in
  Ok (PDict (if truthy (getf o (F"unified"))
             then base ++ [(F"unified", getf o (F"unified")); (F"additional_variants", getf o (F"additional_variants"))]
             else base)).

Definition deser_image (vt : N * N) (d : pyval) : result obj :=
  do path <- dget d (F"path");
  do mtime0 <- dget d (F"mtime"); do mtime <- py_int mtime0;
  do size0 <- dget d (F"size"); do size <- py_int size0;
  do volume_id <- dget d (F"volume_id");
  do ty <- dget d (F"type");
  do format <- dget_default d (F"format") (PStr (F"iso"));
  do arch <- dget d (F"arch");
  do dn0 <- dget d (F"disc_number"); do dn <- py_int dn0;
  do dc0 <- dget d (F"disc_count"); do dc <- py_int dc0;
  do checksums <- dget d (F"checksums");
  do implant <- dget d (F"implant_md5");
  do bootable <- dget d (F"bootable");
  do subvariant <- (if vt_leb vt (1, 0) then dget_default d (F"subvariant") (PStr []) else dget d (F"subvariant"));
  do unified <- dget_default d (F"unified") (PBool false);
  do addl <- dget_default d (F"additional_variants") (PList []);
  let o := [(F"path", path); (F"mtime", mtime); (F"size", size); (F"volume_id", volume_id); (F"type", ty);
            (F"format", format); (F"arch", arch); (F"disc_number", dn); (F"disc_count", dc); (F"checksums", checksums);
            (F"implant_md5", implant); (F"bootable", py_bool bootable); (F"subvariant", subvariant);
            (F"unified", unified); (F"additional_variants", addl)] in
  check validate image_cls o;
  Ok o.

(* ---- Images.serialize *)
Fixpoint insert_by_path (d : pyval) (l : list pyval) : list pyval :=
  let key x := match x with PDict kv => match assoc (F"path") kv with Some (PStr s) => s | _ => [] end | _ => [] end in
  match l with
  | [] => [d]
  | x :: l' => if str_ltb (key d) (key x) then d :: l else x :: insert_by_path d l'
  end.
(* stable: appending then list.sort(key=path) keeps equal-path items in append order *)

Definition ser_cell (imgs : list image) : result (list pyval) :=
  fold_left (fun acc img => do l <- acc; do d <- ser_image (snd img); Ok (insert_by_path d l)) imgs (Ok []).

Fixpoint ser_arches (l : list (str * list image)) : result (list (str * pyval)) :=
  match l with
  | [] => Ok []
  | (a, imgs) :: l' => do c <- ser_cell imgs; do r <- ser_arches l';
                       Ok (match imgs with [] => r | _ => (a, PList c) :: r end)
  end.

Fixpoint ser_variants (l : cells_t) : result (list (str * pyval)) :=
  match l with
  | [] => Ok []
  | (v, arches) :: l' => do a <- ser_arches arches; do r <- ser_variants l';
                         Ok (match a with [] => r | _ => (v, PDict a) :: r end)
  end.

Definition images_mtype : str := HEADER_TYPE_images.

Definition ser_images (st : images_st) : result pyval :=
  do h <- ser_header images_mtype;
  do c <- ser_compose (im_compose st);
  do imgs <- ser_variants (im_cells st);
  Ok (PDict [(F"header", h); (F"payload", PDict [(F"images", PDict imgs); (F"compose", c)])]).

(* dump(): top-level validate() (Images has no validators of its own) then serialize *)
Definition dump_images (st : images_st) : result pyval :=
  check validate (F"images.Images") [];
  ser_images st.

(* ---- Images.deserialize: every loaded image goes through add; fresh object ids from [next] *)
Definition add_loaded (vt : N * N) (doc_arches : list str) (c : cells_t) (variant arch : str) (img : image) : result cells_t :=
  if vt_leb vt (1, 1) then
    if str_eqb arch s_src then
      fold_left (fun acc a => do c' <- acc;
                   if str_eqb a s_src then Ok c' else images_add vt c' variant a img) doc_arches (Ok c)
    else images_add vt c variant arch img
  else images_add vt c variant arch img.

Definition deser_images (doc : pyval) : result images_st :=
  do hv <- deser_header images_mtype doc;
  let vt := snd hv in
  do payload <- dget doc (F"payload");
  do compose <- deser_compose vt payload;
  do imgs <- dget payload (F"images");
  match imgs with
  | PDict variants =>
      do cells <-
        fold_left (fun acc va =>
          do st <- acc;
          match snd va with
          | PDict arches =>
              fold_left (fun acc2 ai =>
                do st2 <- acc2;
                match snd ai with
                | PList il =>
                    fold_left (fun acc3 d =>
                      do st3 <- acc3;
                      let '(next, c) := st3 in
                      do o <- deser_image vt d;
                      do c' <- add_loaded vt (map fst arches) c (fst va) (fst ai) (next, o);
                      Ok (S next, c')) il (Ok st2)
                | PDict kv => match kv with [] => Ok st2 | _ => Err TypeError end   (* iterating a dict yields keys: strings are not images *)
                | PStr s => match s with [] => Ok st2 | _ => Err TypeError end
                | _ => Err TypeError
                end) arches (Ok st)
          | PList l => match l with [] => Ok st | _ => Err TypeError end
          | PStr s => match s with [] => Ok st | _ => Err TypeError end
          | _ => Err TypeError
          end) variants (Ok (O, []));
      Ok {| im_version := current_version; im_compose := compose; im_cells := snd cells |}
  | PList l => match l with
               | [] => Ok {| im_version := current_version; im_compose := compose; im_cells := [] |}
               | _ => Err TypeError
               end
  | PStr s => match s with
              | [] => Ok {| im_version := current_version; im_compose := compose; im_cells := [] |}
              | _ => Err TypeError
              end
  | _ => Err TypeError
  end.

(* loads(): load, then top-level validate() *)
Definition load_images (doc : pyval) : result images_st :=
  do st <- deser_images doc;
  check validate (F"images.Images") [];
  Ok st.
