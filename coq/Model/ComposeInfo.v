(* productmd.composeinfo: documents (serialize / deserialize of release, base product, variant tree with paths) *)
From PM Require Export Model.Common Model.Variants.
From PM Require Import Gen.Tables Model.ComposeId.

Definition release_cls : str := Eval cbv in F"composeinfo.Release".
Definition bp_cls : str := Eval cbv in F"composeinfo.BaseProduct".

(* a variant with its subtree: attributes (id uid name type arches), per-category path tables, the release of a
   layered-product variant, children keyed as in the parent's mapping *)
Inductive vtree := VT (fields : obj) (paths : list (str * list (str * pyval))) (release : obj) (children : list (str * vtree)).

Definition vt_fields (t : vtree) : obj := match t with VT f _ _ _ => f end.
Definition vt_paths (t : vtree) := match t with VT _ p _ _ => p end.
Definition vt_release (t : vtree) : obj := match t with VT _ _ r _ => r end.
Definition vt_children (t : vtree) := match t with VT _ _ _ c => c end.

Record ci := { ci_compose : obj; ci_release : obj; ci_base_product : obj; ci_variants : list (str * vtree) }.

(* ---- release / base product *)
Definition ser_release (cls section : str) (r : obj) : result (str * pyval) :=
  check validate cls r;
  let base := [(F"name", getf r (F"name")); (F"version", getf r (F"version")); (F"short", getf r (F"short")); (F"type", getf r (F"type"))] in
  Ok (section, PDict (if str_eqb cls release_cls
                      then (if truthy (getf r (F"is_layered")) then base ++ [(F"is_layered", py_bool (getf r (F"is_layered")))] else base)
                           ++ [(F"internal", py_bool (getf r (F"internal")))]
                      else base)).

Definition py_lower (v : pyval) : result pyval := match v with PStr s => Ok (PStr (lower s)) | _ => Err AttributeError end.

Definition deser_release (vt : N * N) (data : pyval) : result obj :=
  let old := vt_leb vt (0, 3) in
  do sec <- dget data (if old then F"product" else F"release");
  do name <- dget sec (F"name");
  do version <- dget sec (F"version");
  do short <- dget sec (F"short");
  do ty0 <- dget_default sec (F"type") (PStr (F"ga"));
  do ty <- py_lower ty0;
  do lay <- dget_default sec (F"is_layered") (PBool false);
  do internal <- (if old then Ok (PBool false) else do i <- dget_default sec (F"internal") (PBool false); Ok (py_bool i));
  let r := [(F"name", name); (F"version", version); (F"short", short); (F"type", ty);
            (F"is_layered", py_bool lay); (F"internal", internal)] in
  check validate release_cls r;
  Ok r.

Definition deser_base_product (data : pyval) : result obj :=
  do sec <- dget data (F"base_product");
  do name <- dget sec (F"name");
  do version <- dget sec (F"version");
  do short <- dget sec (F"short");
  do ty <- dget_default sec (F"type") (PStr (F"ga"));
  let r := [(F"name", name); (F"version", version); (F"short", short); (F"type", ty)] in
  check validate bp_cls r;
  Ok r.

Definition fresh_release : obj :=
  [(F"name", PNone); (F"version", PNone); (F"short", PNone); (F"type", PNone); (F"is_layered", PBool true); (F"internal", PBool false)].
Definition fresh_base_product : obj := [(F"name", PNone); (F"version", PNone); (F"short", PNone); (F"type", PNone)].

(* ---- variants *)
Definition arches_of (f : obj) : list pyval := match getf f (F"arches") with PList l => l | _ => [] end.

Fixpoint insert_pv (x : pyval) (l : list pyval) : list pyval :=
  let key v := match v with PStr s => s | _ => [] end in
  match l with
  | [] => [x]
  | y :: l' => if str_eqb (key x) (key y) then l else if str_ltb (key x) (key y) then x :: l else y :: insert_pv x l'
  end.
(* sorted(set(...)) of strings *)
Definition sort_set (l : list pyval) : list pyval := fold_right insert_pv [] l.

Fixpoint insert_pv_dup (x : pyval) (l : list pyval) : list pyval :=
  let key v := match v with PStr s => s | _ => [] end in
  match l with
  | [] => [x]
  | y :: l' => if str_leb (key x) (key y) then x :: l else y :: insert_pv_dup x l'
  end.
(* sorted(list) of strings, duplicates kept *)
Definition sort_list (l : list pyval) : list pyval := fold_right insert_pv_dup [] l.

(* VariantPaths.serialize: for arch in sorted(arches): for each category: a truthy path is written *)
Definition ser_paths (arches : list pyval) (paths : list (str * list (str * pyval))) : pyval :=
  PDict (fold_left (fun acc a =>
           match a with
           | PStr arch =>
               fold_left (fun acc2 name =>
                  match assoc arch (dflt [] (assoc name paths)) with
                  | Some v => if truthy v
                              then upd name (fun o => PDict (assoc_set arch v (match o with Some (PDict d) => d | _ => [] end))) acc2
                              else acc2
                  | None => acc2
                  end) CI_PATH_FIELDS acc
           | _ => acc
           end) (sort_set arches) []).

Definition child_ctx_entry (top : bool) (kv : str * vtree) : pyval :=
  let f := vt_fields (snd kv) in
  PList [PStr (fst kv); getf f (F"id"); getf f (F"uid"); PBool top; getf f (F"type")].

Fixpoint insert_key {A} (kv : str * A) (l : list (str * A)) : list (str * A) :=
  match l with
  | [] => [kv]
  | x :: l' => if str_leb (fst kv) (fst x) then kv :: l else x :: insert_key kv l'
  end.
Definition sort_keys {A} (l : list (str * A)) : list (str * A) := fold_right insert_key [] l.

Definition tree_ctx (parent : option (pyval * pyval)) (t : vtree) : obj :=
  vt_fields t ++
  [(F"_has_parent", PBool (match parent with Some _ => true | None => false end));
   (F"_parent_uid", match parent with Some p => fst p | None => PNone end);
   (F"_parent_arches", match parent with Some p => snd p | None => PNone end);
   (F"_children", PList (map (child_ctx_entry false) (sort_keys (vt_children t))))].

Definition validate_tree_node (parent : option (pyval * pyval)) (t : vtree) : result unit :=
  validate_with customs_ci (F"composeinfo.Variant") (tree_ctx parent t).

(* Variant.serialize into the flat uid-keyed mapping [data] *)
Fixpoint ser_variant (parent : option (pyval * pyval)) (t : vtree) (data : list (str * pyval)) : result (list (str * pyval)) :=
  match t with
  | VT f paths rel children =>
      let base := [(F"id", getf f (F"id")); (F"uid", getf f (F"uid")); (F"name", getf f (F"name")); (F"type", getf f (F"type"));
                   (F"arches", PList (sort_set (arches_of f)))] in
      do base1 <- (if py_eq (getf f (F"type")) (PStr (F"layered-product"))
                   then do r <- ser_release release_cls (F"release") (setf rel (F"is_layered") (PBool true)); Ok (base ++ [r])
                   else Ok base);
      let base2 := base1 ++ [(F"paths", ser_paths (arches_of f) paths)] in
      let me := Some (getf f (F"uid"), getf f (F"arches")) in
      do data1 <- (fix go (cs : list (str * vtree)) (d : list (str * pyval)) : result (list (str * pyval)) :=
                     match cs with
                     | [] => Ok d
                     | (_, c) :: cs' => do d' <- ser_variant me c d; go cs' d'
                     end) children data;
      let ids := sort_set (map (fun kv => getf (vt_fields (snd kv)) (F"id")) children) in
      let dump := match children with [] => base2 | _ => base2 ++ [(F"variants", PList ids)] end in
      do uid <- match getf f (F"uid") with PStr s => Ok s | _ => Err TypeError end;
      do data2 <- match assoc uid data1 with
                  | Some existing => if py_eq existing (PDict dump) then Ok data1 else Err ValueError
                  | None => Ok (data1 ++ [(uid, PDict dump)])
                  end;
      check validate_tree_node parent t;
      Ok data2
  end.

Definition validate_container (vs : list (str * vtree)) : result unit :=
  validate_with customs_ci (F"composeinfo.Variants") [(F"_children", PList (map (child_ctx_entry true) (sort_keys vs)))].

Definition ser_variants (vs : list (str * vtree)) : result pyval :=
  check validate_container vs;
  do d <- fold_left (fun acc kv => do d <- acc; ser_variant None (snd kv) d) (sort_keys vs) (Ok []);
  Ok (PDict d).

Definition ci_mtype : str := HEADER_TYPE_composeinfo.

Definition ser_ci (x : ci) : result pyval :=
  do h <- ser_header ci_mtype;
  do c <- ser_compose (ci_compose x);
  do r <- ser_release release_cls (F"release") (ci_release x);
  do bp <- (if truthy (getf (ci_release x) (F"is_layered"))
            then do b <- ser_release bp_cls (F"base_product") (ci_base_product x); Ok [b] else Ok []);
  do v <- ser_variants (ci_variants x);
  Ok (PDict [(F"header", h); (F"payload", PDict ([(F"compose", c); r] ++ bp ++ [(F"variants", v)]))]).

Definition dump_ci (x : ci) : result pyval :=
  check validate (F"composeinfo.ComposeInfo") [];
  ser_ci x.

(* ---- reading *)
Definition deser_paths (arches : list pyval) (p : pyval) : result (list (str * list (str * pyval))) :=
  fold_left (fun acc a =>
    do t <- acc;
    match a with
    | PStr arch =>
        fold_left (fun acc2 name =>
          do t2 <- acc2;
          do tab <- dget_default p name (PDict []);
          do v <- dget_default tab arch PNone;
          Ok (if truthy v then upd name (fun o => assoc_set arch v (dflt [] o)) t2 else t2)) CI_PATH_FIELDS (Ok t)
    | _ => Err TypeError
    end) (sort_set arches) (Ok []).

Definition py_list (v : pyval) : result (list pyval) :=
  match v with
  | PList l => Ok l
  | PDict kv => Ok (map (fun p => PStr (fst p)) kv)
  | PStr s => Ok (map (fun c => PStr [c]) s)
  | _ => Err TypeError
  end.

(* Variant.deserialize(data, variant_uid) followed by the parent's add(); [all] is the flat mapping *)
Fixpoint deser_variant (fuel : nat) (vt : N * N) (all : list (str * pyval)) (parent : option (pyval * pyval)) (key : str)
  : result vtree :=
  match fuel with
  | O => Err OtherError
  | S fuel' =>
      do d <- of_option KeyError (assoc key all);
      do id <- dget d (F"id"); do uid <- dget d (F"uid"); do name <- dget d (F"name"); do ty <- dget d (F"type");
      do arches0 <- dget d (F"arches"); do arches <- py_list arches0;
      let f := [(F"id", id); (F"uid", uid); (F"name", name); (F"type", ty); (F"arches", PList (sort_set arches))] in
      do rel <- (if py_eq ty (PStr (F"layered-product")) then deser_release vt d else Ok fresh_release);
      do p <- dget d (F"paths");
      do paths <- deser_paths arches p;
      do child_keys <-
        match d with
        | PDict kv =>
            match assoc (F"variants") kv with
            | Some vs => do l <- py_list vs;
                         Ok (map (fun i => fmt_s uid ++ c_dash :: fmt_s i) (sort_list l))
            | None => if vt_ltb vt (1, 0)
                      then Ok (filter (fun k => startswith k (key ++ [c_dash])) (map fst all))
                      else Ok []
            end
        | _ => Err TypeError
        end;
      let me := Some (uid, PList (sort_set arches)) in
      do children <-
        fold_left (fun acc ck =>
          do cs <- acc;
          do c <- deser_variant fuel' vt all me ck;
          (* self.add(variant): validate the child under this parent, key by id, refuse a duplicate *)
          check validate_tree_node me c;
          do ckey <- match getf (vt_fields c) (F"id") with PStr s => Ok s | _ => Err TypeError end;
          match assoc ckey cs with
          | Some _ => Err ValueError
          | None => Ok (cs ++ [(ckey, c)])
          end) child_keys (Ok []);
      let t := VT f paths rel children in
      check validate_tree_node parent t;
      Ok t
  end.

Definition deser_variants (vt : N * N) (payload : pyval) : result (list (str * vtree)) :=
  do sec <- dget payload (F"variants");
  match sec with
  | PDict all =>
      do child_uids <-
        fold_left (fun acc kv =>
          do s <- acc;
          do vs <- dget_default (snd kv) (F"variants") (PList []);
          do l <- py_list vs;
          do u <- dget (snd kv) (F"uid");
          Ok (s ++ map (fun i => fmt_s u ++ c_dash :: fmt_s i) l)) all (Ok []);
      let tops := filter (fun k =>
                    if vt_ltb vt (1, 0)
                    then match split_last c_dash k with
                         | Some (head, _) => negb (mem_str head (map fst all))
                         | None => true
                         end
                    else negb (mem_str k child_uids)) (map fst all) in
      fold_left (fun acc k =>
        do vs <- acc;
        do t <- deser_variant (S (length all)) vt all None k;
        check validate_tree_node None t;
        do key <- match getf (vt_fields t) (F"id") with PStr s => Ok s | _ => Err TypeError end;
        match assoc key vs with
        | Some _ => Err ValueError
        | None => Ok (vs ++ [(key, t)])
        end) (map fst (sort_keys (map (fun k => (k, tt)) tops))) (Ok [])
  | _ => Err AttributeError
  end.

Definition deser_ci (doc : pyval) : result ci :=
  do hv <- deser_header ci_mtype doc;
  let vt := snd hv in
  do payload <- dget doc (F"payload");
  do c <- deser_compose vt payload;
  do r <- deser_release vt payload;
  do bp <- (if truthy (getf r (F"is_layered")) then deser_base_product payload else Ok fresh_base_product);
  do vs <- deser_variants vt payload;
  Ok {| ci_compose := c; ci_release := r; ci_base_product := bp; ci_variants := vs |}.

Definition load_ci (doc : pyval) : result ci :=
  do x <- deser_ci doc;
  check validate (F"composeinfo.ComposeInfo") [];
  Ok x.
