(* productmd.treeinfo, pre-productmd trees ([general] only): Release.deserialize_0_0 - the family/version heuristics *)
From PM Require Export Base.PyVal Base.Regex.
From PM Require Import Gen.Regexes.

Fixpoint split_by_acc (p : chr -> bool) (acc : str) (s : str) : list str :=
  match s with
  | [] => [rev acc]
  | c :: s' => if p c then rev acc :: split_by_acc p [] s' else split_by_acc p (c :: acc) s'
  end.

(* re.split(r"[-_]", s): the regenerated one-character pattern decides where to cut *)
Definition split_ti00 (s : str) : list str := split_by_acc (fun c => re_matches re_ti00_split [c]) [] s.

(* the last dash/underscore-separated piece that looks like a dotted number wins; otherwise the text stays *)
Definition release_00_version (v : str) : str :=
  fold_left (fun acc i => if re_matches re_ti00_part i then i else acc) (split_ti00 v) v.

Definition release_00 (family version : str) : str * str * str :=
  let v := release_00_version version in
  if startswith family (lit "Red Hat Enterprise Linux") then (lit "Red Hat Enterprise Linux", lit "RHEL", v)
  else if str_eqb family (lit "Subscription Asset Manager") then (family, lit "SAM", v)
  else if str_eqb family (lit "Red Hat Storage") then (family, lit "RHS", v)
  else if str_eqb family (lit "JBEAP") then (family, lit "JBEAP", v)
  else if str_eqb family (lit "Red Hat Storage Software Appliance") then (family, lit "SSA", v)
  else if startswith family (lit "Fedora") then (lit "Fedora", lit "Fedora", v)
  else if startswith family (lit "CentOS") then (lit "CentOS", lit "CentOS", v)
  else if startswith family (lit "EulerOS") then (lit "EulerOS", lit "EulerOS", v)
  else (family, [], v).

(* ---- VariantPaths.deserialize_0_0 for a tree described by [general] alone: the repository / packages heuristics *)
Definition rstrip_slash (s : str) : str := strip_right (fun c => N.eqb c c_slash) s.
Definition or_dot (s : str) : str := match s with [] => lit "." | _ => s end.
Definition major_of (version : str) : str := hd [] (split c_dot version).

Definition paths_00 (short version vid arch : str) (repo_opt pkgs_opt : option str)
  : option str * option str * option str * option str :=        (* packages, repository, source_packages, source_repository *)
  let major := major_of version in
  let rhel := str_eqb short (lit "RHEL") in
  let repo0 := or_dot (rstrip_slash (match repo_opt with Some r => r | None => lit "." end)) in
  let repo1 := if endswith repo0 (lit "/repodata") then drop_last 9 repo0 else repo0 in
  let repo : option str :=
    if str_eqb repo1 (lit ".") then
      if rhel && (str_eqb major (lit "3") || str_eqb major (lit "4")) then None
      else if rhel && (str_eqb major (lit "5") || str_eqb major (lit "6")) then Some vid
      else Some repo1
    else Some repo1 in
  let pk0 := match pkgs_opt with Some p => p | None => match repo with Some r => r | None => [] end end in
  let pk1 := or_dot (rstrip_slash pk0) in
  let pk := if rhel && str_eqb major (lit "5") then vid
            else if rhel && (str_eqb major (lit "3") || str_eqb major (lit "4")) then lit "RedHat/RPMS"
            else if str_eqb short (lit "Fedora") && str_eqb pk1 (lit ".") then lit "Packages"
            else pk1 in
  if str_eqb arch (lit "src") then (None, None, Some pk, repo) else (Some pk, repo, None, None).
