(* productmd.treeinfo, pre-productmd trees ([general] only): Release.deserialize_0_0 - the family/version heuristics *)
From PM Require Export Base.PyVal Base.Regex.
From PM Require Import Gen.Regexes.

Fixpoint split_by_acc (p : chr -> bool) (acc : str) (s : str) : list str :=
  match s with
  | [] => [rev acc]
  | c :: s' => if p c then rev acc :: split_by_acc p [] s' else split_by_acc p (c :: acc) s'
  end.

(* re.split(r"[-_]", s): the regenerated one-character pattern decides where to cut *)
Definition split_ti00 (s : str) : list str := split_by_acc (fun c => re_matches re_ti00_split [c]) [] s.

(* the last dash/underscore-separated piece that looks like a dotted number wins; otherwise the text stays *)
Definition release_00_version (v : str) : str :=
  fold_left (fun acc i => if re_matches re_ti00_part i then i else acc) (split_ti00 v) v.

Definition release_00 (family version : str) : str * str * str :=
  let v := release_00_version version in
  if startswith family (lit "Red Hat Enterprise Linux") then (lit "Red Hat Enterprise Linux", lit "RHEL", v)
  else if str_eqb family (lit "Subscription Asset Manager") then (family, lit "SAM", v)
  else if str_eqb family (lit "Red Hat Storage") then (family, lit "RHS", v)
  else if str_eqb family (lit "JBEAP") then (family, lit "JBEAP", v)
  else if str_eqb family (lit "Red Hat Storage Software Appliance") then (family, lit "SSA", v)
  else if startswith family (lit "Fedora") then (lit "Fedora", lit "Fedora", v)
  else if startswith family (lit "CentOS") then (lit "CentOS", lit "CentOS", v)
  else if startswith family (lit "EulerOS") then (lit "EulerOS", lit "EulerOS", v)
  else (family, [], v).
