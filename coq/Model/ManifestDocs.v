(* rpms / modules / extra-files documents: serialize, deserialize (incl. rpms 0.3) *)
From PM Require Export Model.Common Model.Manifests.
From PM Require Import Gen.Tables.

Definition wrap_doc (mtype : str) (section : str) (compose : obj) (payload : pyval) : result pyval :=
  do h <- ser_header mtype;
  do c <- ser_compose compose;
  Ok (PDict [(F"header", h); (F"payload", PDict [(F"compose", c); (section, payload)])]).

(* Rpms.dump: validate() (no validators), header, compose, payload stored verbatim *)
Definition dump_rpms (compose : obj) (payload : pyval) : result pyval :=
  check validate (F"rpms.Rpms") [];
  wrap_doc HEADER_TYPE_rpms (F"rpms") compose payload.
Definition dump_modules (compose : obj) (payload : pyval) : result pyval :=
  check validate (F"modules.Modules") [];
  wrap_doc HEADER_TYPE_modules (F"modules") compose payload.
Definition dump_extra (compose : obj) (payload : pyval) : result pyval :=
  check validate (F"extra_files.ExtraFiles") [];
  wrap_doc HEADER_TYPE_extra_files (F"extra_files") compose payload.

Definition items (d : pyval) : result (list (str * pyval)) :=
  match d with PDict kv => Ok kv | _ => Err AttributeError end.

(* iteration `for k in d` over a parsed JSON value *)
Definition iter_keys (d : pyval) : result (list str) :=
  match d with
  | PDict kv => Ok (map fst kv)
  | PList [] | PStr [] => Ok []
  | PList _ | PStr _ => Err OtherError     (* iterating a non-mapping: outside the modelled documents *)
  | _ => Err TypeError
  end.

Definition get_str_r (v : pyval) : result str := match v with PStr s => Ok s | _ => Err AttributeError end.
Definition get_ostr_r (v : pyval) : result (option str) :=
  match v with PStr s => Ok (Some s) | PNone => Ok None | _ => Err AttributeError end.

(* Rpms.deserialize_0_3: 'manifest' payload, source packages looked up in the variant's 'src' table *)
Definition deser_rpms_0_3 (manifest : pyval) : result rpms_t :=
  do variants <- items manifest;
  fold_left (fun acc va =>
    do m <- acc;
    do arches <- items (snd va);
    fold_left (fun acc2 aa =>
      do m2 <- acc2;
      if str_eqb (fst aa) s_src then Ok m2 else
      do srpms <- items (snd aa);
      fold_left (fun acc3 sr =>
        do m3 <- acc3;
        do srctab <- dget_default (snd va) s_src (PDict []);
        do srpm_data <- dget_default srctab (fst sr) PNone;
        do rpms <- items (snd sr);
        fold_left (fun acc4 rp =>
          do m4 <- acc4;
          do ty <- dget (snd rp) (F"type");
          let cat := if py_eq ty (PStr (F"package")) then PStr (F"binary") else ty in
          do cat_s <- match cat with PStr s => Ok s | _ => Err ValueError end;
          do path0 <- dget (snd rp) (F"path"); do path <- get_str_r path0;
          do sig0 <- dget (snd rp) (F"sigkey"); do sig <- get_ostr_r sig0;
          do m5 <- rpms_add m4 (fst va) (fst aa) (fst rp) path sig cat_s (Some (fst sr));
          match srpm_data with
          | PNone => Ok m5
          | sd =>
              do spath0 <- dget sd (F"path"); do spath <- get_str_r spath0;
              do ssig0 <- dget sd (F"sigkey"); do ssig <- get_ostr_r ssig0;
              rpms_add m5 (fst va) (fst aa) (fst sr) spath ssig s_source None
          end) rpms (Ok m3)) srpms (Ok m2)) arches (Ok m)) variants (Ok []).

(* returns compose and payload (the mapping as the caller sees it) *)
Definition load_rpms (doc : pyval) : result (obj * pyval) :=
  do hv <- deser_header HEADER_TYPE_rpms doc;
  let vt := snd hv in
  do payload <- dget doc (F"payload");
  do r <- (if vt_leb vt (0, 3) then
             do c <- deser_compose vt payload;
             do man <- dget payload (F"manifest");
             do m <- deser_rpms_0_3 man;
             Ok (c, rpms_json m)
           else
             do c <- deser_compose vt payload;
             do p <- dget payload (F"rpms");
             Ok (c, p));
  check validate (F"rpms.Rpms") [];
  Ok r.

Definition load_plain (mtype section cls : str) (doc : pyval) : result (obj * pyval) :=
  do hv <- deser_header mtype doc;
  do payload <- dget doc (F"payload");
  do c <- deser_compose (snd hv) payload;
  do p <- dget payload section;
  check validate cls [];
  Ok (c, p).

Definition load_modules := load_plain HEADER_TYPE_modules (F"modules") (F"modules.Modules").
Definition load_extra := load_plain HEADER_TYPE_extra_files (F"extra_files") (F"extra_files.ExtraFiles").
