(* treeinfo.compute_checksum (chunked digest), Checksums.add (normpath, absolute-path refusal), Image.add_checksum *)
From PM Require Export Model.Common.

(* ---- a hash object: init / update / digest, with the streaming law of hashlib objects as hypothesis *)
Section Digest.
  Variable state : Type.
  Variable init : state.
  Variable update : state -> str -> state.
  Hypothesis update_app : forall h a b, update (update h a) b = update h (a ++ b).
  Hypothesis update_nil : forall h, update h [] = h.

  (* the loop: read chunks until an empty one *)
  Definition feed (chunks : list str) : state := fold_left update chunks init.

  Lemma feed_from h chunks : fold_left update chunks h = update h (concat chunks).
  Proof.
    revert h; induction chunks as [|c cs IH]; intros h; cbn [fold_left concat]; [symmetry; apply update_nil|].
    rewrite IH, update_app. reflexivity.
  Qed.

  Theorem digest_chunking chunks : feed chunks = update init (concat chunks).
  Proof. apply feed_from. Qed.
End Digest.

(* fo.read(n) in a loop *)
Fixpoint chunks_of (fuel n : nat) (s : str) : list str :=
  match fuel with
  | O => []
  | S f => match s with
           | [] => []
           | _ => firstn n s :: chunks_of f n (skipn n s)
           end
  end.

Lemma chunks_concat n : n <> O -> forall fuel (s : str), (length s <= fuel)%nat -> concat (chunks_of fuel n s) = s.
Proof.
  intros Hn. induction fuel as [|f IH]; intros s Hl.
  - destruct s; [reflexivity|cbn in Hl; lia].
  - destruct s as [|x s]; [reflexivity|]. cbn [chunks_of concat].
    rewrite IH; [apply firstn_skipn|]. rewrite skipn_length. cbn [length] in *. destruct n; [congruence|lia].
Qed.

(* ---- os.path.normpath on relative POSIX paths *)
Definition dotdot : str := [c_dot; c_dot].

Fixpoint norm_comps (stack : list str) (comps : list str) : list str :=    (* stack is reversed *)
  match comps with
  | [] => rev stack
  | c :: cs =>
      if str_eqb c [] || str_eqb c [c_dot] then norm_comps stack cs
      else if str_eqb c dotdot then
        match stack with
        | top :: rest => if str_eqb top dotdot then norm_comps (c :: stack) cs else norm_comps rest cs
        | [] => norm_comps [c] cs
        end
      else norm_comps (c :: stack) cs
  end.

Definition normpath (p : str) : str :=
  match norm_comps [] (split c_slash p) with
  | [] => [c_dot]
  | l => join [c_slash] l
  end.

(* Checksums.add: refuses absolute paths; records under the normalised path (value given) *)
Definition checksums_add (cs : list (str * (pyval * pyval))) (path : str) (ty value : pyval) : result (list (str * (pyval * pyval))) :=
  check guard (negb (startswith path [c_slash])) ValueError;
  Ok (assoc_set (normpath path) (ty, value) cs).

(* Image.add_checksum(root, type, value): returns the recorded value *)
Definition image_add_checksum (cs : list (str * pyval)) (ty : str) (value : pyval) : result (list (str * pyval) * pyval) :=
  match assoc ty cs with
  | Some existing => if truthy value && negb (py_eq value existing) then Err ValueError else Ok (cs, existing)
  | None => Ok (cs ++ [(ty, value)], value)
  end.
