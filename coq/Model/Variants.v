(* composeinfo variant forest on a heap of objects: VariantBase.add, __getitem__, get_variants *)
From PM Require Export Model.Common.
From PM Require Import Gen.Tables Model.ComposeId.

Record vnode := { vn_fields : obj; vn_parent : option nat; vn_children : list (str * nat) }.
Definition heap := list vnode.          (* object 0 is the top-level Variants container *)

Definition node (h : heap) (r : nat) : vnode :=
  nth r h {| vn_fields := []; vn_parent := None; vn_children := [] |}.

Fixpoint set_nth {A} (n : nat) (x : A) (l : list A) : list A :=
  match l, n with
  | [], _ => []
  | _ :: l', O => x :: l'
  | y :: l', S n' => y :: set_nth n' x l'
  end.

Definition set_parent (h : heap) (r : nat) (p : option nat) : heap :=
  let n := node h r in set_nth r {| vn_fields := vn_fields n; vn_parent := p; vn_children := vn_children n |} h.
Definition set_children (h : heap) (r : nat) (c : list (str * nat)) : heap :=
  let n := node h r in set_nth r {| vn_fields := vn_fields n; vn_parent := vn_parent n; vn_children := c |} h.

Definition fld (h : heap) (r : nat) (f : str) : pyval := getf (vn_fields (node h r)) f.

Definition sorted_children (h : heap) (r : nat) : list (str * nat) :=
  fold_right (fun kv acc =>
    (fix ins (kv : str * nat) (l : list (str * nat)) : list (str * nat) :=
       match l with
       | [] => [kv]
       | x :: l' => if str_leb (fst kv) (fst x) then kv :: l else x :: ins kv l'
       end) kv acc) [] (vn_children (node h r)).

(* ---- hand-modelled validators of composeinfo.Variant / VariantBase (context in pseudo-attributes) *)
Definition replace_dash (s : str) : str := replace_none c_dash s.

Definition fmt_s (v : pyval) : str :=      (* "%s" % v for the values that occur *)
  match v with PStr s => s | PNone => lit "None" | PInt z => show_Z z | PBool true => lit "True" | PBool false => lit "False" | _ => lit "?" end.

Definition custom_variant_uid (o : obj) : result unit :=
  match getf o (F"uid") with
  | PStr self_uid =>
      match getf o (F"_has_parent") with
      | PBool true =>
          guard (str_eqb self_uid (fmt_s (getf o (F"_parent_uid")) ++ c_dash :: fmt_s (getf o (F"id")))) ValueError
      | _ =>
          guard (py_eq (PStr (replace_dash self_uid)) (getf o (F"id"))) ValueError
      end
  | _ => Err TypeError
  end.

Definition custom_parent_arch (o : obj) : result unit :=
  match getf o (F"_has_parent") with
  | PBool true =>
      match getf o (F"arches"), getf o (F"_parent_arches") with
      | PList mine, PList theirs => guard (forallb (fun a => py_in a theirs) mine) ValueError
      | _, _ => Err TypeError
      end
  | _ => Ok tt
  end.

Definition custom_children (o : obj) : result unit :=
  match getf o (F"_children") with
  | PList cs =>
      iterM (fun c =>
        match c with
        | PList [PStr key; cid; cuid; PBool parent_none; cty] =>
            let key' := if parent_none && memc c_dash key && negb (py_eq cty (PStr (F"optional"))) then replace_dash key else key in
            guard (py_eq cid (PStr key') || py_eq cuid (PStr key')) ValueError
        | _ => Err OtherError
        end) cs
  | _ => Ok tt
  end.

Definition customs_ci (q : str) : option (obj -> result unit) :=
  if str_eqb q (F"composeinfo.Variant._validate_uid") then Some custom_variant_uid
  else if str_eqb q (F"composeinfo.Variant._validate_parent_arch") then Some custom_parent_arch
  else if str_eqb q (F"composeinfo.VariantBase._validate_variants") then Some custom_children
  else customs q.

Definition children_ctx (h : heap) (r : nat) : pyval :=
  PList (map (fun kv => let c := snd kv in
                        PList [PStr (fst kv); fld h c (F"id"); fld h c (F"uid");
                               PBool (match vn_parent (node h c) with None => true | Some _ => false end); fld h c (F"type")])
             (sorted_children h r)).

Definition variant_ctx (h : heap) (r : nat) : obj :=
  let n := node h r in
  vn_fields n ++
  [(F"_has_parent", PBool (match vn_parent n with Some _ => true | None => false end));
   (F"_parent_uid", match vn_parent n with Some p => fld h p (F"uid") | None => PNone end);
   (F"_parent_arches", match vn_parent n with Some p => fld h p (F"arches") | None => PNone end);
   (F"_children", children_ctx h r)].

Definition validate_variant (h : heap) (r : nat) : result unit :=
  validate_with customs_ci (F"composeinfo.Variant") (variant_ctx h r).
Definition validate_variants_container (h : heap) : result unit :=
  validate_with customs_ci (F"composeinfo.Variants") [(F"_children", children_ctx h 0)].

(* self and all its ancestors through .parent *)
Fixpoint ancestors (fuel : nat) (h : heap) (r : nat) : list nat :=
  match fuel with
  | O => [r]
  | S f => r :: match vn_parent (node h r) with Some p => ancestors f h p | None => [] end
  end.

Definition add_key (h : heap) (v : nat) (vid : option str) : result str :=
  match vid with
  | Some (x :: xs) => Ok (x :: xs)
  | _ => match fld h v (F"id") with PStr s => Ok s | _ => Err TypeError end
  end.

(* VariantBase.add(variant, variant_id): returns the new heap; on refusal the heap is as it was *)
Definition variant_add (h : heap) (c v : nat) (vid : option str) : heap * result unit :=
  let h1 := if Nat.eqb c 0 then h else set_parent h v (Some c) in
  match validate_variant h1 v with
  | Err e => (h, Err e)
  | Ok _ =>
      match add_key h1 v vid with
      | Err e => (h, Err e)
      | Ok key =>
          if existsb (Nat.eqb v) (ancestors (length h1) h1 c) then (h, Err ValueError)
          else match assoc key (vn_children (node h1 c)) with
               | Some existing => if Nat.eqb existing v then (h1, Ok tt) else (h, Err ValueError)
               | None => (set_children h1 c (vn_children (node h1 c) ++ [(key, v)]), Ok tt)
               end
      end
  end.

(* VariantBase.__getitem__ *)
Fixpoint getitem (fuel : nat) (h : heap) (c : nat) (name : str) : result nat :=
  match fuel with
  | O => Err OtherError
  | S f =>
      let ch := vn_children (node h c) in
      match assoc name ch with
      | Some r => Ok r
      | None =>
          if memc c_dash name then
            match find (fun kv => py_eq (fld h (snd kv) (F"uid")) (PStr name)) ch with
            | Some kv => Ok (snd kv)
            | None =>
                match split_first c_dash name with
                | Some (head, tail) =>
                    match assoc head ch with
                    | Some r => getitem f h r tail
                    | None => Err KeyError
                    end
                | None => Err KeyError
                end
            end
          else Err KeyError
      end
  end.

(* get_variants(arch, types, recursive); result = object references, sorted by uid (stable) *)
Definition uid_str (h : heap) (r : nat) : str := match fld h r (F"uid") with PStr s => s | _ => [] end.

Fixpoint insert_by_uid (h : heap) (r : nat) (l : list nat) : list nat :=
  match l with
  | [] => [r]
  | x :: l' => if str_ltb (uid_str h r) (uid_str h x) then r :: l else x :: insert_by_uid h r l'
  end.
Definition sort_by_uid (h : heap) (l : list nat) : list nat := fold_left (fun acc r => insert_by_uid h r acc) l [].

Definition arch_matches (h : heap) (r : nat) (arch : option str) : bool :=
  match arch with
  | None | Some [] => true
  | Some a => str_eqb a (F"src") || match fld h r (F"arches") with PList l => py_in (PStr a) l | _ => false end
  end.

Definition type_matches (h : heap) (r : nat) (types : list str) : bool :=
  match types with [] => true | _ => existsb (fun t => py_eq (fld h r (F"type")) (PStr t)) types end.

Fixpoint get_variants (fuel : nat) (h : heap) (c : nat) (arch : option str) (types : list str) (recursive : bool) : list nat :=
  match fuel with
  | O => []
  | S f =>
      let self := if mem_str (F"self") types then [c] else [] in
      let sub := filter (fun t => negb (str_eqb t (F"self"))) types in
      let body := flat_map (fun kv =>
                    let r := snd kv in
                    if type_matches h r types && arch_matches h r arch
                    then r :: (if recursive then get_variants f h r arch sub true else [])
                    else []) (vn_children (node h c)) in
      sort_by_uid h (self ++ body)
  end.
