(* productmd.compose.Compose: which directory holds the metadata, which file is loaded, caching *)
From PM Require Export Base.PyVal.

(* os.path.join on POSIX *)
Definition path_join (a b : str) : str :=
  if startswith b [c_slash] then b
  else match a with
       | [] => b
       | _ => if endswith a [c_slash] then a ++ b else a ++ c_slash :: b
       end.

Section Dir.
  Variable exists_ : str -> bool.            (* os.path.exists *)
  Variable listdir : str -> list str.        (* os.listdir, in the order the OS returns *)

  Definition is_url (p : str) : bool :=
    (fix go (s : str) : bool := match s with [] => false | _ :: s' => startswith s (lit "://") || go s' end) p.

  Definition resolve (p : str) : str :=
    let c := path_join p (lit "compose") in
    if exists_ (path_join c (lit "metadata/composeinfo.json")) then c
    else if negb (is_url p) && exists_ p then
      match find (fun i => exists_ (path_join (path_join p i) (lit "metadata"))) (listdir p) with
      | Some i => path_join p i
      | None => p
      end
    else p.

  (* _find_metadata_file *)
  Definition find_file (compose_path : str) (names : list str) : result str :=
    match find (fun n => exists_ (path_join compose_path n)) names with
    | Some n => Ok (path_join compose_path n)
    | None => Err RuntimeError
    end.
End Dir.

Definition names_info : list str := [lit "metadata/composeinfo.json"].
Definition names_images : list str := [lit "metadata/images.json"; lit "metadata/image-manifest.json"].
Definition names_rpms : list str := [lit "metadata/rpms.json"; lit "metadata/rpm-manifest.json"].
Definition names_modules : list str := [lit "metadata/modules.json"].

(* a cached accessor: the slot holds the loaded object; loading happens only when the slot is empty *)
Definition access {A} (slot : option A) (load : unit -> result A) : option A * result A :=
  match slot with
  | Some o => (slot, Ok o)
  | None => match load tt with
            | Ok o => (Some o, Ok o)
            | Err e => (None, Err e)
            end
  end.

(* _load_metadata: a document that cannot be deserialised (not JSON, invalid field, missing section or key,
   wrong container type) surfaces as RuntimeError *)
Definition wrap_load {A} (r : result A) : result A :=
  match r with
  | Err ValueError | Err KeyError | Err TypeError | Err AttributeError => Err RuntimeError
  | _ => r
  end.
