(* executable check of the hypotheses of the C01 document theorem (normal form of the reader + pairwise distinct UIDs):
   run by the correspondence on every generated document, so that "how many real cases does the theorem cover" is measured *)
From PM Require Export Model.ComposeInfo.
From PM Require Import Gen.Tables.

Definition str_of (v : pyval) : str := match v with PStr s => s | _ => [] end.
Definition obj_eqb (a b : obj) : bool := pyval_eqb (PDict a) (PDict b).

Fixpoint ssortedb (l : list str) : bool :=
  match l with [] => true | x :: l' => forallb (str_ltb x) l' && ssortedb l' end.
Fixpoint nodupb (l : list str) : bool :=
  match l with [] => true | x :: l' => negb (mem_str x l') && nodupb l' end.

Definition all_strsb (l : list pyval) : bool := forallb (fun v => match v with PStr _ => true | _ => false end) l.

Definition node_normalb (t : vtree) : bool :=
  let f := vt_fields t in
  let a := arches_of f in
  obj_eqb f [(F"id", PStr (str_of (getf f (F"id")))); (F"uid", PStr (str_of (getf f (F"uid")))); (F"name", getf f (F"name"));
             (F"type", getf f (F"type")); (F"arches", PList a)] &&
  pyval_eqb (PList (sort_set a)) (PList a) && all_strsb a &&
  (let rel := vt_release t in
   if py_eq (getf f (F"type")) (PStr (F"layered-product"))
   then obj_eqb rel [(F"name", getf rel (F"name")); (F"version", getf rel (F"version")); (F"short", getf rel (F"short"));
                     (F"type", getf rel (F"type")); (F"is_layered", PBool true); (F"internal", PBool (truthy (getf rel (F"internal"))))]
   else obj_eqb rel fresh_release) &&
  forallb (fun kc : str * vtree => pyval_eqb (getf (vt_fields (snd kc)) (F"id")) (PStr (fst kc))) (vt_children t) &&
  ssortedb (map fst (vt_children t)).

Fixpoint tree_normalb (t : vtree) : bool :=
  match t with
  | VT f p r cs =>
      node_normalb t && (fix all (cs : list (str * vtree)) : bool :=
                           match cs with [] => true | (_, c) :: cs' => tree_normalb c && all cs' end) cs
  end.

Definition uid_str (t : vtree) : str := str_of (getf (vt_fields t) (F"uid")).

Fixpoint tree_uids (t : vtree) : list str :=
  match t with
  | VT f p r cs =>
      (fix go (cs : list (str * vtree)) : list str := match cs with [] => [] | (_, c) :: cs' => tree_uids c ++ go cs' end) cs
      ++ [uid_str t]
  end.

Definition forest_normalb (vs : list (str * vtree)) : bool :=
  forallb (fun kc : str * vtree => tree_normalb (snd kc)) vs &&
  forallb (fun kc : str * vtree => pyval_eqb (getf (vt_fields (snd kc)) (F"id")) (PStr (fst kc))) vs &&
  nodupb (map fst vs) &&
  ssortedb (map (fun kc : str * vtree => uid_str (snd kc)) vs).

Definition ci_normalb (x : ci) : bool :=
  let c := ci_compose x in
  let final := truthy (getf c (F"final")) in
  obj_eqb c [(F"id", getf c (F"id")); (F"type", getf c (F"type")); (F"date", getf c (F"date")); (F"respin", getf c (F"respin"));
             (F"label", getf c (F"label")); (F"final", PBool final)] &&
  (match getf c (F"label") with PNone => negb final | l => truthy l end) &&
  (let r := ci_release x in
   let lay := truthy (getf r (F"is_layered")) in
   obj_eqb r [(F"name", getf r (F"name")); (F"version", getf r (F"version")); (F"short", getf r (F"short")); (F"type", getf r (F"type"));
              (F"is_layered", PBool lay); (F"internal", PBool (truthy (getf r (F"internal"))))] &&
   (let b := ci_base_product x in
    if lay then obj_eqb b [(F"name", getf b (F"name")); (F"version", getf b (F"version")); (F"short", getf b (F"short")); (F"type", getf b (F"type"))]
    else obj_eqb b fresh_base_product)) &&
  forest_normalb (ci_variants x).

Definition ci_distinct_uidsb (x : ci) : bool := nodupb (flat_map (fun kc : str * vtree => tree_uids (snd kc)) (ci_variants x)).
