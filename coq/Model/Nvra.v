(* productmd.common.parse_nvra and Rpms._check_nevra's canonical formatting.
   parse_core is the function RPM_NVRA_RE denotes on newline- and slash-free
   strings (three splits at the last '.', '-', '-'); candidates replays the
   optional greedy directory group (longest directory first). *)
From PM Require Export Base.PyVal.

Record nvra := { n_name : str; n_epoch : N; n_version : str; n_release : str; n_arch : str }.

Definition dot_rpm : str := Eval cbv in lit ".rpm".

Definition parse_core (r : str) : option nvra :=
  match split_last c_dot r with
  | None => None
  | Some (pre, arch) =>
      match split_last c_dash pre with
      | None => None
      | Some (pre2, release) =>
          match split_last c_dash pre2 with
          | None => None
          | Some (name, ev) =>
              match span is_digit ev with
              | (d :: ds, 58 :: v) =>
                  Some {| n_name := name; n_epoch := parse_dec (d :: ds); n_version := v;
                          n_release := release; n_arch := arch |}
              | _ =>
                  Some {| n_name := name; n_epoch := 0; n_version := ev;
                          n_release := release; n_arch := arch |}
              end
          end
      end
  end.

(* suffixes following each '/', leftmost first *)
Fixpoint after_slashes (s : str) : list str :=
  match s with
  | [] => []
  | x :: s' => if N.eqb x c_slash then s' :: after_slashes s' else after_slashes s'
  end.

Definition candidates (s : str) : list str := rev (after_slashes s) ++ [s].

Fixpoint first_some {A B} (f : A -> option B) (l : list A) : option B :=
  match l with
  | [] => None
  | x :: l' => match f x with Some y => Some y | None => first_some f l' end
  end.

(* `$` also matches just before a final newline; no atom of the pattern matches '\n' *)
Definition strip_final_nl (s : str) : str :=
  if endswith s [c_nl] then drop_last 1 s else s.

Definition match_nvra (s : str) : option nvra :=
  let b := strip_final_nl s in
  if memc c_nl b then None else first_some parse_core (candidates b).

Definition parse_nvra (s : str) : result nvra :=
  let s1 := if endswith s dot_rpm then drop_last 4 s else s in
  of_option ValueError (match_nvra s1).

Definition format_nevra (p : nvra) : str :=
  n_name p ++ [c_dash] ++ show_dec (n_epoch p) ++ [c_colon] ++ n_version p ++ [c_dash] ++
  n_release p ++ [c_dot] ++ n_arch p.

(* without epoch *)
Definition format_nvra (p : nvra) : str :=
  n_name p ++ [c_dash] ++ n_version p ++ [c_dash] ++ n_release p ++ [c_dot] ++ n_arch p.

(* Rpms._check_nevra: epoch must be spelled out; returns the canonical string and the parts *)
Definition check_nevra (s : str) : result (str * nvra) :=
  if memc c_colon s then
    do p <- parse_nvra s; Ok (format_nevra p, p)
  else Err ValueError.
