(* shared by all formats: validation through the regenerated validator tables,
   hand-modelled validators, header, compose section, document access *)
From PM Require Export Base.Obj.
From PM Require Import Gen.Validators Gen.Regexes Gen.Tables Model.ComposeId.

(* ---- field names *)
Notation "'F' s" := (lit s) (at level 1, only parsing).

(* ---- document access (what subscripting / .get do on the parsed JSON tree) *)
Definition dget (d : pyval) (k : str) : result pyval :=
  match d with
  | PDict kv => of_option KeyError (assoc k kv)
  | PList _ | PStr _ => Err TypeError
  | _ => Err TypeError
  end.

Definition dget_default (d : pyval) (k : str) (default : pyval) : result pyval :=
  match d with
  | PDict kv => Ok (dflt default (assoc k kv))
  | _ => Err AttributeError
  end.

(* int(x) *)
Definition strip_ws (s : str) : str :=
  let ws c := N.eqb c 32 || N.eqb c 10 || N.eqb c 9 || N.eqb c 13 in
  strip_right ws (strip_left ws s).

Definition py_int (v : pyval) : result pyval :=
  match v with
  | PInt z => Ok (PInt z)
  | PBool b => Ok (PInt (if b then 1 else 0)%Z)
  | PStr s =>
      match strip_ws s with
      | [] => Err ValueError
      | 45 :: ds => if forallb is_digit ds && negb (match ds with [] => true | _ => false end)
                    then Ok (PInt (- Z.of_N (parse_dec ds))) else Err ValueError
      | ds => if forallb is_digit ds then Ok (PInt (Z.of_N (parse_dec ds))) else Err ValueError
      end
  | PFloat t =>          (* truncation towards zero of a plain decimal token *)
      match split_first c_dot t with
      | Some (45 :: ds, fr) => if forallb is_digit ds && forallb is_digit fr then Ok (PInt (- Z.of_N (parse_dec ds))) else Err OtherError
      | Some (ds, fr) => if forallb is_digit ds && forallb is_digit fr then Ok (PInt (Z.of_N (parse_dec ds))) else Err OtherError
      | None => Err OtherError
      end
  | _ => Err TypeError
  end.

Definition py_bool (v : pyval) : pyval := PBool (truthy v).

(* x or None *)
Definition or_none (v : pyval) : pyval := if truthy v then v else PNone.

(* ---- hand-modelled validators (context is passed in pseudo-attributes starting with '_') *)
Definition custom_label (o : obj) : result unit :=
  match getf o (F"label") with
  | PNone => Ok tt
  | PStr s => guard (existsb (fun r => re_matches r s) re_labels) ValueError
  | _ => Err TypeError
  end.

Definition customs (q : str) : option (obj -> result unit) :=
  if str_eqb q (F"composeinfo.Compose._validate_label") then Some custom_label
  else None.

Definition validators_of (cls : str) : list (str * vmethod) := dflt [] (assoc cls VALIDATORS).
Definition validate_with (ct : custom_table) (cls : str) (o : obj) : result unit := run_validators ct (validators_of cls) o.
Definition validate (cls : str) (o : obj) : result unit := validate_with customs cls o.

(* ---- header *)
Definition show_version (v : N * N) : str := show_dec (fst v) ++ c_dot :: show_dec (snd v).
Definition current_version : pyval := PStr (show_version VERSION).

Definition header_obj (v : pyval) : obj := [(F"version", v)].

(* Header.version_tuple: validates, then splits into integers *)
Definition version_tuple (cls : str) (v : pyval) : result (N * N) :=
  check validate cls (header_obj v);
  match v with
  | PStr s => match split c_dot s with
              | [a; b] => Ok (parse_dec (strip_ws a), parse_dec (strip_ws b))
              | _ => Err ValueError
              end
  | _ => Err TypeError
  end.

Definition vt_ltb (a b : N * N) : bool := N.ltb (fst a) (fst b) || (N.eqb (fst a) (fst b) && N.ltb (snd a) (snd b)).
Definition vt_leb (a b : N * N) : bool := negb (vt_ltb b a).
Definition vt_eqb (a b : N * N) : bool := N.eqb (fst a) (fst b) && N.eqb (snd a) (snd b).

Definition ser_header (mtype : str) : result pyval :=
  check validate (F"common.Header") (header_obj current_version);
  Ok (PDict [(F"type", PStr mtype); (F"version", current_version)]).

(* Header.deserialize: returns the file's version *)
Definition deser_header (mtype : str) (doc : pyval) : result (pyval * (N * N)) :=
  do h <- dget doc (F"header");
  do v <- dget h (F"version");
  do vt <- version_tuple (F"common.Header") v;
  check (if vt_leb (1, 1) vt then
           do t <- dget h (F"type");
           guard (py_eq t (PStr mtype)) ValueError
         else Ok tt);
  check validate (F"common.Header") (header_obj v);
  Ok (v, vt).

(* ---- compose section (composeinfo.Compose), shared by five formats *)
Definition compose_cls : str := Eval cbv in F"composeinfo.Compose".

Definition fresh_compose : obj :=
  [(F"id", PNone); (F"type", PNone); (F"date", PNone); (F"respin", PNone); (F"label", PNone); (F"final", PBool false)].

Definition ser_compose (c : obj) : result pyval :=
  check validate compose_cls c;
  let base := [(F"id", getf c (F"id")); (F"type", getf c (F"type")); (F"date", getf c (F"date")); (F"respin", getf c (F"respin"))] in
  Ok (PDict (if truthy (getf c (F"label"))
             then base ++ [(F"label", getf c (F"label")); (F"final", getf c (F"final"))]
             else base)).

Definition p_dtr (r : option (str * str * N)) : pyval * pyval * pyval :=
  match r with
  | None => (PNone, PNone, PNone)
  | Some (d, t, n) => (PStr d, PStr t, PInt (Z.of_N n))
  end.

Definition deser_compose (vt : N * N) (payload : pyval) : result obj :=
  do sec <- dget payload (F"compose");
  do id <- dget sec (F"id");
  do label0 <- dget_default sec (F"label") PNone;
  let label := or_none label0 in
  do ty <- dget sec (F"type");
  do dtr <- (if vt_ltb vt (0, 3) then
               match id with
               | PStr s => do r <- get_date_type_respin s; Ok (p_dtr r)
               | _ => Err TypeError
               end
             else
               do date <- dget sec (F"date");
               do respin <- dget sec (F"respin");
               Ok (date, ty, respin));
  let '(date, ty', respin) := dtr in
  do final0 <- dget_default sec (F"final") (PBool false);
  let c := [(F"id", id); (F"type", ty'); (F"date", date); (F"respin", respin); (F"label", label); (F"final", py_bool final0)] in
  check validate compose_cls c;
  Ok c.
