(* entry points for the pure string functions *)
From PM Require Import Model.EntryBase Model.Nvra Base.Regex Gen.Regexes Gen.Tables.

Definition p_nvra (p : nvra) : pyval :=
  PDict [(lit "name", PStr (n_name p)); (lit "epoch", PN (n_epoch p)); (lit "version", PStr (n_version p));
         (lit "release", PStr (n_release p)); (lit "arch", PStr (n_arch p))].

Definition ep_parse_nvra (v : pyval) : pyval :=
  match v with PStr s => out_result p_nvra (parse_nvra s) | _ => bad_input end.

(* the same function read off the regenerated regex by the generic matcher *)
Definition ep_parse_nvra_re (v : pyval) : pyval :=
  match v with
  | PStr s =>
      let s1 := if endswith s dot_rpm then drop_last 4 s else s in
      match re_match re_nvra s1 with
      | None => out_err ValueError
      | Some c =>
          let g n := match group s1 c n with Some x => x | None => [] end in
          let ep := match group s1 c re_nvra_g_epoch with Some x => parse_dec x | None => 0 end in
          out_ok (p_nvra {| n_name := g re_nvra_g_name; n_epoch := ep; n_version := g re_nvra_g_version;
                            n_release := g re_nvra_g_release; n_arch := g re_nvra_g_arch |})
      end
  | _ => bad_input
  end.

Definition ep_check_nevra (v : pyval) : pyval :=
  match v with
  | PStr s => out_result (fun cp => PList [PStr (fst cp); p_nvra (snd cp); out_result p_nvra (parse_nvra (fst cp))])
                         (check_nevra s)
  | _ => bad_input
  end.

Definition ep_format_nevra (v : pyval) : pyval :=
  match v with
  | PList [PStr n; PInt e; PStr ve; PStr r; PStr a] =>
      PStr (format_nevra {| n_name := n; n_epoch := Z.to_N e; n_version := ve; n_release := r; n_arch := a |})
  | _ => bad_input
  end.

(* generic: match any regenerated regex by name; returns None or the list of group spans *)
Definition ep_rx_match (v : pyval) : pyval :=
  match v with
  | PList [PStr name; PStr s] =>
      match assoc name all_regexes with
      | None => bad_input
      | Some r =>
          match re_match r s with
          | None => PNone
          | Some c => PList (map (fun e => PList [PN (N.of_nat (fst e)); PN (N.of_nat (fst (snd e))); PN (N.of_nat (snd (snd e)))]) c)
          end
      end
  | _ => bad_input
  end.

Definition entries_str : list (str * (pyval -> pyval)) :=
  [ (lit "parse_nvra", ep_parse_nvra);
    (lit "parse_nvra_re", ep_parse_nvra_re);
    (lit "format_nevra", ep_format_nevra);
    (lit "check_nevra", ep_check_nevra);
    (lit "rx_match", ep_rx_match) ].
