(* entry points for the pure string functions *)
From PM Require Import Model.EntryBase Model.Nvra Model.ReleaseId Model.ComposeId Base.Regex Base.RegexCost Gen.Regexes Gen.Tables.

Definition p_nvra (p : nvra) : pyval :=
  PDict [(lit "name", PStr (n_name p)); (lit "epoch", PN (n_epoch p)); (lit "version", PStr (n_version p));
         (lit "release", PStr (n_release p)); (lit "arch", PStr (n_arch p))].

Definition ep_parse_nvra (v : pyval) : pyval :=
  match v with PStr s => out_result p_nvra (parse_nvra s) | _ => bad_input end.

(* the same function read off the regenerated regex by the generic matcher *)
Definition ep_parse_nvra_re (v : pyval) : pyval :=
  match v with
  | PStr s =>
      let s1 := if endswith s dot_rpm then drop_last 4 s else s in
      match re_match re_nvra s1 with
      | None => out_err ValueError
      | Some c =>
          let g n := match group s1 c n with Some x => x | None => [] end in
          let ep := match group s1 c re_nvra_g_epoch with Some x => parse_dec x | None => 0 end in
          out_ok (p_nvra {| n_name := g re_nvra_g_name; n_epoch := ep; n_version := g re_nvra_g_version;
                            n_release := g re_nvra_g_release; n_arch := g re_nvra_g_arch |})
      end
  | _ => bad_input
  end.

Definition ep_check_nevra (v : pyval) : pyval :=
  match v with
  | PStr s => out_result (fun cp => PList [PStr (fst cp); p_nvra (snd cp); out_result p_nvra (parse_nvra (fst cp))])
                         (check_nevra s)
  | _ => bad_input
  end.

Definition ep_format_nevra (v : pyval) : pyval :=
  match v with
  | PList [PStr n; PInt e; PStr ve; PStr r; PStr a] =>
      PStr (format_nevra {| n_name := n; n_epoch := Z.to_N e; n_version := ve; n_release := r; n_arch := a |})
  | _ => bad_input
  end.

(* generic: match any regenerated regex by name; returns None or the list of group spans *)
Definition ep_rx_match (v : pyval) : pyval :=
  match v with
  | PList [PStr name; PStr s] =>
      match assoc name all_regexes with
      | None => bad_input
      | Some r =>
          match re_match r s with
          | None => PNone
          | Some c => PList (map (fun e => PList [PN (N.of_nat (fst e)); PN (N.of_nat (fst (snd e))); PN (N.of_nat (snd (snd e)))]) c)
          end
      end
  | _ => bad_input
  end.

Definition p_triple (t : str * str * str) : pyval :=
  match t with (a, b, c) => PList [PStr a; PStr b; PStr c] end.

Definition get_triple (v : pyval) : option (str * str * str) :=
  match v with PList [PStr a; PStr b; PStr c] => Some (a, b, c) | _ => None end.

Definition ep_create_release_id (v : pyval) : pyval :=
  match v with
  | PList [PStr s; PStr ve; PStr t; bp] =>
      match bp with
      | PNone => out_result PStr (create_release_id s ve t None)
      | _ => match get_triple bp with
             | Some b => out_result PStr (create_release_id s ve t (Some b))
             | None => bad_input
             end
      end
  | _ => bad_input
  end.

Definition ep_parse_release_id (v : pyval) : pyval :=
  match v with
  | PStr s => out_result (fun r => PList [p_triple (fst r); p_opt p_triple (snd r)]) (parse_release_id s)
  | _ => bad_input
  end.

Definition ep_valid3 (v : pyval) : pyval :=
  match v with
  | PStr s => PList [PBool (valid_short s); PBool (valid_version s); PBool (valid_type s)]
  | _ => bad_input
  end.

Definition ep_create_compose_id (v : pyval) : pyval :=
  match v with
  | PList [PStr rs; PStr rv; rt; PBool lay; bs; bv; bt; PList vars; PStr date; PStr ct; PInt rsp] =>
      match get_opt_str rt, get_opt_str bs, get_opt_str bv, get_opt_str bt, get_strs vars with
      | Some rt', Some bs', Some bv', Some bt', Some vars' =>
          let a := {| r_short := rs; r_version := rv; r_type := rt'; r_layered := lay;
                      b_short := bs'; b_version := bv'; b_type := bt'; top_variants := vars';
                      c_date := date; c_type := ct; c_respin := Z.to_N rsp |} in
          out_result (fun id => PList [PStr id; PBool (compose_id_valid id)]) (create_compose_id a)
      | _, _, _, _, _ => bad_input
      end
  | _ => bad_input
  end.

Definition ep_get_date_type_respin (v : pyval) : pyval :=
  match v with
  | PStr s => out_result (fun o => match o with
                                   | None => PNone
                                   | Some (d, t, r) => PList [PStr d; PStr t; PN r]
                                   end) (get_date_type_respin s)
  | _ => bad_input
  end.

Definition ep_get_date_type_respin_rx (v : pyval) : pyval :=
  match v with
  | PStr s => out_result (fun o => match o with
                                   | None => PNone
                                   | Some (d, t, r) => PList [PStr d; PStr t; PN r]
                                   end) (get_date_type_respin_rx s)
  | _ => bad_input
  end.

Definition ep_compose_id_valid (v : pyval) : pyval :=
  match v with PStr s => PBool (compose_id_valid s) | _ => bad_input end.

Definition PNat (n : nat) : pyval := PN (N.of_nat n).

Definition ep_rx_info (v : pyval) : pyval :=
  match v with
  | PStr name =>
      match assoc name all_regexes with
      | None => bad_input
      | Some r => PList [PBool (supported r); PBool (safe r); PNat (fst (WP r)); PNat (snd (WP r));
                         PNat (fst (EP r)); PNat (snd (EP r))]
      end
  | _ => bad_input
  end.

Definition ep_rx_steps (v : pyval) : pyval :=
  match v with
  | PList [PStr name; PStr s] =>
      match assoc name all_regexes with
      | None => bad_input
      | Some r => PNat (match_steps r s)
      end
  | _ => bad_input
  end.

Definition ep_rx_names (_ : pyval) : pyval := PList (map (fun p => PStr (fst p)) all_regexes).

Definition entries_str : list (str * (pyval -> pyval)) :=
  [ (lit "parse_nvra", ep_parse_nvra);
    (lit "parse_nvra_re", ep_parse_nvra_re);
    (lit "format_nevra", ep_format_nevra);
    (lit "check_nevra", ep_check_nevra);
    (lit "rx_match", ep_rx_match);
    (lit "rx_info", ep_rx_info);
    (lit "rx_steps", ep_rx_steps);
    (lit "rx_names", ep_rx_names);
    (lit "create_release_id", ep_create_release_id);
    (lit "parse_release_id", ep_parse_release_id);
    (lit "valid3", ep_valid3);
    (lit "create_compose_id", ep_create_compose_id);
    (lit "get_date_type_respin", ep_get_date_type_respin);
    (lit "get_date_type_respin_rx", ep_get_date_type_respin_rx);
    (lit "compose_id_valid", ep_compose_id_valid) ].
