(* MetadataBase.dump(path): the effect on the file system *)
From PM Require Export Base.Json Model.Common.

Definition fs := list (str * str).      (* path -> file content; absent = no such file *)

(* the dump as the library performs it (after the fix of D1): everything that can fail - validation of the object and
   of every nested part, serialisation - happens before the destination is opened for writing *)
Definition dump_path (serialised : result pyval) (f : fs) (p : str) : fs * result unit :=
  match serialised with
  | Ok d => (assoc_set p (print_json d) f, Ok tt)
  | Err e => (f, Err e)
  end.

(* the sequence the code used to perform: top-level validate(), open(path, "w") - which truncates or creates the
   file - and only then the serialiser with its nested validate() calls *)
Definition dump_path_open_first (top_valid : result unit) (serialised : result pyval) (f : fs) (p : str) : fs * result unit :=
  match top_valid with
  | Err e => (f, Err e)
  | Ok _ =>
      let f1 := assoc_set p [] f in
      match serialised with
      | Ok d => (assoc_set p (print_json d) f1, Ok tt)
      | Err e => (f1, Err e)
      end
  end.
