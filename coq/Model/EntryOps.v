(* entry points for operation sequences on manifests *)
From PM Require Import Model.EntryBase Model.Manifests Model.Common Model.Images.

Definition run_ops {S} (step : S -> pyval -> option (result S)) (snap : S -> pyval) (init : S) (ops : list pyval) : pyval :=
  PList (snd (fold_left (fun acc op =>
                 let '(st, out) := acc in
                 match step st op with
                 | None => (st, out ++ [bad_input])
                 | Some (Ok st') => (st', out ++ [PList [PStr (lit "ok"); snap st']])
                 | Some (Err e) => (st, out ++ [PList [PStr (lit "err"); PStr (exc_name e); snap st]])
                 end) ops (init, []))).

Definition step_rpms (m : rpms_t) (op : pyval) : option (result rpms_t) :=
  match op with
  | PList [PStr v; PStr a; PStr n; PStr p; sg; PStr c; sr] =>
      match get_opt_str sg, get_opt_str sr with
      | Some sg', Some sr' => Some (rpms_add m v a n p sg' c sr')
      | _, _ => None
      end
  | _ => None
  end.

Definition step_modules (m : modules_t) (op : pyval) : option (result modules_t) :=
  match op with
  | PList [PStr v; PStr a; PStr u; PStr kt; PStr mp; PStr c; rl] =>
      Some (modules_add m v a u kt mp c (match rl with PList l => Some l | _ => None end))
  | _ => None
  end.

Definition step_extra (m : extra_t) (op : pyval) : option (result extra_t) :=
  match op with
  | PList [PStr v; PStr a; PStr p; sz; cs] =>
      Some (extra_add m v a p sz (match cs with PDict kv => Some kv | _ => None end))
  | _ => None
  end.

Definition ep_ops_rpms (v : pyval) : pyval :=
  match v with PList ops => run_ops step_rpms rpms_json [] ops | _ => bad_input end.
Definition ep_ops_modules (v : pyval) : pyval :=
  match v with PList ops => run_ops step_modules modules_json [] ops | _ => bad_input end.
Definition ep_ops_extra (v : pyval) : pyval :=
  match v with PList ops => run_ops step_extra extra_json [] ops | _ => bad_input end.

(* extra files: build by ops, then dump_for_tree *)
Definition ep_dump_for_tree (v : pyval) : pyval :=
  match v with
  | PList [PList ops; PStr variant; PStr arch; PStr base] =>
      let st := fold_left (fun st op => match step_extra st op with Some (Ok st') => st' | _ => st end) ops [] in
      out_result (fun l => PList (map extra_entry_json l)) (dump_for_tree st variant arch base)
  | _ => bad_input
  end.

Definition ep_relative_to (v : pyval) : pyval :=
  match v with PList [PStr p; PStr r] => PStr (relative_to p r) | _ => bad_input end.

Definition entries_ops : list (str * (pyval -> pyval)) :=
  [ (lit "ops_rpms", ep_ops_rpms); (lit "ops_modules", ep_ops_modules); (lit "ops_extra", ep_ops_extra);
    (lit "dump_for_tree", ep_dump_for_tree); (lit "relative_to", ep_relative_to) ].

(* ---------------- images *)
Fixpoint get_pool (i : nat) (l : list pyval) : option (list image) :=
  match l with
  | [] => Some []
  | PDict kv :: l' => match get_pool (S i) l' with Some r => Some ((i, kv) :: r) | None => None end
  | _ => None
  end.

Definition snap_cells (c : cells_t) : pyval :=
  map_vals (map_vals (fun imgs => PList (map (fun im => PInt (Z.of_nat (fst im))) imgs))) c.

Definition step_images (vt : N * N) (pool : list image) (c : cells_t) (op : pyval) : option (result cells_t) :=
  match op with
  | PList [PStr v; PStr a; PInt i] =>
      match nth_error pool (Z.to_nat i) with
      | Some img => Some (images_add vt c v a img)
      | None => None
      end
  | _ => None
  end.

(* [version; compose; pool; ops] -> per-op outcomes, then the dump *)
Definition ep_ops_images (v : pyval) : pyval :=
  match v with
  | PList [ver; PDict compose; PList pool; PList ops] =>
      match get_pool O pool with
      | None => bad_input
      | Some pl =>
          let ver := match ver with PNone => current_version | _ => ver end in   (* None: a fresh Images(), version never touched *)
          match version_tuple (lit "common.Header") ver with
          | Err e => out_err e
          | Ok vt =>
              let steps := run_ops (step_images vt pl) snap_cells [] ops in
              let final := fold_left (fun st op => match step_images vt pl st op with Some (Ok st') => st' | _ => st end) ops [] in
              PList [steps; out_result (fun d => d) (dump_images {| im_version := ver; im_compose := compose; im_cells := final |})]
          end
      end
  | _ => bad_input
  end.

(* document -> loaded manifest described by: cells (ids), every image's attributes, compose, and its re-dump *)
Definition describe_images (st : images_st) : pyval :=
  PList [snap_cells (im_cells st);
         map_vals (map_vals (fun imgs => PList (map (fun im => PList [PInt (Z.of_nat (fst im)); PDict (snd im)]) imgs))) (im_cells st);
         PDict (im_compose st);
         out_result (fun d => d) (dump_images st)].

Definition ep_load_images (v : pyval) : pyval := out_result describe_images (load_images v).

Definition ep_identify (v : pyval) : pyval :=
  match v with
  | PDict kv => PList [PList (identify_obj kv);
                       match ser_image kv with
                       | Ok (PDict d) => PList (identify_dict d)
                       | Ok _ => PNone
                       | Err e => out_err e
                       end]
  | _ => bad_input
  end.

Definition entries_images : list (str * (pyval -> pyval)) :=
  [ (lit "ops_images", ep_ops_images); (lit "load_images", ep_load_images); (lit "identify", ep_identify) ].

(* ---------------- composeinfo variant forest *)
From PM Require Import Model.Variants.

Definition mk_heap (pool : list pyval) : option heap :=
  let fix go (l : list pyval) : option (list vnode) :=
      match l with
      | [] => Some []
      | PDict kv :: l' => match go l' with
                          | Some r => Some ({| vn_fields := kv; vn_parent := None; vn_children := [] |} :: r)
                          | None => None
                          end
      | _ => None
      end in
  match go pool with
  | Some r => Some ({| vn_fields := []; vn_parent := None; vn_children := [] |} :: r)
  | None => None
  end.

Definition snap_heap (h : heap) : pyval :=
  PList (map (fun n => PList [match vn_parent n with Some p => PInt (Z.of_nat p) | None => PNone end;
                              PDict (map (fun kv => (fst kv, PInt (Z.of_nat (snd kv)))) (vn_children n))]) h).

Definition step_variants (h : heap) (op : pyval) : option (heap * result unit) :=
  match op with
  | PList [PInt c; PInt v; vid] =>
      match get_opt_str vid with
      | Some vid' => Some (variant_add h (Z.to_nat c) (Z.to_nat v) vid')
      | None => None
      end
  | _ => None
  end.

Definition run_query (h : heap) (q : pyval) : pyval :=
  match q with
  | PList [PStr kind; PInt c; PStr name] =>
      out_result (fun r => PInt (Z.of_nat r)) (getitem (S (length h)) h (Z.to_nat c) name)
  | PList [PStr kind; PInt c; arch; PList types; PBool recursive] =>
      match get_opt_str arch, get_strs types with
      | Some a, Some ts => PList (map (fun r => PInt (Z.of_nat r)) (get_variants (S (length h)) h (Z.to_nat c) a ts recursive))
      | _, _ => bad_input
      end
  | _ => bad_input
  end.

Definition ep_ops_variants (v : pyval) : pyval :=
  match v with
  | PList [PList pool; PList ops; PList queries] =>
      match mk_heap pool with
      | None => bad_input
      | Some h0 =>
          let '(hf, outs) :=
            fold_left (fun acc op =>
                         let '(h, out) := acc in
                         match step_variants h op with
                         | None => (h, out ++ [bad_input])
                         | Some (h', Ok _) => (h', out ++ [PList [PStr (lit "ok"); snap_heap h']])
                         | Some (h', Err e) => (h', out ++ [PList [PStr (lit "err"); PStr (exc_name e); snap_heap h']])
                         end) ops (h0, []) in
          PList [PList outs; PList (map (run_query hf) queries)]
      end
  | _ => bad_input
  end.

Definition entries_variants : list (str * (pyval -> pyval)) := [ (lit "ops_variants", ep_ops_variants) ].
