(* entry points for operation sequences on manifests *)
From PM Require Import Model.EntryBase Model.Manifests.

Definition run_ops {S} (step : S -> pyval -> option (result S)) (snap : S -> pyval) (init : S) (ops : list pyval) : pyval :=
  PList (snd (fold_left (fun acc op =>
                 let '(st, out) := acc in
                 match step st op with
                 | None => (st, out ++ [bad_input])
                 | Some (Ok st') => (st', out ++ [PList [PStr (lit "ok"); snap st']])
                 | Some (Err e) => (st, out ++ [PList [PStr (lit "err"); PStr (exc_name e); snap st]])
                 end) ops (init, []))).

Definition step_rpms (m : rpms_t) (op : pyval) : option (result rpms_t) :=
  match op with
  | PList [PStr v; PStr a; PStr n; PStr p; sg; PStr c; sr] =>
      match get_opt_str sg, get_opt_str sr with
      | Some sg', Some sr' => Some (rpms_add m v a n p sg' c sr')
      | _, _ => None
      end
  | _ => None
  end.

Definition step_modules (m : modules_t) (op : pyval) : option (result modules_t) :=
  match op with
  | PList [PStr v; PStr a; PStr u; PStr kt; PStr mp; PStr c; rl] =>
      Some (modules_add m v a u kt mp c (match rl with PList l => Some l | _ => None end))
  | _ => None
  end.

Definition step_extra (m : extra_t) (op : pyval) : option (result extra_t) :=
  match op with
  | PList [PStr v; PStr a; PStr p; sz; cs] =>
      Some (extra_add m v a p sz (match cs with PDict kv => Some kv | _ => None end))
  | _ => None
  end.

Definition ep_ops_rpms (v : pyval) : pyval :=
  match v with PList ops => run_ops step_rpms rpms_json [] ops | _ => bad_input end.
Definition ep_ops_modules (v : pyval) : pyval :=
  match v with PList ops => run_ops step_modules modules_json [] ops | _ => bad_input end.
Definition ep_ops_extra (v : pyval) : pyval :=
  match v with PList ops => run_ops step_extra extra_json [] ops | _ => bad_input end.

(* extra files: build by ops, then dump_for_tree *)
Definition ep_dump_for_tree (v : pyval) : pyval :=
  match v with
  | PList [PList ops; PStr variant; PStr arch; PStr base] =>
      let st := fold_left (fun st op => match step_extra st op with Some (Ok st') => st' | _ => st end) ops [] in
      out_result (fun l => PList (map extra_entry_json l)) (dump_for_tree st variant arch base)
  | _ => bad_input
  end.

Definition ep_relative_to (v : pyval) : pyval :=
  match v with PList [PStr p; PStr r] => PStr (relative_to p r) | _ => bad_input end.

Definition entries_ops : list (str * (pyval -> pyval)) :=
  [ (lit "ops_rpms", ep_ops_rpms); (lit "ops_modules", ep_ops_modules); (lit "ops_extra", ep_ops_extra);
    (lit "dump_for_tree", ep_dump_for_tree); (lit "relative_to", ep_relative_to) ].
