(* productmd.common: is_valid_release_*, create_release_id, parse_release_id.
   The three predicates ARE the regenerated regexes run by the generic matcher. *)
From PM Require Export Base.PyVal Base.Regex.
From PM Require Import Gen.Regexes Gen.Tables.

Definition ga : str := Eval cbv in lit "ga".

Definition valid_short (s : str) : bool := re_matches re_release_short s.
Definition valid_version (s : str) : bool := re_matches re_release_version s.
Definition valid_type (s : str) : bool := re_matches re_release_type s.

Definition create_part (short version type : str) : result str :=
  if negb (valid_short short) then Err ValueError
  else if negb (valid_version version) then Err ValueError
  else if negb (valid_type type) then Err ValueError
  else Ok (if str_eqb type ga then short ++ c_dash :: version
           else short ++ c_dash :: version ++ c_dash :: type).

(* bp = None models a falsy bp_short *)
Definition create_release_id (short version type : str) (bp : option (str * str * str)) : result str :=
  do r <- create_part short version type;
  match bp with
  | None => Ok r
  | Some (bs, bv, bt) => do b <- create_part bs bv bt; Ok (r ++ c_at :: b)
  end.

Fixpoint find_type (types : list str) (id : str) : option str :=
  match types with
  | [] => None
  | t :: ts => if endswith id (c_dash :: t) then Some t else find_type ts id
  end.

(* rsplit("-", 2) unpacked into exactly three names *)
Definition rsplit2 (id : str) : option (str * str * str) :=
  match split_last c_dash id with
  | None => None
  | Some (a, c) => match split_last c_dash a with
                   | None => None
                   | Some (a', b) => Some (a', b, c)
                   end
  end.

Definition parse_part (id : str) : result (str * str * str) :=
  if Nat.eqb (count c_dash id) 1 then
    match split_first c_dash id with
    | Some (s, v) => Ok (s, v, ga)
    | None => Err ValueError
    end
  else
    match find_type RELEASE_TYPES id with
    | Some t =>
        match rsplit2 (drop_last (length t) id) with
        | Some (s, v, _) => Ok (s, v, t)
        | None => Err ValueError
        end
    | None =>
        match split_last c_dash id with
        | None => Err ValueError
        | Some (a, last) =>
            if valid_type last then
              match split_last c_dash a with
              | Some (s, v) => Ok (s, v, last)
              | None => Err ValueError
              end
            else Ok (a, last, ga)
        end
    end.

Definition parse_release_id (id : str) : result ((str * str * str) * option (str * str * str)) :=
  if memc c_at id then
    match split c_at id with
    | [r; b] => do pr <- parse_part r; do pb <- parse_part b; Ok (pr, Some pb)
    | _ => Err ValueError
    end
  else do pr <- parse_part id; Ok (pr, None).
