(* marshalling helpers for model entry points: every entry is pyval -> pyval *)
From PM Require Export Base.PyVal.

Definition exc_name (e : exc) : str :=
  match e with
  | TypeError => lit "TypeError" | ValueError => lit "ValueError" | KeyError => lit "KeyError"
  | AttributeError => lit "AttributeError" | IndexError => lit "IndexError"
  | UnboundLocalError => lit "UnboundLocalError" | RuntimeError => lit "RuntimeError"
  | OtherError => lit "OtherError"
  end.

Definition out_ok (v : pyval) : pyval := PList [PStr (lit "ok"); v].
Definition out_err (e : exc) : pyval := PList [PStr (lit "err"); PStr (exc_name e)].
Definition out_result {A} (f : A -> pyval) (r : result A) : pyval :=
  match r with Ok a => out_ok (f a) | Err e => out_err e end.
Definition bad_input : pyval := PList [PStr (lit "bad-input")].

Definition PN (n : N) : pyval := PInt (Z.of_N n).
Definition p_opt {A} (f : A -> pyval) (o : option A) : pyval := match o with Some a => f a | None => PNone end.
Definition p_strs (l : list str) : pyval := PList (map PStr l).

Definition get_str (v : pyval) : option str := match v with PStr s => Some s | _ => None end.
Definition get_N (v : pyval) : option N := match v with PInt z => if Z.ltb z 0 then None else Some (Z.to_N z) | _ => None end.
Definition get_opt_str (v : pyval) : option (option str) :=
  match v with PNone => Some None | PStr s => Some (Some s) | _ => None end.
Definition get_opt_N (v : pyval) : option (option N) :=
  match v with PNone => Some None | PInt z => if Z.ltb z 0 then None else Some (Some (Z.to_N z)) | _ => None end.
Fixpoint get_strs (l : list pyval) : option (list str) :=
  match l with
  | [] => Some []
  | PStr s :: l' => match get_strs l' with Some r => Some (s :: r) | None => None end
  | _ => None
  end.
