(* entry points for document-level checks (dump / load / round trip) *)
From PM Require Import Model.EntryBase Model.Manifests Model.Common Model.ManifestDocs Model.Images Model.EntryOps Base.Json Model.CiNormalB.

Definition doc_and_text (d : pyval) : pyval := PList [d; PStr (print_json d)].

Definition build {S} (step : S -> pyval -> option (result S)) (init : S) (ops : list pyval) : S :=
  fold_left (fun st op => match step st op with Some (Ok st') => st' | _ => st end) ops init.

(* dump, load back, dump again *)
Definition roundtrip (dump : obj -> pyval -> result pyval) (load : pyval -> result (obj * pyval)) (compose : obj) (payload : pyval) : pyval :=
  match dump compose payload with
  | Err e => out_err e
  | Ok d =>
      out_ok (PList [PStr (print_json d);
                     match load d with
                     | Err e => out_err e
                     | Ok (c2, p2) => out_ok (PList [PDict c2; p2; out_result (fun d2 => PStr (print_json d2)) (dump c2 p2)])
                     end])
  end.

Definition ep_roundtrip_rpms (v : pyval) : pyval :=
  match v with
  | PList [PDict compose; PList ops] => roundtrip dump_rpms load_rpms compose (rpms_json (build step_rpms [] ops))
  | _ => bad_input
  end.
Definition ep_roundtrip_modules (v : pyval) : pyval :=
  match v with
  | PList [PDict compose; PList ops] => roundtrip dump_modules load_modules compose (modules_json (build step_modules [] ops))
  | _ => bad_input
  end.
Definition ep_roundtrip_extra (v : pyval) : pyval :=
  match v with
  | PList [PDict compose; PList ops] => roundtrip dump_extra load_extra compose (extra_json (build step_extra [] ops))
  | _ => bad_input
  end.

(* load an arbitrary document; describe what the caller gets and its re-dump *)
Definition describe_plain (dump : obj -> pyval -> result pyval) (r : obj * pyval) : pyval :=
  PList [PDict (fst r); snd r; out_result (fun d2 => PStr (print_json d2)) (dump (fst r) (snd r))].

Definition ep_load_rpms (v : pyval) : pyval := out_result (describe_plain dump_rpms) (load_rpms v).
Definition ep_load_modules (v : pyval) : pyval := out_result (describe_plain dump_modules) (load_modules v).
Definition ep_load_extra (v : pyval) : pyval := out_result (describe_plain dump_extra) (load_extra v).

Definition ep_print_json (v : pyval) : pyval := PStr (print_json v).

Definition entries_docs : list (str * (pyval -> pyval)) :=
  [ (lit "roundtrip_rpms", ep_roundtrip_rpms); (lit "roundtrip_modules", ep_roundtrip_modules);
    (lit "roundtrip_extra", ep_roundtrip_extra);
    (lit "load_rpms", ep_load_rpms); (lit "load_modules", ep_load_modules); (lit "load_extra", ep_load_extra);
    (lit "print_json", ep_print_json) ].

(* ---------------- images: build by add calls, dump, load back, dump again *)
Definition ep_roundtrip_images (v : pyval) : pyval :=
  match v with
  | PList [ver; PDict compose; PList pool; PList ops] =>
      match get_pool O pool with
      | None => bad_input
      | Some pl =>
          let ver := match ver with PNone => current_version | _ => ver end in
          match version_tuple (lit "common.Header") ver with
          | Err e => out_err e
          | Ok vt =>
              let cells := build (step_images vt pl) [] ops in
              match dump_images {| im_version := ver; im_compose := compose; im_cells := cells |} with
              | Err e => out_err e
              | Ok d => out_ok (PList [PStr (print_json d);
                                       match load_images d with
                                       | Err e => out_err e
                                       | Ok st2 => out_ok (PList [describe_images st2;
                                                                  out_result (fun d2 => PStr (print_json d2)) (dump_images st2)])
                                       end])
              end
          end
      end
  | _ => bad_input
  end.

Definition entries_docs2 : list (str * (pyval -> pyval)) := [ (lit "roundtrip_images", ep_roundtrip_images) ].

(* ---------------- composeinfo *)
From PM Require Import Model.ComposeInfo.

(* tree description: [fields, paths, release, children {key: tree}] *)
Fixpoint get_tree (fuel : nat) (v : pyval) : option vtree :=
  match fuel with
  | O => None
  | S f =>
      match v with
      | PList [PDict fields; PDict paths; PDict rel; PDict children] =>
          let ps := map (fun kv => (fst kv, match snd kv with PDict d => d | _ => [] end)) paths in
          match (fix go (cs : list (str * pyval)) : option (list (str * vtree)) :=
                   match cs with
                   | [] => Some []
                   | (k, c) :: cs' => match get_tree f c, go cs' with
                                      | Some t, Some r => Some ((k, t) :: r)
                                      | _, _ => None
                                      end
                   end) children with
          | Some cs => Some (VT fields ps rel cs)
          | None => None
          end
      | _ => None
      end
  end.

Fixpoint put_tree (fuel : nat) (t : vtree) : pyval :=
  match fuel with
  | O => PNone
  | S f =>
      match t with
      | VT fields paths rel children =>
          PList [PDict fields; PDict (map (fun kv => (fst kv, PDict (snd kv))) paths); PDict rel;
                 PDict (map (fun kv => (fst kv, put_tree f (snd kv))) children)]
      end
  end.

Definition get_ci (v : pyval) : option ci :=
  match v with
  | PList [PDict compose; PDict release; PDict bp; PDict tops] =>
      match (fix go (cs : list (str * pyval)) : option (list (str * vtree)) :=
               match cs with
               | [] => Some []
               | (k, c) :: cs' => match get_tree 12 c, go cs' with
                                  | Some t, Some r => Some ((k, t) :: r)
                                  | _, _ => None
                                  end
               end) tops with
      | Some vs => Some {| ci_compose := compose; ci_release := release; ci_base_product := bp; ci_variants := vs |}
      | None => None
      end
  | _ => None
  end.

Definition put_ci (x : ci) : pyval :=
  PList [PDict (ci_compose x); PDict (ci_release x); PDict (ci_base_product x);
         PDict (map (fun kv => (fst kv, put_tree 12 (snd kv))) (ci_variants x))].

Definition ep_roundtrip_ci (v : pyval) : pyval :=
  match get_ci v with
  | None => bad_input
  | Some x =>
      match dump_ci x with
      | Err e => out_err e
      | Ok d => out_ok (PList [PStr (print_json d);
                               match load_ci d with
                               | Err e => out_err e
                               | Ok x2 => out_ok (PList [put_ci x2; out_result (fun d2 => PStr (print_json d2)) (dump_ci x2)])
                               end])
      end
  end.

Definition ep_load_ci (v : pyval) : pyval :=
  out_result (fun x => PList [put_ci x; out_result (fun d2 => PStr (print_json d2)) (dump_ci x)]) (load_ci v).

Definition ep_dump_ci (v : pyval) : pyval :=
  match get_ci v with
  | None => bad_input
  | Some x => out_result (fun d => PStr (print_json d)) (dump_ci x)
  end.

(* does the object loaded from this document meet the hypotheses of the C01 document theorem? [normal form; distinct UIDs] *)
Definition ep_ci_applicable (v : pyval) : pyval :=
  out_result (fun x => PList [PBool (CiNormalB.ci_normalb x); PBool (CiNormalB.ci_distinct_uidsb x)]) (load_ci v).

Definition entries_ci : list (str * (pyval -> pyval)) :=
  [ (lit "roundtrip_ci", ep_roundtrip_ci); (lit "load_ci", ep_load_ci); (lit "dump_ci", ep_dump_ci);
    (lit "ci_applicable", ep_ci_applicable) ].

(* ---------------- treeinfo / discinfo *)
From PM Require Import Model.TreeInfo Base.Ini Gen.Tables.

Definition dict_of (v : pyval) : list (str * pyval) := match v with PDict d => d | _ => [] end.
Definition fld_or_none (d : list (str * pyval)) (k : str) : pyval := dflt PNone (assoc k d).

Fixpoint get_tvar (fuel : nat) (v : pyval) : option tvar :=
  match fuel with
  | O => None
  | S f =>
      match v with
      | PDict d =>
          let fields := [(lit "id", fld_or_none d (lit "id")); (lit "uid", fld_or_none d (lit "uid"));
                         (lit "name", fld_or_none d (lit "name")); (lit "type", fld_or_none d (lit "type"))] in
          let pd := dict_of (fld_or_none d (lit "paths")) in
          let paths := map (fun field => (field, fld_or_none pd field)) TI_PATH_FIELDS in
          match (fix go (cs : list (str * pyval)) : option (list (str * tvar)) :=
                   match cs with
                   | [] => Some []
                   | (k, c) :: cs' => match get_tvar f c, go cs' with Some t, Some r => Some ((k, t) :: r) | _, _ => None end
                   end) (dict_of (fld_or_none d (lit "children"))) with
          | Some cs => Some (TV fields paths cs)
          | None => None
          end
      | _ => None
      end
  end.

Fixpoint put_tvar (fuel : nat) (t : tvar) : pyval :=
  match fuel with
  | O => PNone
  | S f =>
      match t with
      | TV fields paths children =>
          PDict (fields ++ [(lit "paths", PDict (filter (fun kv => match snd kv with PNone => false | _ => true end) paths));
                            (lit "children", PDict (map (fun kv => (fst kv, put_tvar f (snd kv))) children))])
      end
  end.

Definition get_ti (v : pyval) : option ti :=
  match v with
  | PDict d =>
      let sub k := dict_of (fld_or_none d k) in
      match (fix go (cs : list (str * pyval)) : option (list (str * tvar)) :=
               match cs with
               | [] => Some []
               | (k, c) :: cs' => match get_tvar 12 c, go cs' with Some t, Some r => Some ((k, t) :: r) | _, _ => None end
               end) (sub (lit "variants")) with
      | None => None
      | Some vs =>
          Some {| ti_release := sub (lit "release");
                  ti_base_product := match fld_or_none d (lit "base_product") with
                                     | PDict b => b
                                     | _ => [(lit "name", PNone); (lit "short", PNone); (lit "version", PNone)]
                                     end;
                  ti_tree := sub (lit "tree");
                  ti_variants := vs;
                  ti_checksums := map (fun kv => (fst kv, match snd kv with PList [a; b] => (a, b) | _ => (PNone, PNone) end)) (sub (lit "checksums"));
                  ti_images := map (fun kv => (fst kv, dict_of (snd kv))) (sub (lit "images"));
                  ti_stage2 := sub (lit "stage2");
                  ti_media := sub (lit "media") |}
      end
  | _ => None
  end.

Definition put_ti (x : ti) : pyval :=
  PDict [(lit "release", PDict (ti_release x));
         (lit "base_product", PDict (ti_base_product x));
         (lit "tree", PDict (ti_tree x));
         (lit "variants", PDict (map (fun kv => (fst kv, put_tvar 12 (snd kv))) (ti_variants x)));
         (lit "checksums", PDict (map (fun kv => (fst kv, PList [fst (snd kv); snd (snd kv)])) (ti_checksums x)));
         (lit "images", PDict (map (fun kv => (fst kv, PDict (snd kv))) (ti_images x)));
         (lit "stage2", PDict (ti_stage2 x));
         (lit "media", PDict (ti_media x))].

Definition ep_dump_ti (v : pyval) : pyval :=
  match v with
  | PList [d; mv] =>
      match get_ti d, get_opt_str mv with
      | Some x, Some m => out_result PStr (dump_ti x m)
      | _, _ => bad_input
      end
  | _ => bad_input
  end.

Definition get_ini (v : pyval) : option ini :=
  match v with
  | PDict secs =>
      (fix go (l : list (str * pyval)) : option ini :=
         match l with
         | [] => Some []
         | (s, PDict opts) :: l' =>
             match (fix go2 (o : list (str * pyval)) : option (list (str * str)) :=
                      match o with
                      | [] => Some []
                      | (k, PStr x) :: o' => match go2 o' with Some r => Some ((k, x) :: r) | None => None end
                      | _ => None
                      end) opts, go l' with
             | Some os, Some r => Some ((s, os) :: r)
             | _, _ => None
             end
         | _ => None
         end) secs
  | _ => None
  end.

(* section table (as the real parser produced it) -> loaded tree described, and its re-dump *)
Definition ep_load_ti (v : pyval) : pyval :=
  match get_ini v with
  | None => bad_input
  | Some t => out_result (fun x => PList [put_ti x; out_result PStr (dump_ti x None)]) (deser_ti t)
  end.

Definition ep_dump_di (v : pyval) : pyval :=
  match v with
  | PDict d => out_result PStr (dump_di {| di_timestamp := fld_or_none d (lit "timestamp"); di_description := fld_or_none d (lit "description");
                                           di_arch := fld_or_none d (lit "arch"); di_disc_numbers := fld_or_none d (lit "disc_numbers") |})
  | _ => bad_input
  end.

Definition ep_di_applicable (v : pyval) : pyval :=
  match v with
  | PDict d => PBool (di_applicableb {| di_timestamp := fld_or_none d (lit "timestamp"); di_description := fld_or_none d (lit "description");
                                        di_arch := fld_or_none d (lit "arch"); di_disc_numbers := fld_or_none d (lit "disc_numbers") |})
  | _ => bad_input
  end.

Definition ep_load_di (v : pyval) : pyval :=
  match v with
  | PStr text => out_result (fun d => PList [di_timestamp d; di_description d; di_arch d; di_disc_numbers d;
                                             out_result PStr (dump_di d)]) (load_di text)
  | _ => bad_input
  end.

From PM Require Import Model.TreeInfo00.
Definition ep_release_00 (v : pyval) : pyval :=
  match v with
  | PList [PStr family; PStr version] =>
      let '(n, s, ver) := release_00 family version in PList [PStr n; PStr s; PStr ver]
  | _ => bad_input
  end.

Definition p_ostr (o : option str) : pyval := match o with Some s => PStr s | None => PNone end.
Definition ep_paths_00 (v : pyval) : pyval :=
  match v with
  | PList [PStr short; PStr version; PStr vid; PStr arch; repo; pkgs] =>
      match get_opt_str repo, get_opt_str pkgs with
      | Some r, Some p =>
          let '(a, b, c, d) := paths_00 short version vid arch r p in PList [p_ostr a; p_ostr b; p_ostr c; p_ostr d]
      | _, _ => bad_input
      end
  | _ => bad_input
  end.

(* the INI writer alone, on a section table *)
Definition ep_print_ini (v : pyval) : pyval :=
  match get_ini v with Some t => PStr (print_ini t) | None => bad_input end.

Definition entries_ti : list (str * (pyval -> pyval)) :=
  [ (lit "dump_ti", ep_dump_ti); (lit "load_ti", ep_load_ti); (lit "dump_di", ep_dump_di); (lit "load_di", ep_load_di); (lit "di_applicable", ep_di_applicable); (lit "print_ini", ep_print_ini);
    (lit "release_00", ep_release_00);
    (lit "paths_00", ep_paths_00) ].

(* ---------------- checksums *)
From PM Require Import Model.Checksums.

Definition ep_normpath (v : pyval) : pyval := match v with PStr s => PStr (normpath s) | _ => bad_input end.

Definition ep_add_checksum_ops (v : pyval) : pyval :=
  match v with
  | PList [PDict cs; PList ops] =>
      PList (snd (fold_left (fun acc op =>
                    let '(st, out) := acc in
                    match op with
                    | PList [PStr ty; value] =>
                        match image_add_checksum st ty value with
                        | Ok (st', r) => (st', out ++ [PList [PStr (lit "ok"); r; PDict st']])
                        | Err e => (st, out ++ [PList [PStr (lit "err"); PStr (exc_name e); PDict st]])
                        end
                    | _ => (st, out ++ [bad_input])
                    end) ops (cs, [])))
  | _ => bad_input
  end.

Definition ep_checksums_add_ops (v : pyval) : pyval :=
  match v with
  | PList ops =>
      PList (snd (fold_left (fun acc op =>
                    let '(st, out) := acc in
                    let snap st := PDict (map (fun kv => (fst kv, PList [fst (snd kv); snd (snd kv)])) st) in
                    match op with
                    | PList [PStr path; ty; value] =>
                        match checksums_add st path ty value with
                        | Ok st' => (st', out ++ [PList [PStr (lit "ok"); snap st']])
                        | Err e => (st, out ++ [PList [PStr (lit "err"); PStr (exc_name e); snap st]])
                        end
                    | _ => (st, out ++ [bad_input])
                    end) ops ([], [])))
  | _ => bad_input
  end.

Definition entries_cs : list (str * (pyval -> pyval)) :=
  [ (lit "normpath", ep_normpath); (lit "add_checksum_ops", ep_add_checksum_ops); (lit "checksums_add_ops", ep_checksums_add_ops) ].

(* ---------------- compose directory *)
From PM Require Import Model.ComposeDir.

(* [p; existing paths; listing of p] -> compose_path and, per accessor, the file that would be loaded *)
Definition ep_resolve (v : pyval) : pyval :=
  match v with
  | PList [PStr p; PList ex; PList ls] =>
      match get_strs ex, get_strs ls with
      | Some exs, Some lss =>
          let exists_ q := mem_str q exs in
          let cp := resolve exists_ (fun _ => lss) p in
          let f names := out_result PStr (find_file exists_ cp names) in
          PList [PStr cp; f names_info; f names_images; f names_rpms; f names_modules]
      | _, _ => bad_input
      end
  | _ => bad_input
  end.

Definition entries_dir : list (str * (pyval -> pyval)) := [ (lit "resolve", ep_resolve) ].
