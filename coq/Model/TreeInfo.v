(* productmd.treeinfo: the current-format writer (incl. the [general] compatibility section) and the >= 1.0 reader *)
From PM Require Export Model.Common Model.Variants Model.ComposeInfo Base.Ini.
From PM Require Import Gen.Tables Gen.Regexes.

Inductive tvar := TV (fields : obj) (paths : obj) (children : list (str * tvar)).
Definition tv_fields (t : tvar) : obj := match t with TV f _ _ => f end.
Definition tv_paths (t : tvar) : obj := match t with TV _ p _ => p end.
Definition tv_children (t : tvar) := match t with TV _ _ c => c end.

Record ti := {
  ti_release : obj; ti_base_product : obj; ti_tree : obj;
  ti_variants : list (str * tvar);
  ti_checksums : list (str * (pyval * pyval));
  ti_images : list (str * list (str * pyval));
  ti_stage2 : obj; ti_media : obj }.

(* ---- hand-modelled validators *)
Definition custom_ti_variant_id (o : obj) : result unit :=
  match getf o (F"id") with
  | PStr s => guard (negb (memc c_dash s)) ValueError
  | _ => Err TypeError
  end.

Definition custom_ti_variant_uid (o : obj) : result unit :=
  match getf o (F"_has_parent") with
  | PBool true =>
      guard (py_eq (getf o (F"uid")) (PStr (fmt_s (getf o (F"_parent_uid")) ++ c_dash :: fmt_s (getf o (F"id"))))) ValueError
  | _ => Ok tt
  end.

Definition is_abs (v : pyval) : result bool :=
  match v with PStr s => Ok (startswith s [c_slash]) | _ => Err AttributeError end.

Definition custom_image_paths (o : obj) : result unit :=
  match getf o (F"_image_paths") with
  | PList l => iterM (fun p => do a <- is_abs p; guard (negb a) ValueError) l
  | _ => Ok tt
  end.

Definition custom_image_platforms (o : obj) : result unit :=
  match getf o (F"_image_platforms"), getf o (F"_tree_platforms") with
  | PList ps, PList tp => guard (forallb (fun p => py_in p tp) ps) ValueError
  | _, _ => Ok tt
  end.

Definition custom_stage2_mainimage (o : obj) : result unit :=
  let m := getf o (F"mainimage") in
  if truthy m then
    match m with PStr s => guard (negb (startswith s [c_slash])) ValueError | _ => Err TypeError end
  else Ok tt.

Definition custom_checksum_paths (o : obj) : result unit :=
  match getf o (F"_checksum_paths") with
  | PList l => iterM (fun p => do a <- is_abs p; guard (negb a) ValueError) l
  | _ => Ok tt
  end.

Definition customs_ti (q : str) : option (obj -> result unit) :=
  if str_eqb q (F"treeinfo.Variant._validate_id") then Some custom_ti_variant_id
  else if str_eqb q (F"treeinfo.Variant._validate_uid") then Some custom_ti_variant_uid
  else if str_eqb q (F"treeinfo.Images._validate_image_paths") then Some custom_image_paths
  else if str_eqb q (F"treeinfo.Images._validate_platforms") then Some custom_image_platforms
  else if str_eqb q (F"treeinfo.Stage2._validate_mainimage") then Some custom_stage2_mainimage
  else if str_eqb q (F"treeinfo.Checksums._validate_checksum_paths") then Some custom_checksum_paths
  else customs_ci q.

Definition tvalidate (cls : str) (o : obj) : result unit := validate_with customs_ti cls o.

(* ---- writer *)
Definition sets (t : ini) (s : str) (kvs : list (str * pyval)) : result ini :=
  fold_left (fun acc kv => do t' <- acc; ini_set t' s (fst kv) (snd kv)) kvs (Ok t).

Definition join_strs (sep : str) (l : list pyval) : str :=
  join sep (map (fun v => match v with PStr s => s | _ => [] end) l).

Definition platforms_str (tree : obj) : str :=
  let ps := match getf tree (F"platforms") with PList l => l | _ => [] end in
  join_strs [c_comma] (sort_set (getf tree (F"arch") :: ps)).

Definition py_str_num (v : pyval) : result str :=
  match v with
  | PInt z => Ok (show_Z z)
  | PBool true => Ok (lit "True") | PBool false => Ok (lit "False")
  | PFloat t => Ok t
  | _ => Err OtherError
  end.

Definition tv_section (f : obj) : str :=
  (if py_eq (getf f (F"type")) (PStr (F"addon")) then lit "addon-" else lit "variant-") ++ fmt_s (getf f (F"uid")).

Definition tv_child_entry (top : bool) (kv : str * tvar) : pyval :=
  let f := tv_fields (snd kv) in
  PList [PStr (fst kv); getf f (F"id"); getf f (F"uid"); PBool top; getf f (F"type")].

Definition tv_ctx (parent_uid : option pyval) (t : tvar) : obj :=
  tv_fields t ++
  [(F"_has_parent", PBool (match parent_uid with Some _ => true | None => false end));
   (F"_parent_uid", match parent_uid with Some u => u | None => PNone end);
   (F"_children", PList (map (tv_child_entry false) (sort_keys (tv_children t))))].

Fixpoint ser_tvar (parent_uid : option pyval) (t : tvar) (p : ini) : result ini :=
  match t with
  | TV f paths children =>
      check tvalidate (F"treeinfo.Variant") (tv_ctx parent_uid t);
      let sec := tv_section f in
      do p1 <- add_section p sec;
      do p2 <- sets p1 sec [(F"id", getf f (F"id")); (F"uid", getf f (F"uid")); (F"name", getf f (F"name")); (F"type", getf f (F"type"))];
      check tvalidate (F"treeinfo.VariantPaths") [];
      do p3 <- fold_left (fun acc field => do q <- acc;
                           match getf paths field with PNone => Ok q | v => ini_set q sec field v end) TI_PATH_FIELDS (Ok p2);
      (* `if self.parent:` - a parent that holds this variant is truthy *)
      do p4 <- match parent_uid with Some u => ini_set p3 sec (F"parent") u | None => Ok p3 end;
      do p5 <- (fix go (cs : list (str * tvar)) (q : ini) : result ini :=
                  match cs with
                  | [] => Ok q
                  | (_, c) :: cs' => do q' <- ser_tvar (Some (getf f (F"uid"))) c q; go cs' q'
                  end) children p4;
      match children with
      | [] => Ok p5
      | _ => ini_set p5 sec (F"addons")
                     (PStr (join_strs [c_comma] (sort_set (map (fun kv => getf (tv_fields (snd kv)) (F"uid")) children))))
      end
  end.

Definition ti_mtype : str := HEADER_TYPE_treeinfo.

Definition images_ctx (x : ti) : obj :=
  [(F"_image_paths", PList (flat_map (fun pi => map snd (snd pi)) (ti_images x)));
   (F"_image_platforms", PList (map (fun pi => PStr (fst pi)) (sort_keys (ti_images x))));
   (F"_tree_platforms", match getf (ti_tree x) (F"platforms") with PList l => PList l | _ => PList [] end)].

Definition lookup_top (x : ti) (name : str) : result tvar := of_option KeyError (assoc name (ti_variants x)).

Definition ser_general (x : ti) (main_variant : option str) (p : ini) : result ini :=
  let g := F"general" in
  let rel := ti_release x in let tree := ti_tree x in
  do p0 <- add_section p g;
  do ts <- py_int (getf tree (F"build_timestamp"));
  do ts_s <- py_str_num ts;
  do p1 <- sets p0 g
    [(F"; WARNING.0", PStr (F"This section provides compatibility with pre-productmd treeinfos."));
     (F"; WARNING.1", PStr (F"Read productmd documentation for details about new format."));
     (F"name", PStr (fmt_s (getf rel (F"name")) ++ 32 :: fmt_s (getf rel (F"version"))));
     (F"family", getf rel (F"name")); (F"version", getf rel (F"version"));
     (F"arch", getf tree (F"arch")); (F"platforms", PStr (platforms_str tree)); (F"timestamp", PStr ts_s)];
  let keys := map fst (sort_keys (ti_variants x)) in
  do p2 <- ini_set p1 g (F"variants") (PStr (join [c_comma] keys));
  do variant <- match main_variant with
                | Some v => Ok v
                | None => match keys with k :: _ => Ok k | [] => Err IndexError end
                end;
  do p3 <- ini_set p2 g (F"variant") (PStr variant);
  do v <- lookup_top x variant;
  let paths := tv_paths v in
  let is_src := py_eq (getf tree (F"arch")) (PStr (F"src")) in
  do p4 <- match getf paths (F"packages") with
           | PNone => if is_src then match getf paths (F"source_packages") with PNone => Ok p3 | s => ini_set p3 g (F"packagedir") s end
                      else Ok p3
           | pk => ini_set p3 g (F"packagedir") pk
           end;
  match getf paths (F"repository") with
  | PNone => if is_src then match getf paths (F"source_repository") with PNone => Ok p4 | s => ini_set p4 g (F"repository") s end
             else Ok p4
  | r => ini_set p4 g (F"repository") r
  end.

Definition ser_ti (x : ti) (main_variant : option str) : result ini :=
  check tvalidate (F"treeinfo.TreeInfo") [];
  (* header *)
  check tvalidate (F"treeinfo.Header") (header_obj (PStr (F"0.0")));
  do p0 <- add_section [] (F"header");
  do p1 <- sets p0 (F"header") [(F"version", current_version); (F"type", PStr ti_mtype)];
  (* release *)
  let rel := ti_release x in
  check tvalidate (F"treeinfo.Release") rel;
  do p2 <- add_section p1 (F"release");
  do p3 <- sets p2 (F"release") [(F"name", getf rel (F"name")); (F"version", getf rel (F"version")); (F"short", getf rel (F"short"))];
  do p4 <- (if truthy (getf rel (F"is_layered")) then ini_set p3 (F"release") (F"is_layered") (PStr (F"true")) else Ok p3);
  do p5 <- (if truthy (getf rel (F"is_layered")) then
              let bp := ti_base_product x in
              check tvalidate (F"treeinfo.BaseProduct") bp;
              do q <- add_section p4 (F"base_product");
              sets q (F"base_product") [(F"name", getf bp (F"name")); (F"version", getf bp (F"version")); (F"short", getf bp (F"short"))]
            else Ok p4);
  (* tree *)
  let tree := ti_tree x in
  check tvalidate (F"treeinfo.Tree") tree;
  do p6 <- add_section p5 (F"tree");
  do ts_s <- py_str_num (getf tree (F"build_timestamp"));
  do p7 <- sets p6 (F"tree") [(F"arch", getf tree (F"arch")); (F"platforms", PStr (platforms_str tree)); (F"build_timestamp", PStr ts_s)];
  (* variants *)
  check tvalidate (F"treeinfo.Variants") [(F"_children", PList (map (tv_child_entry true) (sort_keys (ti_variants x))))];
  do p8 <- ini_set p7 (F"tree") (F"variants")
             (PStr (join_strs [c_comma] (sort_list (map (fun kv => getf (tv_fields (snd kv)) (F"uid")) (ti_variants x)))));
  do p9 <- fold_left (fun acc kv => do q <- acc; ser_tvar None (snd kv) q) (ti_variants x) (Ok p8);
  (* checksums *)
  check tvalidate (F"treeinfo.Checksums") [(F"_checksum_paths", PList (map (fun c => PStr (fst c)) (ti_checksums x)))];
  do p10 <- match ti_checksums x with
            | [] => Ok p9
            | cs => do q <- add_section p9 (F"checksums");
                    fold_left (fun acc c => do q' <- acc;
                                 ini_set q' (F"checksums") (fst c) (PStr (fmt_s (fst (snd c)) ++ c_colon :: fmt_s (snd (snd c))))) cs (Ok q)
            end;
  (* images *)
  do p11 <- match ti_images x with
            | [] => Ok p10
            | ims =>
                check tvalidate (F"treeinfo.Images") (images_ctx x);
                fold_left (fun acc pi => do q <- acc;
                             let sec := lit "images-" ++ fst pi in
                             do q1 <- add_section q sec;
                             sets q1 sec (snd pi)) ims (Ok p10)
            end;
  (* stage2 *)
  let s2 := ti_stage2 x in
  do p12 <- (if negb (truthy (getf s2 (F"mainimage"))) && negb (truthy (getf s2 (F"instimage"))) then Ok p11 else
               check tvalidate (F"treeinfo.Stage2") s2;
               do q <- add_section p11 (F"stage2");
               do q1 <- (if truthy (getf s2 (F"mainimage")) then ini_set q (F"stage2") (F"mainimage") (getf s2 (F"mainimage")) else Ok q);
               (if truthy (getf s2 (F"instimage")) then ini_set q1 (F"stage2") (F"instimage") (getf s2 (F"instimage")) else Ok q1));
  (* media *)
  let md := ti_media x in
  do p13 <- (if negb (truthy (getf md (F"discnum"))) && negb (truthy (getf md (F"totaldiscs"))) then Ok p12 else
               check tvalidate (F"treeinfo.Media") md;
               do q <- add_section p12 (F"media");
               do dn <- py_int (getf md (F"discnum")); do dn_s <- py_str_num dn;
               do td <- py_int (getf md (F"totaldiscs")); do td_s <- py_str_num td;
               sets q (F"media") [(F"discnum", PStr dn_s); (F"totaldiscs", PStr td_s)]);
  ser_general x main_variant p13.

Definition dump_ti (x : ti) (main_variant : option str) : result str :=
  check tvalidate (F"treeinfo.TreeInfo") [];
  do p <- ser_ti x main_variant;
  Ok (print_ini p).

(* ---- reader (format >= 1.0) *)
Definition split_nonempty (s : str) : list str := filter (fun x => match x with [] => false | _ => true end) (split c_comma s).

Definition float_text_to_int (s : str) : result pyval :=
  let s' := strip_ws s in
  match split_first c_dot s' with
  | Some (ip, fr) => if forallb is_digit fr then py_int (PStr ip) else Err OtherError
  | None => py_int (PStr s')
  end.

Definition opt_get (t : ini) (s o : str) : pyval :=
  match assoc s t with Some opts => match assoc o opts with Some v => PStr v | None => PNone end | None => PNone end.

Definition fresh_paths : obj := map (fun f => (f, PNone)) TI_PATH_FIELDS.

(* Variant.deserialize + deserialize_1_0 + paths; [addon] = reached through a parent's addons list *)
Fixpoint deser_tvar (fuel : nat) (src03 : bool) (t : ini) (parent_uid : option pyval) (uid : str) (addon : bool) : result tvar :=
  match fuel with
  | O => Err OtherError
  | S fuel' =>
      check guard (match uid with [] => false | _ => true end) ValueError;
      let sec0 := (if addon then lit "addon-" else lit "variant-") ++ uid in
      (* child variants that are not addons are written to [variant-UID] *)
      let sec := if addon && negb (has_section t sec0) && has_section t (lit "variant-" ++ uid) then lit "variant-" ++ uid else sec0 in
      do id <- ini_get t sec (F"id");
      do uid' <- ini_get t sec (F"uid");
      do name <- ini_get t sec (F"name");
      do ty <- ini_get t sec (F"type");
      let f := [(F"id", PStr id); (F"uid", PStr uid'); (F"name", PStr name); (F"type", PStr ty)] in
      let sec' := tv_section f in
      do children <-
        (if has_option t sec' (F"addons") then
           do al <- ini_get t sec' (F"addons");
           fold_left (fun acc cu =>
             do cs <- acc;
             do c <- deser_tvar fuel' src03 t (Some (PStr uid')) cu true;
             (* self.add(variant): validate under this parent, key by id *)
             check tvalidate (F"treeinfo.Variant") (tv_ctx (Some (PStr uid')) c);
             do ckey <- match getf (tv_fields c) (F"id") with PStr s => Ok s | _ => Err TypeError end;
             match assoc ckey cs with Some _ => Err ValueError | None => Ok (cs ++ [(ckey, c)]) end)
             (split_nonempty al) (Ok [])
         else Ok []);
      let paths0 := map (fun field => (field, opt_get t sec' field)) TI_PATH_FIELDS in
      (* a source tree of format <= 0.3 names its source packages / repository plainly *)
      let paths := if src03 then
                     setf (setf (setf (setf paths0 (F"source_packages") (getf paths0 (F"packages")))
                                      (F"source_repository") (getf paths0 (F"repository")))
                                (F"packages") PNone) (F"repository") PNone
                   else paths0 in
      check tvalidate (F"treeinfo.VariantPaths") [];
      Ok (TV f paths children)
  end.

Definition typed_checksum (value : str) : result (pyval * pyval) :=
  if memc c_colon value then
    match split c_colon value with
    | [a; b] => Ok (PStr a, PStr b)
    | _ => Err ValueError
    end
  else
    let n := length value in
    if Nat.eqb n 32 then Ok (PStr (F"md5"), PStr value)
    else if Nat.eqb n 40 then Ok (PStr (F"sha1"), PStr value)
    else if Nat.eqb n 64 then Ok (PStr (F"sha256"), PStr value)
    else Err ValueError.

Definition deser_ti (t : ini) : result ti :=
  (* header *)
  do vt <- (if has_option t (F"header") (F"version") then
              do v <- ini_get t (F"header") (F"version");
              do vt <- version_tuple (F"treeinfo.Header") (PStr v);
              check (if vt_leb (1, 1) vt then do ty <- ini_get t (F"header") (F"type"); guard (str_eqb ty ti_mtype) ValueError else Ok tt);
              Ok vt
            else Ok (0, 0)%N);
  check guard (negb (vt_eqb vt (0, 0))) OtherError;      (* pre-productmd trees: not modelled here *)
  (* release: [product] up to format 0.3 *)
  let rsec := if vt_leb vt (0, 3) then F"product" else F"release" in
  do rname <- ini_get t rsec (F"name");
  do rver <- ini_get t rsec (F"version");
  do rshort <- (if vt_leb vt (0, 3) then ini_get t rsec (F"short")
                else if has_option t rsec (F"short") then ini_get t rsec (F"short") else Ok rname);
  do lay <- (if has_option t rsec (F"is_layered") then do s <- ini_get t rsec (F"is_layered"); ini_getboolean s else Ok false);
  let rel := [(F"name", PStr rname); (F"short", PStr rshort); (F"version", PStr rver); (F"is_layered", PBool lay)] in
  check tvalidate (F"treeinfo.Release") rel;
  do bp <- (if lay then
              do n <- ini_get t (F"base_product") (F"name");
              do v <- ini_get t (F"base_product") (F"version");
              do s <- ini_get t (F"base_product") (F"short");
              let b := [(F"name", PStr n); (F"short", PStr s); (F"version", PStr v)] in
              check tvalidate (F"treeinfo.BaseProduct") b; Ok b
            else Ok [(F"name", PNone); (F"short", PNone); (F"version", PNone)]);
  (* tree *)
  let tsec := if has_section t (F"tree") then F"tree" else F"general" in
  do arch <- ini_get t tsec (F"arch");
  do plats <- ini_get t tsec (F"platforms");
  do ts <- (if str_eqb tsec (F"tree") then do s <- ini_get t (F"tree") (F"build_timestamp"); float_text_to_int s else Ok (PInt (-1)));
  let tree := [(F"arch", PStr arch); (F"build_timestamp", ts); (F"platforms", PList (sort_set (map PStr (split_nonempty plats))))] in
  check tvalidate (F"treeinfo.Tree") tree;
  (* variants *)
  do vids <- (if has_option t (F"tree") (F"variants") then do s <- ini_get t (F"tree") (F"variants"); Ok (split c_comma s) else Ok []);
  do variants <-
    fold_left (fun acc vid =>
      do vs <- acc;
      do v <- deser_tvar (S (length t)) (vt_leb vt (0, 3) && str_eqb arch (F"src")) t None vid false;
      check tvalidate (F"treeinfo.Variant") (tv_ctx None v);
      let key := fmt_s (getf (tv_fields v) (F"uid")) in
      match assoc key vs with Some _ => Err ValueError | None => Ok (vs ++ [(key, v)]) end) vids (Ok []);
  check tvalidate (F"treeinfo.Variants") [(F"_children", PList (map (tv_child_entry true) (sort_keys variants)))];
  (* checksums *)
  do checksums <-
    match assoc (F"checksums") t with
    | Some opts => fold_left (fun acc kv => do cs <- acc; do tc <- typed_checksum (snd kv); Ok (assoc_set (fst kv) tc cs)) (sort_opts opts) (Ok [])
    | None => Ok []
    end;
  check tvalidate (F"treeinfo.Checksums") [(F"_checksum_paths", PList (map (fun c => PStr (fst c)) checksums))];
  (* images *)
  let images :=
    fold_left (fun acc sec =>
      if startswith (fst sec) (lit "images-") then
        let plat0 := skipn 7 (fst sec) in
        let sfx := c_dash :: arch in
        let plat := if negb (str_eqb plat0 arch) && endswith plat0 sfx then drop_last (length sfx) plat0 else plat0 in
        assoc_set plat (map (fun kv => (fst kv, PStr (snd kv))) (sort_opts (snd sec))) acc
      else acc) (sort_secs t) [] in
  let x0 := {| ti_release := rel; ti_base_product := bp; ti_tree := tree; ti_variants := variants; ti_checksums := checksums;
               ti_images := images; ti_stage2 := []; ti_media := [] |} in
  check tvalidate (F"treeinfo.Images") (images_ctx x0);
  (* stage2 *)
  let s2 := [(F"mainimage", opt_get t (F"stage2") (F"mainimage")); (F"instimage", opt_get t (F"stage2") (F"instimage"))] in
  check tvalidate (F"treeinfo.Stage2") s2;
  (* media *)
  do md <- (if has_section t (F"media") then
              do a <- ini_get t (F"media") (F"discnum"); do a' <- py_int (PStr a);
              do b <- ini_get t (F"media") (F"totaldiscs"); do b' <- py_int (PStr b);
              Ok [(F"discnum", a'); (F"totaldiscs", b')]
            else Ok [(F"discnum", PNone); (F"totaldiscs", PNone)]);
  check tvalidate (F"treeinfo.Media") md;
  check tvalidate (F"treeinfo.TreeInfo") [];
  Ok {| ti_release := rel; ti_base_product := bp; ti_tree := tree; ti_variants := variants; ti_checksums := checksums;
        ti_images := images; ti_stage2 := s2; ti_media := md |}.

(* ---- discinfo *)
Definition strip_quotes (s : str) : str :=
  let q c := N.eqb c 34 || N.eqb c 39 in strip_right q (strip_left q s).

Record discinfo := { di_timestamp : pyval; di_description : pyval; di_arch : pyval; di_disc_numbers : pyval }.

Definition di_obj (d : discinfo) : obj :=
  [(F"timestamp", di_timestamp d); (F"description", di_description d); (F"arch", di_arch d); (F"disc_numbers", di_disc_numbers d)].

Definition custom_di_timestamp (o : obj) : result unit :=
  check guard (truthy (getf o (F"timestamp"))) ValueError;
  guard (has_tag (getf o (F"timestamp")) TFloat) TypeError.

Definition custom_di_disc_numbers (o : obj) : result unit :=
  check guard (truthy (getf o (F"disc_numbers"))) ValueError;
  guard (has_tag (getf o (F"disc_numbers")) TList) TypeError.

Definition customs_di (q : str) : option (obj -> result unit) :=
  if str_eqb q (F"discinfo.DiscInfo._validate_timestamp") then Some custom_di_timestamp
  else if str_eqb q (F"discinfo.DiscInfo._validate_disc_numbers") then Some custom_di_disc_numbers
  else customs q.

Definition py_strip (v : pyval) : result str := match v with PStr s => Ok (strip_ws s) | _ => Err AttributeError end.

(* the four lines *)
Definition dump_di (d : discinfo) : result str :=
  check validate_with customs_di (F"discinfo.DiscInfo") (di_obj d);
  do ts <- match di_timestamp d with PFloat t => Ok t | _ => Err OtherError end;
  do desc <- py_strip (di_description d);
  do arch <- py_strip (di_arch d);
  do nums <- (if py_eq (di_disc_numbers d) (PList [PStr (F"ALL")]) then Ok (F"ALL")
              else match di_disc_numbers d with
                   | PList l => do ss <- mapM (fun v => match v with PInt _ | PBool _ => py_str_num v | PStr s => Ok s | _ => Err OtherError end) l;
                                Ok (join [c_comma] ss)
                   | _ => Err TypeError
                   end);
  Ok (join [c_nl] [strip_ws ts; desc; arch; nums]).

(* ---- the .discinfo reader: [i.strip() for i in f.readlines()], then the four lines by position *)
Definition di_lines (text : str) : list str :=
  let parts := split c_nl text in
  map strip_ws (match rev parts with [] :: r => rev r | _ => parts end).

(* float(): modelled on CANONICAL decimal tokens only - "<int>.<frac>", no sign, no superfluous zeros, at most 15 significant
   digits (such a token is the repr of the float it denotes: CPython's shortest round-trip repr, trusted); a text with no digit that
   cannot spell inf/nan is refused (ValueError); any other text is outside the model (OtherError), which the correspondence check
   skips and counts *)
Definition canonical_float (s : str) : bool :=
  match split_first c_dot s with
  | Some (ip, fr) =>
      forallb is_digit ip && forallb is_digit fr &&
      negb (match ip with [] => true | _ => false end) && negb (match fr with [] => true | _ => false end) &&
      (match ip with 48 :: _ :: _ => false | _ => true end) &&
      (match rev fr with 48 :: _ :: _ => false | _ => true end) &&
      Nat.leb (length ip + length fr) 15 &&
      negb (str_eqb ip (F"0") && Nat.ltb 4 (length fr))
  | None => false
  end.

Definition float_of_text (s : str) : result pyval :=
  if canonical_float s then Ok (PFloat s)
  else if forallb (fun c => negb (is_digit c || N.eqb c 110 || N.eqb c 78)) s then Err ValueError    (* no digit, and not inf/nan *)
  else Err OtherError.

Definition load_di (text : str) : result discinfo :=
  let lines := di_lines text in
  do l0 <- of_option IndexError (nth_error lines 0);
  do ts <- float_of_text (strip_ws l0);
  do l1 <- of_option IndexError (nth_error lines 1);
  let desc := strip_quotes (strip_ws l1) in
  do l2 <- of_option IndexError (nth_error lines 2);
  let arch := strip_ws l2 in
  let dn := match nth_error lines 3 with Some l3 => strip_ws l3 | None => [] end in
  do nums <- (if match dn with [] => true | _ => false end || str_eqb dn (F"ALL") then Ok [PStr (F"ALL")]
              else mapM (fun s => py_int (PStr s)) (split c_comma dn));
  let d := {| di_timestamp := ts; di_description := PStr desc; di_arch := PStr arch; di_disc_numbers := PList nums |} in
  check validate_with customs_di (F"discinfo.DiscInfo") (di_obj d);
  Ok d.

(* ---- the hypotheses of the .discinfo round-trip theorem as an executable test (run by the harness on every generated object) *)
Definition line_okb (s : str) : bool := negb (match s with [] => true | _ => false end) && negb (memc c_nl s) && str_eqb (strip_ws s) s.

Definition is_pint (v : pyval) : bool := match v with PInt _ => true | _ => false end.

Definition di_applicableb (d : discinfo) : bool :=
  match di_timestamp d, di_description d, di_arch d, di_disc_numbers d with
  | PFloat t, PStr desc, PStr arch, PList nums =>
      canonical_float t && line_okb desc && str_eqb (strip_quotes desc) desc && line_okb arch &&
      ((match nums with [PStr s] => str_eqb s (F"ALL") | _ => false end) || (negb (match nums with [] => true | _ => false end) && forallb is_pint nums))
  | _, _, _, _ => false
  end.

