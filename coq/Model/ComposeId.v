(* composeinfo: create_compose_id, get_date_type_respin, Compose._validate_id pattern *)
From PM Require Export Base.PyVal Base.Regex.
From PM Require Import Gen.Regexes Gen.Tables.

Definition production : str := Eval cbv in lit "production".
Definition s_RHEL : str := Eval cbv in lit "RHEL".
Definition s_Client : str := Eval cbv in lit "Client".
Definition s_Server : str := Eval cbv in lit "Server".

(* ---- decoder: the function the pattern
        .*(?P<date>\d{8})(?P<type>\.[a-z]+)?(\.(?P<respin>\d+))?.*
   denotes under re.match: the LAST window of 8 digits on the first line *)
Definition win8 (s : str) : bool := Nat.leb 8 (length s) && forallb is_digit (firstn 8 s).

Fixpoint find_last (s : str) : option (str * str) :=
  match s with
  | [] => None
  | _ :: s' =>
      match find_last s' with
      | Some r => Some r
      | None => if win8 s then Some (firstn 8 s, skipn 8 s) else None
      end
  end.

Definition first_line (s : str) : str := fst (span (fun c => negb (N.eqb c c_nl)) s).

Definition decode_type (rest : str) : option str * str :=
  match rest with
  | 46 :: r => match span is_lower r with
               | ([], _) => (None, rest)
               | (lw, r') => (Some lw, r')
               end
  | _ => (None, rest)
  end.

Definition decode_respin (rest : str) : N :=
  match rest with
  | 46 :: r => match span is_digit r with
               | ([], _) => 0
               | (ds, _) => parse_dec ds
               end
  | _ => 0
  end.

(* None = the pattern does not match: Python returns (None, None, None) *)
Definition get_date_type_respin (id : str) : result (option (str * str * N)) :=
  match find_last (first_line id) with
  | None => Ok None
  | Some (date, rest) =>
      let (ty, rest1) := decode_type rest in
      let respin := decode_respin rest1 in
      match ty with
      | None => Ok (Some (date, production, respin))
      | Some t => match assoc t COMPOSE_TYPE_SUFFIXES with
                  | Some ct => Ok (Some (date, ct, respin))
                  | None => Err ValueError
                  end
      end
  end.

(* ---- encoder *)
Definition rel_type_suffix (t : option str) : str :=
  match t with
  | None => []
  | Some [] => []
  | Some t => if str_eqb (lower t) (lit "ga") then [] else c_dash :: lower t
  end.

Definition major_version (v : str) : str := hd [] (split c_dot v).

Definition compose_type_suffix (t : str) : result str :=
  match assoc t COMPOSE_TYPE_SUFFIX_FN with
  | Some (Some sfx) => Ok sfx
  | _ => Err ValueError
  end.

Record cid_args := {
  r_short : str; r_version : str; r_type : option str; r_layered : bool;
  b_short : option str; b_version : option str; b_type : option str;   (* base product attributes (None when unset) *)
  top_variants : list str;                                            (* keys of the top-level variant container *)
  c_date : str; c_type : str; c_respin : N }.

Definition ostr (o : option str) : str := match o with Some s => s | None => lit "None" end.

Fixpoint insert_str (x : str) (l : list str) : list str :=
  match l with
  | [] => [x]
  | y :: l' => if str_leb x y then x :: l else y :: insert_str x l'
  end.
Definition sort_strs (l : list str) : list str := fold_right insert_str [] l.

Definition cid_prefix (a : cid_args) : str :=
  let base := r_short a ++ c_dash :: r_version a ++ rel_type_suffix (r_type a) in
  let base := if r_layered a
              then base ++ c_dash :: ostr (b_short a) ++ c_dash :: ostr (b_version a) ++ rel_type_suffix (b_type a)
              else base in
  let rhel5 := str_eqb (r_short a) s_RHEL && str_eqb (major_version (r_version a)) (lit "5") &&
               match b_short a, b_version a with
               | Some bs, Some bv => str_eqb bs s_RHEL && str_eqb (major_version bv) (lit "5")
               | _, _ => false
               end in
  if rhel5 then
    match sort_strs (top_variants a) with
    | v :: _ => if str_eqb v s_Client || str_eqb v s_Server then base ++ c_dash :: v else base
    | [] => base
    end
  else base.

Definition create_compose_id (a : cid_args) : result str :=
  do sfx <- compose_type_suffix (c_type a);
  Ok (cid_prefix a ++ c_dash :: c_date a ++ sfx ++ c_dot :: show_dec (c_respin a)).

Definition compose_id_valid (id : str) : bool := re_matches re_compose_id id.

(* the same decoder, computed by the generic matcher on the REGENERATED pattern (second opinion for the hand model above) *)
Definition get_date_type_respin_rx (id : str) : result (option (str * str * N)) :=
  match re_match re_date_type_respin id with
  | None => Ok None
  | Some c =>
      let date := match group id c re_date_type_respin_g_date with Some d => d | None => [] end in
      let respin := match group id c re_date_type_respin_g_respin with Some ds => parse_dec ds | None => 0 end in
      match group id c re_date_type_respin_g_type with
      | None | Some [] => Ok (Some (date, production, respin))
      | Some (_ :: t) => match assoc t COMPOSE_TYPE_SUFFIXES with
                         | Some ct => Ok (Some (date, ct, respin))
                         | None => Err ValueError
                         end
      end
  end.
