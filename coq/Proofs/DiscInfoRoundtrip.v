(* C04 (.discinfo): the reader returns exactly the object the writer was given - timestamp token, description, arch, disc numbers *)
From PM Require Import Base.PyVal Base.Obj Base.Ini Model.Common Model.TreeInfo Proofs.ManifestsProofs Proofs.PyValProofs
     Proofs.StrDec Proofs.TreeInfoStage2.
From Coq Require Import Lia.

(* ---- strings without white space are their own strip() *)
Definition nows (s : str) : Prop := forallb (fun c => negb (ws c)) s = true.

Lemma strip_right_nows s : nows s -> strip_right ws s = s.
Proof.
  unfold nows. induction s as [|x s IH]; cbn [forallb strip_right]; [reflexivity|]. intros H. apply andb_true_iff in H. destruct H as [Hx Hs].
  rewrite (IH Hs). apply negb_true_iff in Hx. destruct s; [rewrite Hx; reflexivity|reflexivity].
Qed.

Lemma strip_ws_nows s : nows s -> strip_ws s = s.
Proof.
  intros H. unfold strip_ws. change (fun c => N.eqb c 32 || N.eqb c 10 || N.eqb c 9 || N.eqb c 13) with ws.
  destruct s as [|x s]; [reflexivity|]. cbn [strip_left]. pose proof H as H'. unfold nows in H'. cbn [forallb] in H'. apply andb_true_iff in H'.
  destruct H' as [Hx _]. apply negb_true_iff in Hx. rewrite Hx. apply strip_right_nows. exact H.
Qed.

Lemma forallb_imp {A} (p q : A -> bool) l : (forall x, p x = true -> q x = true) -> forallb p l = true -> forallb q l = true.
Proof. intros Hpq. induction l as [|x l IH]; cbn [forallb]; [reflexivity|]. intros H. apply andb_true_iff in H. destruct H as [Hx Hl].
  rewrite (Hpq x Hx), (IH Hl). reflexivity. Qed.

Lemma forallb_not_in {A} (p : A -> bool) l c : forallb p l = true -> p c = false -> ~ In c l.
Proof. intros H Hc Hin. rewrite forallb_forall in H. rewrite (H c Hin) in Hc. discriminate. Qed.

(* ---- split undoes join *)
Lemma split_acc_none c : forall x acc, ~ In c x -> split_acc c acc x = [rev acc ++ x].
Proof.
  induction x as [|h x IH]; intros acc Hx; cbn [split_acc].
  - rewrite app_nil_r. reflexivity.
  - destruct (N.eqb_spec h c) as [->|Hn]; [exfalso; apply Hx; left; reflexivity|].
    rewrite IH; [|intros H; apply Hx; right; exact H]. cbn [rev]. rewrite <- app_assoc. reflexivity.
Qed.

Lemma split_acc_one c b : forall x acc, ~ In c x -> split_acc c acc (x ++ c :: b) = (rev acc ++ x) :: split_acc c [] b.
Proof.
  induction x as [|h x IH]; intros acc Hx; cbn [split_acc app].
  - rewrite N.eqb_refl, app_nil_r. reflexivity.
  - destruct (N.eqb_spec h c) as [->|Hn]; [exfalso; apply Hx; left; reflexivity|].
    rewrite IH; [|intros H; apply Hx; right; exact H]. cbn [rev]. rewrite <- app_assoc. reflexivity.
Qed.

Lemma split_join c l : l <> [] -> (forall x, In x l -> ~ In c x) -> split c (join [c] l) = l.
Proof.
  unfold split. induction l as [|x l IH]; intros Hne Hin; [congruence|].
  destruct l as [|y l'].
  - cbn [join]. rewrite split_acc_none by (apply Hin; left; reflexivity). reflexivity.
  - change (join [c] (x :: y :: l')) with (x ++ c :: join [c] (y :: l')).
    rewrite split_acc_one by (apply Hin; left; reflexivity). cbn [rev app]. f_equal.
    apply IH; [discriminate|]. intros z Hz. apply Hin. right. exact Hz.
Qed.

Lemma forallb_join (p : chr -> bool) sep l : forallb p sep = true -> (forall x, In x l -> forallb p x = true) -> forallb p (join sep l) = true.
Proof.
  intros Hs. induction l as [|x l IH]; intros Hl; [reflexivity|]. destruct l as [|y l'].
  - cbn [join]. apply Hl. left. reflexivity.
  - change (join sep (x :: y :: l')) with (x ++ sep ++ join sep (y :: l')). rewrite !forallb_app, Hs, (Hl x (or_introl eq_refl)).
    rewrite IH; [reflexivity|]. intros z Hz. apply Hl. right. exact Hz.
Qed.

(* ---- decimal integers *)
Definition numchar (c : chr) : bool := is_digit c || N.eqb c 45.

Lemma show_Z_numchars z : forallb numchar (show_Z z) = true.
Proof.
  assert (D : forall s, forallb is_digit s = true -> forallb numchar s = true).
  { intros s. apply forallb_imp. intros x Hx. unfold numchar. rewrite Hx. reflexivity. }
  destruct z as [|p|p]; cbn [show_Z]; [reflexivity|apply D; apply show_dec_digits|].
  cbn [forallb]. rewrite (D _ (show_dec_digits _)). reflexivity.
Qed.

Lemma show_Z_nonempty z : show_Z z <> [].
Proof. destruct z as [|p|p]; cbn [show_Z]; [discriminate|apply show_dec_nonempty|discriminate]. Qed.

Lemma numchar_props c : numchar c = true -> ws c = false /\ c <> c_comma /\ c <> c_nl /\ c <> 65%N.
Proof.
  unfold numchar, is_digit, ws, c_comma, c_nl. intros H. apply orb_true_iff in H.
  destruct H as [H|H].
  - apply andb_true_iff in H. destruct H as [H1 H2]. apply N.leb_le in H1, H2.
    destruct (N.eqb_spec c 32), (N.eqb_spec c 10), (N.eqb_spec c 9), (N.eqb_spec c 13); try lia. all: repeat split; try reflexivity; lia.
  - apply N.eqb_eq in H. subst c. repeat split; discriminate.
Qed.

Lemma mapM_show zs :
  mapM (fun v => match v with PInt _ | PBool _ => py_str_num v | PStr s => Ok s | _ => Err OtherError end) (map PInt zs) = Ok (map show_Z zs).
Proof. induction zs as [|z zs IH]; [reflexivity|]. cbn [map mapM py_str_num bind]. rewrite IH. reflexivity. Qed.

Lemma mapM_read zs : mapM (fun s => py_int (PStr s)) (map show_Z zs) = Ok (map PInt zs).
Proof. induction zs as [|z zs IH]; [reflexivity|]. cbn [map mapM]. rewrite py_int_show_Z. cbn [bind]. rewrite IH. reflexivity. Qed.

(* ---- canonical float tokens *)
Definition fchar (c : chr) : bool := is_digit c || N.eqb c 46.

Lemma canonical_chars t : canonical_float t = true -> forallb fchar t = true.
Proof.
  unfold canonical_float. destruct (split_first c_dot t) as [[ip fr]|] eqn:E; [|discriminate].
  intros H. apply split_first_some in E. destruct E as [-> _].
  repeat (apply andb_true_iff in H; destruct H as [H ?]).
  assert (D : forall s, forallb is_digit s = true -> forallb fchar s = true).
  { intros s. apply forallb_imp. intros x Hx. unfold fchar. rewrite Hx. reflexivity. }
  rewrite forallb_app. cbn [forallb]. rewrite (D ip), (D fr) by assumption. reflexivity.
Qed.

Lemma fchar_props c : fchar c = true -> ws c = false /\ c <> c_nl.
Proof.
  unfold fchar, is_digit, ws, c_nl. intros H. apply orb_true_iff in H. destruct H as [H|H].
  - apply andb_true_iff in H. destruct H as [H1 H2]. apply N.leb_le in H1, H2.
    destruct (N.eqb_spec c 32), (N.eqb_spec c 10), (N.eqb_spec c 9), (N.eqb_spec c 13); try lia. all: repeat split; try reflexivity; lia.
  - apply N.eqb_eq in H. subst c. split; [reflexivity|discriminate].
Qed.

(* a text field that fits on one line of the file *)
Definition text_line (s : str) : Prop := s <> [] /\ ~ In c_nl s /\ strip_ws s = s.

Theorem di_roundtrip t desc arch nums text :
  let d := {| di_timestamp := PFloat t; di_description := PStr desc; di_arch := PStr arch; di_disc_numbers := PList nums |} in
  canonical_float t = true -> text_line desc -> strip_quotes desc = desc -> text_line arch ->
  (nums = [PStr (F"ALL")] \/ exists zs, zs <> [] /\ nums = map PInt zs) ->
  dump_di d = Ok text -> load_di text = Ok d.
Proof.
  intros d Ht (Hd1 & Hd2 & Hd3) Hq (Ha1 & Ha2 & Ha3) Hn Hw.
  pose proof (canonical_chars t Ht) as Hfc.
  assert (Htw : strip_ws t = t).
  { apply strip_ws_nows. unfold nows. revert Hfc. apply forallb_imp. intros x Hx. rewrite (proj1 (fchar_props x Hx)). reflexivity. }
  assert (Htn : ~ In c_nl t).
  { intros Hin. rewrite forallb_forall in Hfc. exact (proj2 (fchar_props _ (Hfc _ Hin)) eq_refl). }
  (* what the writer wrote on the fourth line *)
  assert (Hnt : exists nt, text = join [c_nl] [t; desc; arch; nt] /\ nt <> [] /\ ~ In c_nl nt /\ strip_ws nt = nt /\
            (if match nt with [] => true | _ => false end || str_eqb nt (F"ALL") then Ok [PStr (F"ALL")]
             else mapM (fun s => py_int (PStr s)) (split c_comma nt)) = Ok nums /\
            validate_with customs_di (F"discinfo.DiscInfo") (di_obj d) = Ok tt).
  { unfold dump_di in Hw. inv_bind Hw as u Hv. destruct u. cbn [di_timestamp di_description di_arch di_disc_numbers d] in Hw.
    cbn [bind py_strip] in Hw. rewrite Htw, Hd3, Ha3 in Hw.
    destruct Hn as [->|(zs & Hz & ->)].
    - change (py_eq (PList [PStr (F"ALL")]) (PList [PStr (F"ALL")])) with true in Hw. cbn [bind] in Hw. injection Hw as <-.
      exists (F"ALL"). split; [reflexivity|]. split; [discriminate|]. split; [vm_compute; intuition discriminate|].
      split; [reflexivity|]. split; [reflexivity|exact Hv].
    - assert (Epy : py_eq (PList (map PInt zs)) (PList [PStr (F"ALL")]) = false) by (destruct zs as [|z zs]; [congruence|reflexivity]).
      rewrite Epy, mapM_show in Hw. cbn [bind] in Hw. injection Hw as <-.
      set (nt := join [c_comma] (map show_Z zs)).
      assert (Hch : forallb (fun c => numchar c || N.eqb c c_comma) nt = true).
      { apply forallb_join; [reflexivity|]. intros x Hx. apply in_map_iff in Hx. destruct Hx as (z & <- & _).
        generalize (show_Z_numchars z). apply forallb_imp. intros c Hc. rewrite Hc. reflexivity. }
      assert (Hne : nt <> []).
      { unfold nt. destruct zs as [|z zs]; [congruence|]. pose proof (show_Z_nonempty z) as Hz1. cbn [map].
        destruct (map show_Z zs); cbn [join]; [exact Hz1|]. destruct (show_Z z); [congruence|discriminate]. }
      assert (Hcp : forall c, (numchar c || N.eqb c c_comma) = true -> ws c = false /\ c <> c_nl /\ c <> 65%N).
      { intros c Hc. apply orb_true_iff in Hc. destruct Hc as [Hc|Hc].
        - destruct (numchar_props c Hc) as (A & _ & B & C). auto.
        - apply N.eqb_eq in Hc. subst c. repeat split; discriminate. }
      exists nt. split; [reflexivity|]. split; [exact Hne|]. split.
      { intros Hin. rewrite forallb_forall in Hch. exact (proj1 (proj2 (Hcp _ (Hch _ Hin))) eq_refl). }
      split.
      { apply strip_ws_nows. unfold nows. revert Hch. apply forallb_imp. intros c Hc. rewrite (proj1 (Hcp c Hc)). reflexivity. }
      split; [|exact Hv].
      assert (E1 : (match nt with [] => true | _ => false end || str_eqb nt (F"ALL")) = false).
      { destruct nt as [|c nt'] eqn:En; [congruence|]. cbn [orb]. apply str_eqb_neq. intros E. injection E as -> _.
        cbn [forallb] in Hch. apply andb_true_iff in Hch. exact (proj2 (proj2 (Hcp _ (proj1 Hch))) eq_refl). }
      rewrite E1. unfold nt. rewrite split_join.
      + apply mapM_read.
      + destruct zs; [congruence|discriminate].
      + intros x Hx. apply in_map_iff in Hx. destruct Hx as (z & <- & _). intros Hin.
        pose proof (show_Z_numchars z) as Hz2. rewrite forallb_forall in Hz2. exact (proj1 (proj2 (numchar_props _ (Hz2 _ Hin))) eq_refl). }
  destruct Hnt as (nt & -> & Hne & Hnn & Hns & Hnums & Hv).
  (* the reader *)
  assert (Hl : di_lines (join [c_nl] [t; desc; arch; nt]) = [t; desc; arch; nt]).
  { unfold di_lines. rewrite split_join.
    - cbn [rev app]. destruct nt as [|c nt'] eqn:En; [congruence|]. rewrite <- En in *. cbn [map]. rewrite Htw, Hd3, Ha3, Hns. reflexivity.
    - discriminate.
    - intros x [<-|[<-|[<-|[<-|[]]]]]; assumption. }
  unfold load_di. rewrite Hl. cbv zeta. cbn [nth_error of_option bind]. rewrite Htw. unfold float_of_text. rewrite Ht. cbn [bind].
  rewrite Hd3, Hq, Ha3, Hns, Hnums. cbn [bind]. fold d. rewrite Hv. reflexivity.
Qed.

(* the hypotheses are satisfiable: a three-disc set is written, and read back *)
Example di_roundtrip_nonvacuous :
  let d := {| di_timestamp := PFloat (F"1440000000.123"); di_description := PStr (F"Fedora 22"); di_arch := PStr (F"x86_64");
              di_disc_numbers := PList (map PInt [1; 2; 3]%Z) |} in
  canonical_float (F"1440000000.123") = true /\ text_line (F"Fedora 22") /\ strip_quotes (F"Fedora 22") = F"Fedora 22" /\
  text_line (F"x86_64") /\ dump_di d = Ok (join [c_nl] [F"1440000000.123"; F"Fedora 22"; F"x86_64"; F"1,2,3"]) /\
  load_di (join [c_nl] [F"1440000000.123"; F"Fedora 22"; F"x86_64"; F"1,2,3"]) = Ok d.
Proof.
  cbv zeta. split; [vm_compute; reflexivity|]. split.
  { split; [discriminate|]. split; [vm_compute; intuition discriminate|vm_compute; reflexivity]. }
  split; [vm_compute; reflexivity|]. split.
  { split; [discriminate|]. split; [vm_compute; intuition discriminate|vm_compute; reflexivity]. }
  split; vm_compute; reflexivity.
Qed.

(* ---- the hypotheses as an executable test (run by the harness on every generated .discinfo object) *)
Lemma line_okb_sound s : line_okb s = true -> text_line s.
Proof.
  unfold line_okb, text_line. intros H. apply andb_true_iff in H. destruct H as [H H3]. apply andb_true_iff in H. destruct H as [H1 H2].
  split; [destruct s; [discriminate|discriminate]|]. split; [apply memc_false; apply negb_true_iff; exact H2|apply str_eqb_eq; exact H3].
Qed.

Lemma all_pint nums : forallb is_pint nums = true -> exists zs, nums = map PInt zs.
Proof.
  induction nums as [|v nums IH]; cbn [forallb]; [exists []; reflexivity|]. intros H. apply andb_true_iff in H. destruct H as [Hv Hn].
  destruct v; try discriminate. destruct (IH Hn) as (zs & ->). exists (z :: zs). reflexivity.
Qed.

Theorem di_roundtrip_checked d text : di_applicableb d = true -> dump_di d = Ok text -> load_di text = Ok d.
Proof.
  destruct d as [ts de ar dn]. unfold di_applicableb. cbn [di_timestamp di_description di_arch di_disc_numbers].
  destruct ts; try discriminate. destruct de; try discriminate. destruct ar; try discriminate. destruct dn; try discriminate.
  intros H. repeat (apply andb_true_iff in H; destruct H as [H ?]).
  apply di_roundtrip; try assumption.
  - apply line_okb_sound. assumption.
  - apply str_eqb_eq. assumption.
  - apply line_okb_sound. assumption.
  - match goal with Hn : (_ || _) = true |- _ => apply orb_true_iff in Hn; destruct Hn as [Hn|Hn];
      [left; match type of Hn with (match ?nl with _ => _ end) = true => destruct nl as [|v [|w l']] end; try discriminate Hn;
       destruct v; try discriminate Hn; apply str_eqb_eq in Hn; subst; reflexivity
      |right; apply andb_true_iff in Hn; destruct Hn as [Hne Hall]; destruct (all_pint _ Hall) as (zs & ->); exists zs;
       split; [intros ->; discriminate Hne|reflexivity]] end.
Qed.
