From PM Require Import Base.PyVal Base.Obj Base.Json Model.Common Model.Manifests Model.ManifestDocs
     Proofs.ManifestsProofs Proofs.PyValProofs Proofs.CommonProofs Gen.Tables Gen.Validators.

(* the container classes have no validators of their own (obligation on the regenerated inventory) *)
Lemma container_validators :
  validate (F"rpms.Rpms") [] = Ok tt /\ validate (F"modules.Modules") [] = Ok tt /\
  validate (F"extra_files.ExtraFiles") [] = Ok tt /\ validate (F"images.Images") [] = Ok tt.
Proof. vm_compute. repeat split; reflexivity. Qed.

Lemma wrap_doc_ok mtype section c p d :
  wrap_doc mtype section c p = Ok d ->
  exists cj, ser_compose c = Ok cj /\
    d = PDict [(F"header", PDict [(F"type", PStr mtype); (F"version", current_version)]);
               (F"payload", PDict [(F"compose", cj); (section, p)])].
Proof.
  unfold wrap_doc. rewrite ser_header_ok. cbn [bind]. destruct (ser_compose c) as [cj|e]; cbn [bind]; [|discriminate].
  intros H. injection H as <-. eauto.
Qed.

Theorem rpms_doc_roundtrip c p d :
  compose_normal c -> dump_rpms c p = Ok d -> load_rpms d = Ok (c, p).
Proof.
  intros Hn H. unfold dump_rpms in H. destruct container_validators as (Hr & _). rewrite Hr in H. cbn [bind] in H.
  apply wrap_doc_ok in H. destruct H as (cj & Hc & ->).
  unfold load_rpms. rewrite deser_header_ser. cbn [bind snd].
  destruct current_version_ok as (_ & _ & _ & _ & Hle & _). rewrite Hle.
  cbn -[deser_compose validate VERSION]. rewrite (deser_compose_ser c cj _ Hn Hc).
  cbn -[validate]. cbn -[validate] in Hr. rewrite Hr. reflexivity.
Qed.

Lemma load_plain_roundtrip mtype section cls c p d :
  validate cls [] = Ok tt -> str_eqb section (F"compose") = false ->
  compose_normal c -> wrap_doc mtype section c p = Ok d -> load_plain mtype section cls d = Ok (c, p).
Proof.
  intros Hv Hsec Hn H. apply wrap_doc_ok in H. destruct H as (cj & Hc & ->).
  unfold load_plain. rewrite deser_header_ser. cbn [bind snd].
  cbn -[deser_compose validate VERSION]. rewrite (deser_compose_ser c cj _ Hn Hc).
  cbn -[validate str_eqb]. cbn -[str_eqb] in Hsec. rewrite Hsec, str_eqb_refl. cbn -[validate]. rewrite Hv. reflexivity.
Qed.

Theorem modules_doc_roundtrip c p d :
  compose_normal c -> dump_modules c p = Ok d -> load_modules d = Ok (c, p).
Proof.
  intros Hn H. unfold dump_modules in H. destruct container_validators as (_ & Hm & _). rewrite Hm in H. cbn [bind] in H.
  unfold load_modules. apply (load_plain_roundtrip HEADER_TYPE_modules (F"modules") _ c p d Hm); [vm_compute; reflexivity|exact Hn|exact H].
Qed.

Theorem extra_doc_roundtrip c p d :
  compose_normal c -> dump_extra c p = Ok d -> load_extra d = Ok (c, p).
Proof.
  intros Hn H. unfold dump_extra in H. destruct container_validators as (_ & _ & He & _). rewrite He in H. cbn [bind] in H.
  unfold load_extra. apply (load_plain_roundtrip HEADER_TYPE_extra_files (F"extra_files") _ c p d He); [vm_compute; reflexivity|exact Hn|exact H].
Qed.

(* the second write is byte-identical: the re-read object IS the written one, and the bytes are a function of the document *)
Corollary rpms_second_dump c p d c' p' :
  compose_normal c -> dump_rpms c p = Ok d -> load_rpms d = Ok (c', p') ->
  dump_rpms c' p' = Ok d /\ (forall d', dump_rpms c' p' = Ok d' -> print_json d' = print_json d).
Proof.
  intros Hn Hd Hl. rewrite (rpms_doc_roundtrip c p d Hn Hd) in Hl. injection Hl as <- <-.
  split; [exact Hd|]. intros d' Hd'. rewrite Hd in Hd'. injection Hd' as <-. reflexivity.
Qed.
