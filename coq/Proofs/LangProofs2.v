(* C06/C07: the regenerated header-version and milestone-label patterns accept exactly the documented languages *)
From PM Require Import Base.PyVal Base.Regex Proofs.RegexSem Proofs.LangProofs Gen.Regexes Gen.Tables.
Open Scope nat_scope.

Definition cs_chr (c : chr) : cset := CS false [(c, c)].
Definition digits1 : re := Cat (Cls cs_dig) (Star (Cls cs_dig)).          (* \d+ *)

(* a non-empty run of decimal digits *)
Definition Digits (s : str) : Prop := exists d ds, s = d :: ds /\ is_digit d = true /\ forallb is_digit ds = true.

Lemma mt_digits1 pos u rest : mt digits1 pos u rest <-> Digits u.
Proof.
  unfold digits1. split.
  - intros H. apply mt_cat_inv in H. destruct H as (u1 & u2 & -> & H1 & H2).
    apply mt_cls_inv in H1. destruct H1 as (d & -> & Hd). rewrite cs_dig_spec in Hd. apply mt_star_cls in H2.
    exists d, u2. split; [reflexivity|]. split; [exact Hd|]. rewrite <- H2. apply forallb_ext. intros y. symmetry. apply cs_dig_spec.
  - intros (d & ds & -> & Hd & Hds). change (d :: ds) with ([d] ++ ds). constructor; [constructor; rewrite cs_dig_spec; exact Hd|].
    apply mt_star_cls. rewrite <- Hds. apply forallb_ext. intros y. apply cs_dig_spec.
Qed.

(* literal text in front of a pattern *)
Definition lit_re (s : str) (k : re) : re := fold_right (fun c r => Cat (Cls (cs_chr c)) r) k s.

Lemma mt_lit_re s k : forall pos u rest, mt (lit_re s k) pos u rest <-> exists u', u = s ++ u' /\ mt k (pos + length s) u' rest.
Proof.
  induction s as [|c s IH]; intros pos u rest; cbn [lit_re fold_right].
  - rewrite Nat.add_0_r. split; [intros H; exists u; split; [reflexivity|exact H]|intros (u' & -> & H); exact H].
  - fold (lit_re s k). split.
    + intros H. apply mt_cat_inv in H. destruct H as (u1 & u2 & -> & H1 & H2).
      apply mt_cls_inv in H1. destruct H1 as (x & -> & Hx). apply cs_single in Hx. subst x.
      apply IH in H2. destruct H2 as (u' & -> & H2). exists u'. split; [reflexivity|].
      cbn [length] in *. replace (pos + S (length s)) with (pos + 1 + length s) by lia. exact H2.
    + intros (u' & -> & H). change ((c :: s) ++ u') with ([c] ++ (s ++ u')). constructor; [constructor; apply cs_single; reflexivity|].
      apply IH. exists u'. split; [reflexivity|]. cbn [length] in *. replace (pos + 1 + length s) with (pos + S (length s)) by lia. exact H.
Qed.

(* ---- header version:  ^\d+\.\d+$ *)
Definition version_shape : re := Cat Bol (Cat digits1 (Cat (Cls (cs_chr c_dot)) (Cat digits1 Eol))).

Lemma header_version_is_shape : re_header_version = version_shape.
Proof. reflexivity. Qed.

Definition DocHeaderVersion (s : str) : Prop := exists a b, s = a ++ c_dot :: b /\ Digits a /\ Digits b.

Theorem header_version_lang s :
  re_matches re_header_version s = true <-> exists body, (s = body \/ s = body ++ [c_nl]) /\ DocHeaderVersion body.
Proof.
  rewrite header_version_is_shape, re_matches_iff. unfold version_shape. split.
  - intros (u & rest & -> & H).
    apply mt_cat_inv in H. destruct H as (u0 & u' & -> & H0 & H). apply mt_bol_inv in H0. destruct H0 as [-> _]. cbn [app length Nat.add] in *.
    apply mt_cat_inv in H. destruct H as (a & u2 & -> & Ha & H). apply mt_digits1 in Ha.
    apply mt_cat_inv in H. destruct H as (u3 & u4 & -> & H3 & H). apply mt_cls_inv in H3. destruct H3 as (x & -> & Hx). apply cs_single in Hx. subst x.
    apply mt_cat_inv in H. destruct H as (b & u6 & -> & Hb & H6). apply mt_digits1 in Hb.
    apply mt_eol_inv in H6. destruct H6 as [-> Hrest].
    exists (a ++ c_dot :: b). split.
    + destruct Hrest as [->| ->]; [left|right]; repeat rewrite <- app_assoc; cbn [app]; rewrite ?app_nil_r; reflexivity.
    + exists a, b. auto.
  - intros (body & Hs & (a & b & -> & Ha & Hb)).
    assert (Hm : forall rest, rest = [] \/ rest = [c_nl] ->
                 mt (Cat Bol (Cat digits1 (Cat (Cls (cs_chr c_dot)) (Cat digits1 Eol)))) 0 (a ++ c_dot :: b) rest).
    { intros rest Hrest. replace (a ++ c_dot :: b) with ([] ++ a ++ [c_dot] ++ b ++ []) by (rewrite app_nil_r; reflexivity).
      constructor; [constructor|]. cbn [length Nat.add].
      constructor; [apply mt_digits1; exact Ha|]. constructor; [constructor; apply cs_single; reflexivity|].
      constructor; [apply mt_digits1; exact Hb|]. constructor. exact Hrest. }
    destruct Hs as [->| ->].
    + exists (a ++ c_dot :: b), []. split; [rewrite app_nil_r; reflexivity|apply Hm; left; reflexivity].
    + exists (a ++ c_dot :: b), [c_nl]. split; [reflexivity|apply Hm; right; reflexivity].
Qed.

(* ---- milestone labels:  ^<name>-\d+\.\d+$  for every name of the regenerated LABEL_NAMES table *)
Definition label_shape (name : str) : re := Cat Bol (lit_re (name ++ [c_dash]) (Cat digits1 (Cat (Cls (cs_chr c_dot)) (Cat digits1 Eol)))).

Lemma labels_are_shapes : re_labels = map label_shape LABEL_NAMES.
Proof. reflexivity. Qed.

Definition DocLabel (name s : str) : Prop := exists a b, s = name ++ c_dash :: a ++ c_dot :: b /\ Digits a /\ Digits b.

Lemma label_shape_lang name s :
  re_matches (label_shape name) s = true <-> exists body, (s = body \/ s = body ++ [c_nl]) /\ DocLabel name body.
Proof.
  rewrite re_matches_iff. unfold label_shape. split.
  - intros (u & rest & -> & H).
    apply mt_cat_inv in H. destruct H as (u0 & u' & -> & H0 & H). apply mt_bol_inv in H0. destruct H0 as [-> _]. cbn [app length Nat.add] in *.
    apply mt_lit_re in H. destruct H as (u1 & -> & H).
    apply mt_cat_inv in H. destruct H as (a & u2 & -> & Ha & H). apply mt_digits1 in Ha.
    apply mt_cat_inv in H. destruct H as (u3 & u4 & -> & H3 & H). apply mt_cls_inv in H3. destruct H3 as (x & -> & Hx). apply cs_single in Hx. subst x.
    apply mt_cat_inv in H. destruct H as (b & u6 & -> & Hb & H6). apply mt_digits1 in Hb.
    apply mt_eol_inv in H6. destruct H6 as [-> Hrest].
    exists (name ++ c_dash :: a ++ c_dot :: b). split.
    + destruct Hrest as [->| ->]; [left|right]; repeat rewrite <- app_assoc; cbn [app]; rewrite ?app_nil_r; repeat rewrite <- app_assoc; cbn [app]; reflexivity.
    + exists a, b. auto.
  - intros (body & Hs & (a & b & -> & Ha & Hb)).
    assert (Hm : forall rest, rest = [] \/ rest = [c_nl] ->
                 mt (Cat Bol (lit_re (name ++ [c_dash]) (Cat digits1 (Cat (Cls (cs_chr c_dot)) (Cat digits1 Eol))))) 0
                    (name ++ c_dash :: a ++ c_dot :: b) rest).
    { intros rest Hrest. change (name ++ c_dash :: a ++ c_dot :: b) with ([] ++ (name ++ c_dash :: a ++ c_dot :: b)).
      constructor; [constructor|]. cbn [length Nat.add]. apply mt_lit_re. exists (a ++ c_dot :: b). split; [rewrite <- app_assoc; reflexivity|].
      replace (a ++ c_dot :: b) with (a ++ [c_dot] ++ b ++ []) by (rewrite app_nil_r; reflexivity).
      constructor; [apply mt_digits1; exact Ha|]. constructor; [constructor; apply cs_single; reflexivity|].
      constructor; [apply mt_digits1; exact Hb|]. constructor. exact Hrest. }
    destruct Hs as [->| ->].
    + exists (name ++ c_dash :: a ++ c_dot :: b), []. split; [rewrite app_nil_r; reflexivity|apply Hm; left; reflexivity].
    + exists (name ++ c_dash :: a ++ c_dot :: b), [c_nl]. split; [reflexivity|apply Hm; right; reflexivity].
Qed.

(* a string matches one of the regenerated label patterns iff it is <name>-<int>.<int> for a name of the table *)
Theorem label_lang s :
  existsb (fun r => re_matches r s) re_labels = true <->
  exists name body, In name LABEL_NAMES /\ (s = body \/ s = body ++ [c_nl]) /\ DocLabel name body.
Proof.
  rewrite labels_are_shapes, existsb_exists. split.
  - intros (r & Hin & Hm). apply in_map_iff in Hin. destruct Hin as (name & <- & Hn).
    apply label_shape_lang in Hm. destruct Hm as (body & Hs & Hd). exists name, body. auto.
  - intros (name & body & Hn & Hs & Hd). exists (label_shape name). split; [apply in_map; exact Hn|].
    apply label_shape_lang. exists body. auto.
Qed.

Example header_version_examples :
  re_matches re_header_version (lit "1.2") = true /\ re_matches re_header_version (lit "102") = false /\
  re_matches re_header_version (lit "1_2") = false /\ existsb (fun r => re_matches r (lit "RC-1.0")) re_labels = true /\
  existsb (fun r => re_matches r (lit "RC-100")) re_labels = false.
Proof. repeat split; vm_compute; reflexivity. Qed.
