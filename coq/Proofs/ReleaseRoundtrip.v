(* C01: the release and base-product sections of a composeinfo survive serialize / deserialize *)
From PM Require Import Base.PyVal Base.Obj Model.Common Model.ComposeInfo Proofs.ManifestsProofs Proofs.PyValProofs
     Proofs.CommonProofs Proofs.RuleSem Gen.Tables Gen.Validators.

Definition mk_release (name version short ty : pyval) (lay internal : bool) : obj :=
  [(F"name", name); (F"version", version); (F"short", short); (F"type", ty); (F"is_layered", PBool lay); (F"internal", PBool internal)].
Definition mk_base_product (name version short ty : pyval) : obj :=
  [(F"name", name); (F"version", version); (F"short", short); (F"type", ty)].

(* a valid object satisfies every rule of its class's translated validators *)
Lemma valid_rule cls o r : validate cls o = Ok tt -> In r (rules_of (validators_of cls)) -> rule_holds o r.
Proof.
  intros Hv Hin. unfold validate, validate_with in Hv. apply run_validators_iff in Hv. destruct Hv as [Hr _].
  rewrite Forall_forall in Hr. exact (Hr r Hin).
Qed.

Lemma py_eq_str v s : py_eq v (PStr s) = true -> v = PStr s.
Proof. rewrite py_eq_true. destruct v; cbn [norm]; try discriminate; try congruence. Qed.

Lemma py_in_strs v l : py_in v (map PStr l) = true -> exists s, v = PStr s /\ In s l.
Proof.
  induction l as [|x l IH]; cbn [map py_in]; [discriminate|]. intros H. apply orb_true_iff in H. destruct H as [H|H].
  - exists x. split; [exact (py_eq_str _ _ H)|left; reflexivity].
  - destruct (IH H) as (s & -> & Hs). exists s. split; [reflexivity|right; exact Hs].
Qed.

(* obligations on the regenerated tables *)
Lemma release_types_lowercase t : In t RELEASE_TYPES -> lower t = t.
Proof.
  assert (H : forallb (fun t => str_eqb (lower t) t) RELEASE_TYPES = true) by (vm_compute; reflexivity).
  rewrite forallb_forall in H. intros Hin. apply str_eqb_eq. exact (H t Hin).
Qed.

Lemma release_type_rule :
  In ([], AValue (F"type") (map PStr RELEASE_TYPES)) (rules_of (validators_of release_cls)).
Proof. vm_compute. repeat (first [left; reflexivity|right]). Qed.

Lemma valid_release_type r : validate release_cls r = Ok tt -> exists t, getf r (F"type") = PStr t /\ lower t = t.
Proof.
  intros Hv. pose proof (valid_rule _ _ _ Hv release_type_rule) as Hr. unfold rule_holds in Hr. cbn [fst snd guards_eval atom_holds] in Hr.
  destruct (py_in_strs _ _ Hr) as (t & Ht & Hin). exists t. split; [exact Ht|exact (release_types_lowercase t Hin)].
Qed.

Theorem release_roundtrip name version short ty lay internal sec j kv :
  let r := mk_release name version short ty lay internal in
  ser_release release_cls (F"release") r = Ok (sec, j) -> dget (PDict kv) (F"release") = Ok j ->
  deser_release VERSION (PDict kv) = Ok r.
Proof.
  intros r Hs Hd. unfold ser_release in Hs.
  destruct (validate release_cls r) as [[]|e] eqn:Hv; cbn [bind] in Hs; [|discriminate].
  destruct (valid_release_type r Hv) as (t & Ht & Hlow). unfold r, mk_release in Ht. cbn in Ht. subst ty.
  destruct current_version_ok as (_ & _ & _ & _ & Hold & _).
  unfold deser_release. rewrite Hold, Hd. cbn [bind].
  injection Hs as <- <-. replace (str_eqb release_cls release_cls) with true by (symmetry; apply str_eqb_refl).
  unfold r, mk_release in *. destruct lay; cbn -[validate release_cls]; rewrite Hlow; unfold py_bool; cbn [truthy];
    cbn -[validate release_cls] in Hv; rewrite Hv; reflexivity.
Qed.

Theorem base_product_roundtrip name version short ty sec j kv :
  let b := mk_base_product name version short ty in
  ser_release bp_cls (F"base_product") b = Ok (sec, j) -> dget (PDict kv) (F"base_product") = Ok j ->
  deser_base_product (PDict kv) = Ok b.
Proof.
  intros b Hs Hd. unfold ser_release in Hs.
  destruct (validate bp_cls b) as [[]|e] eqn:Hv; cbn [bind] in Hs; [|discriminate].
  unfold deser_base_product. rewrite Hd. cbn [bind].
  replace (str_eqb bp_cls release_cls) with false in Hs by (vm_compute; reflexivity). injection Hs as <- <-.
  unfold b, mk_base_product in *. cbn -[validate bp_cls]. cbn -[validate bp_cls] in Hv. rewrite Hv. reflexivity.
Qed.

Example release_roundtrip_nonvacuous :
  exists sec j, ser_release release_cls (F"release")
                  (mk_release (PStr (F"Fedora")) (PStr (F"22")) (PStr (F"F")) (PStr (F"updates")) true false) = Ok (sec, j).
Proof. eexists. eexists. vm_compute. reflexivity. Qed.
