(* C04 / C16: the [checksums] section - every path is read back with the algorithm and value typed from exactly the text
   written for it, and no other path appears *)
From PM Require Import Base.PyVal Base.Obj Base.Ini Model.Common Model.TreeInfo Proofs.ManifestsProofs Proofs.PyValProofs
     Proofs.ImagesProofs Proofs.IniProofs Proofs.ArchProofs Proofs.TreeInfoWriter Proofs.TreeInfoReadBack Proofs.TreeInfoStage2 Gen.Tables.
From Coq Require Import Permutation.

Definition ck_text (c : str * (pyval * pyval)) : str := fmt_s (fst (snd c)) ++ c_colon :: fmt_s (snd (snd c)).

Lemma fold_left_map {A B C} (f : A -> C -> A) (g : B -> C) l : forall a,
  fold_left f (map g l) a = fold_left (fun acc x => f acc (g x)) l a.
Proof. induction l as [|x l IH]; intros a; cbn [map fold_left]; [reflexivity|apply IH]. Qed.

(* the reader's loop over the options of the section *)
Definition ck_step (acc : result (list (str * (pyval * pyval)))) (kv : str * str) :=
  do cs <- acc; do tc <- typed_checksum (snd kv); Ok (assoc_set (fst kv) tc cs).

Lemma ck_fold_spec l : forall cs0 res,
  fold_left ck_step l (Ok cs0) = Ok res ->
  (forall k, ~ In k (map fst l) -> assoc k res = assoc k cs0) /\
  (NoDup (map fst l) -> forall k v, In (k, v) l -> exists tc, typed_checksum v = Ok tc /\ assoc k res = Some tc).
Proof.
  induction l as [|[k0 v0] l IH]; intros cs0 res H.
  - cbn in H. injection H as <-. split; [reflexivity|intros _ k v []].
  - cbn [fold_left ck_step bind fst snd] in H.
    destruct (typed_checksum v0) as [tc0|e] eqn:E0.
    2:{ exfalso. cbn [bind] in H. clear -H. induction l as [|x l IHl]; cbn in H; [discriminate|exact (IHl H)]. }
    cbn [bind] in H. destruct (IH _ _ H) as [IH1 IH2]. split.
    + intros k Hk. cbn [map fst] in Hk. rewrite IH1 by (intros Hin; apply Hk; right; exact Hin).
      apply assoc_set_other. intros E. apply Hk. left. exact E.
    + intros Hn k v [Ekv|Hin]; cbn [map fst] in Hn; inversion Hn as [|? ? Hx Hr]; subst.
      * injection Ekv as <- <-. exists tc0. split; [exact E0|]. rewrite IH1 by exact Hx. apply assoc_set_same.
      * exact (IH2 Hr k v Hin).
Qed.

Lemma insert_ss_in kv l x : In x (insert_ss kv l) <-> x = kv \/ In x l.
Proof.
  induction l as [|y l IH]; cbn [insert_ss].
  - cbn [In]. split; [intros [E|[]]; left; symmetry; exact E|intros [E|[]]; left; symmetry; exact E].
  - destruct (str_leb (fst kv) (fst y)); cbn [In].
    + split; [intros [E|H]; [left; symmetry; exact E|right; exact H]|intros [E|H]; [left; symmetry; exact E|right; exact H]].
    + rewrite IH. split; [intros [E|[E|H]]; auto|intros [E|[E|H]]; auto].
Qed.

Lemma sort_opts_in l x : In x (sort_opts l) <-> In x l.
Proof.
  induction l as [|y l IH]; cbn [sort_opts fold_right]; [reflexivity|]. fold (sort_opts l). rewrite insert_ss_in, IH. cbn [In].
  split; [intros [E|H]; [left; symmetry; exact E|right; exact H]|intros [E|H]; [left; symmetry; exact E|right; exact H]].
Qed.

Lemma insert_ss_keys kv l : Permutation (map fst (insert_ss kv l)) (fst kv :: map fst l).
Proof.
  induction l as [|y l IH]; cbn [insert_ss map]; [reflexivity|]. destruct (str_leb _ _); cbn [map]; [reflexivity|].
  rewrite IH. apply perm_swap.
Qed.

Lemma sort_opts_keys l : Permutation (map fst (sort_opts l)) (map fst l).
Proof.
  induction l as [|y l IH]; [reflexivity|]. cbn [sort_opts fold_right]. fold (sort_opts l). rewrite insert_ss_keys. cbn [map]. rewrite IH. reflexivity.
Qed.

Lemma sort_opts_nodup l : NoDup (map fst l) -> NoDup (map fst (sort_opts l)).
Proof. intros H. eapply Permutation_NoDup; [symmetry; apply sort_opts_keys|exact H]. Qed.

Lemma assoc_in_nodup {A} k (v : A) (l : list (str * A)) : NoDup (map fst l) -> In (k, v) l -> assoc k l = Some v.
Proof.
  induction l as [|[k0 v0] l IH]; intros Hn []; cbn [assoc].
  - injection H as -> ->. rewrite str_eqb_refl. reflexivity.
  - cbn [map fst] in Hn. inversion Hn as [|? ? Hx Hr]; subst.
    destruct (str_eqb_spec k k0) as [->|_]; [|exact (IH Hr H)].
    exfalso. apply Hx. apply in_map_iff. exists (k0, v). split; [reflexivity|exact H].
Qed.

Lemma assoc_set_keys {A} k (v : A) l : In k (map fst l) -> map fst (assoc_set k v l) = map fst l.
Proof.
  induction l as [|[k0 v0] l IH]; cbn [map fst assoc_set]; [intros []|]. destruct (str_eqb_spec k k0) as [->|Hne]; [reflexivity|].
  intros [E|Hin]; [congruence|]. cbn [map fst]. rewrite (IH Hin). reflexivity.
Qed.

Lemma assoc_set_keys_new {A} k (v : A) l : ~ In k (map fst l) -> map fst (assoc_set k v l) = map fst l ++ [k].
Proof.
  induction l as [|[k0 v0] l IH]; cbn [map fst assoc_set]; [reflexivity|]. intros Hn.
  destruct (str_eqb_spec k k0) as [->|Hne]; [exfalso; apply Hn; left; reflexivity|].
  cbn [map fst app]. rewrite IH; [reflexivity|]. intros Hin. apply Hn. right. exact Hin.
Qed.

Lemma assoc_set_nodup {A} k (v : A) l : NoDup (map fst l) -> NoDup (map fst (assoc_set k v l)).
Proof.
  intros Hn. destruct (in_dec str_eq_dec k (map fst l)) as [Hin|Hnin].
  - rewrite (assoc_set_keys k v l Hin). exact Hn.
  - rewrite (assoc_set_keys_new k v l Hnin). clear -Hn Hnin. induction (map fst l) as [|y ys IHy]; cbn [app]; [constructor; [intros []|constructor]|]. inversion Hn as [|? ? Hy Hr]; subst. constructor; [|apply IHy; [exact Hr|intros H; apply Hnin; right; exact H]]. intros Hin. apply in_app_or in Hin. destruct Hin as [Hin|[E|[]]]; [exact (Hy Hin)|]. apply Hnin. left. symmetry. exact E.
Qed.

Lemma sets_section_nodup s kvs : forall t t' o0,
  sets t s kvs = Ok t' -> assoc s t = Some o0 -> NoDup (map fst o0) -> exists opts, assoc s t' = Some opts /\ NoDup (map fst opts).
Proof.
  unfold sets. induction kvs as [|kv kvs IH]; intros t t' o0 H Ho Hn.
  - cbn in H. injection H as <-. exists o0. auto.
  - cbn [fold_left bind] in H. destruct (ini_set t s (fst kv) (snd kv)) as [t1|e] eqn:E; [|rewrite sets_err in H; discriminate].
    unfold ini_set in E. destruct (snd kv); try discriminate. rewrite Ho in E. injection E as <-.
    apply (IH _ t' (assoc_set (fst kv) s0 o0) H); [apply assoc_set_same|apply assoc_set_nodup; exact Hn].
Qed.

Theorem checksums_read_back x mv t x' :
  ser_ti x mv = Ok t -> deser_ti t = Ok x' -> NoDup (map fst (ti_checksums x)) ->
  (forall c, In c (ti_checksums x) -> exists tc, typed_checksum (ck_text c) = Ok tc /\ assoc (fst c) (ti_checksums x') = Some tc) /\
  (forall p, ~ In p (map fst (ti_checksums x)) -> assoc p (ti_checksums x') = None).
Proof.
  intros Hw Hr Hnd. unfold ser_ti in Hw.
  inv_bind Hw as u0 G0. inv_bind Hw as u1 G1. inv_bind Hw as p0 Gp0. inv_bind Hw as p1 Gp1. cbv zeta in Hw.
  inv_bind Hw as u2 G2. inv_bind Hw as p2 Gp2. inv_bind Hw as p3 Gp3. inv_bind Hw as p4 Gp4. inv_bind Hw as p5 Gp5.
  inv_bind Hw as u3 G3. inv_bind Hw as p6 Gp6. inv_bind Hw as ts_s Gts. inv_bind Hw as p7 Gp7. inv_bind Hw as u4 G4. inv_bind Hw as p8 Gp8.
  inv_bind Hw as p9 G9. inv_bind Hw as u5 Gc. inv_bind Hw as p10 G10. inv_bind Hw as p11 G11.
  inv_bind Hw as p12 G12. inv_bind Hw as p13 G13.
  set (C := F"checksums") in *. set (P := not_sec C).
  (* nothing before the section writer creates it *)
  assert (Hp9 : only_in P [] p9).
  { assert (Ph : P (F"header")) by (intros E; discriminate E). assert (Pr : P (F"release")) by (intros E; discriminate E).
    assert (Pb : P (F"base_product")) by (intros E; discriminate E). assert (Pt : P (F"tree")) by (intros E; discriminate E).
    apply (only_in_trans P [] p0); [exact (add_section_only P _ _ _ Gp0 Ph)|].
    apply (only_in_trans P p0 p1); [exact (sets_only P _ _ _ _ Gp1 Ph)|].
    apply (only_in_trans P p1 p2); [exact (add_section_only P _ _ _ Gp2 Pr)|].
    apply (only_in_trans P p2 p3); [exact (sets_only P _ _ _ _ Gp3 Pr)|].
    apply (only_in_trans P p3 p4).
    { destruct (truthy (getf (ti_release x) (F"is_layered"))); [exact (ini_set_only P _ _ _ _ _ Gp4 Pr)|injection Gp4 as <-; apply only_in_refl]. }
    apply (only_in_trans P p4 p5).
    { destruct (truthy (getf (ti_release x) (F"is_layered"))); [|injection Gp5 as <-; apply only_in_refl].
      inv_bind Gp5 as u6 G6. inv_bind Gp5 as q Gq.
      exact (only_in_trans P p4 q p5 (add_section_only P _ _ _ Gq Pb) (sets_only P _ _ _ _ Gp5 Pb)). }
    apply (only_in_trans P p5 p6); [exact (add_section_only P _ _ _ Gp6 Pt)|].
    apply (only_in_trans P p6 p7); [exact (sets_only P _ _ _ _ Gp7 Pt)|].
    apply (only_in_trans P p7 p8); [exact (ini_set_only P _ _ _ _ _ Gp8 Pt)|].
    revert G9. apply fold_only. intros q kv q' Hq.
    apply (only_in_weaken is_variant_section); [|exact (ser_tvar_only _ _ _ _ Hq)].
    intros s0 Hs. exact (variant_section_not s0 C Hs eq_refl eq_refl). }
  assert (A9 : assoc C p9 = None) by (apply (assoc_nil_only P _ _ Hp9); intros E; apply E; reflexivity).
  (* nothing after it touches it *)
  assert (After : assoc C t = assoc C p10).
  { rewrite (ser_general_only _ _ _ _ Hw C) by (intros E; discriminate E).
    assert (Q13 : assoc C p13 = assoc C p12).
    { destruct (negb (truthy (getf (ti_media x) (F"discnum"))) && negb (truthy (getf (ti_media x) (F"totaldiscs"))));
        [injection G13 as <-; reflexivity|].
      inv_bind G13 as u7 Gv3. inv_bind G13 as q Gq. inv_bind G13 as dn Gd. inv_bind G13 as dn_s Gds. inv_bind G13 as td Gt. inv_bind G13 as td_s Gtds.
      apply (only_in_trans (fun s => s = F"media") p12 q p13 (add_section_only _ _ _ _ Gq eq_refl) (sets_only _ _ _ _ _ G13 eq_refl)).
      intros E; discriminate E. }
    assert (Q12 : assoc C p12 = assoc C p11).
    { set (Ps := fun s : str => s = F"stage2").
      destruct (negb (truthy (getf (ti_stage2 x) (F"mainimage"))) && negb (truthy (getf (ti_stage2 x) (F"instimage"))));
        [injection G12 as <-; reflexivity|].
      inv_bind G12 as u8 Gv. inv_bind G12 as q Gq. inv_bind G12 as q1 Gq1.
      assert (O1 : only_in Ps p11 q) by exact (add_section_only Ps _ _ _ Gq eq_refl).
      assert (O2 : only_in Ps q q1).
      { destruct (truthy (getf (ti_stage2 x) (F"mainimage"))); [exact (ini_set_only Ps _ _ _ _ _ Gq1 eq_refl)|injection Gq1 as <-; apply only_in_refl]. }
      assert (O3 : only_in Ps q1 p12).
      { destruct (truthy (getf (ti_stage2 x) (F"instimage"))); [exact (ini_set_only Ps _ _ _ _ _ G12 eq_refl)|injection G12 as <-; apply only_in_refl]. }
      apply (only_in_trans Ps _ _ _ (only_in_trans Ps _ _ _ O1 O2) O3). intros E; discriminate E. }
    assert (Q11 : assoc C p11 = assoc C p10).
    { destruct (ti_images x) as [|im ims]; [injection G11 as <-; reflexivity|].
      inv_bind G11 as u1' Gi.
      assert (O : only_in (fun s => startswith s (lit "images-") = true) p10 p11).
      { revert G11. apply fold_only. intros q0 pi q' Hq. cbv zeta in Hq. inv_bind Hq as q1 Gq1.
        assert (Li : startswith (lit "images-" ++ fst pi) (lit "images-") = true) by apply startswith_app.
        apply (only_in_trans _ q0 q1); [exact (add_section_only _ _ _ _ Gq1 Li)|exact (sets_only _ _ _ _ _ Hq Li)]. }
      apply O. intros E. discriminate E. }
    congruence. }
  (* the reader *)
  unfold deser_ti in Hr.
  repeat (apply bind_ok in Hr; let y := fresh "y" in let G := fresh "G" in destruct Hr as (y & G & Hr); cbv zeta in Hr).
  injection Hr as <-. cbn [ti_checksums].
  match goal with Gk : match assoc (F"checksums") t with Some _ => _ | None => _ end = Ok ?cks |- _ => rename Gk into Gck end.
  fold C in Gck. rewrite After in Gck.
  destruct (ti_checksums x) as [|c0 cs0] eqn:Ecs.
  - injection G10 as <-. rewrite A9 in Gck. injection Gck as <-. split; [intros c []|reflexivity].
  - assert (Hne : ti_checksums x <> []) by (rewrite Ecs; discriminate). rewrite <- Ecs in *. clear Ecs c0 cs0. remember (ti_checksums x) as cs eqn:Ecs2.
    assert (G10' : exists q, add_section p9 C = Ok q /\ sets q C (map (fun c => (fst c, PStr (ck_text c))) cs) = Ok p10).
    { destruct cs as [|c0 cs0]; [exfalso; apply Hne; reflexivity|]. inv_bind G10 as q Gq. exists q. split; [exact Gq|].
      unfold sets. rewrite fold_left_map. exact G10. }
    destruct G10' as (q & Gq & Gs).
    assert (Hndk : NoDup (map fst (map (fun c : str * (pyval * pyval) => (fst c, PStr (ck_text c))) cs))) by (rewrite map_map; exact Hnd).
    destruct (sets_get _ _ _ _ Gs Hndk) as [S1 S2].
    destruct (assoc C p10) as [opts|] eqn:Eo.
    2:{ exfalso. destruct cs as [|c0 cs0]; [apply Hne; reflexivity|].
        destruct (S1 (fst c0) (PStr (ck_text c0)) (or_introl eq_refl)) as (x0 & _ & Hx0). unfold ini_get in Hx0. rewrite Eo in Hx0. discriminate. }
    change (fold_left _ (sort_opts opts) (Ok [])) with (fold_left ck_step (sort_opts opts) (Ok [])) in Gck.
    assert (Hopts : forall k, assoc k opts = match assoc k (map (fun c : str * (pyval * pyval) => (fst c, ck_text c)) cs) with Some v => Some v | None => None end).
    { intros k. destruct (in_dec str_eq_dec k (map fst cs)) as [Hin|Hnin].
      - apply in_map_iff in Hin. destruct Hin as (c & <- & Hc).
        destruct (S1 (fst c) (PStr (ck_text c))) as (x0 & Ex & Hx0); [apply in_map_iff; exists c; auto|]. injection Ex as <-.
        unfold ini_get in Hx0. rewrite Eo in Hx0.
        rewrite (assoc_in_nodup (fst c) (ck_text c) (map (fun c0 : str * (pyval * pyval) => (fst c0, ck_text c0)) cs)).
        + destruct (assoc (fst c) opts); [injection Hx0 as ->; reflexivity|discriminate].
        + rewrite map_map. exact Hnd.
        + apply in_map_iff. exists c. auto.
      - assert (E1 : ini_get p10 C k = ini_get q C k) by (apply S2; right; rewrite map_map; exact Hnin).
        rewrite (add_section_fresh _ _ _ k Gq) in E1. unfold ini_get in E1. rewrite Eo in E1.
        assert (E2 : assoc k (map (fun c : str * (pyval * pyval) => (fst c, ck_text c)) cs) = None).
        { apply assoc_None. unfold keys. rewrite map_map. exact Hnin. }
        rewrite E2. destruct (assoc k opts); [discriminate|reflexivity]. }
    (* opts has the written keys, each once *)
    assert (Hin_opts : forall c, In c cs -> In (fst c, ck_text c) opts).
    { intros c Hc. apply assoc_In. rewrite Hopts. rewrite (assoc_in_nodup (fst c) (ck_text c)); [reflexivity|rewrite map_map; exact Hnd|].
      apply in_map_iff. exists c. auto. }
    destruct (ck_fold_spec _ _ _ Gck) as [F1 F2].
    split.
    + intros c Hc. 
      assert (Hno : NoDup (map fst (sort_opts opts))).
      { apply sort_opts_nodup.
        assert (Hq0 : assoc C q = Some []).
        { unfold add_section in Gq. destruct (has_section p9 C); [discriminate|]. injection Gq as <-. rewrite assoc_app, A9. cbn [assoc]. rewrite str_eqb_refl. reflexivity. }
        destruct (sets_section_nodup C _ q p10 [] Gs Hq0 ltac:(constructor)) as (opts' & Eo' & Hn'). rewrite Eo in Eo'. injection Eo' as <-. exact Hn'. }
      apply (F2 Hno (fst c) (ck_text c)). apply (proj2 (sort_opts_in _ _)). exact (Hin_opts c Hc).
    + intros p Hp. rewrite F1; [reflexivity|]. intros Hin. apply in_map_iff in Hin. destruct Hin as ([k v] & <- & Hkv). apply (proj1 (sort_opts_in _ _)) in Hkv.
      cbn [fst] in Hp. assert (Ea : assoc k opts <> None).
      { intros En. apply assoc_None in En. apply En. unfold keys. apply in_map_iff. exists (k, v). split; [reflexivity|exact Hkv]. }
      rewrite Hopts in Ea. destruct (assoc k (map _ cs)) eqn:E2; [|congruence]. apply assoc_In in E2. apply in_map_iff in E2.
      destruct E2 as (c & Ec & Hc). injection Ec as <- _. apply Hp. apply in_map. exact Hc.
Qed.
