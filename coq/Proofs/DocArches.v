(* the architecture names the library documents (productmd.common.RPM_ARCHES as shipped: the rpm architecture families) -
   a frozen copy: the regenerated table may grow, but every name listed here must stay known *)
From PM Require Import Base.PyVal Base.Obj Model.Common Gen.Tables.

Definition DOC_RPM_ARCHES : list str := [
  F"aarch64";
  F"alpha";
  F"alphaev4";
  F"alphaev45";
  F"alphaev5";
  F"alphaev56";
  F"alphaev6";
  F"alphaev67";
  F"alphaev68";
  F"alphaev7";
  F"alphapca56";
  F"amd64";
  F"arm64";
  F"armhfp";
  F"armv5tejl";
  F"armv5tel";
  F"armv5tl";
  F"armv6hl";
  F"armv6l";
  F"armv7hl";
  F"armv7hnl";
  F"armv7l";
  F"armv8hl";
  F"armv8l";
  F"athlon";
  F"geode";
  F"i386";
  F"i486";
  F"i586";
  F"i686";
  F"ia32e";
  F"ia64";
  F"loongarch64";
  F"mips";
  F"mips64";
  F"mips64el";
  F"mipsel";
  F"ppc";
  F"ppc64";
  F"ppc64iseries";
  F"ppc64le";
  F"ppc64p7";
  F"ppc64pseries";
  F"riscv128";
  F"riscv32";
  F"riscv64";
  F"s390";
  F"s390x";
  F"sh3";
  F"sh4";
  F"sh4a";
  F"sparc";
  F"sparc64";
  F"sparc64v";
  F"sparcv8";
  F"sparcv9";
  F"sparcv9v";
  F"x86_64";
  F"src";
  F"nosrc";
  F"noarch"
].

Lemma documented_arches_known : forallb (fun a => mem_str a RPM_ARCHES) DOC_RPM_ARCHES = true.
Proof. vm_compute. reflexivity. Qed.

Theorem documented_arch_is_known a : In a DOC_RPM_ARCHES -> mem_str a RPM_ARCHES = true.
Proof. intros H. pose proof documented_arches_known as G. rewrite forallb_forall in G. exact (G a H). Qed.
