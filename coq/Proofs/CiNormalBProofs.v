(* the executable check of Model/CiNormalB.v is sound for the hypotheses of the C01 document theorem *)
From PM Require Import Base.PyVal Base.Obj Model.Common Model.Variants Model.ComposeInfo Model.CiNormalB
     Proofs.ManifestsProofs Proofs.PyValProofs Proofs.CommonProofs Proofs.KeySort Proofs.ReleaseRoundtrip Proofs.PathsRoundtrip
     Proofs.ForestFlat Proofs.ForestRoundtrip Proofs.CiRoundtrip.

Lemma obj_eqb_eq a b : obj_eqb a b = true -> a = b.
Proof. unfold obj_eqb. intros H. apply pyval_eqb_eq in H. injection H as H. exact H. Qed.

Lemma ssortedb_ok l : ssortedb l = true -> ssorted l.
Proof.
  induction l as [|x l IH]; cbn [ssortedb ssorted]; [auto|]. intros H. apply andb_true_iff in H. destruct H as [H1 H2].
  split; [|exact (IH H2)]. rewrite forallb_forall in H1. apply Forall_forall. exact H1.
Qed.

Lemma nodupb_ok l : nodupb l = true -> NoDup l.
Proof.
  induction l as [|x l IH]; cbn [nodupb]; [constructor|]. intros H. apply andb_true_iff in H. destruct H as [H1 H2].
  constructor; [|exact (IH H2)]. intros Hin. apply mem_str_In in Hin. rewrite Hin in H1. discriminate.
Qed.

Lemma all_strsb_ok a : all_strsb a = true -> exists archs, strs_of a = Some archs.
Proof.
  induction a as [|v a IH]; cbn [all_strsb forallb strs_of fold_right]; [exists []; reflexivity|].
  intros H. apply andb_true_iff in H. destruct H as [H1 H2]. destruct v; try discriminate.
  destruct (IH H2) as (r & Hr). unfold strs_of in Hr. rewrite Hr. eexists. reflexivity.
Qed.

Lemma node_normalb_ok t : node_normalb t = true -> node_normal t.
Proof.
  unfold node_normalb. cbv zeta. intros H.
  repeat (apply andb_true_iff in H; let G := fresh "G" in destruct H as [H G]).
  (* H: fields, G4: sort_set, G3: strings, G2: release, G1: children ids, G0... *)
  unfold node_normal. split; [|split; [|split]].
  - apply obj_eqb_eq in H. apply pyval_eqb_eq in G3. injection G3 as G3. destruct (all_strsb_ok _ G2) as (archs & Ha).
    do 6 eexists. split; [exact H|]. split; [exact G3|exact Ha].
  - unfold is_layered_variant. destruct (py_eq (getf (vt_fields t) (F"type")) (PStr (F"layered-product"))).
    + apply obj_eqb_eq in G1. do 5 eexists. exact G1.
    + apply obj_eqb_eq in G1. exact G1.
  - apply Forall_forall. intros kc Hin. rewrite forallb_forall in G0. apply pyval_eqb_eq. exact (G0 kc Hin).
  - apply ssortedb_ok. exact G.
Qed.

Lemma tree_normalb_ok t : tree_normalb t = true -> tree_all node_normal t.
Proof.
  induction t as [f p r cs IH] using vtree_ind2. cbn [tree_normalb]. intros H. apply andb_true_iff in H. destruct H as [H1 H2].
  apply tree_all_unfold. split; [exact (node_normalb_ok _ H1)|]. clear H1.
  revert H2. induction cs as [|[k c] cs IHc]; intros H2; [intros ? ? []|].
  apply andb_true_iff in H2. destruct H2 as [Hc Hr].
  intros k' c' [E|Hin].
  - injection E as <- <-. exact (IH k c (or_introl eq_refl) Hc).
  - exact (IHc (fun k0 c0 Hin0 => IH k0 c0 (or_intror Hin0)) Hr k' c' Hin).
Qed.

Lemma tree_uids_eq t : tree_uids t = uids t.
Proof.
  induction t as [f p r cs IH] using vtree_ind2. rewrite uids_unfold. cbn [tree_uids]. f_equal.
  induction cs as [|[k c] cs IHc]; [reflexivity|]. rewrite forest_uids_cons, (IH k c (or_introl eq_refl)).
  f_equal. exact (IHc (fun k0 c0 Hin0 => IH k0 c0 (or_intror Hin0))).
Qed.

Lemma forest_uids_eq vs : flat_map (fun kc : str * vtree => tree_uids (snd kc)) vs = forest_uids vs.
Proof. rewrite forest_uids_flat_map. apply flat_map_ext. intros [k c]. apply tree_uids_eq. Qed.

Lemma forest_normalb_ok vs : forest_normalb vs = true -> forest_normal vs.
Proof.
  unfold forest_normalb. intros H. repeat (apply andb_true_iff in H; let G := fresh "G" in destruct H as [H G]).
  unfold forest_normal. split; [|split; [|split]].
  - intros k c Hin. rewrite forallb_forall in H. exact (tree_normalb_ok c (H (k, c) Hin)).
  - apply Forall_forall. intros kc Hin. rewrite forallb_forall in G1. apply pyval_eqb_eq. exact (G1 kc Hin).
  - apply nodupb_ok. exact G0.
  - apply ssortedb_ok. exact G.
Qed.

Theorem ci_applicable_ok x :
  ci_normalb x = true -> ci_distinct_uidsb x = true -> ci_normal x /\ NoDup (forest_uids (ci_variants x)).
Proof.
  intros Hn Hd. split.
  - unfold ci_normalb in Hn. cbv zeta in Hn. repeat (apply andb_true_iff in Hn; let G := fresh "G" in destruct Hn as [Hn G]).
    unfold ci_normal. split; [|split].
    + apply obj_eqb_eq in Hn. set (c := ci_compose x) in *.
      exists (getf c (F"id")), (getf c (F"type")), (getf c (F"date")), (getf c (F"respin")), (getf c (F"label")), (truthy (getf c (F"final"))).
      split; [exact Hn|]. destruct (getf c (F"label")) eqn:El; split; try (right; exact G1); try (intros E; discriminate E).
      * left. reflexivity.
      * intros _. apply negb_true_iff in G1. exact G1.
    + apply andb_true_iff in G0. destruct G0 as [Gr Gb]. apply obj_eqb_eq in Gr.
      do 6 eexists. split; [exact Gr|]. destruct (truthy (getf (ci_release x) (F"is_layered"))).
      * apply obj_eqb_eq in Gb. do 4 eexists. exact Gb.
      * apply obj_eqb_eq in Gb. exact Gb.
    + exact (forest_normalb_ok _ G).
  - unfold ci_distinct_uidsb in Hd. rewrite forest_uids_eq in Hd. exact (nodupb_ok _ Hd).
Qed.

(* so the document theorem applies to whatever passes the executable check *)
Corollary ci_roundtrip_checked x doc :
  ci_normalb x = true -> ci_distinct_uidsb x = true -> dump_ci x = Ok doc -> load_ci doc = Ok (wp_ci x).
Proof. intros Hn Hd. destruct (ci_applicable_ok x Hn Hd) as [H1 H2]. exact (ci_roundtrip x doc H1 H2). Qed.

Example ex_ci_passes_the_check : ci_normalb ex_ci = true /\ ci_distinct_uidsb ex_ci = true.
Proof. split; vm_compute; reflexivity. Qed.
