(* C04 (reader on the writer's table): whatever the reader returns for a table the writer produced carries the release and tree
   facts of the written object *)
From PM Require Import Base.PyVal Base.Obj Base.Ini Model.Common Model.TreeInfo Proofs.ManifestsProofs Proofs.PyValProofs
     Proofs.ImagesProofs Proofs.IniProofs Proofs.ArchProofs Proofs.TreeInfoWriter Proofs.CommonProofs Gen.Tables.

Lemma get_has_option t s o v : ini_get t s o = Ok v -> has_option t s o = true /\ has_section t s = true.
Proof.
  unfold ini_get, has_option, has_section. destruct (assoc s t) as [opts|]; [|discriminate].
  destruct (assoc o opts); [split; reflexivity|discriminate].
Qed.

Lemma has_option_get t s o : has_option t s o = true -> exists v, ini_get t s o = Ok v.
Proof.
  unfold ini_get, has_option. destruct (assoc s t) as [opts|]; [|discriminate].
  destruct (assoc o opts) as [v|]; [exists v; reflexivity|discriminate].
Qed.

Lemma has_option_ext t t' s o : ini_get t' s o = ini_get t s o -> has_option t' s o = has_option t s o.
Proof.
  unfold ini_get, has_option. destruct (assoc s t') as [o1|], (assoc s t) as [o2|]; try reflexivity.
  - destruct (assoc o o1), (assoc o o2); cbn; congruence.
  - destruct (assoc o o1); cbn; congruence.
  - destruct (assoc o o2); cbn; congruence.
Qed.

Lemma treeinfo_version_ok :
  version_tuple (F"treeinfo.Header") current_version = Ok VERSION /\ vt_eqb VERSION (0, 0) = false /\ vt_leb VERSION (0, 3) = false.
Proof. vm_compute. repeat split; reflexivity. Qed.

Lemma add_section_get t s t' s' o : add_section t s = Ok t' -> s' <> s -> ini_get t' s' o = ini_get t s' o.
Proof.
  intros H Hne. apply ini_get_assoc. exact (add_section_only (fun x => x = s) _ _ _ H eq_refl s' Hne).
Qed.

Lemma add_section_fresh t s t' o : add_section t s = Ok t' -> ini_get t' s o = Err OtherError.
Proof.
  unfold add_section, has_section. destruct (assoc s t) eqn:E; [discriminate|]. intros H. injection H as <-.
  unfold ini_get. rewrite assoc_app, E. cbn [assoc]. rewrite str_eqb_refl. reflexivity.
Qed.

(* the writer's header, and the is_layered option, in the final table *)
Theorem written_header_and_layered x mv t :
  ser_ti x mv = Ok t ->
  ini_get t (F"header") (F"version") = Ok (show_version VERSION) /\ ini_get t (F"header") (F"type") = Ok ti_mtype /\
  (if truthy (getf (ti_release x) (F"is_layered")) then ini_get t (F"release") (F"is_layered") = Ok (F"true")
   else has_option t (F"release") (F"is_layered") = false).
Proof.
  unfold ser_ti. intros H.
  inv_bind H as u0 G0. inv_bind H as u1 G1. inv_bind H as p0 Gp0. inv_bind H as p1 Gp1. cbv zeta in H.
  inv_bind H as u2 G2. inv_bind H as p2 Gp2. inv_bind H as p3 Gp3. inv_bind H as p4 Gp4. inv_bind H as p5 Gp5.
  inv_bind H as u3 G3. inv_bind H as p6 Gp6. inv_bind H as ts_s Gts. inv_bind H as p7 Gp7. inv_bind H as u4 G4. inv_bind H as p8 Gp8.
  pose proof (tail_only x mv p8 t H) as Htail.
  assert (Hnd1 : NoDup (map fst [(F"version", current_version); (F"type", PStr ti_mtype)])) by (cbn [map fst]; repeat constructor; cbv; intuition discriminate).
  destruct (sets_get _ _ _ _ Gp1 Hnd1) as [S1 _].
  destruct (S1 (F"version") _ ltac:(cbn; tauto)) as (v_s & Hv & Gv). injection Hv as <-.
  destruct (S1 (F"type") _ ltac:(cbn; tauto)) as (ty_s & Hty & Gty). injection Hty as <-.
  assert (Hnd3 : NoDup (map fst [(F"name", getf (ti_release x) (F"name")); (F"version", getf (ti_release x) (F"version"));
                                 (F"short", getf (ti_release x) (F"short"))])) by (cbn [map fst]; repeat constructor; cbv; intuition discriminate).
  assert (Hnd7 : NoDup (map fst [(F"arch", getf (ti_tree x) (F"arch")); (F"platforms", PStr (platforms_str (ti_tree x)));
                                 (F"build_timestamp", PStr ts_s)])) by (cbn [map fst]; repeat constructor; cbv; intuition discriminate).
  (* from p4 on, [header] and [release] are not touched *)
  assert (Late : forall s o, s = F"header" \/ s = F"release" -> ini_get t s o = ini_get p4 s o).
  { intros s o Hs.
    assert (Hcore : In s [F"header"; F"release"; F"base_product"; F"tree"]) by (destruct Hs as [->| ->]; cbn; tauto).
    assert (Nt : s <> F"tree") by (destruct Hs as [->| ->]; discriminate).
    assert (Nb : s <> F"base_product") by (destruct Hs as [->| ->]; discriminate).
    rewrite (ini_get_assoc p8 t s o (Htail s (core_not_later s Hcore))).
    rewrite (ini_set_get_other _ _ _ _ _ s o Gp8) by (left; exact Nt).
    destruct (sets_get _ _ _ _ Gp7 Hnd7) as [_ S7']. rewrite S7' by (left; exact Nt).
    rewrite (add_section_get _ _ _ s o Gp6 Nt).
    destruct (truthy (getf (ti_release x) (F"is_layered"))); [|injection Gp5 as <-; reflexivity].
    inv_bind Gp5 as u5 G5. inv_bind Gp5 as q Gq.
    assert (Hnb : NoDup (map fst [(F"name", getf (ti_base_product x) (F"name")); (F"version", getf (ti_base_product x) (F"version"));
                                  (F"short", getf (ti_base_product x) (F"short"))])) by (cbn [map fst]; repeat constructor; cbv; intuition discriminate).
    destruct (sets_get _ _ _ _ Gp5 Hnb) as [_ Sb]. rewrite Sb by (left; exact Nb).
    exact (add_section_get _ _ _ s o Gq Nb). }
  assert (Hdr : forall o, ini_get p4 (F"header") o = ini_get p1 (F"header") o).
  { intros o.
    assert (E4 : ini_get p4 (F"header") o = ini_get p3 (F"header") o).
    { destruct (truthy (getf (ti_release x) (F"is_layered"))); [|injection Gp4 as <-; reflexivity].
      apply (ini_set_get_other _ _ _ _ _ (F"header") o Gp4). left. discriminate. }
    rewrite E4. destruct (sets_get _ _ _ _ Gp3 Hnd3) as [_ S3']. rewrite S3' by (left; discriminate).
    apply (add_section_get _ _ _ (F"header") o Gp2). discriminate. }
  split; [rewrite Late by (left; reflexivity); rewrite Hdr; exact Gv|].
  split; [rewrite Late by (left; reflexivity); rewrite Hdr; exact Gty|].
  destruct (truthy (getf (ti_release x) (F"is_layered"))).
  - rewrite Late by (right; reflexivity). exact (ini_set_get_same _ _ _ _ _ Gp4).
  - injection Gp4 as <-.
    assert (E : ini_get t (F"release") (F"is_layered") = Err OtherError).
    { rewrite Late by (right; reflexivity). destruct (sets_get _ _ _ _ Gp3 Hnd3) as [_ S3']. rewrite S3'.
      - exact (add_section_fresh _ _ _ _ Gp2).
      - right. cbn [map fst In]. intros [E|[E|[E|[]]]]; discriminate E. }
    destruct (has_option t (F"release") (F"is_layered")) eqn:Eo; [|reflexivity].
    destruct (has_option_get _ _ _ Eo) as (v & Hv). rewrite E in Hv. discriminate.
Qed.

(* the reader on that table: release name/short/version/is_layered, tree arch, platforms and timestamp *)
Theorem release_and_tree_read_back x mv t x' :
  ser_ti x mv = Ok t -> deser_ti t = Ok x' ->
  getf (ti_release x') (F"name") = getf (ti_release x) (F"name") /\
  getf (ti_release x') (F"short") = getf (ti_release x) (F"short") /\
  getf (ti_release x') (F"version") = getf (ti_release x) (F"version") /\
  getf (ti_release x') (F"is_layered") = PBool (truthy (getf (ti_release x) (F"is_layered"))) /\
  getf (ti_tree x') (F"arch") = getf (ti_tree x) (F"arch") /\
  getf (ti_tree x') (F"platforms") = PList (sort_set (map PStr (split_nonempty (platforms_str (ti_tree x))))) /\
  exists ts_s, py_str_num (getf (ti_tree x) (F"build_timestamp")) = Ok ts_s /\
               float_text_to_int ts_s = Ok (getf (ti_tree x') (F"build_timestamp")).
Proof.
  intros Hw Hr.
  destruct (written_release_and_tree x mv t Hw) as (name_s & ver_s & short_s & arch_s & ts_s & En & Ev & Es & Ea & Ets & Gn & Gv & Gs & Ga & Gp & Gt).
  destruct (written_header_and_layered x mv t Hw) as (Hhv & Hht & Hlay).
  destruct treeinfo_version_ok as (Hvt & Hz & Hold).
  unfold deser_ti in Hr.
  rewrite (proj1 (get_has_option _ _ _ _ Hhv)), Hhv in Hr. cbn [bind] in Hr.
  change (PStr (show_version VERSION)) with current_version in Hr. rewrite Hvt in Hr. cbn [bind] in Hr.
  destruct current_version_ok as (_ & _ & H11 & _). rewrite H11, Hht in Hr. cbn [bind] in Hr.
  rewrite str_eqb_refl in Hr. cbn [guard bind] in Hr. rewrite Hz in Hr. cbn [negb guard bind] in Hr.
  rewrite Hold in Hr. rewrite Gn, Gv in Hr. cbn [bind] in Hr.
  rewrite (proj1 (get_has_option _ _ _ _ Gs)), Gs in Hr. cbn [bind] in Hr.
  assert (Hl : (if has_option t (F"release") (F"is_layered") then do s <- ini_get t (F"release") (F"is_layered"); ini_getboolean s else Ok false)
               = Ok (truthy (getf (ti_release x) (F"is_layered")))).
  { destruct (truthy (getf (ti_release x) (F"is_layered"))).
    - rewrite (proj1 (get_has_option _ _ _ _ Hlay)), Hlay. reflexivity.
    - rewrite Hlay. reflexivity. }
  rewrite Hl in Hr. cbn [bind] in Hr. cbv zeta in Hr.
  inv_bind Hr as u1 Grel. inv_bind Hr as bp Gbp.
  rewrite (proj2 (get_has_option _ _ _ _ Ga)), Ga, Gp in Hr. cbn [bind] in Hr.
  rewrite str_eqb_refl, Gt in Hr. cbn [bind] in Hr.
  inv_bind Hr as ts' Gts'.
  inv_bind Hr as u2 G2. inv_bind Hr as vids G3. inv_bind Hr as variants G4. inv_bind Hr as u3 G5. inv_bind Hr as cks G6.
  inv_bind Hr as u4 G7. inv_bind Hr as u5 G8. inv_bind Hr as u6 G9. inv_bind Hr as md G10. inv_bind Hr as u7 G11. inv_bind Hr as u8 G12.
  injection Hr as <-. cbn [ti_release ti_tree].
  rewrite En, Es, Ev, Ea.
  repeat split; try reflexivity.
  exists ts_s. split; [exact Ets|exact Gts'].
Qed.
