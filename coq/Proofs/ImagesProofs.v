From PM Require Import Base.PyVal Base.Obj Model.Common Model.Images Model.Manifests Proofs.PyValProofs Proofs.ManifestsProofs
     Gen.Tables Gen.Validators.

(* ---------- table obligation: the identity attributes are the documented seven *)
Definition documented7 : list str :=
  [F"subvariant"; F"type"; F"format"; F"arch"; F"disc_number"; F"unified"; F"additional_variants"].

Definition unique_attrs_ok : bool :=
  forallb (fun a => mem_str a documented7) UNIQUE_IMAGE_ATTRIBUTES &&
  forallb (fun a => mem_str a UNIQUE_IMAGE_ATTRIBUTES) documented7 &&
  Nat.eqb (length UNIQUE_IMAGE_ATTRIBUTES) 7.

Lemma unique_attrs_ok_holds : unique_attrs_ok = true.
Proof. vm_compute. reflexivity. Qed.

Lemma unique_attr_documented a : In a UNIQUE_IMAGE_ATTRIBUTES -> In a documented7.
Proof.
  intros H. pose proof unique_attrs_ok_holds as Hok. unfold unique_attrs_ok in Hok. rewrite !andb_true_iff in Hok.
  destruct Hok as [[H1 _] _]. rewrite forallb_forall in H1. apply mem_str_In. exact (H1 a H).
Qed.

Lemma documented_attr_unique a : In a documented7 -> In a UNIQUE_IMAGE_ATTRIBUTES.
Proof.
  intros H. pose proof unique_attrs_ok_holds as Hok. unfold unique_attrs_ok in Hok. rewrite !andb_true_iff in Hok.
  destruct Hok as [[_ H2] _]. rewrite forallb_forall in H2. apply mem_str_In. exact (H2 a H).
Qed.

(* two images have the same identity iff the documented seven attributes agree (with the two defaults) *)
Theorem identify_spec a b :
  same_identity a b = true <->
  forall f, In f documented7 -> py_eq (identify_attr (getf a) f) (identify_attr (getf b) f) = true.
Proof.
  unfold same_identity, identify_obj. rewrite py_eq_true, !norm_list, !map_map.
  split.
  - intros H f Hf. apply documented_attr_unique in Hf. apply py_eq_true.
    apply (f_equal (fun v => match v with PList l => l | _ => [] end)) in H. revert H Hf. generalize UNIQUE_IMAGE_ATTRIBUTES as l.
    induction l as [|x l IH]; intros H Hf; [destruct Hf|]. cbn [map] in H.
    injection H as Hx Hl. destruct Hf as [->|Hf]; [exact Hx|exact (IH Hl Hf)].
  - intros H. f_equal. apply map_ext_in. intros f Hf. apply py_eq_true. apply H. apply unique_attr_documented. exact Hf.
Qed.

(* ---------- the invariant *)
Definition Inv (c : cells_t) : Prop :=
  forall i j, In i (all_images c) -> In j (all_images c) ->
  same_identity (snd i) (snd j) = true -> same_checksums (snd i) (snd j) = true.

Lemma in_set_add x img l : In x (set_add img l) -> In x l \/ x = img.
Proof.
  induction l as [|y l IH]; cbn [set_add]; [intros [<-|[]]; auto|].
  destruct (Nat.eqb (fst y) (fst img)); [auto|]. intros [<-|H]; [left; left; reflexivity|].
  destruct (IH H) as [H1|H1]; [left; right; exact H1|auto].
Qed.

Lemma in_arches_upd x img a (arches : list (str * list image)) :
  In x (flat_map snd (upd a (fun o => set_add img (dflt [] o)) arches)) -> In x (flat_map snd arches) \/ x = img.
Proof.
  induction arches as [|[k l] arches IH]; cbn [upd flat_map].
  - rewrite app_nil_r. cbn [snd dflt]. intros H. apply in_set_add in H. destruct H as [[]|H]; auto.
  - destruct (str_eqb a k); cbn [flat_map snd]; intros H; apply in_app_or in H.
    + destruct H as [H|H]; [|left; apply in_or_app; right; exact H].
      cbn [dflt] in H. apply in_set_add in H. destruct H as [H|H]; [left; apply in_or_app; left; exact H|auto].
    + destruct H as [H|H]; [left; apply in_or_app; left; exact H|].
      destruct (IH H) as [H1|H1]; [left; apply in_or_app; right; exact H1|auto].
Qed.

Lemma in_cells_upd x img v a (c : cells_t) :
  In x (all_images (upd v (fun o => upd a (fun o => set_add img (dflt [] o)) (dflt [] o)) c)) ->
  In x (all_images c) \/ x = img.
Proof.
  unfold all_images. induction c as [|[k arches] c IH]; cbn [upd flat_map].
  - rewrite app_nil_r. cbn [snd dflt]. intros H. apply (in_arches_upd x img a []) in H. destruct H as [[]|H]; auto.
  - destruct (str_eqb v k); cbn [flat_map snd]; intros H; apply in_app_or in H.
    + destruct H as [H|H]; [|left; apply in_or_app; right; exact H].
      cbn [dflt] in H. apply in_arches_upd in H. destruct H as [H|H]; [left; apply in_or_app; left; exact H|auto].
    + destruct H as [H|H]; [left; apply in_or_app; left; exact H|].
      destruct (IH H) as [H1|H1]; [left; apply in_or_app; right; exact H1|auto].
Qed.

Lemma same_checksums_sym a b : same_checksums a b = same_checksums b a.
Proof. apply py_eq_sym. Qed.
Lemma same_identity_sym a b : same_identity a b = same_identity b a.
Proof. apply py_eq_sym. Qed.

Theorem add_preserves_inv vt c v a img c' :
  vt_leb (1, 1) vt = true -> Inv c -> images_add vt c v a img = Ok c' -> Inv c'.
Proof.
  intros Hvt HI H. unfold images_add in H.
  inv_guard H as G1. inv_guard H as G2. inv_guard H as G3. injection H as <-.
  rewrite Hvt in G3. cbn [andb] in G3. apply negb_true_iff in G3.
  assert (Hnc : forall cur, In cur (all_images c) -> same_identity (snd cur) (snd img) = true ->
                            same_checksums (snd cur) (snd img) = true).
  { intros cur Hin Hid. unfold collides in G3.
    destruct (same_checksums (snd cur) (snd img)) eqn:E; [reflexivity|]. exfalso.
    assert (existsb (fun cur => same_identity (snd cur) (snd img) && negb (same_checksums (snd cur) (snd img))) (all_images c) = true).
    { apply existsb_exists. exists cur. split; [exact Hin|]. rewrite Hid, E. reflexivity. }
    congruence. }
  intros i j Hi Hj Hid. apply in_cells_upd in Hi, Hj.
  destruct Hi as [Hi| ->], Hj as [Hj| ->].
  - exact (HI i j Hi Hj Hid).
  - exact (Hnc i Hi Hid).
  - rewrite same_checksums_sym. apply (Hnc j Hj). rewrite same_identity_sym. exact Hid.
  - apply py_eq_refl.
Qed.

Lemma inv_empty : Inv [].
Proof. intros i j []. Qed.

(* every state reachable from a fresh manifest by any sequence of add calls (refused ones leave it as it was) *)
Definition apply_add (vt : N * N) (c : cells_t) (op : str * str * image) : cells_t :=
  match images_add vt c (fst (fst op)) (snd (fst op)) (snd op) with Ok c' => c' | Err _ => c end.

Theorem reach_inv vt ops : vt_leb (1, 1) vt = true -> Inv (fold_left (apply_add vt) ops []).
Proof.
  intros Hvt. assert (H : forall c, Inv c -> Inv (fold_left (apply_add vt) ops c)).
  { induction ops as [|op ops IH]; intros c HI; [exact HI|]. cbn [fold_left]. apply IH.
    unfold apply_add. destruct (images_add vt c _ _ _) eqn:E; [|exact HI].
    exact (add_preserves_inv vt c _ _ _ _ Hvt HI E). }
  apply H. exact inv_empty.
Qed.

(* a refused add is ValueError; before 1.1 identity is not checked (documented exemption) *)
Theorem add_refusal_class vt c v a img e : images_add vt c v a img = Err e -> e = ValueError.
Proof.
  unfold images_add. intros H.
  repeat (apply bind_err in H; destruct H as [H|(? & _ & H)]; [apply guard_err in H; exact H|]). discriminate.
Qed.

Theorem add_accepts_iff vt c v a img :
  (exists c', images_add vt c v a img = Ok c') <->
  mem_str a RPM_ARCHES = true /\ is_src_arch a = false /\ (vt_leb (1, 1) vt = true -> collides c (snd img) = false).
Proof.
  unfold images_add. split.
  - intros [c' H]. inv_guard H as G1. inv_guard H as G2. inv_guard H as G3.
    split; [exact G1|]. split; [apply negb_true_iff; exact G2|]. intros Hv. rewrite Hv in G3. apply negb_true_iff in G3. exact G3.
  - intros (H1 & H2 & H3). rewrite H1, H2. cbn [negb guard bind].
    destruct (vt_leb (1, 1) vt); cbn [andb]; [rewrite (H3 eq_refl)|]; cbn [negb guard bind]; eauto.
Qed.

(* ---------- identity of an object = identity of its serialised dictionary *)
Definition merges_variants_body : vmethod :=
  VBody [AssertType (F"additional_variants") [TList];
         VIf (CAnd (CTruthy (F"additional_variants")) (CNot (CTruthy (F"unified")))) [VRaise ValueError]].

(* obligation on the regenerated validator table *)
Lemma merges_variants_present :
  assoc (F"_validate_merges_variants") (validators_of image_cls) = Some merges_variants_body.
Proof. vm_compute. reflexivity. Qed.

Lemma iterM_all {A} (f : A -> result unit) l : iterM f l = Ok tt -> forall x, In x l -> f x = Ok tt.
Proof.
  induction l as [|y l IH]; cbn [iterM]; intros H x Hin; [destruct Hin|].
  destruct (f y) as [[]|e] eqn:E; cbn [bind] in H; [|discriminate].
  destruct Hin as [<-|Hin]; [exact E|exact (IH H x Hin)].
Qed.

Lemma valid_image_addl o :
  validate image_cls o = Ok tt -> truthy (getf o (F"additional_variants")) = true -> truthy (getf o (F"unified")) = true.
Proof.
  intros Hv Ha. unfold validate, validate_with, run_validators in Hv.
  pose proof merges_variants_present as Hm. apply assoc_In in Hm.
  pose proof (iterM_all _ _ Hv _ Hm) as H. cbn [snd run_method merges_variants_body run_vexprs iterM] in H.
  destruct (run_vexpr o (AssertType _ _)) as [[]|]; cbn [bind] in H; [|discriminate].
  cbn [run_vexpr eval_cond bind] in H. rewrite Ha in H. cbn [bind] in H.
  destruct (truthy (getf o (F"unified"))); [reflexivity|]. cbn in H. discriminate.
Qed.

Lemma assoc_map_self (g : str -> pyval) f l : In f l -> assoc f (map (fun f => (f, g f)) l) = Some (g f).
Proof.
  induction l as [|x l IH]; intros H; [destruct H|]. cbn [map assoc].
  destruct (str_eqb_spec f x) as [->|Hn]; [reflexivity|]. destruct H as [->|H]; [congruence|exact (IH H)].
Qed.

Lemma assoc_map_self_none (g : str -> pyval) f l : ~ In f l -> assoc f (map (fun f => (f, g f)) l) = None.
Proof.
  induction l as [|x l IH]; intros H; [reflexivity|]. cbn [map assoc].
  destruct (str_eqb_spec f x) as [->|Hn]; [exfalso; apply H; left; reflexivity|]. apply IH. intros Hin. apply H. right. exact Hin.
Qed.

Lemma assoc_app {A} f (l1 l2 : list (str * A)) :
  assoc f (l1 ++ l2) = match assoc f l1 with Some v => Some v | None => assoc f l2 end.
Proof. induction l1 as [|[k v] l1 IH]; cbn [app assoc]; [reflexivity|]. destruct (str_eqb f k); [reflexivity|exact IH]. Qed.

Definition base13 : list str :=
  [F"path"; F"mtime"; F"size"; F"volume_id"; F"type"; F"format"; F"arch"; F"disc_number"; F"disc_count";
   F"checksums"; F"implant_md5"; F"bootable"; F"subvariant"].

Theorem identify_ser o d :
  ser_image o = Ok (PDict d) -> identify_dict d = identify_obj o.
Proof.
  unfold ser_image. intros H. destruct (validate image_cls o) as [[]|e] eqn:Hv; cbn [bind] in H; [|discriminate].
  apply (f_equal (fun r => match r with Ok (PDict x) => x | _ => [] end)) in H. cbv beta iota in H. subst d.
  fold base13. unfold identify_dict, identify_obj. apply map_ext_in. intros a Ha.
  apply unique_attr_documented in Ha.
  assert (Hbase : In a base13 -> forall tail, dflt PNone (assoc a (map (fun f => (f, getf o f)) base13 ++ tail)) = getf o a).
  { intros Hin tail. rewrite assoc_app, (assoc_map_self (getf o) a base13 Hin). reflexivity. }
  assert (Hplain : In a [F"subvariant"; F"type"; F"format"; F"arch"; F"disc_number"] ->
                   forall get, identify_attr get a = get a).
  { intros Hin get. unfold identify_attr.
    repeat (destruct Hin as [<-|Hin]; [reflexivity|]). destruct Hin. }
  destruct Ha as [<-|[<-|[<-|[<-|[<-|[<-|[<-|[]]]]]]]].
  1-5: rewrite !Hplain by (cbn; tauto);
       destruct (truthy (getf o (F"unified"))); [apply Hbase|rewrite <- (app_nil_r (map _ base13)); apply Hbase]; cbn; tauto.
  - (* unified *)
    unfold identify_attr. change (str_eqb (F"unified") (F"unified")) with true. cbv iota.
    destruct (truthy (getf o (F"unified"))) eqn:Eu.
    + rewrite assoc_app, assoc_map_self_none.
      * cbn [assoc]. change (str_eqb (F"unified") (F"unified")) with true. cbn [dflt]. rewrite Eu. reflexivity.
      * cbv. intuition discriminate.
    + rewrite assoc_map_self_none; [reflexivity|]. cbv. intuition discriminate.
  - (* additional_variants *)
    unfold identify_attr. change (str_eqb (F"additional_variants") (F"unified")) with false.
    change (str_eqb (F"additional_variants") (F"additional_variants")) with true. cbv iota.
    destruct (truthy (getf o (F"unified"))) eqn:Eu.
    + rewrite assoc_app, assoc_map_self_none.
      * cbn [assoc]. change (str_eqb (F"additional_variants") (F"unified")) with false.
        change (str_eqb (F"additional_variants") (F"additional_variants")) with true. cbn [dflt]. reflexivity.
      * cbv. intuition discriminate.
    + assert (Haddl : truthy (getf o (F"additional_variants")) = false).
      { destruct (truthy (getf o (F"additional_variants"))) eqn:E; [|reflexivity].
        rewrite (valid_image_addl o Hv E) in Eu. discriminate. }
      rewrite assoc_map_self_none; [|cbv; intuition discriminate]. cbn [dflt truthy]. rewrite Haddl. reflexivity.
Qed.
