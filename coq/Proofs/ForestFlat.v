(* C01: what the composeinfo writer puts into the flat uid-keyed "variants" mapping, for whole forests of any depth *)
From PM Require Import Base.PyVal Base.Obj Model.Common Model.Variants Model.ComposeInfo
     Proofs.ManifestsProofs Proofs.PyValProofs Proofs.LoadValid.
From Coq Require Import Lia Permutation.

Lemma nodup_app_inv {A} (a b : list A) : NoDup (a ++ b) -> NoDup a /\ NoDup b /\ (forall x, In x a -> In x b -> False).
Proof.
  induction a as [|x a IH]; cbn [app]; intros H.
  - split; [constructor|]. split; [exact H|intros ? []].
  - inversion H as [|? ? Hx Hr]; subst. destruct (IH Hr) as (Ha & Hb & Hd). split; [|split; [exact Hb|]].
    + constructor; [|exact Ha]. intros Hin. apply Hx. apply in_or_app. left. exact Hin.
    + intros y [->|Hy] Hyb; [apply Hx; apply in_or_app; right; exact Hyb|exact (Hd y Hy Hyb)].
Qed.

Lemma nodup_app {A} (a b : list A) : NoDup a -> NoDup b -> (forall x, In x a -> In x b -> False) -> NoDup (a ++ b).
Proof.
  induction a as [|x a IH]; cbn [app]; intros Ha Hb Hd; [exact Hb|].
  inversion Ha as [|? ? Hx Hr]; subst. constructor.
  - intros Hin. apply in_app_or in Hin. destruct Hin as [Hin|Hin]; [exact (Hx Hin)|exact (Hd x (or_introl eq_refl) Hin)].
  - apply IH; [exact Hr|exact Hb|]. intros y Hy. apply Hd. right. exact Hy.
Qed.

(* ---- induction over variant trees (children are a nested list) *)
Section vtree_induction.
  Variable P : vtree -> Prop.
  Hypothesis step : forall f p r cs, (forall k c, In (k, c) cs -> P c) -> P (VT f p r cs).
  Fixpoint vtree_ind2 (t : vtree) : P t :=
    match t with
    | VT f p r cs =>
        step f p r cs
          ((fix go (cs : list (str * vtree)) : forall k c, In (k, c) cs -> P c :=
              match cs with
              | [] => fun k c H => match H with end
              | (k0, c0) :: cs' => fun k c H =>
                  match H with
                  | or_introl E => eq_ind c0 P (vtree_ind2 c0) c (f_equal snd E)
                  | or_intror H' => go cs' k c H'
                  end
              end) cs)
    end.
End vtree_induction.

(* ---- the entry written for one variant *)
Definition uid_s (t : vtree) : str := match getf (vt_fields t) (F"uid") with PStr s => s | _ => [] end.
Definition is_layered_variant (t : vtree) : bool := py_eq (getf (vt_fields t) (F"type")) (PStr (F"layered-product")).

Definition rel_part (t : vtree) : list (str * pyval) :=
  if is_layered_variant t
  then match ser_release release_cls (F"release") (setf (vt_release t) (F"is_layered") (PBool true)) with Ok r => [r] | Err _ => [] end
  else [].

Definition child_ids (t : vtree) : list pyval := sort_set (map (fun kv => getf (vt_fields (snd kv)) (F"id")) (vt_children t)).

Definition dump_of (t : vtree) : pyval :=
  let f := vt_fields t in
  PDict ([(F"id", getf f (F"id")); (F"uid", getf f (F"uid")); (F"name", getf f (F"name")); (F"type", getf f (F"type"));
          (F"arches", PList (sort_set (arches_of f)))]
         ++ rel_part t ++ [(F"paths", ser_paths (arches_of f) (vt_paths t))]
         ++ match vt_children t with [] => [] | _ => [(F"variants", PList (child_ids t))] end).

(* the entries of a subtree, children first (the writer's order) *)
Fixpoint flat (t : vtree) : list (str * pyval) :=
  match t with
  | VT f p r cs =>
      (fix go (cs : list (str * vtree)) : list (str * pyval) :=
         match cs with [] => [] | (_, c) :: cs' => flat c ++ go cs' end) cs
      ++ [(uid_s t, dump_of t)]
  end.

Definition flat_list (cs : list (str * vtree)) : list (str * pyval) := flat_map (fun kc => flat (snd kc)) cs.

Lemma flat_unfold f p r cs : flat (VT f p r cs) = flat_list cs ++ [(uid_s (VT f p r cs), dump_of (VT f p r cs))].
Proof.
  cbn [flat]. f_equal. unfold flat_list. induction cs as [|[k c] cs IH]; cbn [flat_map snd]; [reflexivity|]. rewrite IH. reflexivity.
Qed.

Definition uids (t : vtree) : list str := map fst (flat t).
Definition forest_uids (cs : list (str * vtree)) : list str := map fst (flat_list cs).

Lemma forest_uids_cons k c cs : forest_uids ((k, c) :: cs) = uids c ++ forest_uids cs.
Proof. unfold forest_uids, flat_list, uids. cbn [flat_map snd]. apply map_app. Qed.

Lemma uids_unfold f p r cs : uids (VT f p r cs) = forest_uids cs ++ [uid_s (VT f p r cs)].
Proof. unfold uids. rewrite flat_unfold, map_app. reflexivity. Qed.

Definition disjoint (a b : list str) : Prop := forall x, In x a -> In x b -> False.

(* ---- the writer: ser_variant appends exactly the subtree's entries, and every node passed its validators *)
Definition ser_children (me : option (pyval * pyval)) :=
  fix go (cs : list (str * vtree)) (d : list (str * pyval)) : result (list (str * pyval)) :=
    match cs with
    | [] => Ok d
    | (_, c) :: cs' => do d' <- ser_variant me c d; go cs' d'
    end.

Lemma ser_variant_unfold parent f paths rel children data :
  ser_variant parent (VT f paths rel children) data =
  (let t := VT f paths rel children in
   let base := [(F"id", getf f (F"id")); (F"uid", getf f (F"uid")); (F"name", getf f (F"name")); (F"type", getf f (F"type"));
                (F"arches", PList (sort_set (arches_of f)))] in
   do base1 <- (if py_eq (getf f (F"type")) (PStr (F"layered-product"))
                then do r <- ser_release release_cls (F"release") (setf rel (F"is_layered") (PBool true)); Ok (base ++ [r])
                else Ok base);
   let base2 := base1 ++ [(F"paths", ser_paths (arches_of f) paths)] in
   let me := Some (getf f (F"uid"), getf f (F"arches")) in
   do data1 <- ser_children me children data;
   let ids := sort_set (map (fun kv => getf (vt_fields (snd kv)) (F"id")) children) in
   let dump := match children with [] => base2 | _ => base2 ++ [(F"variants", PList ids)] end in
   do uid <- match getf f (F"uid") with PStr s => Ok s | _ => Err TypeError end;
   do data2 <- match assoc uid data1 with
               | Some existing => if py_eq existing (PDict dump) then Ok data1 else Err ValueError
               | None => Ok (data1 ++ [(uid, PDict dump)])
               end;
   check validate_tree_node parent t;
   Ok data2).
Proof. reflexivity. Qed.

Lemma ser_children_spec me cs :
  (forall k c, In (k, c) cs -> forall parent data data',
      ser_variant parent c data = Ok data' -> disjoint (uids c) (keys data) -> NoDup (uids c) ->
      data' = data ++ flat c /\ tree_valid parent c) ->
  forall data data1, ser_children me cs data = Ok data1 -> disjoint (forest_uids cs) (keys data) -> NoDup (forest_uids cs) ->
  data1 = data ++ flat_list cs /\ children_valid me cs.
Proof.
  induction cs as [|[k c] cs IH]; intros Hc data data1 H Hd Hn.
  - cbn in H. injection H as <-. split; [unfold flat_list; cbn; rewrite app_nil_r; reflexivity|intros ? ? []].
  - cbn [ser_children] in H. apply bind_ok in H. destruct H as (d' & H1 & H2).
    rewrite forest_uids_cons in Hd, Hn. apply nodup_app_inv in Hn. destruct Hn as (Hn1 & Hn2 & Hn3).
    destruct (Hc k c (or_introl eq_refl) me data d' H1) as [E1 V1].
    { intros x Hx Hk. apply (Hd x); [apply in_or_app; left; exact Hx|exact Hk]. }
    { exact Hn1. }
    subst d'.
    destruct (IH (fun k' c' Hin => Hc k' c' (or_intror Hin)) _ _ H2) as [E2 V2].
    { intros x Hx Hk. unfold keys in Hk. rewrite map_app in Hk. apply in_app_or in Hk. destruct Hk as [Hk|Hk].
      - apply (Hd x); [apply in_or_app; right; exact Hx|exact Hk].
      - apply (Hn3 x); [|exact Hx]. unfold uids. exact Hk. }
    { exact Hn2. }
    subst data1. split.
    + unfold flat_list. cbn [flat_map snd]. rewrite app_assoc. reflexivity.
    + intros k' c' [E|Hin]; [injection E as <- <-; exact V1|exact (V2 k' c' Hin)].
Qed.

Lemma keys_app {A} (a b : list (str * A)) : keys (a ++ b) = keys a ++ keys b.
Proof. apply map_app. Qed.

Theorem ser_variant_spec t : forall parent data data',
  ser_variant parent t data = Ok data' -> disjoint (uids t) (keys data) -> NoDup (uids t) ->
  data' = data ++ flat t /\ tree_valid parent t.
Proof.
  induction t as [f paths rel children IH] using vtree_ind2. intros parent data data' H Hd Hn.
  rewrite ser_variant_unfold in H. cbv zeta in H.
  set (t := VT f paths rel children) in *.
  apply bind_ok in H. destruct H as (base1 & Hb & H).
  apply bind_ok in H. destruct H as (data1 & Hc & H).
  apply bind_ok in H. destruct H as (uid & Hu & H).
  apply bind_ok in H. destruct H as (data2 & H2 & H).
  apply bind_ok in H. destruct H as (u & Hv & H). injection H as <-.
  unfold t in Hd, Hn. rewrite uids_unfold in Hd, Hn. fold t in Hd, Hn.
  apply nodup_app_inv in Hn. destruct Hn as (Hn1 & _ & Hn3).
  destruct (ser_children_spec _ children IH data data1 Hc) as [E1 V1].
  { intros x Hx Hk. apply (Hd x); [apply in_or_app; left; exact Hx|exact Hk]. }
  { exact Hn1. }
  assert (Eu : getf f (F"uid") = PStr uid) by (destruct (getf f (F"uid")); try discriminate; injection Hu as <-; reflexivity).
  assert (Eus : uid_s t = uid) by (unfold uid_s, t; cbn [vt_fields]; rewrite Eu; reflexivity).
  assert (Hnone : assoc uid data1 = None).
  { apply assoc_None. subst data1. rewrite keys_app. intros Hin. apply in_app_or in Hin. destruct Hin as [Hin|Hin].
    - apply (Hd uid); [apply in_or_app; right; left; exact Eus|exact Hin].
    - apply (Hn3 uid); [exact Hin|left; exact Eus]. }
  rewrite Hnone in H2. injection H2 as <-.
  split.
  - subst data1. change (flat t) with (flat (VT f paths rel children)). rewrite flat_unfold. fold t. rewrite <- app_assoc. f_equal. f_equal. rewrite Eus. f_equal. f_equal.
    unfold dump_of, t. cbn [vt_fields vt_paths vt_children vt_release].
    assert (Eb : base1 = [(F"id", getf f (F"id")); (F"uid", getf f (F"uid")); (F"name", getf f (F"name")); (F"type", getf f (F"type"));
                          (F"arches", PList (sort_set (arches_of f)))] ++ rel_part t).
    { unfold rel_part, is_layered_variant, t. cbn [vt_fields vt_release].
      destruct (py_eq (getf f (F"type")) (PStr (F"layered-product"))).
      - apply bind_ok in Hb. destruct Hb as (r & Hr & Hb). rewrite Hr. injection Hb as <-. reflexivity.
      - injection Hb as <-. rewrite app_nil_r. reflexivity. }
    rewrite Eb. unfold child_ids, t. cbn [vt_children]. destruct children; rewrite <- ?app_assoc; [rewrite app_nil_r|]; reflexivity.
  - unfold t. apply tree_valid_unfold. split; [exact (unit_ok _ _ Hv)|exact V1].
Qed.

(* the whole forest *)
Lemma fold_ser_spec cs : forall data d,
  fold_left (fun acc kv => do d <- acc; ser_variant None (snd kv) d) cs (Ok data) = Ok d ->
  disjoint (forest_uids cs) (keys data) -> NoDup (forest_uids cs) ->
  d = data ++ flat_list cs /\ children_valid None cs.
Proof.
  induction cs as [|[k c] cs IH]; intros data d H Hd Hn.
  - cbn in H. injection H as <-. split; [unfold flat_list; cbn; rewrite app_nil_r; reflexivity|intros ? ? []].
  - cbn [fold_left bind snd] in H.
    destruct (ser_variant None c data) as [d'|e] eqn:E1.
    2:{ exfalso. clear -H. induction cs as [|x cs IHc]; cbn in H; [discriminate|exact (IHc H)]. }
    rewrite forest_uids_cons in Hd, Hn. apply nodup_app_inv in Hn. destruct Hn as (Hn1 & Hn2 & Hn3).
    destruct (ser_variant_spec c None data d' E1) as [-> V1].
    { intros x Hx Hk. apply (Hd x); [apply in_or_app; left; exact Hx|exact Hk]. }
    { exact Hn1. }
    destruct (IH _ _ H) as [-> V2].
    { intros x Hx Hk. rewrite keys_app in Hk. apply in_app_or in Hk. destruct Hk as [Hk|Hk].
      - apply (Hd x); [apply in_or_app; right; exact Hx|exact Hk].
      - apply (Hn3 x); [exact Hk|exact Hx]. }
    { exact Hn2. }
    split.
    + unfold flat_list. cbn [flat_map snd]. rewrite app_assoc. reflexivity.
    + intros k' c' [E|Hin]; [injection E as <- <-; exact V1|exact (V2 k' c' Hin)].
Qed.

Theorem ser_variants_spec vs d :
  ser_variants vs = Ok (PDict d) -> NoDup (forest_uids (sort_keys vs)) ->
  d = flat_list (sort_keys vs) /\ children_valid None (sort_keys vs) /\ validate_container vs = Ok tt.
Proof.
  unfold ser_variants. intros H Hn. apply bind_ok in H. destruct H as (u & Hv & H).
  apply bind_ok in H. destruct H as (d0 & Hf & H). injection H as <-.
  destruct (fold_ser_spec _ _ _ Hf) as [E V]; [intros x _ []|exact Hn|].
  split; [exact E|]. split; [exact V|exact (unit_ok _ _ Hv)].
Qed.
