From PM Require Import Base.PyVal Base.Json Model.Common Model.Dump.

Theorem dump_atomic ser f p e : snd (dump_path ser f p) = Err e -> fst (dump_path ser f p) = f.
Proof. unfold dump_path. destruct ser; cbn; [discriminate|reflexivity]. Qed.

Theorem dump_ok_writes ser f p :
  snd (dump_path ser f p) = Ok tt ->
  exists d, ser = Ok d /\ assoc p (fst (dump_path ser f p)) = Some (print_json d) /\
            forall q, q <> p -> assoc q (fst (dump_path ser f p)) = assoc q f.
Proof.
  unfold dump_path. destruct ser as [d|e]; cbn [fst snd]; [|discriminate]. intros _. exists d.
  split; [reflexivity|]. split; [apply assoc_set_same|]. intros q Hq. apply assoc_set_other. congruence.
Qed.

(* the open-first sequence destroys the previous content when only a nested part is invalid (defect D1) *)
Theorem dump_open_first_refuted :
  exists f p e, assoc p f = Some (lit "last good copy") /\
    snd (dump_path_open_first (Ok tt) (Err e) f p) = Err e /\
    assoc p (fst (dump_path_open_first (Ok tt) (Err e) f p)) = Some [].
Proof. exists [(lit "composeinfo.json", lit "last good copy")], (lit "composeinfo.json"), ValueError. vm_compute. auto. Qed.
