From PM Require Import Base.PyVal Base.Obj.

Lemma pyval_eqb_eq a : forall b, pyval_eqb a b = true <-> a = b.
Proof.
  induction a as [|x|x|x|x|l IH|kv IH] using pyval_ind'; intros b; destruct b; cbn [pyval_eqb];
    try (split; [discriminate|discriminate]); try (split; congruence).
  - rewrite Bool.eqb_true_iff. split; congruence.
  - rewrite Z.eqb_eq. split; congruence.
  - rewrite str_eqb_eq. split; congruence.
  - rewrite str_eqb_eq. split; congruence.
  - rename l0 into l2. revert l2. induction IH as [|x l Hx _ IHl]; intros l2; destruct l2 as [|y l2]; try (split; congruence).
    rewrite andb_true_iff, Hx. specialize (IHl l2). split.
    + intros [-> H]. apply IHl in H. congruence.
    + intros H. injection H as -> ->. split; [reflexivity|]. apply IHl. reflexivity.
  - rename kv0 into kv2. revert kv2. induction IH as [|[k x] kv Hx _ IHl]; intros kv2; destruct kv2 as [|[k2 y] kv2]; try (split; congruence).
    cbn [snd] in Hx. rewrite !andb_true_iff, str_eqb_eq, Hx. specialize (IHl kv2). split.
    + intros [[-> ->] H]. apply IHl in H. congruence.
    + intros H. injection H as -> -> ->. repeat split. apply IHl. reflexivity.
Qed.

Lemma py_eq_refl a : py_eq a a = true.
Proof. unfold py_eq. apply pyval_eqb_eq. reflexivity. Qed.

Lemma py_eq_sym a b : py_eq a b = py_eq b a.
Proof.
  unfold py_eq. destruct (pyval_eqb (norm a) (norm b)) eqn:E1, (pyval_eqb (norm b) (norm a)) eqn:E2; try reflexivity.
  - apply pyval_eqb_eq in E1. rewrite E1 in E2. rewrite (proj2 (pyval_eqb_eq _ _) eq_refl) in E2. discriminate.
  - apply pyval_eqb_eq in E2. rewrite E2 in E1. rewrite (proj2 (pyval_eqb_eq _ _) eq_refl) in E1. discriminate.
Qed.

Lemma py_eq_true a b : py_eq a b = true <-> norm a = norm b.
Proof. unfold py_eq. apply pyval_eqb_eq. Qed.

Lemma py_eq_trans a b c : py_eq a b = true -> py_eq b c = true -> py_eq a c = true.
Proof. rewrite !py_eq_true. congruence. Qed.

Lemma norm_list l : norm (PList l) = PList (map norm l).
Proof.
  reflexivity.
Qed.
