(* C06: what the assertion vocabulary checks, as a flat table of guarded rules, and its exact relation to validate() *)
From PM Require Import Base.PyVal Base.Obj.

Inductive atom :=
| AType (f : str) (tags : list pytag)
| AValue (f : str) (tbl : list pyval)
| ANotBlank (f : str)
| ARe (f : str) (rs : list re)
| AFalse                       (* an explicit raise *)
| ATrue.                       (* the guard itself must be evaluable *)

Definition rule := (list vcond * atom)%type.

Fixpoint flatten (gs : list vcond) (e : vexpr) : list rule :=
  match e with
  | AssertType f tags => [(gs, AType f tags)]
  | AssertValue f tbl => [(gs, AValue f tbl)]
  | AssertNotBlank f => [(gs, ANotBlank f)]
  | AssertMatchesRe f rs => [(gs, ARe f rs)]
  | VIf c body => (gs ++ [c], ATrue) :: (fix go (l : list vexpr) : list rule :=
                                            match l with [] => [] | x :: l' => flatten (gs ++ [c]) x ++ go l' end) body
  | VRaise _ => [(gs, AFalse)]
  | VPass => []
  end.

Definition atom_holds (o : obj) (a : atom) : bool :=
  match a with
  | AType f tags => existsb (has_tag (getf o f)) tags
  | AValue f tbl => py_in (getf o f) tbl
  | ANotBlank f => truthy (getf o f)
  | ARe f rs => match getf o f with PStr s => existsb (fun r => re_matches r s) rs | _ => false end
  | AFalse => false
  | ATrue => true
  end.

Fixpoint guards_eval (o : obj) (gs : list vcond) : result bool :=
  match gs with
  | [] => Ok true
  | c :: gs' => do b <- eval_cond o c; if b then guards_eval o gs' else Ok false
  end.

Definition rule_holds (o : obj) (r : rule) : Prop :=
  match guards_eval o (fst r) with
  | Ok true => atom_holds o (snd r) = true
  | Ok false => True
  | Err _ => False
  end.

Lemma guards_eval_app o gs gs' : guards_eval o gs = Ok true -> guards_eval o (gs ++ gs') = guards_eval o gs'.
Proof.
  induction gs as [|c gs IH]; cbn [app guards_eval]; [reflexivity|].
  destruct (eval_cond o c) as [[]|e]; cbn [bind]; try discriminate. exact IH.
Qed.

Lemma guards_eval_false_prefix o gs gs' : guards_eval o gs = Ok false -> guards_eval o (gs ++ gs') = Ok false.
Proof.
  induction gs as [|c gs IH]; cbn [app guards_eval]; [discriminate|].
  destruct (eval_cond o c) as [[]|e]; cbn [bind]; try discriminate; [exact IH|reflexivity].
Qed.

(* every rule produced under a guard prefix carries that prefix *)
Lemma flatten_prefix : forall e gs r, In r (flatten gs e) -> exists more, fst r = gs ++ more.
Proof.
  fix IH 1. intros e gs r Hin. destruct e as [f tags|f tbl|f|f rs|c body|ex|]; cbn [flatten] in Hin.
  1-4: destruct Hin as [<-|[]]; exists []; cbn; rewrite app_nil_r; reflexivity.
  - destruct Hin as [<-|Hin]; [exists [c]; reflexivity|].
    induction body as [|x body IHb]; [destruct Hin|]. apply in_app_or in Hin. destruct Hin as [Hin|Hin].
    + destruct (IH x (gs ++ [c]) r Hin) as [more Hm]. exists (c :: more). rewrite Hm, <- app_assoc. reflexivity.
    + exact (IHb Hin).
  - destruct Hin as [<-|[]]. exists []. cbn. rewrite app_nil_r. reflexivity.
  - destruct Hin.
Qed.

Theorem run_vexpr_iff_rules o : forall e gs,
  guards_eval o gs = Ok true -> (run_vexpr o e = Ok tt <-> Forall (rule_holds o) (flatten gs e)).
Proof.
  fix IH 1. intros e gs Hg. destruct e as [f tags|f tbl|f|f rs|c body|ex|]; cbn [run_vexpr flatten].
  - unfold guard. split.
    + intros H. constructor; [|constructor]. unfold rule_holds. cbn [fst snd]. rewrite Hg. cbn [atom_holds].
      destruct (existsb _ _); [reflexivity|discriminate].
    + intros H. inversion H as [|? ? Hr _]; subst. unfold rule_holds in Hr. cbn [fst snd] in Hr. rewrite Hg in Hr. cbn [atom_holds] in Hr.
      rewrite Hr. reflexivity.
  - unfold guard. split.
    + intros H. constructor; [|constructor]. unfold rule_holds. cbn [fst snd]. rewrite Hg. cbn [atom_holds].
      destruct (py_in _ _); [reflexivity|discriminate].
    + intros H. inversion H as [|? ? Hr _]; subst. unfold rule_holds in Hr. cbn [fst snd] in Hr. rewrite Hg in Hr. cbn [atom_holds] in Hr.
      rewrite Hr. reflexivity.
  - unfold guard. split.
    + intros H. constructor; [|constructor]. unfold rule_holds. cbn [fst snd]. rewrite Hg. cbn [atom_holds].
      destruct (truthy _); [reflexivity|discriminate].
    + intros H. inversion H as [|? ? Hr _]; subst. unfold rule_holds in Hr. cbn [fst snd] in Hr. rewrite Hg in Hr. cbn [atom_holds] in Hr.
      rewrite Hr. reflexivity.
  - split.
    + intros H. constructor; [|constructor]. unfold rule_holds. cbn [fst snd]. rewrite Hg. cbn [atom_holds].
      destruct (getf o f); try (destruct rs; discriminate). unfold guard in H. destruct (existsb _ _); [reflexivity|discriminate].
    + intros H. inversion H as [|? ? Hr _]; subst. unfold rule_holds in Hr. cbn [fst snd] in Hr. rewrite Hg in Hr. cbn [atom_holds] in Hr.
      destruct (getf o f); try discriminate. rewrite Hr. reflexivity.
  - (* VIf *)
    assert (Hgc : guards_eval o (gs ++ [c]) = do b <- eval_cond o c; if b then Ok true else Ok false).
    { rewrite (guards_eval_app o gs [c] Hg). cbn [guards_eval]. destruct (eval_cond o c) as [[]|]; reflexivity. }
    destruct (eval_cond o c) as [[]|ec] eqn:Ec; cbn [bind] in *.
    + (* guard true: the body runs *)
      split.
      * intros H. constructor; [unfold rule_holds; cbn [fst snd]; rewrite Hgc; reflexivity|].
        revert H. induction body as [|x body IHb]; intros H; [constructor|].
        destruct (run_vexpr o x) as [[]|ex] eqn:Ex; cbn [bind] in H; [|discriminate].
        apply Forall_app. split; [apply (IH x (gs ++ [c]) Hgc); exact Ex|exact (IHb H)].
      * intros H. inversion H as [|? ? _ Hrest]; subst. clear H.
        induction body as [|x body IHb]; [reflexivity|].
        apply Forall_app in Hrest. destruct Hrest as [Hx Hb].
        apply (IH x (gs ++ [c]) Hgc) in Hx. rewrite Hx. cbn [bind]. exact (IHb Hb).
    + (* guard false: nothing runs, every rule below holds vacuously *)
      split; [|reflexivity]. intros _.
      constructor; [unfold rule_holds; cbn [fst snd]; rewrite Hgc; exact I|].
      apply Forall_forall. intros r Hin.
      assert (Hp : exists more, fst r = (gs ++ [c]) ++ more).
      { clear -Hin. induction body as [|x body IHb]; [destruct Hin|]. apply in_app_or in Hin.
        destruct Hin as [Hin|Hin]; [exact (flatten_prefix x _ _ Hin)|exact (IHb Hin)]. }
      destruct Hp as [more Hm]. unfold rule_holds. rewrite Hm, (guards_eval_false_prefix o _ more Hgc). exact I.
    + (* the guard cannot be evaluated *)
      split; [discriminate|]. intros H. inversion H as [|? ? Hr _]; subst. unfold rule_holds in Hr. cbn [fst snd] in Hr. rewrite Hgc in Hr. destruct Hr.
  - split; [discriminate|]. intros H. inversion H as [|? ? Hr _]; subst. unfold rule_holds in Hr. cbn [fst snd] in Hr. rewrite Hg in Hr. discriminate.
  - split; [constructor|reflexivity].
Qed.

Definition flatten_body (b : list vexpr) : list rule := flat_map (flatten []) b.

Theorem run_vexprs_iff_rules o b : run_vexprs o b = Ok tt <-> Forall (rule_holds o) (flatten_body b).
Proof.
  unfold run_vexprs, flatten_body. induction b as [|e b IH]; cbn [iterM flat_map]; [split; [constructor|reflexivity]|].
  rewrite Forall_app, <- IH, <- (run_vexpr_iff_rules o e [] eq_refl).
  destruct (run_vexpr o e) as [[]|ex]; cbn [bind]; split; try tauto; try discriminate; try (intros [H _]; discriminate).
Qed.

(* the translated validators of a class, as one table *)
Definition rules_of (ms : list (str * vmethod)) : list rule :=
  flat_map (fun m => match snd m with VBody b => flatten_body b | VCustom _ => [] end) ms.

Definition customs_of (ms : list (str * vmethod)) : list str :=
  flat_map (fun m => match snd m with VBody _ => [] | VCustom q => [q] end) ms.

(* validate() succeeds iff every rule of every translated validator holds and every hand-modelled validator succeeds *)
Theorem run_validators_iff ct ms o :
  run_validators ct ms o = Ok tt <->
  Forall (rule_holds o) (rules_of ms) /\
  Forall (fun q => match ct q with Some f => f o = Ok tt | None => False end) (customs_of ms).
Proof.
  unfold run_validators, rules_of, customs_of. induction ms as [|[name m] ms IH]; cbn [iterM flat_map snd].
  - split; [intros _; split; constructor|reflexivity].
  - rewrite !Forall_app. destruct m as [b|q]; cbn [run_method].
    + (* a translated validator *)
      pose proof (run_vexprs_iff_rules o b) as Hb.
      destruct (run_vexprs o b) as [[]|e]; cbn [bind].
      * rewrite IH. split.
        -- intros [H1 H2]. split; [split; [apply Hb; reflexivity|exact H1]|split; [constructor|exact H2]].
        -- intros [[_ H1] [_ H2]]. split; assumption.
      * split; [discriminate|]. intros [[H _] _]. apply Hb in H. discriminate.
    + (* a hand-modelled validator *)
      destruct (ct q) as [f|] eqn:Eq.
      * destruct (f o) as [[]|e] eqn:E; cbn [bind].
        -- rewrite IH. split.
           ++ intros [H1 H2]. split; [split; [constructor|exact H1]|split; [constructor; [rewrite Eq; exact E|constructor]|exact H2]].
           ++ intros [[_ H1] [_ H2]]. split; assumption.
        -- split; [discriminate|]. intros [_ [H _]]. inversion H as [|? ? Hq _]; subst. rewrite Eq, E in Hq. discriminate.
      * split; [discriminate|]. intros [_ [H _]]. inversion H as [|? ? Hq _]; subst. rewrite Eq in Hq. destruct Hq.
Qed.
