(* header and compose-section round trips *)
From PM Require Import Base.PyVal Base.Obj Model.Common Model.ComposeId Proofs.ManifestsProofs Proofs.PyValProofs Gen.Tables Gen.Validators.

(* canonical attribute layout of a compose section *)
Definition mk_compose (id ty date respin label final : pyval) : obj :=
  [(F"id", id); (F"type", ty); (F"date", date); (F"respin", respin); (F"label", label); (F"final", final)].

(* what every loaded compose section looks like: label is None or non-blank; final is a bool, False without a label *)
Definition compose_normal (c : obj) : Prop :=
  exists id ty date respin label final,
    c = mk_compose id ty date respin label (PBool final) /\
    (label = PNone \/ truthy label = true) /\ (label = PNone -> final = false).

(* obligations on the regenerated tables: the current version is well formed and decodes to VERSION *)
Lemma current_version_ok :
  validate (F"common.Header") (header_obj current_version) = Ok tt /\
  version_tuple (F"common.Header") current_version = Ok VERSION /\
  vt_leb (1, 1) VERSION = true /\ vt_ltb VERSION (0, 3) = false /\ vt_leb VERSION (0, 3) = false /\
  vt_leb VERSION (1, 1) = false /\ vt_leb VERSION (1, 0) = false.
Proof. vm_compute. repeat split; reflexivity. Qed.

Lemma ser_header_ok mtype : ser_header mtype = Ok (PDict [(F"type", PStr mtype); (F"version", current_version)]).
Proof. unfold ser_header. destruct current_version_ok as (H & _). rewrite H. reflexivity. Qed.

Lemma deser_header_ser mtype rest :
  deser_header mtype (PDict ((F"header", PDict [(F"type", PStr mtype); (F"version", current_version)]) :: rest)) =
  Ok (current_version, VERSION).
Proof.
  destruct current_version_ok as (H1 & H2 & H3 & _).
  unfold deser_header. cbn -[version_tuple validate current_version py_eq vt_leb VERSION].
  cbn -[version_tuple validate current_version py_eq vt_leb VERSION header_obj] in H1, H2.
  rewrite H2. cbn -[version_tuple validate current_version py_eq vt_leb VERSION]. rewrite H3.
  cbn -[version_tuple validate current_version py_eq vt_leb VERSION].
  rewrite py_eq_refl. cbn -[version_tuple validate current_version py_eq vt_leb VERSION].
  rewrite H1. reflexivity.
Qed.

Lemma ser_compose_normal c j :
  compose_normal c -> ser_compose c = Ok j ->
  validate compose_cls c = Ok tt /\
  exists id ty date respin label final,
    c = mk_compose id ty date respin label (PBool final) /\
    (label = PNone \/ truthy label = true) /\ (label = PNone -> final = false) /\
    j = PDict (if truthy label
               then [(F"id", id); (F"type", ty); (F"date", date); (F"respin", respin); (F"label", label); (F"final", PBool final)]
               else [(F"id", id); (F"type", ty); (F"date", date); (F"respin", respin)]).
Proof.
  intros (id & ty & date & respin & label & final & -> & Hl & Hf) H. unfold ser_compose in H.
  destruct (validate compose_cls _) as [[]|e] eqn:Hv; cbn [bind] in H; [|discriminate].
  split; [reflexivity|]. exists id, ty, date, respin, label, final. repeat split; try assumption.
  injection H as <-. reflexivity.
Qed.

Lemma deser_compose_ser c j rest :
  compose_normal c -> ser_compose c = Ok j ->
  deser_compose VERSION (PDict ((F"compose", j) :: rest)) = Ok c.
Proof.
  intros Hn Hs. destruct (ser_compose_normal c j Hn Hs) as (Hv & id & ty & date & respin & label & final & -> & Hl & Hf & ->).
  destruct current_version_ok as (_ & _ & _ & Hlt & _).
  unfold deser_compose. rewrite Hlt. unfold mk_compose in Hv.
  destruct Hl as [->|Ht].
  - rewrite (Hf eq_refl) in *. cbn -[validate compose_cls]. cbn -[validate compose_cls] in Hv. unfold py_bool. cbn [truthy]. rewrite Hv. reflexivity.
  - rewrite Ht. cbn -[validate compose_cls truthy]. unfold or_none. rewrite Ht.
    cbn -[validate compose_cls truthy] in Hv. unfold py_bool. cbn [truthy]. rewrite Hv. reflexivity.
Qed.
