(* C04 (writer side): every scalar fact of [header], [release], [base_product] and [tree] is in the written table at its documented
   place - the later section writers (variants, checksums, images, stage2, media, general) never touch those sections *)
From PM Require Import Base.PyVal Base.Obj Base.Ini Model.Common Model.TreeInfo Proofs.ManifestsProofs Proofs.PyValProofs
     Proofs.ImagesProofs Proofs.IniProofs Proofs.ArchProofs Gen.Tables.

(* an operation that leaves every section outside P as it was *)
Definition only_in (P : str -> Prop) (t t' : ini) : Prop := forall s, ~ P s -> assoc s t' = assoc s t.

Lemma only_in_refl (P : str -> Prop) t : only_in P t t.
Proof. intros s _. reflexivity. Qed.

Lemma only_in_trans (P : str -> Prop) t1 t2 t3 : only_in P t1 t2 -> only_in P t2 t3 -> only_in P t1 t3.
Proof. intros H1 H2 s Hs. rewrite (H2 s Hs). exact (H1 s Hs). Qed.

Lemma add_section_only (P : str -> Prop) t s' t' : add_section t s' = Ok t' -> P s' -> only_in P t t'.
Proof.
  unfold add_section. destruct (has_section t s'); [discriminate|]. intros H; injection H as <-. intros HP s0 Hs.
  rewrite assoc_app. destruct (assoc s0 t); [reflexivity|]. cbn [assoc].
  destruct (str_eqb_spec s0 s') as [->|_]; [contradiction|reflexivity].
Qed.

Lemma ini_set_only (P : str -> Prop) t s' o v t' : ini_set t s' o v = Ok t' -> P s' -> only_in P t t'.
Proof.
  unfold ini_set. destruct v; try discriminate. destruct (assoc s' t) as [opts|]; [|discriminate].
  intros H; injection H as <-. intros HP s0 Hs. apply assoc_set_other. intros ->. contradiction.
Qed.

Lemma sets_only (P : str -> Prop) t s' kvs t' : sets t s' kvs = Ok t' -> P s' -> only_in P t t'.
Proof.
  unfold sets. intros H HP. revert t H. induction kvs as [|kv kvs IH]; intros t H.
  - cbn in H. injection H as <-. apply only_in_refl.
  - cbn [fold_left bind] in H. destruct (ini_set t s' (fst kv) (snd kv)) as [t1|e] eqn:E; [|rewrite sets_err in H; discriminate].
    apply (only_in_trans P t t1 t'); [exact (ini_set_only P _ _ _ _ _ E HP)|exact (IH t1 H)].
Qed.

Lemma fold_only {A} (P : str -> Prop) (f : ini -> A -> result ini) (l : list A) :
  (forall q x q', f q x = Ok q' -> only_in P q q') ->
  forall t t', fold_left (fun acc x => do q <- acc; f q x) l (Ok t) = Ok t' -> only_in P t t'.
Proof.
  intros Hf. induction l as [|x l IH]; intros t t' H; cbn [fold_left bind] in H.
  - injection H as <-. apply only_in_refl.
  - destruct (f t x) as [t1|e] eqn:E.
    + apply (only_in_trans P t t1 t'); [exact (Hf _ _ _ E)|exact (IH t1 t' H)].
    + exfalso. clear -H. induction l as [|y l IHl]; cbn [fold_left bind] in H; [discriminate|exact (IHl H)].
Qed.

(* the variant writer only writes sections named variant-* / addon-* *)
Definition is_variant_section (s : str) : Prop := startswith s (lit "variant-") = true \/ startswith s (lit "addon-") = true.

Lemma startswith_app p x : startswith (p ++ x) p = true.
Proof. induction p as [|c p IH]; cbn [app startswith]; [destruct x; reflexivity|]. rewrite N.eqb_refl. exact IH. Qed.

Lemma tv_section_is f : is_variant_section (tv_section f).
Proof. unfold tv_section, is_variant_section. destruct (py_eq _ _); [right|left]; apply startswith_app. Qed.

Lemma ser_tvar_only : forall tv parent p p', ser_tvar parent tv p = Ok p' -> only_in is_variant_section p p'.
Proof.
  fix IH 1. intros tv parent p p' H. destruct tv as [f paths children]. cbn [ser_tvar] in H.
  pose proof (tv_section_is f) as Hsec. set (sec := tv_section f) in *.
  inv_bind H as u0 G0. inv_bind H as p1 G1. inv_bind H as p2 G2. inv_bind H as u1 G3. inv_bind H as p3 G4.
  inv_bind H as p4 G5. inv_bind H as p5 G6.
  apply (only_in_trans _ p p1); [exact (add_section_only _ _ _ _ G1 Hsec)|].
  apply (only_in_trans _ p1 p2); [exact (sets_only _ _ _ _ _ G2 Hsec)|].
  apply (only_in_trans _ p2 p3).
  { revert G4. apply fold_only. intros q field q' Hq. destruct (getf paths field); try (injection Hq as <-; apply only_in_refl);
      exact (ini_set_only _ _ _ _ _ _ Hq Hsec). }
  apply (only_in_trans _ p3 p4).
  { destruct parent; [exact (ini_set_only _ _ _ _ _ _ G5 Hsec)|injection G5 as <-; apply only_in_refl]. }
  apply (only_in_trans _ p4 p5).
  { clear -G6 IH. revert p4 G6. induction children as [|[k c] cs IHc]; intros q G; [injection G as <-; apply only_in_refl|].
    inv_bind G as q' Gc. apply (only_in_trans _ q q'); [exact (IH _ _ _ _ Gc)|exact (IHc q' G)]. }
  destruct children; [injection H as <-; apply only_in_refl|exact (ini_set_only _ _ _ _ _ _ H Hsec)].
Qed.

Lemma only_in_weaken (P Q : str -> Prop) t t' : (forall s, P s -> Q s) -> only_in P t t' -> only_in Q t t'.
Proof. intros HPQ H s Hs. apply H. intros HP. exact (Hs (HPQ s HP)). Qed.

Lemma ini_get_assoc t t' s o : assoc s t' = assoc s t -> ini_get t' s o = ini_get t s o.
Proof. unfold ini_get. intros ->. reflexivity. Qed.

(* [general] is written into its own section *)
Lemma ser_general_only x mv p t : ser_general x mv p = Ok t -> only_in (fun s => s = F"general") p t.
Proof.
  unfold ser_general. intros H.
  inv_bind H as p0 G0. inv_bind H as ts Gts. inv_bind H as ts_s Gtss. inv_bind H as p1 G1.
  inv_bind H as p2 G2. inv_bind H as variant Gv. inv_bind H as p3 G3. inv_bind H as v Gl. inv_bind H as p4 G4.
  set (P := fun s : str => s = F"general").
  apply (only_in_trans P p p0); [exact (add_section_only P _ _ _ G0 eq_refl)|].
  apply (only_in_trans P p0 p1); [exact (sets_only P _ _ _ _ G1 eq_refl)|].
  apply (only_in_trans P p1 p2); [exact (ini_set_only P _ _ _ _ _ G2 eq_refl)|].
  apply (only_in_trans P p2 p3); [exact (ini_set_only P _ _ _ _ _ G3 eq_refl)|].
  apply (only_in_trans P p3 p4).
  { destruct (getf (tv_paths v) (F"packages")); try exact (ini_set_only P _ _ _ _ _ G4 eq_refl).
    destruct (py_eq _ _); [|injection G4 as <-; apply only_in_refl].
    destruct (getf (tv_paths v) (F"source_packages")); try exact (ini_set_only P _ _ _ _ _ G4 eq_refl). injection G4 as <-. apply only_in_refl. }
  destruct (getf (tv_paths v) (F"repository")); try exact (ini_set_only P _ _ _ _ _ H eq_refl).
  destruct (py_eq _ _); [|injection H as <-; apply only_in_refl].
  destruct (getf (tv_paths v) (F"source_repository")); try exact (ini_set_only P _ _ _ _ _ H eq_refl). injection H as <-. apply only_in_refl.
Qed.

(* everything the writer does after [tree] stays outside header / release / base_product / tree *)
Definition later_section (s : str) : Prop :=
  is_variant_section s \/ s = F"checksums" \/ startswith s (lit "images-") = true \/ s = F"stage2" \/ s = F"media" \/ s = F"general".

Lemma core_not_later s : In s [F"header"; F"release"; F"base_product"; F"tree"] -> ~ later_section s.
Proof.
  intros Hin H. cbn [In] in Hin.
  destruct Hin as [<-|[<-|[<-|[<-|[]]]]]; unfold later_section, is_variant_section in H;
    repeat (destruct H as [H|H]); try discriminate; vm_compute in H; discriminate.
Qed.

Lemma tail_only x mv p8 t :
  (do p9 <- fold_left (fun acc kv => do q <- acc; ser_tvar None (snd kv) q) (ti_variants x) (Ok p8);
   check tvalidate (F"treeinfo.Checksums") [(F"_checksum_paths", PList (map (fun c => PStr (fst c)) (ti_checksums x)))];
   do p10 <- match ti_checksums x with
             | [] => Ok p9
             | cs => do q <- add_section p9 (F"checksums");
                     fold_left (fun acc c => do q' <- acc;
                                  ini_set q' (F"checksums") (fst c) (PStr (fmt_s (fst (snd c)) ++ c_colon :: fmt_s (snd (snd c))))) cs (Ok q)
             end;
   do p11 <- match ti_images x with
             | [] => Ok p10
             | ims =>
                 check tvalidate (F"treeinfo.Images") (images_ctx x);
                 fold_left (fun acc pi => do q <- acc;
                              let sec := lit "images-" ++ fst pi in
                              do q1 <- add_section q sec;
                              sets q1 sec (snd pi)) ims (Ok p10)
             end;
   let s2 := ti_stage2 x in
   do p12 <- (if negb (truthy (getf s2 (F"mainimage"))) && negb (truthy (getf s2 (F"instimage"))) then Ok p11 else
                check tvalidate (F"treeinfo.Stage2") s2;
                do q <- add_section p11 (F"stage2");
                do q1 <- (if truthy (getf s2 (F"mainimage")) then ini_set q (F"stage2") (F"mainimage") (getf s2 (F"mainimage")) else Ok q);
                (if truthy (getf s2 (F"instimage")) then ini_set q1 (F"stage2") (F"instimage") (getf s2 (F"instimage")) else Ok q1));
   let md := ti_media x in
   do p13 <- (if negb (truthy (getf md (F"discnum"))) && negb (truthy (getf md (F"totaldiscs"))) then Ok p12 else
                check tvalidate (F"treeinfo.Media") md;
                do q <- add_section p12 (F"media");
                do dn <- py_int (getf md (F"discnum")); do dn_s <- py_str_num dn;
                do td <- py_int (getf md (F"totaldiscs")); do td_s <- py_str_num td;
                sets q (F"media") [(F"discnum", PStr dn_s); (F"totaldiscs", PStr td_s)]);
   ser_general x mv p13) = Ok t ->
  only_in later_section p8 t.
Proof.
  intros H.
  inv_bind H as p9 G9. inv_bind H as u0 Gc. inv_bind H as p10 G10. inv_bind H as p11 G11. cbv zeta in H.
  inv_bind H as p12 G12. inv_bind H as p13 G13.
  assert (Lv : forall s, is_variant_section s -> later_section s) by (intros s Hs; left; exact Hs).
  assert (Lc : later_section (F"checksums")) by (right; left; reflexivity).
  assert (Ls : later_section (F"stage2")) by (right; right; right; left; reflexivity).
  assert (Lm : later_section (F"media")) by (right; right; right; right; left; reflexivity).
  apply (only_in_trans _ p8 p9).
  { revert G9. apply fold_only. intros q kv q' Hq. exact (only_in_weaken _ _ _ _ Lv (ser_tvar_only _ _ _ _ Hq)). }
  apply (only_in_trans _ p9 p10).
  { destruct (ti_checksums x) as [|c cs]; [injection G10 as <-; apply only_in_refl|].
    inv_bind G10 as q Gq. apply (only_in_trans _ p9 q); [exact (add_section_only _ _ _ _ Gq Lc)|].
    revert G10. apply fold_only. intros q0 c0 q' Hq. exact (ini_set_only _ _ _ _ _ _ Hq Lc). }
  apply (only_in_trans _ p10 p11).
  { destruct (ti_images x) as [|im ims]; [injection G11 as <-; apply only_in_refl|].
    inv_bind G11 as u1 Gi. revert G11. apply fold_only. intros q0 pi q' Hq. cbv zeta in Hq. inv_bind Hq as q1 Gq1.
    assert (Li : later_section (lit "images-" ++ fst pi)) by (right; right; left; apply startswith_app).
    apply (only_in_trans _ q0 q1); [exact (add_section_only _ _ _ _ Gq1 Li)|exact (sets_only _ _ _ _ _ Hq Li)]. }
  apply (only_in_trans _ p11 p12).
  { destruct (negb (truthy (getf (ti_stage2 x) (F"mainimage"))) && negb (truthy (getf (ti_stage2 x) (F"instimage"))));
      [injection G12 as <-; apply only_in_refl|].
    inv_bind G12 as u2 Gv2. inv_bind G12 as q Gq. inv_bind G12 as q1 Gq1.
    apply (only_in_trans _ p11 q); [exact (add_section_only _ _ _ _ Gq Ls)|].
    apply (only_in_trans _ q q1).
    - destruct (truthy (getf (ti_stage2 x) (F"mainimage"))); [exact (ini_set_only _ _ _ _ _ _ Gq1 Ls)|injection Gq1 as <-; apply only_in_refl].
    - destruct (truthy (getf (ti_stage2 x) (F"instimage"))); [exact (ini_set_only _ _ _ _ _ _ G12 Ls)|injection G12 as <-; apply only_in_refl]. }
  apply (only_in_trans _ p12 p13).
  { destruct (negb (truthy (getf (ti_media x) (F"discnum"))) && negb (truthy (getf (ti_media x) (F"totaldiscs"))));
      [injection G13 as <-; apply only_in_refl|].
    inv_bind G13 as u3 Gv3. inv_bind G13 as q Gq. inv_bind G13 as dn Gd. inv_bind G13 as dn_s Gds. inv_bind G13 as td Gt. inv_bind G13 as td_s Gts.
    apply (only_in_trans _ p12 q); [exact (add_section_only _ _ _ _ Gq Lm)|exact (sets_only _ _ _ _ _ G13 Lm)]. }
  apply (only_in_weaken (fun s => s = F"general")); [intros s ->; right; right; right; right; right; reflexivity|].
  exact (ser_general_only _ _ _ _ H).
Qed.

(* the theorem: what the writer puts into [release] and [tree] is what the object says, and it is still there at the end *)
Theorem written_release_and_tree x mv t :
  ser_ti x mv = Ok t ->
  exists name_s ver_s short_s arch_s ts_s,
    getf (ti_release x) (F"name") = PStr name_s /\ getf (ti_release x) (F"version") = PStr ver_s /\
    getf (ti_release x) (F"short") = PStr short_s /\ getf (ti_tree x) (F"arch") = PStr arch_s /\
    py_str_num (getf (ti_tree x) (F"build_timestamp")) = Ok ts_s /\
    ini_get t (F"release") (F"name") = Ok name_s /\ ini_get t (F"release") (F"version") = Ok ver_s /\
    ini_get t (F"release") (F"short") = Ok short_s /\
    ini_get t (F"tree") (F"arch") = Ok arch_s /\ ini_get t (F"tree") (F"platforms") = Ok (platforms_str (ti_tree x)) /\
    ini_get t (F"tree") (F"build_timestamp") = Ok ts_s.
Proof.
  unfold ser_ti. intros H.
  inv_bind H as u0 G0. inv_bind H as u1 G1. inv_bind H as p0 Gp0. inv_bind H as p1 Gp1. cbv zeta in H.
  inv_bind H as u2 G2. inv_bind H as p2 Gp2. inv_bind H as p3 Gp3. inv_bind H as p4 Gp4. inv_bind H as p5 Gp5.
  inv_bind H as u3 G3. inv_bind H as p6 Gp6. inv_bind H as ts_s Gts. inv_bind H as p7 Gp7. inv_bind H as u4 G4. inv_bind H as p8 Gp8.
  pose proof (tail_only x mv p8 t H) as Htail.
  (* [release] as written at p3 *)
  assert (Hnd3 : NoDup (map fst [(F"name", getf (ti_release x) (F"name")); (F"version", getf (ti_release x) (F"version"));
                                 (F"short", getf (ti_release x) (F"short"))])) by (cbn [map fst]; repeat constructor; cbv; intuition discriminate).
  destruct (sets_get _ _ _ _ Gp3 Hnd3) as [S3 _].
  destruct (S3 (F"name") _ ltac:(cbn; tauto)) as (name_s & Hname & Gname).
  destruct (S3 (F"version") _ ltac:(cbn; tauto)) as (ver_s & Hver & Gver).
  destruct (S3 (F"short") _ ltac:(cbn; tauto)) as (short_s & Hshort & Gshort).
  (* [tree] as written at p7 *)
  assert (Hnd7 : NoDup (map fst [(F"arch", getf (ti_tree x) (F"arch")); (F"platforms", PStr (platforms_str (ti_tree x)));
                                 (F"build_timestamp", PStr ts_s)])) by (cbn [map fst]; repeat constructor; cbv; intuition discriminate).
  destruct (sets_get _ _ _ _ Gp7 Hnd7) as [S7 _].
  destruct (S7 (F"arch") _ ltac:(cbn; tauto)) as (arch_s & Harch & Garch).
  destruct (S7 (F"platforms") _ ltac:(cbn; tauto)) as (pl & Hpl & Gpl). injection Hpl as <-.
  destruct (S7 (F"build_timestamp") _ ltac:(cbn; tauto)) as (tss & Htss & Gtss). injection Htss as <-.
  (* nothing after p3 changes [release] name/version/short; nothing after p7 changes these three [tree] options *)
  assert (Rel : forall o, o <> F"is_layered" -> ini_get t (F"release") o = ini_get p3 (F"release") o).
  { intros o No.
    rewrite (ini_get_assoc p8 t (F"release") o (Htail (F"release") (core_not_later (F"release") ltac:(cbn; tauto)))).
    rewrite (ini_set_get_other _ _ _ _ _ (F"release") o Gp8) by (left; discriminate).
    destruct (sets_get _ _ _ _ Gp7 Hnd7) as [_ S7']. rewrite S7' by (left; discriminate).
    rewrite (ini_get_assoc p5 p6 _ o (add_section_only (fun s => s = F"tree") _ _ _ Gp6 eq_refl (F"release") ltac:(cbv; intros E; discriminate E))).
    assert (E5 : ini_get p5 (F"release") o = ini_get p4 (F"release") o).
    { destruct (truthy (getf (ti_release x) (F"is_layered"))); [|injection Gp5 as <-; reflexivity].
      inv_bind Gp5 as u5 G5. inv_bind Gp5 as q Gq.
      set (P := fun s : str => s = F"base_product").
      apply ini_get_assoc.
      exact (only_in_trans P p4 q p5 (add_section_only P _ _ _ Gq eq_refl) (sets_only P _ _ _ _ Gp5 eq_refl) (F"release") ltac:(cbv; intros E; discriminate E)). }
    rewrite E5.
    destruct (truthy (getf (ti_release x) (F"is_layered"))); [|injection Gp4 as <-; reflexivity].
    apply (ini_set_get_other _ _ _ _ _ (F"release") o Gp4). right. exact No. }
  assert (Tree : forall o, o <> F"variants" -> ini_get t (F"tree") o = ini_get p7 (F"tree") o).
  { intros o No.
    rewrite (ini_get_assoc p8 t (F"tree") o (Htail (F"tree") (core_not_later (F"tree") ltac:(cbn; tauto)))).
    apply (ini_set_get_other _ _ _ _ _ (F"tree") o Gp8). right. exact No. }
  exists name_s, ver_s, short_s, arch_s, ts_s. repeat split; try assumption.
  - rewrite Rel by discriminate. exact Gname.
  - rewrite Rel by discriminate. exact Gver.
  - rewrite Rel by discriminate. exact Gshort.
  - rewrite Tree by discriminate. exact Garch.
  - rewrite Tree by discriminate. exact Gpl.
  - rewrite Tree by discriminate. exact Gtss.
Qed.

(* the hypothesis is satisfiable: a small binary tree with one variant is written *)
Definition ex_ti : ti :=
  {| ti_release := [(F"name", PStr (F"Fedora")); (F"short", PStr (F"F")); (F"version", PStr (F"22")); (F"is_layered", PBool false)];
     ti_base_product := [(F"name", PNone); (F"short", PNone); (F"version", PNone)];
     ti_tree := [(F"arch", PStr (F"x86_64")); (F"build_timestamp", PInt 1440000000); (F"platforms", PList [PStr (F"x86_64"); PStr (F"xen")])];
     ti_variants := [(F"Server", TV [(F"id", PStr (F"Server")); (F"uid", PStr (F"Server")); (F"name", PStr (F"Server")); (F"type", PStr (F"variant"))]
                                    [(F"packages", PStr (F"Packages")); (F"repository", PStr (F"."))] [])];
     ti_checksums := []; ti_images := []; ti_stage2 := [(F"mainimage", PNone); (F"instimage", PNone)];
     ti_media := [(F"discnum", PNone); (F"totaldiscs", PNone)] |}.

Example written_release_and_tree_nonvacuous :
  exists t, ser_ti ex_ti None = Ok t /\ ini_get t (F"tree") (F"platforms") = Ok (F"x86_64,xen") /\ ini_get t (F"general") (F"family") = Ok (F"Fedora").
Proof. eexists. split; [vm_compute; reflexivity|]. split; vm_compute; reflexivity. Qed.
