From PM Require Import Base.PyVal Model.ComposeDir.

Lemma path_join_trailing_slash a b : a <> [] -> endswith a [c_slash] = false ->
  path_join (a ++ [c_slash]) b = path_join a b.
Proof.
  intros Ha He. unfold path_join. destruct (startswith b [c_slash]); [reflexivity|].
  destruct a as [|x a]; [congruence|]. rewrite He.
  change ((x :: a) ++ [c_slash]) with ((x :: a) ++ [c_slash]).
  destruct ((x :: a) ++ [c_slash]) as [|y l] eqn:E; [destruct a; discriminate|]. rewrite <- E.
  rewrite (endswith_app (x :: a) [c_slash]). rewrite <- app_assoc. reflexivity.
Qed.

Section Dir.
  Variable exists_ : str -> bool.
  Variable listdir : str -> list str.

  Theorem resolve_prefers_compose p :
    exists_ (path_join (path_join p (lit "compose")) (lit "metadata/composeinfo.json")) = true ->
    resolve exists_ listdir p = path_join p (lit "compose").
  Proof. intros H. unfold resolve. rewrite H. reflexivity. Qed.

  Theorem resolve_direct p :
    exists_ (path_join (path_join p (lit "compose")) (lit "metadata/composeinfo.json")) = false ->
    (forall i, In i (listdir p) -> exists_ (path_join (path_join p i) (lit "metadata")) = false) ->
    resolve exists_ listdir p = p.
  Proof.
    intros H1 H2. unfold resolve. rewrite H1. destruct (negb (is_url p) && exists_ p); [|reflexivity].
    destruct (find _ (listdir p)) as [i|] eqn:E; [|reflexivity].
    apply find_some in E. destruct E as [Hin Hex]. rewrite (H2 i Hin) in Hex. discriminate.
  Qed.

  Theorem resolve_legacy p i :
    exists_ (path_join (path_join p (lit "compose")) (lit "metadata/composeinfo.json")) = false ->
    is_url p = false -> exists_ p = true ->
    In i (listdir p) -> exists_ (path_join (path_join p i) (lit "metadata")) = true ->
    (forall j, In j (listdir p) -> exists_ (path_join (path_join p j) (lit "metadata")) = true -> j = i) ->
    resolve exists_ listdir p = path_join p i.
  Proof.
    intros H1 Hu Hp Hin Hex Huniq. unfold resolve. rewrite H1, Hu, Hp. cbn [negb andb].
    destruct (find _ (listdir p)) as [j|] eqn:E.
    - apply find_some in E. destruct E as [Hj Hjx]. rewrite (Huniq j Hj Hjx). reflexivity.
    - exfalso. pose proof (find_none _ _ E i Hin) as Hn. cbv beta in Hn. congruence.
  Qed.

  (* the file that is loaded: the first existing candidate; the legacy name only when the current one is absent *)
  Theorem find_current_name cp cur legacy :
    exists_ (path_join cp cur) = true -> find_file exists_ cp [cur; legacy] = Ok (path_join cp cur).
  Proof. intros H. unfold find_file. cbn [find]. rewrite H. reflexivity. Qed.

  Theorem find_legacy_name cp cur legacy :
    exists_ (path_join cp cur) = false -> exists_ (path_join cp legacy) = true ->
    find_file exists_ cp [cur; legacy] = Ok (path_join cp legacy).
  Proof. intros H1 H2. unfold find_file. cbn [find]. rewrite H1, H2. reflexivity. Qed.

  Theorem find_missing cp names :
    (forall n, In n names -> exists_ (path_join cp n) = false) -> find_file exists_ cp names = Err RuntimeError.
  Proof.
    intros H. unfold find_file. destruct (find _ names) as [n|] eqn:E; [|reflexivity].
    apply find_some in E. destruct E as [Hin Hex]. rewrite (H n Hin) in Hex. discriminate.
  Qed.
End Dir.

(* loaded once, then reused: a filled slot is returned without calling the loader *)
Theorem access_cached {A} (o : A) load : access (Some o) load = (Some o, Ok o).
Proof. reflexivity. Qed.

Theorem access_fills {A} (load : unit -> result A) o : load tt = Ok o -> access None load = (Some o, Ok o).
Proof. intros H. unfold access. rewrite H. reflexivity. Qed.

Theorem wrap_valueerror {A} e : In e [ValueError; KeyError; TypeError; AttributeError] -> @wrap_load A (Err e) = Err RuntimeError.
Proof. intros [<-|[<-|[<-|[<-|[]]]]]; reflexivity. Qed.
