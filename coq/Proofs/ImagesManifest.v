(* C02: a whole images manifest survives serialize / deserialize: every cell is read back with exactly its images
   (ordered by path), empty cells are not written, the compose section is intact *)
From PM Require Import Base.PyVal Base.Obj Model.Common Model.Images Model.Manifests
     Proofs.ManifestsProofs Proofs.PyValProofs Proofs.CommonProofs Proofs.ImagesProofs Proofs.ImagesRoundtrip
     Proofs.ArchProofs Proofs.StrOrder Proofs.SortProofs Gen.Tables.
From Coq Require Import Lia Permutation.

(* ------------------------------------------------------------------ maps *)
Definition map_snd {A B} (g : A -> B) (l : list (str * A)) : list (str * B) := map (fun kv => (fst kv, g (snd kv))) l.

Lemma assoc_map_snd {A B} (g : A -> B) k l : assoc k (map_snd g l) = option_map g (assoc k l).
Proof. induction l as [|[k' v] l IH]; cbn [map_snd map assoc fst snd]; [reflexivity|]. destruct (str_eqb k k'); [reflexivity|exact IH]. Qed.

Lemma upd_map_snd {A B} (g : A -> B) (f : option A -> A) (f' : option B -> B) k l :
  g (f (assoc k l)) = f' (option_map g (assoc k l)) ->
  map_snd g (upd k f l) = upd k f' (map_snd g l).
Proof.
  induction l as [|[k' v] l IH]; cbn [upd map_snd map assoc fst snd]; intros H.
  - cbn in H. rewrite H. reflexivity.
  - destruct (str_eqb k k') eqn:E; cbn [map fst snd].
    + cbn in H. rewrite H. reflexivity.
    + f_equal. apply IH. exact H.
Qed.

(* ------------------------------------------------------------------ the value view of a manifest *)
Definition vcells := list (str * list (str * list obj)).
Definition vals (c : cells_t) : vcells := map_snd (map_snd (map snd)) c.

Definition add_val (vc : vcells) (v a : str) (o : obj) : vcells :=
  upd v (fun x => upd a (fun l => dflt [] l ++ [o]) (dflt [] x)) vc.

Definition ids_below (n : nat) (c : cells_t) : Prop := forall x, In x (all_images c) -> (fst x < n)%nat.

Lemma set_add_fresh n o l : (forall x, In x l -> fst x <> n) -> set_add (n, o) l = l ++ [(n, o)].
Proof.
  induction l as [|x l IH]; intros H; cbn [set_add app]; [reflexivity|].
  destruct (Nat.eqb_spec (fst x) (fst (n, o))) as [E|_]; [exfalso; exact (H x (or_introl eq_refl) E)|].
  f_equal. apply IH. intros y Hy. apply H. right. exact Hy.
Qed.

Lemma in_cell_all_images (c : cells_t) v a arches imgs x :
  assoc v c = Some arches -> assoc a arches = Some imgs -> In x imgs -> In x (all_images c).
Proof.
  intros Hv Ha Hx. unfold all_images. apply in_flat_map. exists (v, arches). split; [exact (assoc_In _ _ _ Hv)|].
  cbn [snd]. apply in_flat_map. exists (a, imgs). split; [exact (assoc_In _ _ _ Ha)|exact Hx].
Qed.

Lemma cell_add n o (oa : option (list image)) :
  (forall imgs x, oa = Some imgs -> In x imgs -> fst x <> n) ->
  map snd (set_add (n, o) (dflt [] oa)) = dflt [] (option_map (map snd) oa) ++ [o].
Proof.
  intros H. destruct oa as [imgs|]; cbn [option_map dflt]; [|reflexivity].
  rewrite set_add_fresh; [rewrite map_app; reflexivity|]. intros x Hx. exact (H imgs x eq_refl Hx).
Qed.

Lemma arches_add n o a (oarches : option (list (str * list image))) :
  (forall arches imgs x, oarches = Some arches -> assoc a arches = Some imgs -> In x imgs -> fst x <> n) ->
  map_snd (map snd) (upd a (fun o0 => set_add (n, o) (dflt [] o0)) (dflt [] oarches)) =
  upd a (fun l => dflt [] l ++ [o]) (dflt [] (option_map (map_snd (map snd)) oarches)).
Proof.
  intros H. destruct oarches as [arches|]; cbn [option_map dflt].
  - apply upd_map_snd. apply cell_add. intros imgs x Ea Hx. exact (H arches imgs x eq_refl Ea Hx).
  - reflexivity.
Qed.

Lemma vals_add vt c v a n o c' :
  ids_below n c -> images_add vt c v a (n, o) = Ok c' ->
  vals c' = add_val (vals c) v a o /\ ids_below (S n) c'.
Proof.
  intros Hb H. unfold images_add in H. inv_guard H as G1. inv_guard H as G2. inv_guard H as G3. injection H as <-. split.
  - unfold vals, add_val. apply upd_map_snd. apply arches_add. intros arches imgs y Ev Ea Hx E.
    pose proof (Hb y (in_cell_all_images c v a arches imgs y Ev Ea Hx)). lia.
  - intros y Hy. apply in_cells_upd in Hy. destruct Hy as [Hy| ->]; [pose proof (Hb y Hy); lia|cbn; lia].
Qed.

(* ------------------------------------------------------------------ rebuilding a canonical value view entry by entry *)
Lemma upd_absent {A} k (f : option A -> A) l : assoc k l = None -> upd k f l = l ++ [(k, f None)].
Proof.
  induction l as [|[k' v] l IH]; cbn [upd assoc app]; [reflexivity|].
  destruct (str_eqb k k'); [discriminate|]. intros H. rewrite (IH H). reflexivity.
Qed.

Lemma upd_last {A} k (f : option A -> A) l (x : A) : assoc k l = None -> upd k f (l ++ [(k, x)]) = l ++ [(k, f (Some x))].
Proof.
  induction l as [|[k' v] l IH]; cbn [upd assoc app].
  - rewrite str_eqb_refl. reflexivity.
  - destruct (str_eqb k k'); [discriminate|]. intros H. rewrite (IH H). reflexivity.
Qed.

Definition st {A} (pre : list (str * A)) (k : str) (ox : option A) : list (str * A) :=
  match ox with None => pre | Some x => pre ++ [(k, x)] end.

Lemma upd_st {A} k (f : option A -> A) pre (ox : option A) : assoc k pre = None -> upd k f (st pre k ox) = pre ++ [(k, f ox)].
Proof. intros H. destruct ox as [x|]; cbn [st]; [apply upd_last; exact H|apply upd_absent; exact H]. Qed.

Definition app_obj (o : obj) : option (list obj) -> list obj := fun l => dflt [] l ++ [o].

Lemma cell_fold a (done : list (str * list obj)) os : forall ox,
  assoc a done = None -> os <> [] ->
  fold_left (fun arches o => upd a (app_obj o) arches) os (st done a ox) = done ++ [(a, dflt [] ox ++ os)].
Proof.
  induction os as [|o os IH]; intros ox Ha Hne; [congruence|]. cbn [fold_left].
  rewrite (upd_st a (app_obj o) done ox Ha).
  destruct os as [|o2 os'].
  - reflexivity.
  - change (done ++ [(a, app_obj o ox)]) with (st done a (Some (app_obj o ox))).
    rewrite IH by (try exact Ha; discriminate). cbn [dflt]. unfold app_obj. rewrite <- app_assoc. reflexivity.
Qed.

Definition pairs_of (arches : list (str * list obj)) : list (str * obj) :=
  flat_map (fun ao => map (fun o => (fst ao, o)) (snd ao)) arches.

Definition arch_canonical (arches : list (str * list obj)) : Prop :=
  NoDup (keys arches) /\ forall a os, In (a, os) arches -> os <> [].

Lemma assoc_app_none {A} k (l1 l2 : list (str * A)) : assoc k l1 = None -> assoc k l2 = None -> assoc k (l1 ++ l2) = None.
Proof. intros H1 H2. rewrite assoc_app, H1. exact H2. Qed.

Lemma arches_fold todo : forall done,
  arch_canonical todo -> (forall a, In a (keys todo) -> assoc a done = None) ->
  fold_left (fun arches p => upd (fst p) (app_obj (snd p)) arches) (pairs_of todo) done = done ++ todo.
Proof.
  induction todo as [|[a os] todo IH]; intros done [Hnd Hne] Hdis; cbn [pairs_of flat_map].
  - rewrite app_nil_r. reflexivity.
  - rewrite fold_left_app. cbn [fst snd].
    assert (E : fold_left (fun arches p => upd (fst p) (app_obj (snd p)) arches) (map (fun o => (a, o)) os) done =
                fold_left (fun arches o => upd a (app_obj o) arches) os done).
    { clear. revert done. induction os as [|o os IH]; intros done; [reflexivity|]. cbn [map fold_left fst snd]. apply IH. }
    rewrite E. change done with (st done a None) at 1.
    rewrite cell_fold; [|apply Hdis; left; reflexivity|apply (Hne a os); left; reflexivity].
    cbn [dflt app]. fold (pairs_of todo). cbn [keys map fst] in Hnd. inversion Hnd as [|? ? Hnotin Hnd']; subst.
    rewrite IH.
    + rewrite <- app_assoc. reflexivity.
    + split; [exact Hnd'|]. intros a' os' Hin. apply (Hne a' os'). right. exact Hin.
    + intros a' Hin. apply assoc_app_none; [apply Hdis; right; exact Hin|].
      cbn [assoc]. destruct (str_eqb_spec a' a) as [->|_]; [contradiction|reflexivity].
Qed.

Definition triples_of (vc : vcells) : list (str * str * obj) :=
  flat_map (fun va => map (fun p => (fst va, fst p, snd p)) (pairs_of (snd va))) vc.

Definition add_all (vc : vcells) (l : list (str * str * obj)) : vcells :=
  fold_left (fun acc t => add_val acc (fst (fst t)) (snd (fst t)) (snd t)) l vc.

Definition canonical (vc : vcells) : Prop :=
  NoDup (keys vc) /\ forall v arches, In (v, arches) vc -> arches <> [] /\ arch_canonical arches.

Lemma variant_fold v (pre : vcells) (pairs : list (str * obj)) : forall oar,
  assoc v pre = None -> pairs <> [] ->
  add_all (st pre v oar) (map (fun p => (v, fst p, snd p)) pairs) =
  pre ++ [(v, fold_left (fun arches p => upd (fst p) (app_obj (snd p)) arches) pairs (dflt [] oar))].
Proof.
  unfold add_all. induction pairs as [|p pairs IH]; intros oar Hv Hne; [congruence|]. cbn [map fold_left fst snd].
  unfold add_val at 2. rewrite (upd_st v _ pre oar Hv).
  destruct pairs as [|p2 pairs'].
  - reflexivity.
  - change (pre ++ [(v, upd (fst p) (fun l => dflt [] l ++ [snd p]) (dflt [] oar))])
      with (st pre v (Some (upd (fst p) (app_obj (snd p)) (dflt [] oar)))).
    rewrite IH by (try exact Hv; discriminate). reflexivity.
Qed.

Lemma pairs_nonempty arches : arches <> [] -> arch_canonical arches -> pairs_of arches <> [].
Proof.
  intros Hne [_ Hc]. destruct arches as [|[a os] arches]; [congruence|]. cbn [pairs_of flat_map fst snd].
  pose proof (Hc a os (or_introl eq_refl)) as Hos. destruct os; [congruence|]. discriminate.
Qed.

Theorem rebuild_gen vc : forall pre,
  canonical vc -> (forall v, In v (keys vc) -> assoc v pre = None) ->
  add_all pre (triples_of vc) = pre ++ vc.
Proof.
  induction vc as [|[v arches] vc IH]; intros pre [Hnd Hc] Hdis; cbn [triples_of flat_map].
  - rewrite app_nil_r. reflexivity.
  - unfold add_all. rewrite fold_left_app. cbn [fst snd]. fold (triples_of vc).
    destruct (Hc v arches (or_introl eq_refl)) as [Hne Hac].
    change pre with (st pre v None) at 1.
    pose proof (variant_fold v pre (pairs_of arches) None (Hdis v (or_introl eq_refl)) (pairs_nonempty arches Hne Hac)) as E.
    unfold add_all in E. rewrite E. cbn [dflt].
    rewrite (arches_fold arches [] Hac) by (intros; reflexivity). cbn [app].
    cbn [keys map fst] in Hnd. inversion Hnd as [|? ? Hnotin Hnd']; subst.
    fold (add_all (pre ++ [(v, arches)]) (triples_of vc)). rewrite IH.
    + rewrite <- app_assoc. reflexivity.
    + split; [exact Hnd'|]. intros v' ar' Hin. apply (Hc v' ar'). right. exact Hin.
    + intros v' Hin. apply assoc_app_none; [apply Hdis; right; exact Hin|].
      cbn [assoc]. destruct (str_eqb_spec v' v) as [->|_]; [contradiction|reflexivity].
Qed.

Corollary rebuild vc : canonical vc -> add_all [] (triples_of vc) = vc.
Proof. intros H. apply (rebuild_gen vc [] H). intros; reflexivity. Qed.

(* ------------------------------------------------------------------ what the writer produces *)
Definition ser_total (o : obj) : pyval :=
  let base := map (fun f => (f, getf o f))
                  [F"path"; F"mtime"; F"size"; F"volume_id"; F"type"; F"format"; F"arch"; F"disc_number"; F"disc_count";
                   F"checksums"; F"implant_md5"; F"bootable"; F"subvariant"] in
  PDict (if truthy (getf o (F"unified"))
         then base ++ [(F"unified", getf o (F"unified")); (F"additional_variants", getf o (F"additional_variants"))]
         else base).

Lemma ser_image_total o d : ser_image o = Ok d -> d = ser_total o /\ validate image_cls o = Ok tt.
Proof.
  unfold ser_image. destruct (validate image_cls o) as [[]|e]; cbn [bind]; [|discriminate].
  intros H. injection H as <-. split; reflexivity.
Qed.

Lemma ser_total_ok o : validate image_cls o = Ok tt -> ser_image o = Ok (ser_total o).
Proof. intros H. unfold ser_image. rewrite H. reflexivity. Qed.

Definition okey (o : obj) : str := match getf o (F"path") with PStr s => s | _ => [] end.

Lemma path_key_ser_total o : path_key (ser_total o) = okey o.
Proof. unfold ser_total, path_key, okey. destruct (truthy (getf o (F"unified"))); cbn [map app assoc]; rewrite str_eqb_refl; reflexivity. Qed.

Fixpoint insert_obj (o : obj) (l : list obj) : list obj :=
  match l with
  | [] => [o]
  | x :: l' => if str_ltb (okey o) (okey x) then o :: l else x :: insert_obj o l'
  end.
Definition sort_objs (os : list obj) : list obj := fold_left (fun l o => insert_obj o l) os [].

Lemma insert_map o l : insert_by_path (ser_total o) (map ser_total l) = map ser_total (insert_obj o l).
Proof.
  induction l as [|x l IH]; [reflexivity|]. cbn [map]. rewrite insert_by_path_unfold, !path_key_ser_total. cbn [insert_obj].
  destruct (str_ltb (okey o) (okey x)); [reflexivity|]. cbn [map]. rewrite IH. reflexivity.
Qed.

Lemma sort_map os : sort_by_path (map ser_total os) = map ser_total (sort_objs os).
Proof.
  unfold sort_by_path, sort_objs. change (@nil pyval) with (map ser_total []). generalize (@nil obj) as acc.
  induction os as [|o os IH]; intros acc; [reflexivity|]. cbn [map fold_left]. rewrite insert_map. apply IH.
Qed.

Lemma insert_obj_perm o l : Permutation (o :: l) (insert_obj o l).
Proof.
  induction l as [|x l IH]; cbn [insert_obj]; [apply Permutation_refl|].
  destruct (str_ltb (okey o) (okey x)); [apply Permutation_refl|].
  apply perm_trans with (x :: o :: l); [apply perm_swap|]. apply perm_skip. exact IH.
Qed.

Lemma sort_objs_perm os : Permutation os (sort_objs os).
Proof.
  unfold sort_objs. assert (H : forall acc, Permutation (os ++ acc) (fold_left (fun l o => insert_obj o l) os acc)).
  { induction os as [|o os IH]; intros acc; [apply Permutation_refl|]. cbn [fold_left app].
    apply perm_trans with (os ++ insert_obj o acc); [|apply IH].
    apply perm_trans with (os ++ o :: acc); [apply Permutation_middle|]. apply Permutation_app_head. apply insert_obj_perm. }
  specialize (H []). rewrite app_nil_r in H. exact H.
Qed.

(* the value view of what is written: empty cells and variants without cells are dropped, every cell is sorted by path *)
Definition canon_arches (arches : list (str * list obj)) : list (str * list obj) :=
  flat_map (fun ao => match snd ao with [] => [] | _ => [(fst ao, sort_objs (snd ao))] end) arches.
Definition canon (vc : vcells) : vcells :=
  flat_map (fun va => match canon_arches (snd va) with [] => [] | ca => [(fst va, ca)] end) vc.

Definition ser_arches_v (arches : list (str * list obj)) : list (str * pyval) :=
  map (fun ao => (fst ao, PList (map ser_total (snd ao)))) arches.
Definition ser_vc (vc : vcells) : list (str * pyval) := map (fun va => (fst va, PDict (ser_arches_v (snd va)))) vc.

Definition all_valid (imgs : list image) : Prop := forall x, In x imgs -> validate image_cls (snd x) = Ok tt.

Lemma mapM_ser imgs ds : mapM (fun im => ser_image (snd im)) imgs = Ok ds -> ds = map ser_total (map snd imgs) /\ all_valid imgs.
Proof.
  revert ds. induction imgs as [|im imgs IH]; intros ds H; cbn [mapM] in H.
  - injection H as <-. split; [reflexivity|intros x []].
  - destruct (ser_image (snd im)) as [d|e] eqn:E; cbn [bind] in H; [|discriminate].
    destruct (mapM _ imgs) as [ds'|e] eqn:E'; cbn [bind] in H; [|discriminate]. injection H as <-.
    destruct (IH ds' eq_refl) as [-> Hv]. destruct (ser_image_total _ _ E) as [-> Hval]. split; [reflexivity|].
    intros x [<-|Hx]; [exact Hval|exact (Hv x Hx)].
Qed.

Lemma ser_cell_shape imgs c : ser_cell imgs = Ok c -> c = map ser_total (sort_objs (map snd imgs)) /\ all_valid imgs.
Proof.
  intros H. destruct (mapM (fun im => ser_image (snd im)) imgs) as [ds|e] eqn:E.
  - rewrite (ser_cell_sorts _ _ E) in H. injection H as <-. destruct (mapM_ser _ _ E) as [-> Hv].
    split; [apply sort_map|exact Hv].
  - exfalso. revert H E. unfold ser_cell. generalize (@nil pyval) as acc.
    induction imgs as [|im imgs IH]; intros acc H E; cbn [mapM] in E; [discriminate|]. cbn [fold_left bind] in H.
    destruct (ser_image (snd im)) as [d|e1] eqn:E1; cbn [bind] in *.
    + destruct (mapM (fun im0 : nat * obj => ser_image (snd im0)) imgs) as [ds'|e2] eqn:E2; cbn [bind] in E; [discriminate|].
      exact (IH _ H E).
    + clear -H. induction imgs as [|x l IHl]; cbn [fold_left bind] in H; [discriminate|exact (IHl H)].
Qed.

Lemma ser_arches_shape arches r :
  ser_arches arches = Ok r ->
  r = ser_arches_v (canon_arches (map_snd (map snd) arches)) /\ (forall a imgs, In (a, imgs) arches -> all_valid imgs).
Proof.
  revert r. induction arches as [|[a imgs] arches IH]; intros r H; cbn [ser_arches] in H.
  - injection H as <-. split; [reflexivity|intros a imgs []].
  - destruct (ser_cell imgs) as [c|e] eqn:Ec; cbn [bind] in H; [|discriminate].
    destruct (ser_arches arches) as [r'|e] eqn:Er; cbn [bind] in H; [|discriminate]. injection H as <-.
    destruct (IH r' eq_refl) as [-> Hv]. destruct (ser_cell_shape _ _ Ec) as [-> Hvc]. split.
    + cbn [map_snd map canon_arches flat_map fst snd]. destruct imgs as [|im imgs']; [reflexivity|]. reflexivity.
    + intros a' imgs' [E|Hin]; [injection E as <- <-; exact Hvc|exact (Hv a' imgs' Hin)].
Qed.

Lemma vals_cons v arches c : vals ((v, arches) :: c) = (v, map_snd (map snd) arches) :: vals c.
Proof. reflexivity. Qed.
Lemma canon_cons v ar vc : canon ((v, ar) :: vc) = match canon_arches ar with [] => [] | ca => [(v, ca)] end ++ canon vc.
Proof. reflexivity. Qed.

Lemma ser_variants_shape c r :
  ser_variants c = Ok r ->
  r = ser_vc (canon (vals c)) /\ (forall x, In x (all_images c) -> validate image_cls (snd x) = Ok tt).
Proof.
  revert r. induction c as [|[v arches] c IH]; intros r H; cbn [ser_variants] in H.
  - injection H as <-. split; [reflexivity|intros x []].
  - destruct (ser_arches arches) as [a|e] eqn:Ea; cbn [bind] in H; [|discriminate].
    destruct (ser_variants c) as [r'|e] eqn:Er; cbn [bind] in H; [|discriminate]. injection H as <-.
    destruct (IH r' eq_refl) as [-> Hv]. destruct (ser_arches_shape _ _ Ea) as [-> Hva]. split.
    + rewrite vals_cons, canon_cons.
      destruct (canon_arches (map_snd (map snd) arches)) as [|ca0 ca]; reflexivity.
    + intros x Hx. unfold all_images in Hx. cbn [flat_map snd] in Hx. apply in_app_or in Hx. destruct Hx as [Hx|Hx]; [|exact (Hv x Hx)].
      apply in_flat_map in Hx. destruct Hx as ([a' imgs'] & Hin & Hx). exact (Hva a' imgs' Hin x Hx).
Qed.

(* ------------------------------------------------------------------ what the reader does with it *)
Definition PInv (V : list obj) : Prop :=
  forall x y, In x V -> In y V -> same_identity x y = true -> same_checksums x y = true.
Definition Sub (V : list obj) (c : cells_t) : Prop := forall x, In x (all_images c) -> In (snd x) V.

Lemma no_collision V c o : PInv V -> Sub V c -> In o V -> collides c o = false.
Proof.
  intros HP HS Ho. unfold collides. destruct (existsb _ _) eqn:E; [|reflexivity]. exfalso.
  apply existsb_exists in E. destruct E as (cur & Hin & Hc). apply andb_true_iff in Hc. destruct Hc as [Hid Hck].
  rewrite (HP (snd cur) o (HS cur Hin) Ho Hid) in Hck. discriminate.
Qed.

Lemma images_add_ok vt c v a img :
  arch_ok a = true -> collides c (snd img) = false ->
  images_add vt c v a img = Ok (upd v (fun o => upd a (fun o => set_add img (dflt [] o)) (dflt [] o)) c).
Proof.
  intros Ha Hc. unfold arch_ok in Ha. apply andb_true_iff in Ha. destruct Ha as [H1 H2].
  unfold images_add. rewrite H1, H2, Hc, andb_false_r. reflexivity.
Qed.

Definition step3 (vt : N * N) (ks : list str) (v a : str) (acc3 : result (nat * cells_t)) (d : pyval) : result (nat * cells_t) :=
  do st3 <- acc3;
  let '(next, c) := st3 in
  do o <- deser_image vt d;
  do c' <- add_loaded vt ks c v a (next, o);
  Ok (S next, c').

Definition good_obj (V : list obj) (o : obj) : Prop := In o V /\ image_normal o /\ validate image_cls o = Ok tt.

Lemma load_cell V ks v a os : forall n c,
  arch_ok a = true -> PInv V -> (forall o, In o os -> good_obj V o) -> Sub V c -> ids_below n c ->
  exists c', fold_left (step3 VERSION ks v a) (map ser_total os) (Ok (n, c)) = Ok ((n + length os)%nat, c') /\
             vals c' = fold_left (fun vc o => add_val vc v a o) os (vals c) /\ Sub V c' /\ ids_below (n + length os) c'.
Proof.
  destruct current_version_ok as (_ & _ & H11 & _ & _ & Hle11 & _).
  induction os as [|o os IH]; intros n c Ha HP Hg HS Hb.
  - exists c. cbn [map fold_left length]. rewrite Nat.add_0_r. auto.
  - destruct (Hg o (or_introl eq_refl)) as (HoV & Hon & Hov).
    cbn [map fold_left]. unfold step3 at 2. cbn [bind].
    rewrite (image_roundtrip o (ser_total o) Hon (ser_total_ok o Hov)). cbn [bind].
    unfold add_loaded. rewrite Hle11.
    pose proof (images_add_ok VERSION c v a (n, o) Ha (no_collision V c o HP HS HoV)) as Eadd.
    rewrite Eadd. cbn [bind].
    destruct (vals_add VERSION c v a n o _ Hb Eadd) as [Hvals Hb'].
    set (c1 := upd v (fun o0 => upd a (fun o1 => set_add (n, o) (dflt [] o1)) (dflt [] o0)) c) in *.
    assert (HS1 : Sub V c1).
    { intros x Hx. apply in_cells_upd in Hx. destruct Hx as [Hx| ->]; [exact (HS x Hx)|exact HoV]. }
    destruct (IH (S n) c1 Ha HP (fun o' Ho' => Hg o' (or_intror Ho')) HS1 Hb') as (c' & E & Hv & HS' & Hb'').
    exists c'. cbn [length]. replace (n + S (length os))%nat with (S n + length os)%nat by lia.
    split; [exact E|]. split; [|split; assumption]. rewrite Hv, Hvals. reflexivity.
Qed.

(* one variant: the loop over its architectures *)
Definition step2 (vt : N * N) (ks : list str) (v : str) (acc2 : result (nat * cells_t)) (ai : str * pyval) : result (nat * cells_t) :=
  do st2 <- acc2;
  match snd ai with
  | PList il => fold_left (step3 vt ks v (fst ai)) il (Ok st2)
  | PDict kv => match kv with [] => Ok st2 | _ => Err TypeError end
  | PStr s => match s with [] => Ok st2 | _ => Err TypeError end
  | _ => Err TypeError
  end.

Definition good_arches (V : list obj) (arches : list (str * list obj)) : Prop :=
  forall a os, In (a, os) arches -> arch_ok a = true /\ forall o, In o os -> good_obj V o.

Lemma fold_pairs_cell (v a : str) os (vc : vcells) :
  fold_left (fun vc p => add_val vc v (fst p) (snd p)) (map (fun o => (a, o)) os) vc = fold_left (fun vc o => add_val vc v a o) os vc.
Proof. revert vc. induction os as [|o os IH]; intros vc; [reflexivity|]. cbn [map fold_left fst snd]. apply IH. Qed.

Lemma load_arches V ks v arches : forall n c,
  PInv V -> good_arches V arches -> Sub V c -> ids_below n c ->
  exists n' c', fold_left (step2 VERSION ks v) (ser_arches_v arches) (Ok (n, c)) = Ok (n', c') /\
                vals c' = fold_left (fun vc p => add_val vc v (fst p) (snd p)) (pairs_of arches) (vals c) /\
                Sub V c' /\ ids_below n' c'.
Proof.
  induction arches as [|[a os] arches IH]; intros n c HP Hg HS Hb.
  - exists n, c. auto.
  - destruct (Hg a os (or_introl eq_refl)) as [Ha Hos].
    destruct (load_cell V ks v a os n c Ha HP Hos HS Hb) as (c1 & E1 & Hv1 & HS1 & Hb1).
    destruct (IH _ c1 HP (fun a' os' Hin => Hg a' os' (or_intror Hin)) HS1 Hb1) as (n' & c' & E & Hv & HS' & Hb').
    exists n', c'. cbn [ser_arches_v map fold_left fst snd]. unfold step2 at 2. cbn [bind snd fst]. rewrite E1.
    split; [exact E|]. split; [|split; assumption].
    cbn [pairs_of flat_map fst snd]. rewrite fold_left_app, fold_pairs_cell, <- Hv1. exact Hv.
Qed.

(* the whole payload: the loop over the variants *)
Definition step1 (vt : N * N) (acc : result (nat * cells_t)) (va : str * pyval) : result (nat * cells_t) :=
  do st <- acc;
  match snd va with
  | PDict arches => fold_left (step2 vt (map fst arches) (fst va)) arches (Ok st)
  | PList l => match l with [] => Ok st | _ => Err TypeError end
  | PStr s => match s with [] => Ok st | _ => Err TypeError end
  | _ => Err TypeError
  end.

Definition good_cells (V : list obj) (vc : vcells) : Prop := forall v arches, In (v, arches) vc -> good_arches V arches.

Lemma fold_triples_variant (v : str) pairs (vc : vcells) :
  add_all vc (map (fun p => (v, fst p, snd p)) pairs) = fold_left (fun vc p => add_val vc v (fst p) (snd p)) pairs vc.
Proof. unfold add_all. revert vc. induction pairs as [|p pairs IH]; intros vc; [reflexivity|]. cbn [map fold_left fst snd]. apply IH. Qed.

Lemma load_variants V vc : forall n c,
  PInv V -> good_cells V vc -> Sub V c -> ids_below n c ->
  exists n' c', fold_left (step1 VERSION) (ser_vc vc) (Ok (n, c)) = Ok (n', c') /\
                vals c' = add_all (vals c) (triples_of vc) /\ Sub V c' /\ ids_below n' c'.
Proof.
  induction vc as [|[v arches] vc IH]; intros n c HP Hg HS Hb.
  - exists n, c. auto.
  - destruct (load_arches V (map fst (ser_arches_v arches)) v arches n c HP (Hg v arches (or_introl eq_refl)) HS Hb)
      as (n1 & c1 & E1 & Hv1 & HS1 & Hb1).
    destruct (IH n1 c1 HP (fun v' ar' Hin => Hg v' ar' (or_intror Hin)) HS1 Hb1) as (n' & c' & E & Hv & HS' & Hb').
    exists n', c'. cbn [ser_vc map fold_left fst snd]. unfold step1 at 2. cbn [bind snd fst]. rewrite E1.
    split; [exact E|]. split; [|split; assumption].
    cbn [triples_of flat_map fst snd]. unfold add_all. rewrite fold_left_app. fold (triples_of vc).
    fold (add_all (vals c) (map (fun p => (v, fst p, snd p)) (pairs_of arches))). rewrite fold_triples_variant, <- Hv1. exact Hv.
Qed.

Lemma deser_images_eq doc :
  deser_images doc =
  (do hv <- deser_header images_mtype doc;
   let vt := snd hv in
   do payload <- dget doc (F"payload");
   do compose <- deser_compose vt payload;
   do imgs <- dget payload (F"images");
   match imgs with
   | PDict variants =>
       do cells <- fold_left (step1 vt) variants (Ok (O, []));
       Ok {| im_version := current_version; im_compose := compose; im_cells := snd cells |}
   | PList l => match l with
                | [] => Ok {| im_version := current_version; im_compose := compose; im_cells := [] |}
                | _ => Err TypeError
                end
   | PStr s => match s with
               | [] => Ok {| im_version := current_version; im_compose := compose; im_cells := [] |}
               | _ => Err TypeError
               end
   | _ => Err TypeError
   end).
Proof. reflexivity. Qed.

(* ------------------------------------------------------------------ canon produces a canonical view of the same images *)
Lemma sort_objs_nonempty o os : sort_objs (o :: os) <> [].
Proof. intros E. pose proof (sort_objs_perm (o :: os)) as P. rewrite E in P. apply Permutation_sym, Permutation_nil in P. discriminate. Qed.

Lemma in_canon_arches a os' arches :
  In (a, os') (canon_arches arches) -> exists os, In (a, os) arches /\ os <> [] /\ os' = sort_objs os.
Proof.
  unfold canon_arches. intros H. apply in_flat_map in H. destruct H as ([a0 os0] & Hin & H). cbn [fst snd] in H.
  destruct os0 as [|o os0]; [destruct H|]. destruct H as [E|[]]. injection E as <- <-.
  exists (o :: os0). split; [exact Hin|]. split; [discriminate|reflexivity].
Qed.

Lemma keys_canon_arches a arches : In a (keys (canon_arches arches)) -> In a (keys arches).
Proof.
  unfold keys. intros H. apply in_map_iff in H. destruct H as ([a' os'] & <- & Hin).
  destruct (in_canon_arches _ _ _ Hin) as (os & Hin' & _). apply in_map_iff. exists (a', os). split; [reflexivity|exact Hin'].
Qed.

Lemma nodup_canon_arches arches : NoDup (keys arches) -> NoDup (keys (canon_arches arches)).
Proof.
  induction arches as [|[a os] arches IH]; intros H; [constructor|]. cbn [keys map fst] in H. inversion H as [|? ? Hn Hnd]; subst.
  unfold canon_arches. cbn [flat_map fst snd]. fold (canon_arches arches).
  destruct os as [|o os]; cbn [app]; [exact (IH Hnd)|]. cbn [keys map fst]. constructor; [|exact (IH Hnd)].
  intros Hin. apply Hn. exact (keys_canon_arches _ _ Hin).
Qed.

Lemma canon_arches_canonical arches : NoDup (keys arches) -> arch_canonical (canon_arches arches).
Proof.
  intros H. split; [exact (nodup_canon_arches _ H)|]. intros a os' Hin.
  destruct (in_canon_arches _ _ _ Hin) as (os & _ & Hne & ->). destruct os; [congruence|apply sort_objs_nonempty].
Qed.

Lemma in_canon v ca vc : In (v, ca) (canon vc) -> exists arches, In (v, arches) vc /\ ca = canon_arches arches /\ ca <> [].
Proof.
  unfold canon. intros H. apply in_flat_map in H. destruct H as ([v0 ar0] & Hin & H). cbn [fst snd] in H.
  destruct (canon_arches ar0) as [|x l] eqn:E; [destruct H|]. destruct H as [E'|[]]. injection E' as <- <-.
  exists ar0. split; [exact Hin|]. split; [symmetry; exact E|discriminate].
Qed.

Lemma keys_canon v vc : In v (keys (canon vc)) -> In v (keys vc).
Proof.
  unfold keys. intros H. apply in_map_iff in H. destruct H as ([v' ca] & <- & Hin).
  destruct (in_canon _ _ _ Hin) as (ar & Hin' & _). apply in_map_iff. exists (v', ar). split; [reflexivity|exact Hin'].
Qed.

Lemma nodup_canon vc : NoDup (keys vc) -> NoDup (keys (canon vc)).
Proof.
  induction vc as [|[v ar] vc IH]; intros H; [constructor|]. cbn [keys map fst] in H. inversion H as [|? ? Hn Hnd]; subst.
  rewrite canon_cons. destruct (canon_arches ar) as [|x l]; cbn [app]; [exact (IH Hnd)|].
  cbn [keys map fst]. constructor; [|exact (IH Hnd)]. intros Hin. apply Hn. exact (keys_canon _ _ Hin).
Qed.

Lemma canon_canonical vc :
  NoDup (keys vc) -> (forall v arches, In (v, arches) vc -> NoDup (keys arches)) -> canonical (canon vc).
Proof.
  intros H1 H2. split; [exact (nodup_canon _ H1)|]. intros v ca Hin.
  destruct (in_canon _ _ _ Hin) as (ar & Hin' & -> & Hne). split; [exact Hne|]. apply canon_arches_canonical. exact (H2 v ar Hin').
Qed.

(* the value view and the objects of a manifest *)
Lemma in_vals v arches_v c : In (v, arches_v) (vals c) -> exists arches, In (v, arches) c /\ arches_v = map_snd (map snd) arches.
Proof.
  unfold vals, map_snd. intros H. apply in_map_iff in H. destruct H as ([v' ar] & E & Hin). cbn [fst snd] in E. injection E as <- <-.
  exists ar. split; [exact Hin|reflexivity].
Qed.

Lemma in_map_snd_cell a os (arches : list (str * list image)) :
  In (a, os) (map_snd (map snd) arches) -> exists imgs, In (a, imgs) arches /\ os = map snd imgs.
Proof.
  unfold map_snd. intros H. apply in_map_iff in H. destruct H as ([a' imgs] & E & Hin). cbn [fst snd] in E. injection E as <- <-.
  exists imgs. split; [exact Hin|reflexivity].
Qed.

Lemma keys_vals c : keys (vals c) = keys c.
Proof. unfold vals, map_snd, keys. rewrite map_map. reflexivity. Qed.
Lemma keys_map_snd {A B} (g : A -> B) l : keys (map_snd g l) = keys l.
Proof. unfold map_snd, keys. rewrite map_map. reflexivity. Qed.

(* ------------------------------------------------------------------ the theorem *)
Record wf_images (st : images_st) : Prop := {
  wf_compose : compose_normal (im_compose st);
  wf_normal : forall x, In x (all_images (im_cells st)) -> image_normal (snd x);
  wf_inv : Inv (im_cells st);
  wf_arch : keys2_ok (im_cells st);
  wf_keys : NoDup (keys (im_cells st));
  wf_akeys : forall v arches, In (v, arches) (im_cells st) -> NoDup (keys arches) }.

Lemma deser_compose_dget vt kv kv' :
  dget (PDict kv) (F"compose") = dget (PDict kv') (F"compose") -> deser_compose vt (PDict kv) = deser_compose vt (PDict kv').
Proof. intros H. unfold deser_compose. rewrite H. reflexivity. Qed.

Ltac eval_eqb :=
  repeat match goal with
         | |- context [str_eqb ?a ?b] => let r := eval vm_compute in (str_eqb a b) in change (str_eqb a b) with r
         end.

Theorem images_manifest_roundtrip st doc :
  wf_images st -> ser_images st = Ok doc ->
  exists st', deser_images doc = Ok st' /\ im_compose st' = im_compose st /\
              vals (im_cells st') = canon (vals (im_cells st)).
Proof.
  intros W H. unfold ser_images in H. rewrite ser_header_ok in H. cbn [bind] in H.
  destruct (ser_compose (im_compose st)) as [cj|e] eqn:Ec; cbn [bind] in H; [|discriminate].
  destruct (ser_variants (im_cells st)) as [imgs|e] eqn:Ev; cbn [bind] in H; [|discriminate]. injection H as <-.
  destruct (ser_variants_shape _ _ Ev) as [-> Hvalid].
  set (cells := im_cells st) in *. set (V := map snd (all_images cells)).
  set (cvc := canon (vals cells)).
  (* the written view is canonical and consists of the manifest's own images *)
  assert (Hcan : canonical cvc).
  { apply canon_canonical; [rewrite keys_vals; exact (wf_keys st W)|].
    intros v arv Hin. destruct (in_vals _ _ _ Hin) as (ar & Hin' & ->). rewrite keys_map_snd. exact (wf_akeys st W v ar Hin'). }
  assert (HP : PInv V).
  { intros x y Hx Hy. unfold V in Hx, Hy. apply in_map_iff in Hx, Hy. destruct Hx as (i & <- & Hi), Hy as (j & <- & Hj).
    exact (wf_inv st W i j Hi Hj). }
  assert (Hgood : good_cells V cvc).
  { intros v ca Hin a os' Hin2. destruct (in_canon _ _ _ Hin) as (arv & Hin' & -> & _).
    destruct (in_canon_arches _ _ _ Hin2) as (os & Hin3 & _ & ->).
    destruct (in_vals _ _ _ Hin') as (ar & Hin4 & ->). destruct (in_map_snd_cell _ _ _ Hin3) as (imgs & Hin5 & ->).
    split; [exact (wf_arch st W v ar Hin4 a imgs Hin5)|].
    intros o Ho. apply (Permutation_in _ (Permutation_sym (sort_objs_perm _))) in Ho.
    apply in_map_iff in Ho. destruct Ho as (x & <- & Hx).
    assert (Hall : In x (all_images cells)).
    { unfold all_images. apply in_flat_map. exists (v, ar). split; [exact Hin4|]. cbn [snd]. apply in_flat_map. exists (a, imgs). auto. }
    split; [unfold V; apply in_map; exact Hall|]. split; [exact (wf_normal st W x Hall)|exact (Hvalid x Hall)]. }
  destruct (load_variants V cvc O [] HP Hgood (fun x Hx => match Hx with end) (fun x Hx => match Hx with end))
    as (n' & c' & Eload & Hvals & _ & _).
  exists {| im_version := current_version; im_compose := im_compose st; im_cells := c' |}.
  split; [|split; [reflexivity|]].
  - rewrite deser_images_eq. unfold images_mtype. rewrite deser_header_ser. cbn [bind snd].
    cbn [dget assoc]. eval_eqb. cbn [of_option bind].
    rewrite (deser_compose_dget VERSION _ [(F"compose", cj)]) by (cbn [dget assoc]; eval_eqb; reflexivity).
    rewrite (deser_compose_ser _ _ [] (wf_compose st W) Ec). cbn [bind].
    cbn [dget assoc]. eval_eqb. cbn [of_option bind]. fold cvc.
    exact (f_equal (fun r => do cells0 <- r;
                             Ok {| im_version := current_version; im_compose := im_compose st; im_cells := snd cells0 |}) Eload).
  - cbn [im_cells]. rewrite Hvals. change (vals []) with (@nil (str * list (str * list obj))). apply rebuild. exact Hcan.
Qed.

(* ------------------------------------------------------------------ the second write *)
From Coq Require Import Sorting.Sorted.

Definition le_key (x y : obj) : Prop := str_ltb (okey y) (okey x) = false.

Lemma lt_le_key o x y : str_ltb (okey o) (okey x) = true -> le_key x y -> le_key o y.
Proof.
  unfold le_key. intros H1 H2. destruct (str_ltb (okey y) (okey o)) eqn:E; [|reflexivity].
  pose proof (str_ltb_trans _ _ _ E H1) as H3. congruence.
Qed.

Lemma insert_obj_sorted o l : StronglySorted le_key l -> StronglySorted le_key (insert_obj o l).
Proof.
  induction l as [|x l IH]; intros H; cbn [insert_obj]; [repeat constructor|].
  inversion H as [|? ? Hs Hall]; subst.
  destruct (str_ltb (okey o) (okey x)) eqn:E.
  - constructor; [exact H|]. constructor; [exact (str_ltb_asym _ _ E)|].
    apply Forall_forall. intros y Hy. rewrite Forall_forall in Hall. exact (lt_le_key o x y E (Hall y Hy)).
  - constructor; [exact (IH Hs)|]. apply Forall_forall. intros y Hy.
    apply (Permutation_in _ (Permutation_sym (insert_obj_perm o l))) in Hy. destruct Hy as [<-|Hy]; [exact E|].
    rewrite Forall_forall in Hall. exact (Hall y Hy).
Qed.

Lemma sort_objs_sorted os : StronglySorted le_key (sort_objs os).
Proof.
  unfold sort_objs. assert (H : forall acc, StronglySorted le_key acc -> StronglySorted le_key (fold_left (fun l o => insert_obj o l) os acc)).
  { induction os as [|o os IH]; intros acc Ha; [exact Ha|]. cbn [fold_left]. apply IH. apply insert_obj_sorted. exact Ha. }
  apply H. constructor.
Qed.

Lemma insert_obj_last o acc : (forall x, In x acc -> le_key x o) -> insert_obj o acc = acc ++ [o].
Proof.
  induction acc as [|x acc IH]; intros H; [reflexivity|]. cbn [insert_obj app].
  rewrite (H x (or_introl eq_refl)). f_equal. apply IH. intros y Hy. apply H. right. exact Hy.
Qed.

Lemma sort_objs_of_sorted l : StronglySorted le_key l -> sort_objs l = l.
Proof.
  unfold sort_objs. assert (H : forall acc, StronglySorted le_key (acc ++ l) -> fold_left (fun l o => insert_obj o l) l acc = acc ++ l).
  { induction l as [|o l IH]; intros acc Hs; [rewrite app_nil_r; reflexivity|]. cbn [fold_left].
    rewrite insert_obj_last.
    - rewrite IH; rewrite <- app_assoc; [reflexivity|exact Hs].
    - intros x Hx. clear IH. induction acc as [|y acc IHa]; [destruct Hx|]. cbn [app] in Hs. inversion Hs as [|? ? Hs' Hall]; subst.
      destruct Hx as [<-|Hx]; [|exact (IHa Hs' Hx)]. rewrite Forall_forall in Hall. apply Hall. apply in_or_app. right. left. reflexivity. }
  intros Hs. apply (H [] Hs).
Qed.

Lemma sort_objs_idem os : sort_objs (sort_objs os) = sort_objs os.
Proof. apply sort_objs_of_sorted. apply sort_objs_sorted. Qed.

Lemma canon_arches_idem arches : canon_arches (canon_arches arches) = canon_arches arches.
Proof.
  induction arches as [|[a os] arches IH]; [reflexivity|]. unfold canon_arches at 2 3. cbn [flat_map fst snd]. fold (canon_arches arches).
  destruct os as [|o os]; cbn [app]; [exact IH|].
  unfold canon_arches at 1. cbn [flat_map fst snd]. fold (canon_arches (canon_arches arches)).
  destruct (sort_objs (o :: os)) as [|o' os'] eqn:E; [exfalso; exact (sort_objs_nonempty o os E)|].
  cbn [app]. rewrite <- E, sort_objs_idem, IH. reflexivity.
Qed.

Lemma canon_idem vc : canon (canon vc) = canon vc.
Proof.
  induction vc as [|[v ar] vc IH]; [reflexivity|]. rewrite (canon_cons v ar vc).
  destruct (canon_arches ar) as [|x l] eqn:E; cbn [app]; [exact IH|].
  rewrite canon_cons, <- E, canon_arches_idem, E. cbn [app]. rewrite IH. reflexivity.
Qed.

(* the writer succeeds on valid images, and its output is a function of the value view *)
Lemma ser_cell_ok imgs : all_valid imgs -> ser_cell imgs = Ok (map ser_total (sort_objs (map snd imgs))).
Proof.
  intros Hv. assert (E : mapM (fun im => ser_image (snd im)) imgs = Ok (map ser_total (map snd imgs))).
  { induction imgs as [|im imgs IH]; [reflexivity|]. cbn [mapM map]. rewrite (ser_total_ok _ (Hv im (or_introl eq_refl))). cbn [bind].
    rewrite IH by (intros x Hx; apply Hv; right; exact Hx). reflexivity. }
  rewrite (ser_cell_sorts _ _ E), sort_map. reflexivity.
Qed.

Lemma ser_arches_ok arches :
  (forall a imgs, In (a, imgs) arches -> all_valid imgs) ->
  ser_arches arches = Ok (ser_arches_v (canon_arches (map_snd (map snd) arches))).
Proof.
  induction arches as [|[a imgs] arches IH]; intros Hv; [reflexivity|]. cbn [ser_arches].
  rewrite (ser_cell_ok imgs (Hv a imgs (or_introl eq_refl))). cbn [bind].
  rewrite IH by (intros a' i' Hin; exact (Hv a' i' (or_intror Hin))). cbn [bind].
  cbn [map_snd map canon_arches flat_map fst snd]. destruct imgs; reflexivity.
Qed.

Lemma ser_variants_ok c :
  (forall x, In x (all_images c) -> validate image_cls (snd x) = Ok tt) -> ser_variants c = Ok (ser_vc (canon (vals c))).
Proof.
  induction c as [|[v arches] c IH]; intros Hv; [reflexivity|]. cbn [ser_variants].
  rewrite ser_arches_ok.
  - cbn [bind]. rewrite IH.
    + cbn [bind]. rewrite vals_cons, canon_cons. destruct (canon_arches (map_snd (map snd) arches)); reflexivity.
    + intros x Hx. apply Hv. unfold all_images. cbn [flat_map snd]. apply in_or_app. right. exact Hx.
  - intros a imgs Hin x Hx. apply Hv. unfold all_images. cbn [flat_map snd]. apply in_or_app. left.
    apply in_flat_map. exists (a, imgs). auto.
Qed.

Definition objs_of (vc : vcells) : list obj := flat_map (fun va => flat_map snd (snd va)) vc.

Lemma objs_of_vals c : objs_of (vals c) = map snd (all_images c).
Proof.
  unfold objs_of, vals, all_images, map_snd. induction c as [|[v arches] c IH]; [reflexivity|].
  cbn [map flat_map fst snd]. rewrite map_app, IH. f_equal. clear.
  induction arches as [|[a imgs] arches IH]; [reflexivity|]. cbn [map flat_map fst snd]. rewrite map_app, IH. reflexivity.
Qed.

Lemma objs_of_canon o vc : In o (objs_of (canon vc)) -> In o (objs_of vc).
Proof.
  unfold objs_of. intros H. apply in_flat_map in H. destruct H as ([v ca] & Hin & Ho). cbn [snd] in Ho.
  apply in_flat_map in Ho. destruct Ho as ([a os'] & Hin2 & Ho). cbn [snd] in Ho.
  destruct (in_canon _ _ _ Hin) as (ar & Hin' & -> & _). destruct (in_canon_arches _ _ _ Hin2) as (os & Hin3 & _ & ->).
  apply in_flat_map. exists (v, ar). split; [exact Hin'|]. cbn [snd]. apply in_flat_map. exists (a, os). split; [exact Hin3|].
  cbn [snd]. exact (Permutation_in _ (Permutation_sym (sort_objs_perm _)) Ho).
Qed.

Theorem images_manifest_second_write st doc :
  wf_images st -> ser_images st = Ok doc ->
  exists st', deser_images doc = Ok st' /\ ser_images st' = Ok doc.
Proof.
  intros W H.
  (* replay the reader to learn that the re-read images are the manifest's own (hence valid) *)
  pose proof H as H0. unfold ser_images in H. rewrite ser_header_ok in H. cbn [bind] in H.
  destruct (ser_compose (im_compose st)) as [cj|e] eqn:Ec; cbn [bind] in H; [|discriminate].
  destruct (ser_variants (im_cells st)) as [imgs|e] eqn:Ev; cbn [bind] in H; [|discriminate]. injection H as <-.
  destruct (ser_variants_shape _ _ Ev) as [-> Hvalid].
  destruct (images_manifest_roundtrip st _ W H0) as (st' & Hd & Hc & Hvals).
  exists st'. split; [exact Hd|]. unfold ser_images. rewrite ser_header_ok. cbn [bind]. rewrite Hc, Ec. cbn [bind].
  rewrite ser_variants_ok.
  - cbn [bind]. rewrite Hvals, canon_idem. reflexivity.
  - (* every re-read image is one of the originals *)
    intros x Hx. assert (Ho : In (snd x) (objs_of (vals (im_cells st')))) by (rewrite objs_of_vals; apply in_map; exact Hx).
    rewrite Hvals in Ho. apply objs_of_canon in Ho. rewrite objs_of_vals in Ho. apply in_map_iff in Ho.
    destruct Ho as (y & Ey & Hy). rewrite <- Ey. exact (Hvalid y Hy).
Qed.

(* ------------------------------------------------------------------ the hypotheses hold for every manifest built by add calls *)
Lemma keys_upd {A} k (f : option A -> A) l :
  keys (upd k f l) = if existsb (str_eqb k) (keys l) then keys l else keys l ++ [k].
Proof.
  induction l as [|[k' v] l IH]; cbn [upd keys map fst existsb]; [reflexivity|].
  destruct (str_eqb k k') eqn:E; cbn [orb keys map fst]; [reflexivity|].
  fold (keys (upd k f l)). fold (keys l). rewrite IH. destruct (existsb (str_eqb k) (keys l)); reflexivity.
Qed.

Lemma NoDup_snoc {A} (a : list A) x : NoDup a -> ~ In x a -> NoDup (a ++ [x]).
Proof.
  intros Ha Hx. induction Ha as [|y a Hy Ha IH]; cbn [app]; [constructor; [intros []|constructor]|].
  constructor.
  - intros Hin. apply in_app_or in Hin. destruct Hin as [H|[H|[]]]; [contradiction|]. apply Hx. left. symmetry. exact H.
  - apply IH. intros H. apply Hx. right. exact H.
Qed.

Lemma nodup_keys_upd {A} k (f : option A -> A) l : NoDup (keys l) -> NoDup (keys (upd k f l)).
Proof.
  intros H. rewrite keys_upd. destruct (existsb (str_eqb k) (keys l)) eqn:E; [exact H|].
  apply NoDup_snoc; [exact H|]. intros Hx. assert (existsb (str_eqb k) (keys l) = true); [|congruence].
  apply existsb_exists. exists k. split; [exact Hx|apply str_eqb_refl].
Qed.

Definition keys_wf (c : cells_t) : Prop := NoDup (keys c) /\ forall v arches, In (v, arches) c -> NoDup (keys arches).

Lemma keys_wf_add vt c v a img c' : keys_wf c -> images_add vt c v a img = Ok c' -> keys_wf c'.
Proof.
  intros [H1 H2] H. unfold images_add in H. inv_guard H as G1. inv_guard H as G2. inv_guard H as G3. injection H as <-. split.
  - apply nodup_keys_upd. exact H1.
  - intros v' ar' Hin. apply in_upd in Hin. destruct Hin as [[-> ->]|[[_ Hin]|Hin]]; [|exact (H2 v' ar' Hin)|exact (H2 v' ar' Hin)].
    apply nodup_keys_upd. destruct (assoc v c) as [ar|] eqn:E; cbn [dflt]; [|constructor]. exact (H2 v ar (assoc_In _ _ _ E)).
Qed.

Theorem reach_wf vt compose ops :
  vt_leb (1, 1) vt = true -> compose_normal compose -> (forall op, In op ops -> image_normal (snd (snd op))) ->
  wf_images {| im_version := current_version; im_compose := compose; im_cells := fold_left (apply_add vt) ops [] |}.
Proof.
  intros Hvt Hc Hn.
  assert (G : forall c, keys_wf c /\ (forall x, In x (all_images c) -> image_normal (snd x)) ->
              keys_wf (fold_left (apply_add vt) ops c) /\
              (forall x, In x (all_images (fold_left (apply_add vt) ops c)) -> image_normal (snd x))).
  { induction ops as [|op ops IH]; intros c Hcw; [exact Hcw|]. cbn [fold_left]. apply IH; [intros op' Hin; apply Hn; right; exact Hin|].
    unfold apply_add. destruct (images_add vt c _ _ _) as [c1|e] eqn:E; [|exact Hcw]. destruct Hcw as [Hk Hi]. split.
    - exact (keys_wf_add _ _ _ _ _ _ Hk E).
    - intros x Hx. unfold images_add in E. inv_guard E as G1. inv_guard E as G2. inv_guard E as G3. injection E as <-.
      apply in_cells_upd in Hx. destruct Hx as [Hx| ->]; [exact (Hi x Hx)|apply Hn; left; reflexivity]. }
  destruct (G []) as [[K1 K2] K3]; [split; [split; [constructor|intros v ar []]|intros x []]|].
  constructor; cbn [im_compose im_cells]; [exact Hc|exact K3|exact (reach_inv vt ops Hvt)|exact (images_reach_arch_ok vt ops)|exact K1|exact K2].
Qed.

(* non-vacuity: two variants, a shared unified image, an empty-cell-free manifest that is actually written *)
Definition ex_img (path : str) (n : Z) (unified : bool) : obj :=
  mk_image (PStr path) (PInt 1440000000) (PInt 8589934597) PNone (PStr (F"dvd")) (PStr (F"iso")) (PStr (F"x86_64")) (PInt n) (PInt 2)
           (PDict [(F"sha256", PStr (F"aa"))]) PNone (PBool true) (PStr (F"Server")) (PBool unified)
           (if unified then PList [PStr (F"Client")] else PList []).
Definition ex_ops : list (str * str * image) :=
  [(F"Server", F"x86_64", (1%nat, ex_img (F"Server/x86_64/iso/b.iso") 2 false));
   (F"Server", F"x86_64", (2%nat, ex_img (F"Server/x86_64/iso/a.iso") 1 true));
   (F"Client", F"x86_64", (2%nat, ex_img (F"Server/x86_64/iso/a.iso") 1 true))].
Definition ex_compose : obj :=
  mk_compose (PStr (F"Fedora-22-20150522.n.0")) (PStr (F"nightly")) (PStr (F"20150522")) (PInt 0) PNone (PBool false).

Example manifest_roundtrip_nonvacuous :
  let st := {| im_version := current_version; im_compose := ex_compose; im_cells := fold_left (apply_add VERSION) ex_ops [] |} in
  wf_images st /\ exists doc, ser_images st = Ok doc /\ length (all_images (im_cells st)) = 3%nat.
Proof.
  split.
  - apply reach_wf; [vm_compute; reflexivity| |].
    + exists (PStr (F"Fedora-22-20150522.n.0")), (PStr (F"nightly")), (PStr (F"20150522")), (PInt 0), PNone, false.
      split; [reflexivity|]. split; [left; reflexivity|reflexivity].
    + intros op Hin. cbn [ex_ops In] in Hin. destruct Hin as [<-|[<-|[<-|[]]]]; cbn [snd ex_img]; unfold image_normal, mk_image;
        do 15 eexists; (split; [reflexivity|]); intros E; try discriminate; reflexivity.
  - eexists. split; [vm_compute; reflexivity|vm_compute; reflexivity].
Qed.
