(* str_ltb is a strict total order; insertion into key-sorted lists commutes *)
From PM Require Import Base.PyVal Base.Obj Base.Json.
From Coq Require Import Permutation.

Lemma str_ltb_irrefl a : str_ltb a a = false.
Proof. induction a as [|x a IH]; cbn; [reflexivity|]. rewrite N.ltb_irrefl, N.eqb_refl. exact IH. Qed.

Lemma str_ltb_trans a : forall b c, str_ltb a b = true -> str_ltb b c = true -> str_ltb a c = true.
Proof.
  induction a as [|x a IH]; intros [|y b] [|z c]; cbn; try discriminate; try reflexivity.
  destruct (N.ltb_spec x y), (N.ltb_spec y z), (N.ltb_spec x z); try reflexivity; try lia;
    destruct (N.eqb_spec x y), (N.eqb_spec y z), (N.eqb_spec x z); try discriminate; try lia; intros; eauto.
Qed.

Lemma str_ltb_trichotomy a : forall b, str_ltb a b = true \/ a = b \/ str_ltb b a = true.
Proof.
  induction a as [|x a IH]; intros [|y b]; cbn; auto.
  destruct (N.ltb_spec x y); [auto|]. destruct (N.ltb_spec y x); [auto|].
  assert (x = y) by lia. subst. rewrite N.eqb_refl.
  destruct (IH b) as [H1|[->|H1]]; auto.
Qed.

Lemma str_ltb_asym a b : str_ltb a b = true -> str_ltb b a = false.
Proof.
  intros H. destruct (str_ltb b a) eqn:E; [|reflexivity].
  pose proof (str_ltb_trans _ _ _ H E) as H1. rewrite str_ltb_irrefl in H1. discriminate.
Qed.

Lemma str_leb_total a b : str_leb a b = true \/ str_leb b a = true.
Proof.
  unfold str_leb. destruct (str_ltb_trichotomy a b) as [H|[->|H]].
  - left. rewrite (str_ltb_asym _ _ H). reflexivity.
  - left. rewrite str_ltb_irrefl. reflexivity.
  - right. rewrite (str_ltb_asym _ _ H). reflexivity.
Qed.

Lemma str_leb_antisym a b : str_leb a b = true -> str_leb b a = true -> a = b.
Proof.
  unfold str_leb. intros H1 H2. apply negb_true_iff in H1, H2.
  destruct (str_ltb_trichotomy a b) as [H|[->|H]]; congruence.
Qed.

Lemma str_leb_trans a b c : str_leb a b = true -> str_leb b c = true -> str_leb a c = true.
Proof.
  unfold str_leb. intros H1 H2. apply negb_true_iff in H1, H2. apply negb_true_iff.
  destruct (str_ltb c a) eqn:E; [|reflexivity].
  destruct (str_ltb_trichotomy b c) as [H|[->|H]]; [|congruence|congruence].
  pose proof (str_ltb_trans _ _ _ H E). congruence.
Qed.

Lemma str_leb_false_lt a b : str_leb a b = false -> str_ltb b a = true.
Proof. unfold str_leb. intros H. apply negb_false_iff in H. exact H. Qed.

(* ---- insertion commutes for distinct keys *)
Lemma insert_kv_comm k1 v1 k2 v2 l :
  k1 <> k2 -> insert_kv k1 v1 (insert_kv k2 v2 l) = insert_kv k2 v2 (insert_kv k1 v1 l).
Proof.
  intros Hne. induction l as [|[k v] l IH]; cbn [insert_kv].
  - destruct (str_leb k1 k2) eqn:E12, (str_leb k2 k1) eqn:E21; try reflexivity.
    + exfalso. apply Hne. apply str_leb_antisym; assumption.
    + exfalso. destruct (str_leb_total k1 k2); congruence.
  - destruct (str_leb k2 k) eqn:E2, (str_leb k1 k) eqn:E1; cbn [insert_kv]; rewrite ?E1, ?E2.
    + destruct (str_leb k1 k2) eqn:E12, (str_leb k2 k1) eqn:E21; cbn [insert_kv]; rewrite ?E1, ?E2, ?E12, ?E21; try reflexivity.
      * exfalso. apply Hne. apply str_leb_antisym; assumption.
      * exfalso. destruct (str_leb_total k1 k2); congruence.
    + (* k2 <= k < k1 *)
      assert (H21 : str_leb k2 k1 = true).
      { apply (str_leb_trans k2 k k1); [exact E2|]. unfold str_leb. rewrite (str_ltb_asym _ _ (str_leb_false_lt _ _ E1)). reflexivity. }
      assert (H12 : str_leb k1 k2 = false).
      { destruct (str_leb k1 k2) eqn:E; [|reflexivity]. exfalso. apply Hne. apply str_leb_antisym; assumption. }
      cbn [insert_kv]. rewrite ?H12, ?H21, ?E1, ?E2. cbn [insert_kv]. rewrite ?H12, ?H21, ?E1, ?E2. reflexivity.
    + assert (H12 : str_leb k1 k2 = true).
      { apply (str_leb_trans k1 k k2); [exact E1|]. unfold str_leb. rewrite (str_ltb_asym _ _ (str_leb_false_lt _ _ E2)). reflexivity. }
      assert (H21 : str_leb k2 k1 = false).
      { destruct (str_leb k2 k1) eqn:E; [|reflexivity]. exfalso. apply Hne. apply str_leb_antisym; assumption. }
      cbn [insert_kv]. rewrite ?H12, ?H21, ?E1, ?E2. cbn [insert_kv]. rewrite ?H12, ?H21, ?E1, ?E2. reflexivity.
    + cbn [insert_kv]. rewrite ?E1, ?E2. rewrite IH. reflexivity.
Qed.

Theorem sort_kv_perm l l' : Permutation l l' -> NoDup (map fst l) -> sort_kv l = sort_kv l'.
Proof.
  intros HP. induction HP as [|[k v] l l' HP IH|[k1 v1] [k2 v2] l|l1 l2 l3 HP1 IH1 HP2 IH2]; intros Hnd.
  - reflexivity.
  - cbn [sort_kv]. rewrite IH; [reflexivity|]. cbn in Hnd. inversion Hnd; assumption.
  - cbn [sort_kv]. apply insert_kv_comm. cbn in Hnd. inversion Hnd as [|? ? Hin _]; subst.
    intros ->. apply Hin. left. reflexivity.
  - rewrite IH1 by exact Hnd. apply IH2. apply (Permutation_NoDup (Permutation_map fst HP1) Hnd).
Qed.

Lemma insert_kv_perm k v l : Permutation (insert_kv k v l) ((k, v) :: l).
Proof.
  induction l as [|[k' v'] l IH]; cbn [insert_kv]; [apply Permutation_refl|].
  destruct (str_leb k k'); [apply Permutation_refl|].
  apply (perm_trans (perm_skip _ IH)). apply perm_swap.
Qed.

Lemma sort_kv_is_perm l : Permutation (sort_kv l) l.
Proof.
  induction l as [|[k v] l IH]; cbn [sort_kv]; [constructor|].
  apply (perm_trans (insert_kv_perm k v (sort_kv l))). constructor. exact IH.
Qed.

Lemma sort_kv_idem l : NoDup (map fst l) -> sort_kv (sort_kv l) = sort_kv l.
Proof.
  intros H. apply sort_kv_perm; [apply sort_kv_is_perm|].
  apply (Permutation_NoDup (Permutation_sym (Permutation_map fst (sort_kv_is_perm l))) H).
Qed.
