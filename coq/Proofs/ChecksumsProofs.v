From PM Require Import Base.PyVal Base.Obj Model.Common Model.Checksums Model.TreeInfo Proofs.ManifestsProofs Proofs.PyValProofs Proofs.ImagesProofs.

(* an image's recorded checksum is never replaced: whatever add_checksum calls follow, a recorded type keeps its value *)
Theorem add_checksum_stable cs ty value cs' r t v :
  image_add_checksum cs ty value = Ok (cs', r) -> assoc t cs = Some v -> assoc t cs' = Some v.
Proof.
  unfold image_add_checksum. destruct (assoc ty cs) as [ex|] eqn:E.
  - destruct (truthy value && negb (py_eq value ex)); [discriminate|]. intros H; injection H as <- _. auto.
  - intros H; injection H as <- _. intros Ht. rewrite assoc_app, Ht. reflexivity.
Qed.

Theorem add_checksum_conflict cs ty value ex :
  assoc ty cs = Some ex -> truthy value = true -> py_eq value ex = false -> image_add_checksum cs ty value = Err ValueError.
Proof. intros E Ht Hn. unfold image_add_checksum. rewrite E, Ht, Hn. reflexivity. Qed.

Theorem add_checksum_returns_recorded cs ty value cs' r :
  image_add_checksum cs ty value = Ok (cs', r) -> assoc ty cs' = Some r.
Proof.
  unfold image_add_checksum. destruct (assoc ty cs) as [ex|] eqn:E.
  - destruct (truthy value && negb (py_eq value ex)); [discriminate|]. intros H; injection H as <- <-. exact E.
  - intros H; injection H as <- <-. rewrite assoc_app, E. cbn [assoc]. rewrite str_eqb_refl. reflexivity.
Qed.

Theorem checksums_add_refuses_absolute cs p ty v : checksums_add cs (c_slash :: p) ty v = Err ValueError.
Proof. reflexivity. Qed.

Theorem checksums_add_records cs p ty v cs' :
  checksums_add cs p ty v = Ok cs' -> assoc (normpath p) cs' = Some (ty, v) /\
  forall q, q <> normpath p -> assoc q cs' = assoc q cs.
Proof.
  unfold checksums_add. destruct (startswith p [c_slash]); cbn [negb guard bind]; [discriminate|].
  intros H; injection H as <-. split; [apply assoc_set_same|]. intros q Hq. apply assoc_set_other. congruence.
Qed.

(* the per-entry typing of a [checksums] value: bare digests by length, everything else rejected *)
Theorem typed_checksum_bare v :
  ~ In c_colon v ->
  typed_checksum v =
    if Nat.eqb (length v) 32 then Ok (PStr (lit "md5"), PStr v)
    else if Nat.eqb (length v) 40 then Ok (PStr (lit "sha1"), PStr v)
    else if Nat.eqb (length v) 64 then Ok (PStr (lit "sha256"), PStr v)
    else Err ValueError.
Proof. intros H. unfold typed_checksum. apply memc_false in H. rewrite H. reflexivity. Qed.

(* non-vacuity: normpath examples *)
Example normpath_examples :
  normpath (lit "./images//boot.iso") = lit "images/boot.iso" /\
  normpath (lit "x/../images/./boot.iso") = lit "images/boot.iso" /\
  normpath (lit "../a") = lit "../a" /\ normpath (lit "a/..") = lit ".".
Proof. vm_compute. repeat split; reflexivity. Qed.
