From PM Require Import Base.PyVal Base.Obj Model.Common Model.Variants Proofs.ImagesProofs Proofs.PyValProofs Gen.Validators.

(* ---------- a refused add leaves the whole object graph as it was *)
Theorem variant_add_refused_noop h c v vid e :
  snd (variant_add h c v vid) = Err e -> fst (variant_add h c v vid) = h.
Proof.
  unfold variant_add.
  destruct (validate_variant _ v) as [[]|e1]; [|reflexivity].
  destruct (add_key _ v vid) as [key|e2]; [|reflexivity].
  destruct (existsb _ _); [reflexivity|].
  destruct (assoc key _) as [ex|]; [destruct (Nat.eqb ex v); cbn [snd fst]; [discriminate|reflexivity]|cbn; discriminate].
Qed.

(* ---------- what an accepted add establishes (through the regenerated validator table) *)
Lemma variant_customs_present :
  assoc (F"_validate_uid") (validators_of (F"composeinfo.Variant")) = Some (VCustom (F"composeinfo.Variant._validate_uid")) /\
  assoc (F"_validate_parent_arch") (validators_of (F"composeinfo.Variant")) = Some (VCustom (F"composeinfo.Variant._validate_parent_arch")) /\
  assoc (F"_validate_variants") (validators_of (F"composeinfo.Variant")) = Some (VCustom (F"composeinfo.VariantBase._validate_variants")).
Proof. vm_compute. repeat split; reflexivity. Qed.

Lemma valid_variant_customs h r :
  validate_variant h r = Ok tt ->
  custom_variant_uid (variant_ctx h r) = Ok tt /\ custom_parent_arch (variant_ctx h r) = Ok tt /\
  custom_children (variant_ctx h r) = Ok tt.
Proof.
  intros Hv. unfold validate_variant, validate_with, run_validators in Hv.
  destruct variant_customs_present as (H1 & H2 & H3). apply assoc_In in H1, H2, H3.
  pose proof (iterM_all _ _ Hv _ H1) as G1. pose proof (iterM_all _ _ Hv _ H2) as G2. pose proof (iterM_all _ _ Hv _ H3) as G3.
  cbn [snd run_method] in G1, G2, G3.
  repeat split.
  - change (customs_ci (F"composeinfo.Variant._validate_uid")) with (Some custom_variant_uid) in G1. exact G1.
  - change (customs_ci (F"composeinfo.Variant._validate_parent_arch")) with (Some custom_parent_arch) in G2. exact G2.
  - change (customs_ci (F"composeinfo.VariantBase._validate_variants")) with (Some custom_children) in G3. exact G3.
Qed.

Lemma getf_ctx_field o ctx f :
  (forall k v, In (k, v) ctx -> k <> f) -> assoc f o <> None -> getf (o ++ ctx) f = getf o f.
Proof.
  intros Hctx Hin. unfold getf. rewrite assoc_app. destruct (assoc f o); [reflexivity|congruence].
Qed.

(* when a variant is accepted under a parent variant: parent pointer, UID alignment and arch inclusion *)
Theorem variant_add_accepted_child h c v vid h' :
  variant_add h c v vid = (h', Ok tt) -> c <> O ->
  let h1 := set_parent h v (Some c) in
  validate_variant h1 v = Ok tt /\
  custom_variant_uid (variant_ctx h1 v) = Ok tt /\ custom_parent_arch (variant_ctx h1 v) = Ok tt /\
  ~ In v (ancestors (length h1) h1 c).
Proof.
  intros H Hc h1. unfold variant_add in H. destruct (Nat.eqb_spec c 0) as [->|_]; [congruence|]. fold h1 in H.
  destruct (validate_variant h1 v) as [[]|e1] eqn:Hv; [|inversion H].
  destruct (add_key h1 v vid) as [key|e2]; [|inversion H].
  destruct (existsb (Nat.eqb v) (ancestors (length h1) h1 c)) eqn:Ea; [inversion H|].
  destruct (valid_variant_customs h1 v Hv) as (G1 & G2 & _).
  repeat split; try assumption.
  intros Hin. assert (existsb (Nat.eqb v) (ancestors (length h1) h1 c) = true).
  { apply existsb_exists. exists v. split; [exact Hin|apply Nat.eqb_refl]. }
  congruence.
Qed.

(* ---------- get_variants *)
Lemma in_insert_by_uid h r l x : In x (insert_by_uid h r l) <-> x = r \/ In x l.
Proof.
  induction l as [|y l IH]; cbn [insert_by_uid In]; [intuition congruence|].
  destruct (str_ltb _ _); cbn [In]; [intuition congruence|]. rewrite IH. intuition congruence.
Qed.

Lemma in_sort_by_uid h l x : In x (sort_by_uid h l) <-> In x l.
Proof.
  unfold sort_by_uid.
  assert (H : forall acc, In x (fold_left (fun acc r => insert_by_uid h r acc) l acc) <-> In x l \/ In x acc).
  { induction l as [|y l IH]; intros acc; cbn [fold_left In]; [tauto|]. rewrite IH, in_insert_by_uid. intuition congruence. }
  rewrite H. cbn. tauto.
Qed.

Lemma filter_noself types : mem_str (F"self") types = false ->
  filter (fun t => negb (str_eqb t (F"self"))) types = types.
Proof.
  induction types as [|t types IH]; cbn [mem_str filter]; [reflexivity|]. intros H. apply orb_false_iff in H.
  destruct H as [H1 H2]. rewrite str_eqb_neq in H1.
  destruct (str_eqb_spec t (F"self")) as [->|_]; [congruence|]. cbn [negb]. rewrite (IH H2). reflexivity.
Qed.

(* everything get_variants returns has the requested architecture and one of the requested types *)
Theorem get_variants_sound fuel h arch types :
  mem_str (F"self") types = false ->
  forall c recursive r, In r (get_variants fuel h c arch types recursive) ->
  type_matches h r types = true /\ arch_matches h r arch = true.
Proof.
  intros Hs. induction fuel as [|f IH]; intros c recursive r Hin; cbn [get_variants] in Hin; [destruct Hin|].
  rewrite Hs, (filter_noself types Hs) in Hin. cbn [app] in Hin. apply in_sort_by_uid in Hin.
  apply in_flat_map in Hin. destruct Hin as (kv & _ & Hin).
  destruct (type_matches h (snd kv) types && arch_matches h (snd kv) arch) eqn:E; [|destruct Hin].
  apply andb_true_iff in E. destruct Hin as [<-|Hin]; [exact E|].
  destruct recursive; [|destruct Hin]. exact (IH _ _ _ Hin).
Qed.

(* without filters, the variants of the level are exactly the children *)
Theorem get_variants_all_level fuel h c r :
  In r (get_variants (S fuel) h c None [] false) <-> In r (map snd (vn_children (node h c))).
Proof.
  cbn [get_variants mem_str filter app]. rewrite in_sort_by_uid, in_flat_map, in_map_iff. split.
  - intros (kv & Hkv & Hin). cbn in Hin. destruct Hin as [<-|[]]. exists kv. auto.
  - intros (kv & <- & Hkv). exists kv. split; [exact Hkv|]. cbn. left. reflexivity.
Qed.
