(* C06: the documented per-field rules (DESIGN.md appendix A), and the obligation that the validators regenerated from
   the source flatten to exactly these rules *)
From PM Require Import Base.PyVal Base.Obj Base.Regex Model.Common Proofs.RuleSem Proofs.LangProofs Proofs.ComposeIdProofs
     Gen.Validators Gen.Tables Gen.Regexes.

(* ---- a boolean comparison of rules (trusted: it only compares syntax) *)
Definition pytag_eqb (a b : pytag) : bool :=
  match a, b with
  | TNone, TNone | TBool, TBool | TInt, TInt | TFloat, TFloat | TStr, TStr | TList, TList | TDict, TDict => true
  | _, _ => false
  end.

Fixpoint list_eqb {A} (eqb : A -> A -> bool) (a b : list A) : bool :=
  match a, b with
  | [], [] => true
  | x :: a', y :: b' => eqb x y && list_eqb eqb a' b'
  | _, _ => false
  end.

Definition cset_eqb (a b : cset) : bool :=
  match a, b with CS n1 r1, CS n2 r2 => Bool.eqb n1 n2 && list_eqb (fun x y => N.eqb (fst x) (fst y) && N.eqb (snd x) (snd y)) r1 r2 end.

Fixpoint re_eqb (a b : re) : bool :=
  match a, b with
  | Eps, Eps | Bol, Bol | Eol, Eol | Unsupported, Unsupported => true
  | Cls c, Cls d => cset_eqb c d
  | Cat a1 a2, Cat b1 b2 | Alt a1 a2, Alt b1 b2 => re_eqb a1 b1 && re_eqb a2 b2
  | Star a1, Star b1 => re_eqb a1 b1
  | Grp n a1, Grp m b1 => Nat.eqb n m && re_eqb a1 b1
  | _, _ => false
  end.

Fixpoint vcond_eqb (a b : vcond) : bool :=
  match a, b with
  | CTruthy f, CTruthy g | CNotNone f, CNotNone g => str_eqb f g
  | CMatch r f, CMatch s g => re_eqb r s && str_eqb f g
  | CNot x, CNot y => vcond_eqb x y
  | CAnd x1 x2, CAnd y1 y2 | COr x1 x2, COr y1 y2 => vcond_eqb x1 y1 && vcond_eqb x2 y2
  | _, _ => false
  end.

Definition atom_eqb (a b : atom) : bool :=
  match a, b with
  | AType f t, AType g u => str_eqb f g && list_eqb pytag_eqb t u
  | AValue f t, AValue g u => str_eqb f g && list_eqb pyval_eqb t u
  | ANotBlank f, ANotBlank g => str_eqb f g
  | ARe f r, ARe g s => str_eqb f g && list_eqb re_eqb r s
  | AFalse, AFalse | ATrue, ATrue => true
  | _, _ => false
  end.

Definition rule_eqb (a b : rule) : bool := list_eqb vcond_eqb (fst a) (fst b) && atom_eqb (snd a) (snd b).

Definition same_rules (a b : list rule) : bool :=
  forallb (fun r => existsb (rule_eqb r) b) a && forallb (fun r => existsb (rule_eqb r) a) b.

(* ---- the documented rules *)
Definition R (a : atom) : rule := ([], a).
Definition pstrs (l : list str) : list pyval := map PStr l.
Definition plus_d : re := Cat dg (Star dg).
Definition dotc : re := Cls (CS false [(46, 46)]).
Definition alnum_lc : re := Cls (CS false [(97, 122); (48, 57)]).
Definition alnum : re := Cls (CS false [(97, 122); (65, 90); (48, 57)]).

(* the small enumerations, as documented (doc/*.rst, class docstrings) - literal, not taken from the regenerated tables *)
Definition doc_compose_types : list str := [F"test"; F"ci"; F"nightly"; F"production"; F"development"].
Definition doc_release_types : list str := [F"fast"; F"ga"; F"updates"; F"updates-testing"; F"eus"; F"aus"; F"els"; F"tus"; F"e4s"].
Definition doc_ci_variant_types : list str := [F"variant"; F"optional"; F"addon"; F"layered-product"].
Definition doc_ti_variant_types : list str := [F"variant"; F"optional"; F"addon"].

Definition spec_header : list rule :=
  [R (AType (F"version") [TStr]); R (ARe (F"version") [Cat Bol (Cat plus_d (Cat dotc (Cat plus_d Eol)))])].

Definition spec_compose : list rule :=
  [R (AType (F"date") [TStr]); R (ARe (F"date") [Cat Bol (Cat (cat_n 8 dg) Eol)]);
   ([CTruthy (F"label")], ATrue); ([CTruthy (F"label")], AType (F"final") [TBool]);
   R (AType (F"id") [TStr]); R (ANotBlank (F"id")); R (ARe (F"id") [re_compose_id]);
   R (AType (F"respin") [TInt]);
   R (AValue (F"type") (pstrs doc_compose_types))].

Definition spec_ci_base_product : list rule :=
  [R (AType (F"name") [TStr]); R (AType (F"short") [TStr]);
   R (AType (F"type") [TStr]); R (AValue (F"type") (pstrs doc_release_types));
   R (AType (F"version") [TStr]); R (ARe (F"version") [version_shape])].

Definition spec_ci_release : list rule :=
  spec_ci_base_product ++ [R (AType (F"internal") [TBool]); R (AType (F"is_layered") [TBool])].

Definition spec_ci_variant : list rule :=
  [R (ANotBlank (F"arches"));
   R (AType (F"id") [TStr]); R (ARe (F"id") [Cat Bol (Cat (Cat alnum (Star alnum)) Eol)]);
   R (AType (F"name") [TStr]); R (ANotBlank (F"name"));
   R (AValue (F"type") (pstrs doc_ci_variant_types))].

Definition spec_image : list rule :=
  [R (AType (F"arch") [TStr]); R (ANotBlank (F"arch"));
   R (AType (F"bootable") [TBool]);
   R (AType (F"checksums") [TDict]); R (ANotBlank (F"checksums"));
   R (AType (F"disc_count") [TInt]); R (AType (F"disc_number") [TInt]);
   R (AType (F"format") [TStr]); R (AValue (F"format") (pstrs SUPPORTED_IMAGE_FORMATS));
   R (AType (F"implant_md5") [TNone; TStr]); ([CNotNone (F"implant_md5")], ATrue);
   ([CNotNone (F"implant_md5")], ARe (F"implant_md5") [Cat Bol (Cat (cat_n 32 alnum_lc) Eol)]);
   R (AType (F"additional_variants") [TList]);
   ([CAnd (CTruthy (F"additional_variants")) (CNot (CTruthy (F"unified")))], ATrue);
   ([CAnd (CTruthy (F"additional_variants")) (CNot (CTruthy (F"unified")))], AFalse);
   R (AType (F"mtime") [TInt]);
   R (AType (F"path") [TStr]); R (ANotBlank (F"path"));
   R (AType (F"size") [TInt]); R (ANotBlank (F"size"));
   R (AType (F"subvariant") [TStr]);
   R (AType (F"type") [TStr]); R (AValue (F"type") (pstrs SUPPORTED_IMAGE_TYPES));
   R (AType (F"unified") [TBool]);
   R (AType (F"volume_id") [TNone; TStr]); ([CNotNone (F"volume_id")], ATrue); ([CNotNone (F"volume_id")], ANotBlank (F"volume_id"))].

Definition ti_version_dotted : re := Cat Bol (Cat plus_d (Cat (Star (Grp 1 (Cat dotc plus_d))) Eol)).
Definition spec_ti_base_product : list rule :=
  [R (AType (F"name") [TStr]); R (AType (F"short") [TStr]); R (AType (F"version") [TStr]);
   ([CMatch (Cat Bol dg) (F"version")], ATrue); ([CMatch (Cat Bol dg) (F"version")], ARe (F"version") [ti_version_dotted])].
Definition spec_ti_release : list rule := R (AType (F"is_layered") [TBool]) :: spec_ti_base_product.
Definition spec_ti_tree : list rule :=
  [R (AType (F"arch") [TStr]); R (ANotBlank (F"arch"));
   R (AType (F"build_timestamp") [TInt; TFloat]); R (ANotBlank (F"build_timestamp"))].
Definition spec_ti_variant : list rule := [R (AValue (F"type") (pstrs doc_ti_variant_types))].
Definition spec_ti_media : list rule :=
  [R (AType (F"discnum") [TInt; TNone]); R (AType (F"totaldiscs") [TInt; TNone])].
Definition spec_discinfo : list rule :=
  [R (ANotBlank (F"arch")); R (AType (F"arch") [TStr]); R (ANotBlank (F"description")); R (AType (F"description") [TStr])].

Definition gen_rules (cls : str) : list rule := rules_of (validators_of cls).

(* obligation on the regenerated validators: class by class, they flatten to exactly the documented rules *)
Definition spec_table : list (str * list rule) :=
  [ (F"common.Header", spec_header); (F"treeinfo.Header", spec_header);
    (F"composeinfo.Compose", spec_compose);
    (F"composeinfo.BaseProduct", spec_ci_base_product); (F"composeinfo.Release", spec_ci_release);
    (F"composeinfo.Variant", spec_ci_variant);
    (F"images.Image", spec_image);
    (F"treeinfo.BaseProduct", spec_ti_base_product); (F"treeinfo.Release", spec_ti_release);
    (F"treeinfo.Tree", spec_ti_tree); (F"treeinfo.Variant", spec_ti_variant); (F"treeinfo.Media", spec_ti_media);
    (F"discinfo.DiscInfo", spec_discinfo) ].

Definition rules_match_documentation : bool :=
  forallb (fun p => same_rules (gen_rules (fst p)) (snd p)) spec_table.
