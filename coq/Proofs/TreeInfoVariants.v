(* C04: the top-level variants of a written .treeinfo whose variants have no children are read back: every variant the reader
   returns is one the writer wrote, with its id, uid, name, type, every path kind (set or unset) and no children *)
From PM Require Import Base.PyVal Base.Obj Base.Ini Model.Common Model.TreeInfo Proofs.ManifestsProofs Proofs.PyValProofs
     Proofs.ImagesProofs Proofs.IniProofs Proofs.ArchProofs Gen.Tables Proofs.CommonProofs Proofs.TreeInfoWriter Proofs.TreeInfoReadBack Proofs.TreeInfoChecksums
     Proofs.TreeInfoStage2 Proofs.TreeInfoSections Proofs.TreeInfoImages Proofs.DiscInfoRoundtrip.

Definition core4 : list str := [F"id"; F"uid"; F"name"; F"type"].

Definition sec_spec (q : ini) (f paths : obj) : Prop :=
  let sec := tv_section f in
  (forall o, In o core4 -> exists s, getf f o = PStr s /\ ini_get q sec o = Ok s) /\
  (forall fld, In fld TI_PATH_FIELDS ->
     (getf paths fld = PNone /\ ini_get q sec fld = Err OtherError) \/ (exists s, getf paths fld = PStr s /\ ini_get q sec fld = Ok s)) /\
  ini_get q sec (F"addons") = Err OtherError.

Definition path_step (paths : obj) (sec : str) (q : ini) (field : str) : result ini :=
  match getf paths field with PNone => Ok q | v => ini_set q sec field v end.

Lemma path_step_cases paths sec q fld q1 : path_step paths sec q fld = Ok q1 ->
  (getf paths fld = PNone /\ q1 = q) \/ (exists s, getf paths fld = PStr s /\ ini_set q sec fld (PStr s) = Ok q1).
Proof.
  unfold path_step. destruct (getf paths fld) eqn:E; intros H;
    try (destruct (ini_set_is_str _ _ _ _ _ H) as (x & Ex); discriminate Ex).
  - left. injection H as <-. split; reflexivity.
  - right. eexists. split; [reflexivity|exact H].
Qed.

Lemma path_fold paths sec fields : forall q q',
  fold_left (fun acc field => do q <- acc; path_step paths sec q field) fields (Ok q) = Ok q' ->
  NoDup fields ->
  only_in (fun s => s = sec) q q' /\
  (forall o, ~ In o fields -> ini_get q' sec o = ini_get q sec o) /\
  (forall fld, In fld fields -> (getf paths fld = PNone /\ ini_get q' sec fld = ini_get q sec fld) \/ (exists s, getf paths fld = PStr s /\ ini_get q' sec fld = Ok s)).
Proof.
  induction fields as [|fld fields IH]; intros q q' H Hnd.
  - cbn in H. injection H as <-. split; [apply only_in_refl|]. split; [reflexivity|intros fld []].
  - cbn [fold_left bind] in H. destruct (path_step paths sec q fld) as [q1|e] eqn:E; [|rewrite fold_bind_err in H; discriminate].
    inversion Hnd as [|? ? Hx Hr]; subst. destruct (IH q1 q' H Hr) as (I1 & I2 & I3).
    assert (S1 : only_in (fun s => s = sec) q q1 /\ (forall o, o <> fld -> ini_get q1 sec o = ini_get q sec o)).
    { destruct (path_step_cases _ _ _ _ _ E) as [[_ ->]|(s & _ & Hs)]; [split; [apply only_in_refl|reflexivity]|].
      split; [exact (ini_set_only _ _ _ _ _ _ Hs eq_refl)|]. intros o Ho. apply (ini_set_get_other _ _ _ _ _ _ _ Hs). right. exact Ho. }
    destruct S1 as [S1 S2].
    split; [exact (only_in_trans _ _ _ _ S1 I1)|]. split.
    + intros o Ho. rewrite I2 by (intros Hin; apply Ho; right; exact Hin). apply S2. intros ->. apply Ho. left. reflexivity.
    + intros fld' [<-|Hin].
      * rewrite (I2 fld Hx). destruct (path_step_cases _ _ _ _ _ E) as [[En ->]|(s & Es & Hs)].
        -- left. split; [exact En|reflexivity].
        -- right. exists s. split; [exact Es|exact (ini_set_get_same _ _ _ _ _ Hs)].
      * destruct (I3 fld' Hin) as [[En Eg]|R]; [|right; exact R]. left. split; [exact En|]. rewrite Eg. apply S2. intros ->. contradiction.
Qed.

Lemma no_get_no_option t s o : ini_get t s o = Err OtherError -> has_option t s o = false.
Proof. intros H. destruct (has_option t s o) eqn:E; [|reflexivity]. destruct (has_option_get _ _ _ E) as (v & Hv). congruence. Qed.

Lemma nodup_path_fields : NoDup TI_PATH_FIELDS.
Proof. repeat (constructor; [intros H; cbn in H; repeat (destruct H as [H|H]; [discriminate H|]); exact H|]). constructor. Qed.

Lemma core4_not_path o : In o (F"addons" :: core4) -> ~ In o TI_PATH_FIELDS.
Proof.
  intros H Hin. apply mem_str_In in Hin. cbn [In core4] in H.
  destruct H as [<-|[<-|[<-|[<-|[<-|[]]]]]]; vm_compute in Hin; discriminate Hin.
Qed.

(* ---- one childless top-level variant *)
Lemma ser_tvar_flat f paths p p' : ser_tvar None (TV f paths []) p = Ok p' ->
  assoc (tv_section f) p = None /\ only_in (fun s => s = tv_section f) p p' /\ sec_spec p' f paths.
Proof.
  intros H. cbn [ser_tvar] in H. set (sec := tv_section f) in *.
  inv_bind H as u0 G0. inv_bind H as p1 G1. inv_bind H as p2 G2. inv_bind H as u1 G3. inv_bind H as p3 G4.
  cbn [bind] in H. injection H as <-.
  change (fold_left _ TI_PATH_FIELDS (Ok p2)) with (fold_left (fun acc field => do q <- acc; path_step paths sec q field) TI_PATH_FIELDS (Ok p2)) in G4.
  destruct (path_fold paths sec TI_PATH_FIELDS p2 p3 G4 nodup_path_fields) as (F1 & F2 & F3).
  assert (Hnd4 : NoDup (map fst [(F"id", getf f (F"id")); (F"uid", getf f (F"uid")); (F"name", getf f (F"name")); (F"type", getf f (F"type"))])).
  { cbn [map fst]. repeat (constructor; [intros Hx; cbn in Hx; repeat (destruct Hx as [Hx|Hx]; [discriminate Hx|]); exact Hx|]). constructor. }
  destruct (sets_get _ _ _ _ G2 Hnd4) as [S1 S2].
  split.
  { unfold add_section, has_section in G1. destruct (assoc sec p) eqn:E; [discriminate|reflexivity]. }
  split.
  { apply (only_in_trans _ p p1 p3); [exact (add_section_only _ _ _ _ G1 eq_refl)|].
    apply (only_in_trans _ p1 p2 p3); [exact (sets_only _ _ _ _ _ G2 eq_refl)|exact F1]. }
  unfold sec_spec. fold sec. split; [|split].
  - intros o Ho. assert (Hin : In (o, getf f o) [(F"id", getf f (F"id")); (F"uid", getf f (F"uid")); (F"name", getf f (F"name")); (F"type", getf f (F"type"))]).
    { cbn [In core4] in Ho. destruct Ho as [<-|[<-|[<-|[<-|[]]]]]; cbn [In]; auto. }
    destruct (S1 _ _ Hin) as (s & Es & Gs). exists s. split; [exact Es|]. rewrite F2; [exact Gs|]. apply core4_not_path. right. exact Ho.
  - intros fld Hf. assert (Hfresh : ini_get p2 sec fld = Err OtherError).
    { rewrite S2; [exact (add_section_fresh _ _ _ fld G1)|]. right. cbn [map fst]. intros Hin.
      apply (core4_not_path fld); [right; exact Hin|exact Hf]. }
    destruct (F3 fld Hf) as [[En Eg]|R]; [left; split; [exact En|rewrite Eg; exact Hfresh]|right; exact R].
  - rewrite F2 by (apply core4_not_path; left; reflexivity).
    rewrite S2; [exact (add_section_fresh _ _ _ _ G1)|]. right. cbn [map fst]. intros Hin. cbn in Hin.
    repeat (destruct Hin as [Hin|Hin]; [discriminate Hin|]). exact Hin.
Qed.

Definition vsec (kv : str * tvar) : str := tv_section (tv_fields (snd kv)).
Definition flat (kv : str * tvar) : Prop := tv_children (snd kv) = [].
Definition vstep (acc : result ini) (kv : str * tvar) : result ini := do q <- acc; ser_tvar None (snd kv) q.

Lemma vfold_err l e : fold_left vstep l (Err e) = Err e.
Proof. induction l as [|y l IHl]; cbn [fold_left]; [reflexivity|exact IHl]. Qed.

Lemma sec_spec_transport q q' f paths : assoc (tv_section f) q' = assoc (tv_section f) q -> sec_spec q f paths -> sec_spec q' f paths.
Proof.
  intros E (S1 & S2 & S3). unfold sec_spec. cbv zeta. split; [|split].
  - intros o Ho. destruct (S1 o Ho) as (s & Es & Gs). exists s. split; [exact Es|]. rewrite (ini_get_assoc _ _ _ _ E). exact Gs.
  - intros fld Hf. rewrite (ini_get_assoc _ _ _ _ E). exact (S2 fld Hf).
  - rewrite (ini_get_assoc _ _ _ _ E). exact S3.
Qed.

Lemma sec_spec_present q f paths : sec_spec q f paths -> assoc (tv_section f) q <> None.
Proof.
  intros (S1 & _). destruct (S1 (F"id")) as (s & _ & Gs); [left; reflexivity|]. unfold ini_get in Gs. intros E. rewrite E in Gs. discriminate.
Qed.

Lemma vfold_spec vs : forall q q',
  fold_left vstep vs (Ok q) = Ok q' -> (forall kv, In kv vs -> flat kv) ->
  (forall kv, In kv vs -> sec_spec q' (tv_fields (snd kv)) (tv_paths (snd kv))) /\
  only_in (fun s => exists kv, In kv vs /\ s = vsec kv) q q' /\
  (forall s, assoc s q <> None -> ~ exists kv, In kv vs /\ s = vsec kv).
Proof.
  induction vs as [|kv vs IH]; intros q q' H Hflat.
  - cbn in H. injection H as <-. split; [intros kv []|]. split; [apply only_in_refl|]. intros s _ (kv & [] & _).
  - cbn [fold_left] in H. unfold vstep at 2 in H. cbn [bind] in H.
    destruct kv as [k [f paths ch]]. pose proof (Hflat _ (or_introl eq_refl)) as Hc. unfold flat in Hc. cbn [snd tv_children] in Hc. subst ch.
    cbn [snd] in H. destruct (ser_tvar None (TV f paths []) q) as [q2|e] eqn:E; [|rewrite vfold_err in H; discriminate].
    destruct (ser_tvar_flat f paths q q2 E) as (A & O & S).
    destruct (IH q2 q' H (fun kv' Hk => Hflat kv' (or_intror Hk))) as (I1 & I2 & I3).
    assert (Hnot : ~ exists kv', In kv' vs /\ tv_section f = vsec kv') by exact (I3 _ (sec_spec_present _ _ _ S)).
    split; [|split].
    + intros kv' [<-|Hk]; [|exact (I1 kv' Hk)]. cbn [snd tv_fields tv_paths].
      apply (sec_spec_transport q2 q'); [exact (I2 _ Hnot)|exact S].
    + intros s Hs. rewrite I2 by (intros (kv' & Hk & Es); apply Hs; exists kv'; split; [right; exact Hk|exact Es]).
      apply O. intros ->. apply Hs. exists (k, TV f paths []). split; [left; reflexivity|reflexivity].
    + intros s Hs (kv' & [<-|Hk] & Es).
      * unfold vsec in Es. cbn [snd tv_fields] in Es. subst s. contradiction.
      * apply (I3 s); [|exists kv'; split; assumption]. rewrite (O s); [exact Hs|]. intros ->. contradiction.
Qed.

(* ---- the writer, cut at the variant sections *)
Definition later_q (s : str) : Prop := s = F"checksums" \/ IM s \/ s = F"stage2" \/ s = F"media" \/ s = F"general".

Lemma variant_not_later s : is_variant_section s -> ~ later_q s.
Proof.
  intros Hv [->|[Hi|[->|[->| ->]]]]; try (destruct Hv as [E|E]; vm_compute in E; discriminate E). exact (variant_not_IM s Hv Hi).
Qed.

Lemma ser_ti_variants_stage x mv t : ser_ti x mv = Ok t ->
  exists p8 p9,
    (forall s, is_variant_section s -> assoc s p8 = None) /\ (forall s, is_variant_section s -> assoc s t = assoc s p9) /\
    fold_left vstep (ti_variants x) (Ok p8) = Ok p9 /\
    ini_get t (F"tree") (F"variants") =
      Ok (join_strs [c_comma] (sort_list (map (fun kv => getf (tv_fields (snd kv)) (F"uid")) (ti_variants x)))).
Proof.
  intros Hw. unfold ser_ti in Hw.
  inv_bind Hw as u0 G0. inv_bind Hw as u1 G1. inv_bind Hw as p0 Gp0. inv_bind Hw as p1 Gp1. cbv zeta in Hw.
  inv_bind Hw as u2 G2. inv_bind Hw as p2 Gp2. inv_bind Hw as p3 Gp3. inv_bind Hw as p4 Gp4. inv_bind Hw as p5 Gp5.
  inv_bind Hw as u3 G3. inv_bind Hw as p6 Gp6. inv_bind Hw as ts_s Gts. inv_bind Hw as p7 Gp7. inv_bind Hw as u4 G4. inv_bind Hw as p8 Gp8.
  inv_bind Hw as p9 G9. inv_bind Hw as u5 Gc. inv_bind Hw as p10 G10. inv_bind Hw as p11 G11.
  inv_bind Hw as p12 G12. inv_bind Hw as p13 G13.
  exists p8, p9.
  set (P := fun s : str => ~ is_variant_section s).
  assert (Ph : P (F"header")) by (intros [E|E]; vm_compute in E; discriminate E).
  assert (Pr : P (F"release")) by (intros [E|E]; vm_compute in E; discriminate E).
  assert (Pb : P (F"base_product")) by (intros [E|E]; vm_compute in E; discriminate E).
  assert (Pt : P (F"tree")) by (intros [E|E]; vm_compute in E; discriminate E).
  assert (OL : only_in later_q p9 t).
  { apply (only_in_trans later_q p9 p10).
    { destruct (ti_checksums x) as [|c0 cs0]; [injection G10 as <-; apply only_in_refl|].
      inv_bind G10 as q Gq. assert (Pc : later_q (F"checksums")) by (left; reflexivity).
      apply (only_in_trans later_q p9 q p10 (add_section_only later_q _ _ _ Gq Pc)).
      revert G10. apply fold_only. intros q0 c q' Hq. exact (ini_set_only later_q _ _ _ _ _ Hq Pc). }
    apply (only_in_trans later_q p10 p11).
    { destruct (ti_images x) as [|im ims]; [injection G11 as <-; apply only_in_refl|].
      inv_bind G11 as u1' Gi. revert G11. apply fold_only. intros q0 pi q' Hq. cbv zeta in Hq. inv_bind Hq as q1 Gq1.
      assert (Li : later_q (lit "images-" ++ fst pi)) by (right; left; apply startswith_app).
      exact (only_in_trans _ q0 q1 q' (add_section_only _ _ _ _ Gq1 Li) (sets_only _ _ _ _ _ Hq Li)). }
    apply (only_in_trans later_q p11 p12).
    { assert (Ps : later_q (F"stage2")) by (right; right; left; reflexivity).
      destruct (negb (truthy (getf (ti_stage2 x) (F"mainimage"))) && negb (truthy (getf (ti_stage2 x) (F"instimage"))));
        [injection G12 as <-; apply only_in_refl|].
      inv_bind G12 as u8 Gv. inv_bind G12 as q Gq. inv_bind G12 as q1 Gq1.
      apply (only_in_trans later_q p11 q p12 (add_section_only later_q _ _ _ Gq Ps)). apply (only_in_trans later_q q q1 p12).
      - destruct (truthy (getf (ti_stage2 x) (F"mainimage"))); [exact (ini_set_only later_q _ _ _ _ _ Gq1 Ps)|injection Gq1 as <-; apply only_in_refl].
      - destruct (truthy (getf (ti_stage2 x) (F"instimage"))); [exact (ini_set_only later_q _ _ _ _ _ G12 Ps)|injection G12 as <-; apply only_in_refl]. }
    apply (only_in_trans later_q p12 p13).
    { assert (Pm : later_q (F"media")) by (right; right; right; left; reflexivity).
      destruct (negb (truthy (getf (ti_media x) (F"discnum"))) && negb (truthy (getf (ti_media x) (F"totaldiscs"))));
        [injection G13 as <-; apply only_in_refl|].
      inv_bind G13 as u7 Gv3. inv_bind G13 as q Gq. inv_bind G13 as dn Gd. inv_bind G13 as dn_s Gds. inv_bind G13 as td Gt. inv_bind G13 as td_s Gtds.
      exact (only_in_trans later_q p12 q p13 (add_section_only _ _ _ _ Gq Pm) (sets_only _ _ _ _ _ G13 Pm)). }
    apply (only_in_weaken (fun s => s = F"general")); [|exact (ser_general_only _ _ _ _ Hw)].
    intros s ->. right; right; right; right. reflexivity. }
  split; [|split; [|split]].
  - assert (O8 : only_in P [] p8).
    { apply (only_in_trans P [] p0); [exact (add_section_only P _ _ _ Gp0 Ph)|].
      apply (only_in_trans P p0 p1); [exact (sets_only P _ _ _ _ Gp1 Ph)|].
      apply (only_in_trans P p1 p2); [exact (add_section_only P _ _ _ Gp2 Pr)|].
      apply (only_in_trans P p2 p3); [exact (sets_only P _ _ _ _ Gp3 Pr)|].
      apply (only_in_trans P p3 p4).
      { destruct (truthy (getf (ti_release x) (F"is_layered"))); [exact (ini_set_only P _ _ _ _ _ Gp4 Pr)|injection Gp4 as <-; apply only_in_refl]. }
      apply (only_in_trans P p4 p5).
      { destruct (truthy (getf (ti_release x) (F"is_layered"))); [|injection Gp5 as <-; apply only_in_refl].
        inv_bind Gp5 as u6 G6. inv_bind Gp5 as q Gq.
        exact (only_in_trans P p4 q p5 (add_section_only P _ _ _ Gq Pb) (sets_only P _ _ _ _ Gp5 Pb)). }
      apply (only_in_trans P p5 p6); [exact (add_section_only P _ _ _ Gp6 Pt)|].
      apply (only_in_trans P p6 p7); [exact (sets_only P _ _ _ _ Gp7 Pt)|].
      exact (ini_set_only P _ _ _ _ _ Gp8 Pt). }
    intros s Hs. rewrite (O8 s); [reflexivity|]. intros Hn. exact (Hn Hs).
  - intros s Hs. apply OL. exact (variant_not_later s Hs).
  - exact G9.
  - unfold ini_get. rewrite (OL (F"tree")).
    2:{ intros [E|[E|[E|[E|E]]]]; try discriminate E. }
    assert (O9 : only_in is_variant_section p8 p9).
    { revert G9. apply fold_only. intros q kv q' Hq. exact (ser_tvar_only _ _ _ _ Hq). }
    rewrite (O9 (F"tree") Pt). exact (ini_set_get_same _ _ _ _ _ Gp8).
Qed.

(* ---- the reader *)
Definition rstep (t : ini) (acc : result (list (str * tvar))) (vid : str) : result (list (str * tvar)) :=
  do vs <- acc;
  do v <- deser_tvar (S (length t)) false t None vid false;
  check tvalidate (F"treeinfo.Variant") (tv_ctx None v);
  let key := fmt_s (getf (tv_fields v) (F"uid")) in
  match assoc key vs with Some _ => Err ValueError | None => Ok (vs ++ [(key, v)]) end.

Lemma rfold_err t l e : fold_left (rstep t) l (Err e) = Err e.
Proof. induction l as [|y l IHl]; cbn [fold_left]; [reflexivity|exact IHl]. Qed.

Lemma rfold_inv t vids : forall acc res, fold_left (rstep t) vids (Ok acc) = Ok res ->
  forall key v, In (key, v) res -> In (key, v) acc \/ exists vid, In vid vids /\ deser_tvar (S (length t)) false t None vid false = Ok v.
Proof.
  induction vids as [|vid vids IH]; intros acc res H key v Hin.
  - cbn in H. injection H as <-. left. exact Hin.
  - cbn [fold_left] in H. destruct (rstep t (Ok acc) vid) as [acc1|e] eqn:E; [|rewrite rfold_err in H; discriminate].
    destruct (IH acc1 res H key v Hin) as [Hacc|(vid' & Hv & Hd)]; [|right; exists vid'; split; [right; exact Hv|exact Hd]].
    unfold rstep in E. cbn [bind] in E. inv_bind E as v0 Gd. inv_bind E as u Gv. cbv zeta in E.
    destruct (assoc _ acc); [discriminate|]. injection E as <-. apply in_app_or in Hacc. destruct Hacc as [Ha|[Ek|[]]]; [left; exact Ha|].
    injection Ek as _ <-. right. exists vid. split; [left; reflexivity|exact Gd].
Qed.

Lemma deser_top_inv t n vid v : deser_tvar (S n) false t None vid false = Ok v ->
  exists id uid' name ty,
    ini_get t (lit "variant-" ++ vid) (F"id") = Ok id /\ ini_get t (lit "variant-" ++ vid) (F"uid") = Ok uid' /\
    ini_get t (lit "variant-" ++ vid) (F"name") = Ok name /\ ini_get t (lit "variant-" ++ vid) (F"type") = Ok ty /\
    let f := [(F"id", PStr id); (F"uid", PStr uid'); (F"name", PStr name); (F"type", PStr ty)] in
    tv_fields v = f /\
    (has_option t (tv_section f) (F"addons") = false ->
       tv_children v = [] /\ tv_paths v = map (fun field => (field, opt_get t (tv_section f) field)) TI_PATH_FIELDS).
Proof.
  intros H. cbn [deser_tvar] in H. inv_bind H as u0 G0. cbv zeta in H. cbn [andb] in H.
  inv_bind H as id Gi. inv_bind H as uid' Gu. inv_bind H as name Gn. inv_bind H as ty Gt.
  exists id, uid', name, ty. repeat (split; [assumption|]). cbv zeta.
  set (f := [(F"id", PStr id); (F"uid", PStr uid'); (F"name", PStr name); (F"type", PStr ty)]) in *.
  destruct (has_option t (tv_section f) (F"addons")) eqn:Ea.
  - inv_bind H as ch Gc. inv_bind H as u1 G1. injection H as <-. split; [reflexivity|discriminate].
  - cbn [bind] in H. inv_bind H as u1 G1. injection H as <-. split; [reflexivity|]. intros _. split; reflexivity.
Qed.

Lemma getf_map_fields (g : str -> pyval) l x : In x l -> getf (map (fun f => (f, g f)) l) x = g x.
Proof.
  unfold getf. induction l as [|y l IH]; [intros []|]. intros Hin. cbn [map assoc].
  destruct (str_eqb_spec x y) as [->|Hn]; [reflexivity|]. destruct Hin as [->|Hin]; [congruence|exact (IH Hin)].
Qed.

Lemma reader_variants_stage x mv t x' : ser_ti x mv = Ok t -> deser_ti t = Ok x' ->
  exists vids, (if has_option t (F"tree") (F"variants") then do s <- ini_get t (F"tree") (F"variants"); Ok (split c_comma s) else Ok []) = Ok vids /\
               fold_left (rstep t) vids (Ok []) = Ok (ti_variants x').
Proof.
  intros Hw Hr.
  destruct (written_release_and_tree x mv t Hw) as (name_s & ver_s & short_s & arch_s & ts_s & En & Ev & Es & Ea & Ets & Gn & Gv & Gs & Ga & Gp & Gt).
  destruct (written_header_and_layered x mv t Hw) as (Hhv & Hht & Hlay).
  destruct treeinfo_version_ok as (Hvt & Hz & Hold).
  unfold deser_ti in Hr.
  rewrite (proj1 (get_has_option _ _ _ _ Hhv)), Hhv in Hr. cbn [bind] in Hr.
  change (PStr (show_version VERSION)) with current_version in Hr. rewrite Hvt in Hr. cbn [bind] in Hr.
  destruct current_version_ok as (_ & _ & H11 & _). rewrite H11, Hht in Hr. cbn [bind] in Hr.
  rewrite str_eqb_refl in Hr. cbn [guard bind] in Hr. rewrite Hz in Hr. cbn [negb guard bind] in Hr.
  rewrite Hold in Hr. rewrite Gn, Gv in Hr. cbn [bind] in Hr.
  rewrite (proj1 (get_has_option _ _ _ _ Gs)), Gs in Hr. cbn [bind] in Hr.
  assert (Hl : (if has_option t (F"release") (F"is_layered") then do s <- ini_get t (F"release") (F"is_layered"); ini_getboolean s else Ok false)
               = Ok (truthy (getf (ti_release x) (F"is_layered")))).
  { destruct (truthy (getf (ti_release x) (F"is_layered"))).
    - rewrite (proj1 (get_has_option _ _ _ _ Hlay)), Hlay. reflexivity.
    - rewrite Hlay. reflexivity. }
  rewrite Hl in Hr. cbn [bind] in Hr. cbv zeta in Hr.
  inv_bind Hr as u1 Grel. inv_bind Hr as bp Gbp.
  rewrite (proj2 (get_has_option _ _ _ _ Ga)), Ga, Gp in Hr. cbn [bind] in Hr.
  rewrite str_eqb_refl, Gt in Hr. cbn [bind] in Hr.
  inv_bind Hr as ts' Gts'.
  inv_bind Hr as u2 G2. inv_bind Hr as vids G3. inv_bind Hr as variants G4. inv_bind Hr as u3 G5. inv_bind Hr as cks G6.
  inv_bind Hr as u4 G7. inv_bind Hr as u5 G8. inv_bind Hr as u6 G9. inv_bind Hr as md G10. inv_bind Hr as u7 G11. inv_bind Hr as u8 G12.
  injection Hr as <-. cbn [ti_variants]. exists vids. split; [exact G3|exact G4].
Qed.

Definition facts_of (kv : str * tvar) (v' : tvar) : Prop :=
  tv_fields v' = [(F"id", getf (tv_fields (snd kv)) (F"id")); (F"uid", getf (tv_fields (snd kv)) (F"uid"));
                  (F"name", getf (tv_fields (snd kv)) (F"name")); (F"type", getf (tv_fields (snd kv)) (F"type"))] /\
  tv_children v' = [] /\
  (forall fld, In fld TI_PATH_FIELDS -> getf (tv_paths v') fld = getf (tv_paths (snd kv)) fld).

(* one top-level read: the section it reads is the section of a written variant, and it returns that variant's facts *)
Lemma read_one x t p8 p9 n vid v' :
  (forall s, is_variant_section s -> assoc s p8 = None) -> (forall s, is_variant_section s -> assoc s t = assoc s p9) ->
  fold_left vstep (ti_variants x) (Ok p8) = Ok p9 -> (forall kv, In kv (ti_variants x) -> flat kv) ->
  deser_tvar (S n) false t None vid false = Ok v' ->
  exists kv, In kv (ti_variants x) /\ lit "variant-" ++ vid = vsec kv /\ facts_of kv v'.
Proof.
  intros A8 At G Hflat Hd.
  destruct (vfold_spec (ti_variants x) p8 p9 G Hflat) as (I1 & I2 & I3).
  destruct (deser_top_inv t _ vid v' Hd) as (id & uid' & name & ty & Gi & Gu & Gn & Gt & Hf & Hrest).
  set (sec0 := lit "variant-" ++ vid) in *.
  assert (Hv0 : is_variant_section sec0) by (left; apply startswith_app).
  assert (Hkv : exists kv, In kv (ti_variants x) /\ sec0 = vsec kv).
  { destruct (in_dec str_eq_dec sec0 (map vsec (ti_variants x))) as [Hi|Hi].
    - apply in_map_iff in Hi. destruct Hi as (kv & E & Hk). exists kv. split; [exact Hk|symmetry; exact E].
    - exfalso. unfold ini_get in Gi. rewrite (At sec0 Hv0), (I2 sec0), (A8 sec0 Hv0) in Gi; [discriminate|].
      intros (kv & Hk & E). apply Hi. rewrite E. apply in_map. exact Hk. }
  destruct Hkv as (kv & Hk & Esec). exists kv. split; [exact Hk|]. split; [exact Esec|].
  pose proof (I1 kv Hk) as S9.
  assert (St : sec_spec t (tv_fields (snd kv)) (tv_paths (snd kv))).
  { apply (sec_spec_transport p9 t); [apply At; apply tv_section_is|exact S9]. }
  destruct St as (S1 & S2 & S3). cbv zeta in S1, S2, S3. fold (vsec kv) in S1, S2, S3. rewrite <- Esec in S1, S2, S3.
  destruct (S1 (F"id")) as (s1 & E1 & H1); [cbn; auto|]. destruct (S1 (F"uid")) as (s2 & E2 & H2); [cbn; auto|].
  destruct (S1 (F"name")) as (s3 & E3 & H3); [cbn; auto|]. destruct (S1 (F"type")) as (s4 & E4 & H4); [cbn; auto 6|].
  assert (s1 = id) by congruence. assert (s2 = uid') by congruence. assert (s3 = name) by congruence. assert (s4 = ty) by congruence. subst s1 s2 s3 s4.
  cbv zeta in Hf, Hrest.
  assert (Esec' : tv_section [(F"id", PStr id); (F"uid", PStr uid'); (F"name", PStr name); (F"type", PStr ty)] = sec0).
  { rewrite Esec. unfold vsec, tv_section.
    change (getf [(F"id", PStr id); (F"uid", PStr uid'); (F"name", PStr name); (F"type", PStr ty)] (F"type")) with (PStr ty).
    change (getf [(F"id", PStr id); (F"uid", PStr uid'); (F"name", PStr name); (F"type", PStr ty)] (F"uid")) with (PStr uid').
    rewrite E4, E2. reflexivity. }
  rewrite Esec' in Hrest. destruct (Hrest (no_get_no_option _ _ _ S3)) as (Hc & Hp).
  unfold facts_of. split; [rewrite Hf, E1, E2, E3, E4; reflexivity|]. split; [exact Hc|].
  intros fld Hfld. rewrite Hp, (getf_map_fields (fun field => opt_get t sec0 field) TI_PATH_FIELDS fld Hfld), opt_get_ini.
  destruct (S2 fld Hfld) as [[En Eg]|(s & Es & Eg)]; rewrite Eg; [rewrite En|rewrite Es]; reflexivity.
Qed.

Theorem flat_variants_read_back x mv t x' :
  ser_ti x mv = Ok t -> deser_ti t = Ok x' -> (forall kv, In kv (ti_variants x) -> flat kv) ->
  forall key v', In (key, v') (ti_variants x') ->
  exists kv, In kv (ti_variants x) /\
    tv_fields v' = [(F"id", getf (tv_fields (snd kv)) (F"id")); (F"uid", getf (tv_fields (snd kv)) (F"uid"));
                    (F"name", getf (tv_fields (snd kv)) (F"name")); (F"type", getf (tv_fields (snd kv)) (F"type"))] /\
    tv_children v' = [] /\
    (forall fld, In fld TI_PATH_FIELDS -> getf (tv_paths v') fld = getf (tv_paths (snd kv)) fld).
Proof.
  intros Hw Hr Hflat key v' Hin.
  destruct (ser_ti_variants_stage x mv t Hw) as (p8 & p9 & A8 & At & G & _).
  destruct (reader_variants_stage x mv t x' Hw Hr) as (vids & _ & Gr).
  destruct (rfold_inv t vids [] _ Gr key v' Hin) as [[]|(vid & Hvid & Hd)].
  destruct (read_one x t p8 p9 _ vid v' A8 At G Hflat Hd) as (kv & Hk & _ & Fk). exists kv. split; [exact Hk|exact Fk].
Qed.

(* ---- ... and every written variant is returned *)
Lemma insert_pv_dup_in a l x : In x (insert_pv_dup a l) <-> x = a \/ In x l.
Proof.
  induction l as [|y l IH]; cbn [insert_pv_dup].
  - cbn [In]. split; [intros [E|[]]; left; symmetry; exact E|intros [E|[]]; left; symmetry; exact E].
  - destruct (str_leb _ _); cbn [In].
    + split; [intros [E|H]; [left; symmetry; exact E|right; exact H]|intros [E|H]; [left; symmetry; exact E|right; exact H]].
    + rewrite IH. tauto.
Qed.

Lemma sort_list_in l x : In x (sort_list l) <-> In x l.
Proof.
  induction l as [|y l IH]; cbn [sort_list fold_right]; [reflexivity|]. fold (sort_list l). rewrite insert_pv_dup_in, IH. cbn [In].
  split; [intros [E|H]; [left; symmetry; exact E|right; exact H]|intros [E|H]; [left; symmetry; exact E|right; exact H]].
Qed.

Lemma rfold_complete t vids : forall acc res, fold_left (rstep t) vids (Ok acc) = Ok res ->
  (forall e, In e acc -> In e res) /\
  (forall vid, In vid vids -> exists v, deser_tvar (S (length t)) false t None vid false = Ok v /\ In (fmt_s (getf (tv_fields v) (F"uid")), v) res).
Proof.
  induction vids as [|vid vids IH]; intros acc res H.
  - cbn in H. injection H as <-. split; [auto|intros vid []].
  - cbn [fold_left] in H. destruct (rstep t (Ok acc) vid) as [acc1|e] eqn:E; [|rewrite rfold_err in H; discriminate].
    destruct (IH acc1 res H) as [M C].
    unfold rstep in E. cbn [bind] in E. inv_bind E as v0 Gd. inv_bind E as u Gv. cbv zeta in E.
    destruct (assoc _ acc); [discriminate|]. injection E as <-.
    split.
    + intros e He. apply M. apply in_or_app. left. exact He.
    + intros vid' [<-|Hv]; [|exact (C vid' Hv)]. exists v0. split; [exact Gd|]. apply M. apply in_or_app. right. left. reflexivity.
Qed.

Lemma vfold_nodup vs : forall q q', fold_left vstep vs (Ok q) = Ok q' -> (forall kv, In kv vs -> flat kv) -> NoDup (map vsec vs).
Proof.
  induction vs as [|kv vs IH]; intros q q' H Hflat; [constructor|].
  cbn [fold_left] in H. unfold vstep at 2 in H. cbn [bind] in H.
  destruct kv as [k [f paths ch]]. pose proof (Hflat _ (or_introl eq_refl)) as Hc. unfold flat in Hc. cbn [snd tv_children] in Hc. subst ch.
  cbn [snd] in H. destruct (ser_tvar None (TV f paths []) q) as [q2|e] eqn:E; [|rewrite vfold_err in H; discriminate].
  destruct (ser_tvar_flat f paths q q2 E) as (A & O & S).
  destruct (vfold_spec vs q2 q' H (fun kv' Hk => Hflat kv' (or_intror Hk))) as (_ & _ & I3).
  cbn [map]. constructor; [|exact (IH q2 q' H (fun kv' Hk => Hflat kv' (or_intror Hk)))].
  intros Hin. apply in_map_iff in Hin. destruct Hin as (kv' & Ek & Hk).
  apply (I3 _ (sec_spec_present _ _ _ S)). exists kv'. split; [exact Hk|]. unfold vsec at 1 in Ek. cbn [snd tv_fields] in Ek. symmetry. exact Ek.
Qed.

Lemma nodup_map_inj {A B} (f : A -> B) l a b : NoDup (map f l) -> In a l -> In b l -> f a = f b -> a = b.
Proof.
  induction l as [|y l IH]; intros Hn Ha Hb E; [destruct Ha|]. cbn [map] in Hn. inversion Hn as [|? ? Hx Hr]; subst.
  destruct Ha as [->|Ha], Hb as [->|Hb]; [reflexivity| | |exact (IH Hr Ha Hb E)].
  - exfalso. apply Hx. rewrite E. apply in_map. exact Hb.
  - exfalso. apply Hx. rewrite <- E. apply in_map. exact Ha.
Qed.

Theorem flat_variants_complete x mv t x' :
  ser_ti x mv = Ok t -> deser_ti t = Ok x' -> (forall kv, In kv (ti_variants x) -> flat kv) ->
  (forall kv, In kv (ti_variants x) -> py_eq (getf (tv_fields (snd kv)) (F"type")) (PStr (F"addon")) = false) ->
  (forall kv u, In kv (ti_variants x) -> getf (tv_fields (snd kv)) (F"uid") = PStr u -> ~ In c_comma u) ->
  forall kv, In kv (ti_variants x) -> exists key v', In (key, v') (ti_variants x') /\ facts_of kv v'.
Proof.
  intros Hw Hr Hflat Hty Hcomma kv Hk.
  destruct (ser_ti_variants_stage x mv t Hw) as (p8 & p9 & A8 & At & G & Gtv).
  destruct (vfold_spec (ti_variants x) p8 p9 G Hflat) as (I1 & _ & _).
  destruct (reader_variants_stage x mv t x' Hw Hr) as (vids & G3 & Gr).
  rewrite (proj1 (get_has_option _ _ _ _ Gtv)), Gtv in G3. cbn [bind] in G3. injection G3 as <-.
  assert (Huid : forall kv', In kv' (ti_variants x) -> exists u, getf (tv_fields (snd kv')) (F"uid") = PStr u).
  { intros kv' Hk'. destruct (I1 kv' Hk') as (S1 & _). destruct (S1 (F"uid")) as (u & Eu & _); [cbn; auto|]. exists u. exact Eu. }
  destruct (Huid kv Hk) as (u & Eu).
  set (uids := sort_list (map (fun kv0 : str * tvar => getf (tv_fields (snd kv0)) (F"uid")) (ti_variants x))) in *.
  set (strs := map (fun v => match v with PStr s => s | _ => [] end) uids).
  assert (Hin_u : In u strs).
  { unfold strs. apply in_map_iff. exists (PStr u). split; [reflexivity|]. apply (proj2 (sort_list_in _ _)). apply in_map_iff. exists kv. split; [exact Eu|exact Hk]. }
  assert (Hvid : In u (split c_comma (join_strs [c_comma] uids))).
  { unfold join_strs. fold strs. rewrite split_join; [exact Hin_u|intros E; rewrite E in Hin_u; destruct Hin_u|].
    intros s Hs. unfold strs in Hs. apply in_map_iff in Hs. destruct Hs as (v & <- & Hv). apply (proj1 (sort_list_in _ _)) in Hv.
    apply in_map_iff in Hv. destruct Hv as (kv' & <- & Hk'). destruct (Huid kv' Hk') as (u' & Eu'). rewrite Eu'. exact (Hcomma kv' u' Hk' Eu'). }
  destruct (rfold_complete t _ [] _ Gr) as [_ C]. destruct (C u Hvid) as (v' & Hd & Hres).
  destruct (read_one x t p8 p9 _ u v' A8 At G Hflat Hd) as (kv2 & Hk2 & Esec & Fk).
  assert (Ekv : vsec kv = lit "variant-" ++ u).
  { unfold vsec, tv_section. rewrite (Hty kv Hk), Eu. reflexivity. }
  assert (kv2 = kv).
  { apply (nodup_map_inj vsec (ti_variants x)); [exact (vfold_nodup _ _ _ G Hflat)|exact Hk2|exact Hk|]. rewrite <- Esec, Ekv. reflexivity. }
  subst kv2. eexists. exists v'. split; [exact Hres|exact Fk].
Qed.

(* the hypotheses are satisfiable, and the conclusions are not empty: the example tree's variant is read back *)
Example flat_variants_nonvacuous :
  exists t x' v', ser_ti ex_ti None = Ok t /\ deser_ti t = Ok x' /\ (forall kv, In kv (ti_variants ex_ti) -> flat kv) /\
    (forall kv, In kv (ti_variants ex_ti) -> py_eq (getf (tv_fields (snd kv)) (F"type")) (PStr (F"addon")) = false) /\
    (forall kv u, In kv (ti_variants ex_ti) -> getf (tv_fields (snd kv)) (F"uid") = PStr u -> ~ In c_comma u) /\
    In (F"Server", v') (ti_variants x') /\ getf (tv_paths v') (F"packages") = PStr (F"Packages").
Proof.
  eexists. eexists. eexists. split; [vm_compute; reflexivity|]. split; [vm_compute; reflexivity|].
  split; [intros kv [<-|[]]; reflexivity|]. split; [intros kv [<-|[]]; reflexivity|].
  split; [intros kv u [<-|[]] E; vm_compute in E; injection E as <-; vm_compute; intuition discriminate|].
  split; [left; reflexivity|vm_compute; reflexivity].
Qed.

(* the re-read top-level variants are keyed by their UIDs, each key once *)
Lemma rfold_keys t vids : forall acc res, fold_left (rstep t) vids (Ok acc) = Ok res ->
  NoDup (map fst acc) -> (forall k v, In (k, v) acc -> k = fmt_s (getf (tv_fields v) (F"uid"))) ->
  NoDup (map fst res) /\ (forall k v, In (k, v) res -> k = fmt_s (getf (tv_fields v) (F"uid"))).
Proof.
  induction vids as [|vid vids IH]; intros acc res H Hn Hk.
  - cbn in H. injection H as <-. split; assumption.
  - cbn [fold_left] in H. destruct (rstep t (Ok acc) vid) as [acc1|e] eqn:E; [|rewrite rfold_err in H; discriminate].
    apply (IH acc1 res H); unfold rstep in E; cbn [bind] in E; inv_bind E as v0 Gd; inv_bind E as u Gv; cbv zeta in E;
      destruct (assoc (fmt_s (getf (tv_fields v0) (F"uid"))) acc) eqn:Ea; try discriminate; injection E as <-.
    + rewrite map_app. cbn [map fst]. apply (Permutation.Permutation_NoDup (Permutation.Permutation_cons_append (map fst acc) _)).
      constructor; [apply assoc_None in Ea; exact Ea|exact Hn].
    + intros k v Hin. apply in_app_or in Hin. destruct Hin as [Ha|[Ek|[]]]; [exact (Hk k v Ha)|]. injection Ek as <- <-. reflexivity.
Qed.

Theorem reread_variants_keyed_by_uid x mv t x' : ser_ti x mv = Ok t -> deser_ti t = Ok x' ->
  NoDup (map fst (ti_variants x')) /\ (forall k v, In (k, v) (ti_variants x') -> k = fmt_s (getf (tv_fields v) (F"uid"))).
Proof.
  intros Hw Hr. destruct (reader_variants_stage x mv t x' Hw Hr) as (vids & _ & Gr).
  apply (rfold_keys t vids [] _ Gr); [constructor|intros k v []].
Qed.
