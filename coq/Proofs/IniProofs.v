From PM Require Import Base.PyVal Base.Obj Base.Ini Model.Common Model.TreeInfo Proofs.ManifestsProofs Proofs.PyValProofs.

Lemma ini_set_get_same t s o x t' : ini_set t s o (PStr x) = Ok t' -> ini_get t' s o = Ok x.
Proof.
  unfold ini_set, ini_get. destruct (assoc s t) as [opts|] eqn:E; [|discriminate]. intros H; injection H as <-.
  rewrite assoc_set_same, assoc_set_same. reflexivity.
Qed.

Lemma ini_set_get_other t s o v t' s' o' :
  ini_set t s o v = Ok t' -> (s' <> s \/ o' <> o) -> ini_get t' s' o' = ini_get t s' o'.
Proof.
  unfold ini_set, ini_get. destruct v; try discriminate. destruct (assoc s t) as [opts|] eqn:E; [|discriminate].
  intros H Hne; injection H as <-.
  destruct (str_eq_dec s s') as [<-|Hs].
  - rewrite assoc_set_same, E. destruct Hne as [Hne|Hne]; [congruence|].
    rewrite assoc_set_other by congruence. reflexivity.
  - rewrite assoc_set_other by exact Hs. reflexivity.
Qed.

Lemma ini_set_is_str t s o v t' : ini_set t s o v = Ok t' -> exists x, v = PStr x.
Proof. unfold ini_set. destruct v; try discriminate. eauto. Qed.

Lemma sets_err s kvs e : fold_left (fun acc kv => do t' <- acc; ini_set t' s (fst kv) (snd kv)) kvs (Err e) = Err e.
Proof. induction kvs as [|kv kvs IH]; [reflexivity|]. cbn [fold_left bind]. exact IH. Qed.

Lemma sets_get t s kvs t' :
  sets t s kvs = Ok t' -> NoDup (map fst kvs) ->
  (forall k v, In (k, v) kvs -> exists x, v = PStr x /\ ini_get t' s k = Ok x) /\
  (forall s' o', (s' <> s \/ ~ In o' (map fst kvs)) -> ini_get t' s' o' = ini_get t s' o').
Proof.
  unfold sets. revert t. induction kvs as [|[k0 v0] kvs IH]; intros t H Hnd.
  - cbn in H. injection H as <-. split; [intros k v []|reflexivity].
  - cbn [fold_left bind fst snd] in H.
    destruct (ini_set t s k0 v0) as [t1|e] eqn:E1.
    2:{ rewrite sets_err in H. discriminate. } cbn [map fst] in Hnd. inversion Hnd as [|? ? Hnin Hnd']; subst.
    destruct (IH t1 H Hnd') as [IH1 IH2]. split.
    + intros k v [Hkv|Hkv].
      * injection Hkv as <- <-. destruct (ini_set_is_str _ _ _ _ _ E1) as [x ->]. exists x. split; [reflexivity|].
        rewrite IH2 by (right; exact Hnin). exact (ini_set_get_same _ _ _ _ _ E1).
      * exact (IH1 k v Hkv).
    + intros s' o' Hne. rewrite IH2.
      * apply (ini_set_get_other _ _ _ _ _ s' o' E1). destruct Hne as [Hne|Hne]; [left; exact Hne|right].
        intros ->. apply Hne. left. reflexivity.
      * destruct Hne as [Hne|Hne]; [left; exact Hne|right]. intros Hin. apply Hne. right. exact Hin.
Qed.

(* ---------- C17: [general] mirrors the authoritative sections *)
Definition g : str := Eval cbv in F"general".

Theorem general_mirror x mv p t :
  ser_general x mv p = Ok t ->
  exists name_s ver_s arch_s ts ts_s variant v,
    getf (ti_release x) (F"name") = PStr name_s /\ getf (ti_release x) (F"version") = PStr ver_s /\
    getf (ti_tree x) (F"arch") = PStr arch_s /\
    py_int (getf (ti_tree x) (F"build_timestamp")) = Ok ts /\ py_str_num ts = Ok ts_s /\
    ini_get t g (F"family") = Ok name_s /\ ini_get t g (F"version") = Ok ver_s /\
    ini_get t g (F"name") = Ok (name_s ++ 32%N :: ver_s) /\
    ini_get t g (F"arch") = Ok arch_s /\ ini_get t g (F"platforms") = Ok (platforms_str (ti_tree x)) /\
    ini_get t g (F"timestamp") = Ok ts_s /\
    ini_get t g (F"variants") = Ok (join [c_comma] (map fst (sort_keys (ti_variants x)))) /\
    variant = match mv with Some m => m | None => hd [] (map fst (sort_keys (ti_variants x))) end /\
    (mv = None -> map fst (sort_keys (ti_variants x)) <> []) /\
    ini_get t g (F"variant") = Ok variant /\
    assoc variant (ti_variants x) = Some v /\
    (forall pk, getf (tv_paths v) (F"packages") = PStr pk -> ini_get t g (F"packagedir") = Ok pk) /\
    (forall r, getf (tv_paths v) (F"repository") = PStr r -> ini_get t g (F"repository") = Ok r) /\
    (getf (tv_paths v) (F"packages") = PNone -> getf (ti_tree x) (F"arch") = PStr (F"src") ->
       forall s, getf (tv_paths v) (F"source_packages") = PStr s -> ini_get t g (F"packagedir") = Ok s) /\
    (getf (tv_paths v) (F"repository") = PNone -> getf (ti_tree x) (F"arch") = PStr (F"src") ->
       forall s, getf (tv_paths v) (F"source_repository") = PStr s -> ini_get t g (F"repository") = Ok s).
Proof.
  unfold ser_general. fold g. intros H.
  inv_bind H as p0 G0. inv_bind H as ts Gts. inv_bind H as ts_s Gtss. inv_bind H as p1 G1.
  inv_bind H as p2 G2. inv_bind H as variant Gv. inv_bind H as p3 G3. inv_bind H as v Gl.
  inv_bind H as p4 G4.
  assert (Hnd : NoDup (map fst
     [(F"; WARNING.0", PStr (F"This section provides compatibility with pre-productmd treeinfos."));
      (F"; WARNING.1", PStr (F"Read productmd documentation for details about new format."));
      (F"name", PStr (fmt_s (getf (ti_release x) (F"name")) ++ 32%N :: fmt_s (getf (ti_release x) (F"version"))));
      (F"family", getf (ti_release x) (F"name")); (F"version", getf (ti_release x) (F"version"));
      (F"arch", getf (ti_tree x) (F"arch")); (F"platforms", PStr (platforms_str (ti_tree x))); (F"timestamp", PStr ts_s)])).
  { cbn [map fst]. repeat constructor; cbv; intuition discriminate. }
  destruct (sets_get _ _ _ _ G1 Hnd) as [S1 _].
  destruct (S1 (F"family") _ ltac:(cbn; tauto)) as (name_s & Hname & Gfam).
  destruct (S1 (F"version") _ ltac:(cbn; tauto)) as (ver_s & Hver & Gver).
  destruct (S1 (F"arch") _ ltac:(cbn; tauto)) as (arch_s & Harch & Garch).
  destruct (S1 (F"name") _ ltac:(cbn; tauto)) as (nm & Hnm & Gnm).
  destruct (S1 (F"platforms") _ ltac:(cbn; tauto)) as (pl & Hpl & Gpl).
  destruct (S1 (F"timestamp") _ ltac:(cbn; tauto)) as (tss & Htss & Gts').
  injection Hnm as <-. injection Hpl as <-. injection Htss as <-. rewrite Hname, Hver in Gnm. cbn [fmt_s] in Gnm.
  (* later writes touch other options *)
  assert (Hlater : forall o, o <> F"variants" -> o <> F"variant" -> o <> F"packagedir" -> o <> F"repository" ->
                             ini_get t g o = ini_get p1 g o).
  { intros o N1 N2 N3 N4.
    assert (E4 : ini_get t g o = ini_get p4 g o).
    { destruct (getf (tv_paths v) (F"repository")) eqn:Er; try (injection H as <-; reflexivity);
        try (apply (ini_set_get_other _ _ _ _ _ g o H); right; exact N4).
      destruct (py_eq _ _); [|injection H as <-; reflexivity].
      destruct (getf (tv_paths v) (F"source_repository")); try (injection H as <-; reflexivity);
        apply (ini_set_get_other _ _ _ _ _ g o H); right; exact N4. }
    assert (E3 : ini_get p4 g o = ini_get p3 g o).
    { destruct (getf (tv_paths v) (F"packages")) eqn:Ep; try (injection G4 as <-; reflexivity);
        try (apply (ini_set_get_other _ _ _ _ _ g o G4); right; exact N3).
      destruct (py_eq _ _); [|injection G4 as <-; reflexivity].
      destruct (getf (tv_paths v) (F"source_packages")); try (injection G4 as <-; reflexivity);
        apply (ini_set_get_other _ _ _ _ _ g o G4); right; exact N3. }
    rewrite E4, E3, (ini_set_get_other _ _ _ _ _ g o G3) by (right; exact N2).
    apply (ini_set_get_other _ _ _ _ _ g o G2). right. exact N1. }
  exists name_s, ver_s, arch_s, ts, ts_s, variant, v.
  repeat split; try assumption.
  1-6: rewrite Hlater by (cbv; discriminate); assumption.
  - (* variants *)
    assert (E : ini_get p2 g (F"variants") = Ok (join [c_comma] (map fst (sort_keys (ti_variants x))))) by exact (ini_set_get_same _ _ _ _ _ G2).
    rewrite <- E. clear E.
    transitivity (ini_get p4 g (F"variants")).
    { destruct (getf (tv_paths v) (F"repository")); try (injection H as <-; reflexivity);
        try (apply (ini_set_get_other _ _ _ _ _ g _ H); right; cbv; discriminate).
      destruct (py_eq _ _); [|injection H as <-; reflexivity].
      destruct (getf (tv_paths v) (F"source_repository")); try (injection H as <-; reflexivity);
        apply (ini_set_get_other _ _ _ _ _ g _ H); right; cbv; discriminate. }
    transitivity (ini_get p3 g (F"variants")).
    { destruct (getf (tv_paths v) (F"packages")); try (injection G4 as <-; reflexivity);
        try (apply (ini_set_get_other _ _ _ _ _ g _ G4); right; cbv; discriminate).
      destruct (py_eq _ _); [|injection G4 as <-; reflexivity].
      destruct (getf (tv_paths v) (F"source_packages")); try (injection G4 as <-; reflexivity);
        apply (ini_set_get_other _ _ _ _ _ g _ G4); right; cbv; discriminate. }
    apply (ini_set_get_other _ _ _ _ _ g _ G3). right. cbv. discriminate.
  - destruct mv as [m|]; [injection Gv as <-; reflexivity|].
    destruct (map fst (sort_keys (ti_variants x))) as [|k ks]; [discriminate|]. injection Gv as <-. reflexivity.
  - intros ->. destruct (map fst (sort_keys (ti_variants x))); [discriminate|discriminate].
  - (* variant *)
    assert (E : ini_get p3 g (F"variant") = Ok variant) by exact (ini_set_get_same _ _ _ _ _ G3).
    rewrite <- E. clear E.
    transitivity (ini_get p4 g (F"variant")).
    { destruct (getf (tv_paths v) (F"repository")); try (injection H as <-; reflexivity);
        try (apply (ini_set_get_other _ _ _ _ _ g _ H); right; cbv; discriminate).
      destruct (py_eq _ _); [|injection H as <-; reflexivity].
      destruct (getf (tv_paths v) (F"source_repository")); try (injection H as <-; reflexivity);
        apply (ini_set_get_other _ _ _ _ _ g _ H); right; cbv; discriminate. }
    destruct (getf (tv_paths v) (F"packages")); try (injection G4 as <-; reflexivity);
      try (apply (ini_set_get_other _ _ _ _ _ g _ G4); right; cbv; discriminate).
    destruct (py_eq _ _); [|injection G4 as <-; reflexivity].
    destruct (getf (tv_paths v) (F"source_packages")); try (injection G4 as <-; reflexivity);
      apply (ini_set_get_other _ _ _ _ _ g _ G4); right; cbv; discriminate.
  - unfold lookup_top, of_option in Gl. destruct (assoc variant (ti_variants x)); [congruence|discriminate].
  - (* packagedir from packages *)
    intros pk Hpk. rewrite Hpk in G4.
    assert (E : ini_get p4 g (F"packagedir") = Ok pk) by exact (ini_set_get_same _ _ _ _ _ G4).
    rewrite <- E.
    destruct (getf (tv_paths v) (F"repository")); try (injection H as <-; reflexivity);
      try (apply (ini_set_get_other _ _ _ _ _ g _ H); right; cbv; discriminate).
    destruct (py_eq _ _); [|injection H as <-; reflexivity].
    destruct (getf (tv_paths v) (F"source_repository")); try (injection H as <-; reflexivity);
      apply (ini_set_get_other _ _ _ _ _ g _ H); right; cbv; discriminate.
  - intros r Hr. rewrite Hr in H. exact (ini_set_get_same _ _ _ _ _ H).
  - intros Hpk Hsrc s Hs. rewrite Hpk, Hsrc, Hs in G4. rewrite py_eq_refl in G4.
    assert (E : ini_get p4 g (F"packagedir") = Ok s) by exact (ini_set_get_same _ _ _ _ _ G4).
    rewrite <- E.
    destruct (getf (tv_paths v) (F"repository")); try (injection H as <-; reflexivity);
      try (apply (ini_set_get_other _ _ _ _ _ g _ H); right; cbv; discriminate).
    destruct (py_eq _ _); [|injection H as <-; reflexivity].
    destruct (getf (tv_paths v) (F"source_repository")); try (injection H as <-; reflexivity);
      apply (ini_set_get_other _ _ _ _ _ g _ H); right; cbv; discriminate.
  - intros Hr Hsrc s Hs. rewrite Hr, Hsrc, Hs in H. rewrite py_eq_refl in H.
    exact (ini_set_get_same _ _ _ _ _ H).
Qed.
