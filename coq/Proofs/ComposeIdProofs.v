From PM Require Import Base.PyVal Base.Regex Model.ComposeId Proofs.StrDec Proofs.RegexSem Gen.Regexes Gen.Tables.
Open Scope nat_scope.

(* ---------- the last 8-digit window *)
Lemma win8_short s : length s < 8 -> win8 s = false.
Proof. intros H. unfold win8. replace (Nat.leb 8 (length s)) with false; [reflexivity|]. symmetry. apply Nat.leb_gt. exact H. Qed.

Lemma find_last_short s : length s < 8 -> find_last s = None.
Proof.
  induction s as [|x s IH]; intros H; [reflexivity|]. cbn [find_last].
  rewrite IH by (cbn in H; lia). rewrite win8_short by exact H. reflexivity.
Qed.

Lemma win8_nondigit u c v : length u < 8 -> is_digit c = false -> win8 (u ++ c :: v) = false.
Proof.
  intros Hu Hc. unfold win8. rewrite firstn_app, (firstn_all2 u) by lia.
  destruct (8 - length u) as [|k] eqn:E; [lia|]. cbn [firstn]. rewrite forallb_app. cbn [forallb].
  rewrite Hc. cbn. rewrite !andb_false_r. reflexivity.
Qed.

Lemma win8_head_nondigit h t : is_digit h = false -> win8 (h :: t) = false.
Proof. intros H. apply (win8_nondigit [] h t); [cbn; lia|exact H]. Qed.

Lemma peel_short u c v : length u < 8 -> is_digit c = false -> find_last (u ++ c :: v) = find_last v.
Proof.
  induction u as [|h u IH]; intros Hu Hc.
  - cbn [app find_last]. destruct (find_last v); [reflexivity|]. rewrite win8_head_nondigit by exact Hc. reflexivity.
  - cbn [app find_last]. rewrite IH by (cbn in Hu; lia || exact Hc).
    destruct (find_last v); [reflexivity|].
    change (h :: u ++ c :: v) with ((h :: u) ++ c :: v). rewrite win8_nondigit by assumption. reflexivity.
Qed.

Lemma peel_nondigits u v : forallb (fun x => negb (is_digit x)) u = true -> find_last (u ++ v) = find_last v.
Proof.
  induction u as [|h u IH]; intros Hu; [reflexivity|]. cbn [forallb] in Hu. apply andb_true_iff in Hu.
  destruct Hu as [Hh Hu]. cbn [app find_last]. rewrite (IH Hu).
  destruct (find_last v); [reflexivity|]. rewrite win8_head_nondigit; [reflexivity|].
  apply negb_true_iff. exact Hh.
Qed.

Lemma find_last_prefix a w :
  win8 w = true -> find_last (tl w) = None -> find_last (a ++ w) = Some (firstn 8 w, skipn 8 w).
Proof.
  intros Hw Ht. induction a as [|h a IH].
  - destruct w as [|x w]; [discriminate|]. cbn [app find_last]. cbn [tl] in Ht. rewrite Ht, Hw. reflexivity.
  - cbn [app find_last]. rewrite IH. reflexivity.
Qed.

Lemma firstn8_date (date tail : str) : length date = 8 -> firstn 8 (date ++ tail) = date.
Proof.
  intros H. rewrite firstn_app, H, (firstn_all2 date) by lia. rewrite Nat.sub_diag.
  change (firstn 0 tail) with (@nil chr). apply app_nil_r.
Qed.

Lemma skipn8_date (date tail : str) : length date = 8 -> skipn 8 (date ++ tail) = tail.
Proof.
  intros H. rewrite skipn_app, H, Nat.sub_diag. rewrite <- H, skipn_all. reflexivity.
Qed.

Lemma win8_date (date tail : str) : length date = 8 -> forallb is_digit date = true -> win8 (date ++ tail) = true.
Proof.
  intros H Hd. unfold win8. rewrite (firstn8_date date tail H), Hd, app_length, H. reflexivity.
Qed.

Lemma first_line_nonl s : ~ In c_nl s -> first_line s = s.
Proof.
  intros H. unfold first_line. rewrite <- (app_nil_r s) at 1.
  rewrite span_all; [reflexivity| |exact I].
  apply forallb_forall. intros x Hx. apply negb_true_iff. apply N.eqb_neq. intros ->. exact (H Hx).
Qed.

(* ---------- length of a printed number *)
Lemma show_dec_fuel_len f : forall n acc k, (k >= 1) -> (n < 10 ^ N.of_nat k)%N ->
  length (show_dec_fuel f n acc) <= length acc + k.
Proof.
  induction f as [|f IH]; intros n acc k Hk Hn; cbn [show_dec_fuel]; [lia|].
  destruct (N.eqb_spec (n / 10) 0) as [Hq|Hq]; [cbn [length]; lia|].
  destruct k as [|[|k]]; [lia| |].
  - exfalso. apply Hq. apply N.div_small. cbn in Hn. lia.
  - specialize (IH (n / 10)%N (48 + n mod 10 :: acc)%N (S k) ltac:(lia)).
    cbn [length] in IH. rewrite Nat2N.inj_succ, N.pow_succ_r' in Hn.
    assert ((n / 10 < 10 ^ N.of_nat (S k))%N) by (apply N.div_lt_upper_bound; lia).
    specialize (IH H). lia.
Qed.

Lemma show_dec_len7 n : (n < 10 ^ 7)%N -> length (show_dec n) < 8.
Proof.
  intros H. unfold show_dec. pose proof (show_dec_fuel_len (n_bits n) n [] 7 ltac:(lia) H). cbn [length] in *. lia.
Qed.

(* ---------- table obligation: encoder and decoder tables agree *)
Definition enc_dec_ok : bool :=
  forallb (fun p => match snd p with
                    | None => true
                    | Some [] => str_eqb (fst p) production
                    | Some (46 :: lw)%N =>
                        match lw with [] => false | _ => true end && forallb is_lower lw &&
                        match assoc lw COMPOSE_TYPE_SUFFIXES with Some t => str_eqb t (fst p) | None => false end
                    | Some _ => false
                    end) COMPOSE_TYPE_SUFFIX_FN &&
  forallb (fun t => match assoc t COMPOSE_TYPE_SUFFIX_FN with Some (Some _) => true | _ => false end) COMPOSE_TYPES.

Lemma enc_dec_ok_holds : enc_dec_ok = true.
Proof. vm_compute. reflexivity. Qed.

Lemma enc_dec_entry t sfx :
  assoc t COMPOSE_TYPE_SUFFIX_FN = Some (Some sfx) ->
  (sfx = [] /\ t = production) \/
  (exists lw, sfx = c_dot :: lw /\ lw <> [] /\ forallb is_lower lw = true /\ assoc lw COMPOSE_TYPE_SUFFIXES = Some t).
Proof.
  intros H. apply assoc_In in H. pose proof enc_dec_ok_holds as Hok. unfold enc_dec_ok in Hok.
  apply andb_true_iff in Hok. destruct Hok as [Hok _]. rewrite forallb_forall in Hok. specialize (Hok _ H).
  cbn [fst snd] in Hok. destruct sfx as [|c lw].
  - left. split; [reflexivity|]. apply str_eqb_eq. exact Hok.
  - right. destruct (N.eqb_spec c 46) as [->|Hn].
    + rewrite !andb_true_iff in Hok. destruct Hok as [[H1 H2] H3]. exists lw. repeat split; try assumption.
      * destruct lw; [discriminate|discriminate].
      * destruct (assoc lw COMPOSE_TYPE_SUFFIXES) as [t'|]; [|discriminate]. apply str_eqb_eq in H3. congruence.
    + exfalso. destruct c as [|p]; [discriminate|].
      repeat (destruct p as [p|p|]; try discriminate). apply Hn. reflexivity.
Qed.

Lemma all_types_encodable t : In t COMPOSE_TYPES -> exists sfx, compose_type_suffix t = Ok sfx.
Proof.
  intros H. pose proof enc_dec_ok_holds as Hok. unfold enc_dec_ok in Hok.
  apply andb_true_iff in Hok. destruct Hok as [_ Hok]. rewrite forallb_forall in Hok. specialize (Hok _ H).
  unfold compose_type_suffix. destruct (assoc t COMPOSE_TYPE_SUFFIX_FN) as [[sfx|]|]; try discriminate. eauto.
Qed.

(* ---------- decoding what was encoded *)
Lemma digits_not_lower r : forallb is_digit r = true -> r <> [] -> span is_lower r = ([], r).
Proof.
  intros H Hn. destruct r as [|x r]; [congruence|]. cbn [forallb] in H. apply andb_true_iff in H. destruct H as [Hx _].
  cbn [span]. replace (is_lower x) with false; [reflexivity|]. unfold is_digit, is_lower in *. lia.
Qed.

Lemma lower_not_digit lw : forallb is_lower lw = true -> forallb (fun x => negb (is_digit x)) lw = true.
Proof.
  intros H. apply forallb_forall. intros x Hx. rewrite forallb_forall in H. specialize (H x Hx).
  unfold is_digit, is_lower in *. lia.
Qed.

Lemma decode_type_digits r : forallb is_digit r = true -> r <> [] -> decode_type (c_dot :: r) = (None, c_dot :: r).
Proof. intros H Hn. unfold decode_type, c_dot. rewrite (digits_not_lower r H Hn). reflexivity. Qed.

Lemma decode_type_lower lw rest :
  lw <> [] -> forallb is_lower lw = true -> (match rest with [] => True | y :: _ => is_lower y = false end) ->
  decode_type (c_dot :: lw ++ rest) = (Some lw, rest).
Proof.
  intros Hn H Hr. unfold decode_type, c_dot. rewrite (span_all is_lower lw rest H Hr).
  destruct lw; [congruence|reflexivity].
Qed.

Lemma decode_respin_digits r : forallb is_digit r = true -> r <> [] -> decode_respin (c_dot :: r) = parse_dec r.
Proof.
  intros H Hn. unfold decode_respin, c_dot. rewrite <- (app_nil_r r) at 1. rewrite (span_all is_digit r [] H I).
  destruct r; [congruence|reflexivity].
Qed.

Lemma decode_tail date sfx respin ty pre :
  length date = 8 -> forallb is_digit date = true -> (respin < 10 ^ 7)%N ->
  ((sfx = [] /\ ty = production) \/
   (exists lw, sfx = c_dot :: lw /\ lw <> [] /\ forallb is_lower lw = true /\ assoc lw COMPOSE_TYPE_SUFFIXES = Some ty)) ->
  ~ In c_nl pre ->
  get_date_type_respin (pre ++ date ++ sfx ++ c_dot :: show_dec respin) = Ok (Some (date, ty, respin)).
Proof.
  intros Hlen Hdig Hr Hsfx Hpre.
  set (r := show_dec respin).
  assert (Hrd : forallb is_digit r = true) by apply show_dec_digits.
  assert (Hrn : r <> []) by apply show_dec_nonempty.
  assert (Hrl : length r < 8) by (apply show_dec_len7; exact Hr).
  set (tail := sfx ++ c_dot :: r).
  assert (Htail_nl : ~ In c_nl tail).
  { unfold tail. intros Hin. apply in_app_or in Hin. destruct Hin as [H|[H|H]].
    - destruct Hsfx as [[-> _]|(lw & -> & _ & Hlw & _)]; [destruct H|].
      destruct H as [H|H]; [discriminate|]. rewrite forallb_forall in Hlw. specialize (Hlw _ H). cbv in Hlw. discriminate.
    - discriminate.
    - rewrite forallb_forall in Hrd. specialize (Hrd _ H). cbv in Hrd. discriminate. }
  assert (Hdate_nl : ~ In c_nl date).
  { intros H. rewrite forallb_forall in Hdig. specialize (Hdig _ H). cbv in Hdig. discriminate. }
  unfold get_date_type_respin. rewrite first_line_nonl.
  2:{ intros Hin. apply in_app_or in Hin. destruct Hin as [H|H]; [tauto|]. apply in_app_or in H. tauto. }
  (* the window *)
  assert (Hwin : win8 (date ++ tail) = true) by (apply win8_date; assumption).
  assert (Hnone : find_last (tl (date ++ tail)) = None).
  { destruct date as [|d0 date']; [discriminate|]. cbn [app tl]. cbn [length] in Hlen.
    unfold tail. destruct Hsfx as [[-> _]|(lw & -> & _ & Hlw & _)].
    - cbn [app]. rewrite peel_short; [apply find_last_short; exact Hrl|lia|reflexivity].
    - cbn [app]. rewrite peel_short; [|lia|reflexivity].
      rewrite peel_nondigits by (apply lower_not_digit; exact Hlw).
      change (c_dot :: r) with ([] ++ c_dot :: r).
      rewrite (peel_short [] c_dot r); [apply find_last_short; exact Hrl|cbn; lia|reflexivity]. }
  fold tail. rewrite (find_last_prefix pre (date ++ tail) Hwin Hnone).
  rewrite (firstn8_date date tail Hlen), (skipn8_date date tail Hlen).
  unfold tail. destruct Hsfx as [[-> ->]|(lw & -> & Hlwn & Hlw & Has)].
  - cbn [app]. rewrite (decode_type_digits r Hrd Hrn), (decode_respin_digits r Hrd Hrn).
    unfold r. rewrite parse_show_dec. reflexivity.
  - cbn [app]. rewrite (decode_type_lower lw (c_dot :: r) Hlwn Hlw eq_refl), (decode_respin_digits r Hrd Hrn), Has.
    unfold r. rewrite parse_show_dec. reflexivity.
Qed.

Theorem composeid_decode a id :
  create_compose_id a = Ok id ->
  ~ In c_nl (cid_prefix a) -> length (c_date a) = 8 -> forallb is_digit (c_date a) = true ->
  (c_respin a < 10 ^ 7)%N ->
  get_date_type_respin id = Ok (Some (c_date a, c_type a, c_respin a)).
Proof.
  intros Hc Hp Hl Hd Hr. unfold create_compose_id, compose_type_suffix in Hc.
  destruct (assoc (c_type a) COMPOSE_TYPE_SUFFIX_FN) as [[sfx|]|] eqn:E; cbn [bind] in Hc; try discriminate.
  injection Hc as <-.
  replace (cid_prefix a ++ c_dash :: c_date a ++ sfx ++ c_dot :: show_dec (c_respin a))
    with ((cid_prefix a ++ [c_dash]) ++ c_date a ++ sfx ++ c_dot :: show_dec (c_respin a))
    by (rewrite <- app_assoc; reflexivity).
  apply decode_tail; try assumption.
  - apply enc_dec_entry. exact E.
  - intros Hin. apply in_app_or in Hin. destruct Hin as [H|[H|[]]]; [tauto|discriminate].
Qed.

(* K1: an 8-digit respin is taken for the date *)
Lemma composeid_decode_refuted :
  exists a id, create_compose_id a = Ok id /\ (c_respin a < 10 ^ 8)%N /\ length (c_date a) = 8 /\
               get_date_type_respin id <> Ok (Some (c_date a, c_type a, c_respin a)).
Proof.
  exists {| r_short := lit "F"; r_version := lit "22"; r_type := Some (lit "ga"); r_layered := false;
            b_short := None; b_version := None; b_type := None; top_variants := [];
            c_date := lit "20150522"; c_type := production; c_respin := 10000000 |}.
  eexists. split; [vm_compute; reflexivity|]. split; [vm_compute; reflexivity|]. split; [reflexivity|].
  vm_compute. discriminate.
Qed.

(* ---------- prefix *)
Lemma cid_prefix_starts a :
  startswith (cid_prefix a) (r_short a ++ c_dash :: r_version a ++ rel_type_suffix (r_type a)) = true.
Proof.
  unfold cid_prefix.
  set (b0 := r_short a ++ c_dash :: r_version a ++ rel_type_suffix (r_type a)).
  set (b1 := if r_layered a then _ else b0).
  assert (H1 : startswith b1 b0 = true).
  { unfold b1. destruct (r_layered a); [|rewrite <- (app_nil_r b0) at 1; apply startswith_app].
    apply startswith_app. }
  assert (H2 : forall v, startswith (b1 ++ c_dash :: v) b0 = true).
  { intros v. apply startswith_spec in H1. destruct H1 as [t ->]. rewrite <- app_assoc. apply startswith_app. }
  destruct (_ && _ && _); [|exact H1].
  destruct (sort_strs (top_variants a)) as [|v l]; [exact H1|].
  destruct (_ || _); [apply H2|exact H1].
Qed.

Theorem composeid_prefix a id :
  create_compose_id a = Ok id ->
  startswith id (r_short a ++ c_dash :: r_version a ++ rel_type_suffix (r_type a)) = true.
Proof.
  unfold create_compose_id. destruct (compose_type_suffix (c_type a)) as [sfx|e]; cbn [bind]; [|discriminate].
  intros H; injection H as <-. pose proof (cid_prefix_starts a) as Hs.
  apply startswith_spec in Hs. destruct Hs as [t ->]. rewrite <- app_assoc. apply startswith_app.
Qed.

(* ---------- the id passes the library's own compose-id pattern *)
Fixpoint nullable (r : re) : bool :=
  match r with
  | Eps | Star _ => true
  | Cat a b => nullable a && nullable b
  | Alt a b => nullable a || nullable b
  | Grp _ a => nullable a
  | _ => false
  end.

Lemma mt_nullable r : nullable r = true -> forall pos rest, mt r pos [] rest.
Proof.
  induction r as [|cs|a IHa b IHb|a IHa b IHb|a IHa| | |n a IHa|]; cbn [nullable]; intros H pos rest; try discriminate.
  - constructor.
  - apply andb_true_iff in H. destruct H as [Ha Hb].
    change (@nil chr) with (@nil chr ++ []). constructor; [apply IHa; exact Ha|apply IHb; exact Hb].
  - apply orb_true_iff in H. destruct H as [H|H]; [apply mt_altl; apply IHa; exact H|apply mt_altr; apply IHb; exact H].
  - constructor.
  - constructor. apply IHa. exact H.
Qed.

Lemma mt_star_any p pos rest : ~ In c_nl p -> mt (Star (Cls any_but_nl)) pos p rest.
Proof.
  revert pos; induction p as [|x p IH]; intros pos H; [constructor|].
  change (x :: p) with ([x] ++ p). apply mt_star1; [discriminate| |].
  - constructor. unfold any_but_nl, cs_mem, in_ranges. cbn [existsb fst snd].
    assert (x <> c_nl) by (intros ->; apply H; left; reflexivity). unfold c_nl in *.
    destruct (N.leb_spec 10 x), (N.leb_spec x 10); cbn; try reflexivity. lia.
  - apply IH. intros Hin. apply H. right. exact Hin.
Qed.

Definition dg : re := Cls (CS false [(48, 57)%N]).
Definition digits8 : re := Cat dg (Cat dg (Cat dg (Cat dg (Cat dg (Cat dg (Cat dg dg)))))).

Lemma mt_dg x pos rest : is_digit x = true -> mt dg pos [x] rest.
Proof.
  intros H. constructor. unfold cs_mem, in_ranges. cbn [existsb fst snd xorb]. unfold is_digit in H.
  rewrite H. reflexivity.
Qed.

Lemma mt_digits8 d pos rest : length d = 8 -> forallb is_digit d = true -> mt digits8 pos d rest.
Proof.
  intros Hl Hd.
  destruct d as [|d1 [|d2 [|d3 [|d4 [|d5 [|d6 [|d7 [|d8 [|]]]]]]]]]; try discriminate.
  cbn [forallb] in Hd. rewrite !andb_true_iff in Hd.
  destruct Hd as (H1 & H2 & H3 & H4 & H5 & H6 & H7 & H8 & _).
  unfold digits8.
  change [d1; d2; d3; d4; d5; d6; d7; d8] with ([d1] ++ [d2] ++ [d3] ++ [d4] ++ [d5] ++ [d6] ++ [d7] ++ [d8]).
  repeat (apply mt_cat; [apply mt_dg; assumption|]). apply mt_dg. assumption.
Qed.

Lemma compose_id_re_shape :
  exists tl, re_compose_id = Cat (Star (Cls any_but_nl)) (Cat digits8 tl) /\ nullable tl = true.
Proof. eexists. split; [reflexivity|vm_compute; reflexivity]. Qed.

Theorem composeid_self_valid a id :
  create_compose_id a = Ok id ->
  ~ In c_nl (cid_prefix a) -> length (c_date a) = 8 -> forallb is_digit (c_date a) = true ->
  compose_id_valid id = true.
Proof.
  intros Hc Hp Hl Hd. unfold create_compose_id in Hc.
  destruct (compose_type_suffix (c_type a)) as [sfx|e]; cbn [bind] in Hc; [|discriminate]. injection Hc as <-.
  unfold compose_id_valid. apply re_matches_iff.
  destruct compose_id_re_shape as (tlr & -> & Hn).
  exists ((cid_prefix a ++ [c_dash]) ++ c_date a ++ []), (sfx ++ c_dot :: show_dec (c_respin a)).
  split; [rewrite app_nil_r, <- !app_assoc; reflexivity|].
  apply mt_cat.
  - apply mt_star_any. intros Hin. apply in_app_or in Hin. destruct Hin as [H|[H|[]]]; [tauto|discriminate].
  - apply mt_cat; [apply mt_digits8; assumption|apply mt_nullable; exact Hn].
Qed.

(* ---------- documented suffix table *)
Definition doc_suffixes : list (str * str) :=
  [ (lit "n", lit "nightly"); (lit "nightly", lit "nightly"); (lit "t", lit "test"); (lit "test", lit "test");
    (lit "ci", lit "ci"); (lit "d", lit "development") ].

Lemma suffix_table_complete :
  forallb (fun p => match assoc (fst p) COMPOSE_TYPE_SUFFIXES with Some t => str_eqb t (snd p) | None => false end) doc_suffixes = true /\
  forallb (fun p => mem_str (fst p) (map fst doc_suffixes)) COMPOSE_TYPE_SUFFIXES = true.
Proof. vm_compute. auto. Qed.

Lemma decode_unknown_suffix pre date lw rest :
  ~ In c_nl pre -> length date = 8 -> forallb is_digit date = true ->
  lw <> [] -> forallb is_lower lw = true ->
  (match rest with [] => True | y :: _ => is_lower y = false end) -> ~ In c_nl rest ->
  find_last (tl (date ++ c_dot :: lw ++ rest)) = None ->
  assoc lw COMPOSE_TYPE_SUFFIXES = None ->
  get_date_type_respin (pre ++ date ++ c_dot :: lw ++ rest) = Err ValueError.
Proof.
  intros Hpre Hlen Hdig Hlwn Hlw Hrest Hrnl Hnone Has.
  unfold get_date_type_respin. rewrite first_line_nonl.
  2:{ intros Hin. apply in_app_or in Hin. destruct Hin as [H|H]; [tauto|]. apply in_app_or in H.
      destruct H as [H|[H|H]].
      - rewrite forallb_forall in Hdig. specialize (Hdig _ H). cbv in Hdig. discriminate.
      - discriminate.
      - apply in_app_or in H. destruct H as [H|H]; [|tauto].
        rewrite forallb_forall in Hlw. specialize (Hlw _ H). cbv in Hlw. discriminate. }
  assert (Hwin : win8 (date ++ c_dot :: lw ++ rest) = true) by (apply win8_date; assumption).
  rewrite (find_last_prefix pre _ Hwin Hnone).
  rewrite (skipn8_date date _ Hlen). rewrite (decode_type_lower lw rest Hlwn Hlw Hrest), Has. reflexivity.
Qed.
