From PM Require Import Base.PyVal Base.Regex Model.Nvra Model.Manifests Gen.Tables.

Lemma assoc_upd_same {A} k (f : option A -> A) l : assoc k (upd k f l) = Some (f (assoc k l)).
Proof.
  induction l as [|[k' v] l IH]; cbn [upd assoc].
  - rewrite str_eqb_refl. reflexivity.
  - destruct (str_eqb_spec k k') as [->|Hn]; cbn [assoc].
    + rewrite str_eqb_refl. reflexivity.
    + apply str_eqb_neq in Hn. rewrite Hn. exact IH.
Qed.

Lemma assoc_upd_other {A} k k' (f : option A -> A) l : k <> k' -> assoc k' (upd k f l) = assoc k' l.
Proof.
  intros Hn. induction l as [|[k2 v] l IH]; cbn [upd assoc].
  - destruct (str_eqb_spec k' k) as [->|_]; [congruence|reflexivity].
  - destruct (str_eqb_spec k k2) as [->|Hk]; cbn [assoc].
    + destruct (str_eqb_spec k' k2) as [->|_]; [congruence|reflexivity].
    + destruct (str_eqb k' k2); [reflexivity|exact IH].
Qed.

Lemma bind_ok {A B} (r : result A) (f : A -> result B) y : bind r f = Ok y -> exists x, r = Ok x /\ f x = Ok y.
Proof. destruct r as [x|e]; cbn; [eauto|discriminate]. Qed.

Lemma bind_err {A B} (r : result A) (f : A -> result B) e :
  bind r f = Err e -> r = Err e \/ exists x, r = Ok x /\ f x = Err e.
Proof. destruct r as [x|e']; cbn; [eauto|intros H; injection H as ->; auto]. Qed.

Lemma guard_ok b e : guard b e = Ok tt <-> b = true.
Proof. destruct b; cbn; split; congruence. Qed.

Lemma guard_ok' b e u : guard b e = Ok u -> b = true.
Proof. destruct b; cbn; congruence. Qed.

Lemma guard_err b e e' : guard b e = Err e' -> e' = e.
Proof. destruct b; cbn; congruence. Qed.

Lemma check_nevra_err s e : check_nevra s = Err e -> e = ValueError.
Proof.
  unfold check_nevra. destruct (memc c_colon s); [|congruence].
  unfold parse_nvra. destruct (match_nvra _); cbn; congruence.
Qed.

(* ---------------- rpms *)
Definition srpm_key (nevra_c : str) (srpm : option str) : result str :=
  match srpm with
  | Some (x :: xs) => do sp <- check_nevra (x :: xs); Ok (fst sp)
  | _ => Ok nevra_c
  end.

Definition rpms_pre (arch nevra path category : str) (srpm : option str) : bool :=
  mem_str arch RPM_ARCHES && negb (is_src_arch arch) && mem_str category SUPPORTED_CATEGORIES &&
  negb (startswith path [c_slash]) &&
  match check_nevra nevra with
  | Err _ => false
  | Ok (nc, nd) =>
      negb (str_eqb category s_source && match srpm with Some _ => true | None => false end) &&
      negb (negb (str_eqb category s_source) && match srpm with Some _ => false | None => true end) &&
      Bool.eqb (str_eqb category s_source) (is_src_arch (n_arch nd)) &&
      match srpm_key nc srpm with Ok _ => true | Err _ => false end
  end.

Tactic Notation "inv_bind" hyp(H) "as" simple_intropattern(x) ident(G) :=
  apply bind_ok in H; destruct H as (x & G & H).
Tactic Notation "inv_guard" hyp(H) "as" ident(G) :=
  apply bind_ok in H; destruct H as (? & G & H); apply guard_ok' in G.

Theorem rpms_add_refines m v a n p sg c sr m' :
  rpms_add m v a n p sg c sr = Ok m' ->
  exists nc nd sc,
    check_nevra n = Ok (nc, nd) /\ srpm_key nc sr = Ok sc /\ rpms_pre a n p c sr = true /\
    rpms_get m' v a sc nc = Some {| e_sigkey := option_map lower sg; e_path := p; e_category := c |} /\
    forall v' a' s' r', (v', a', s', r') <> (v, a, sc, nc) -> rpms_get m' v' a' s' r' = rpms_get m v' a' s' r'.
Proof.
  unfold rpms_add. intros H.
  inv_guard H as G. inv_guard H as G0. inv_guard H as G1. inv_guard H as G2.
  inv_bind H as [nc nd] G3.
  inv_guard H as G4. inv_guard H as G5. inv_guard H as G6.
  inv_bind H as sc G7. fold (srpm_key nc sr) in G7. injection H as <-.
  exists nc, nd, sc. split; [exact G3|]. split; [exact G7|]. split.
  - unfold rpms_pre. rewrite G, G0, G1, G2, G3, G4, G5, G6, G7. reflexivity.
  - split.
    + unfold rpms_get. rewrite assoc_upd_same. rewrite assoc_upd_same. rewrite assoc_upd_same. rewrite assoc_upd_same. reflexivity.
    + intros v' a' s' r' Hne. unfold rpms_get.
      destruct (str_eq_dec v v') as [<-|Hv]; [|rewrite (assoc_upd_other v v') by exact Hv; reflexivity].
      rewrite assoc_upd_same. destruct (assoc v m) as [ma|] eqn:Ev; cbn [dflt].
      * destruct (str_eq_dec a a') as [<-|Ha]; [|rewrite (assoc_upd_other a a') by exact Ha; reflexivity].
        rewrite assoc_upd_same. destruct (assoc a ma) as [ms|] eqn:Ea; cbn [dflt].
        -- destruct (str_eq_dec sc s') as [<-|Hs]; [|rewrite (assoc_upd_other sc s') by exact Hs; reflexivity].
           rewrite assoc_upd_same. destruct (assoc sc ms) as [mr|] eqn:Es; cbn [dflt].
           ++ destruct (str_eq_dec nc r') as [<-|Hr]; [congruence|]. rewrite (assoc_upd_other nc r') by exact Hr. reflexivity.
           ++ destruct (str_eq_dec nc r') as [<-|Hr]; [congruence|]. rewrite (assoc_upd_other nc r') by exact Hr. reflexivity.
        -- destruct (str_eq_dec sc s') as [<-|Hs]; [|rewrite (assoc_upd_other sc s') by exact Hs; reflexivity].
           rewrite assoc_upd_same. cbn [assoc dflt].
           destruct (str_eq_dec nc r') as [<-|Hr]; [congruence|]. rewrite (assoc_upd_other nc r') by exact Hr. reflexivity.
      * destruct (str_eq_dec a a') as [<-|Ha]; [|rewrite (assoc_upd_other a a') by exact Ha; reflexivity].
        rewrite assoc_upd_same. cbn [assoc dflt].
        destruct (str_eq_dec sc s') as [<-|Hs]; [|rewrite (assoc_upd_other sc s') by exact Hs; reflexivity].
        rewrite assoc_upd_same. cbn [assoc dflt].
        destruct (str_eq_dec nc r') as [<-|Hr]; [congruence|]. rewrite (assoc_upd_other nc r') by exact Hr. reflexivity.
Qed.

Theorem rpms_add_accepts_iff m v a n p sg c sr :
  (exists m', rpms_add m v a n p sg c sr = Ok m') <-> rpms_pre a n p c sr = true.
Proof.
  split.
  - intros [m' H]. destruct (rpms_add_refines _ _ _ _ _ _ _ _ _ H) as (nc & nd & sc & _ & _ & Hp & _). exact Hp.
  - unfold rpms_pre, rpms_add. intros H. rewrite !andb_true_iff in H. destruct H as [[[[H1 H2] H3] H4] H5].
    rewrite H1, H2, H3, H4. cbn [guard bind].
    destruct (check_nevra n) as [[nc nd]|e]; [|discriminate]. cbn [bind].
    rewrite !andb_true_iff in H5. destruct H5 as [[[H5 H6] H7] H8]. rewrite H5, H6, H7. cbn [guard bind].
    fold (srpm_key nc sr). destruct (srpm_key nc sr) as [sc|e]; [|discriminate]. cbn [bind]. eauto.
Qed.

Theorem rpms_add_refusal_class m v a n p sg c sr e :
  rpms_add m v a n p sg c sr = Err e -> e = ValueError.
Proof.
  unfold rpms_add. intros H.
  repeat (apply bind_err in H; destruct H as [H|(? & _ & H)]; [apply guard_err in H; exact H|]).
  apply bind_err in H. destruct H as [H|([nc nd] & _ & H)]; [apply check_nevra_err in H; exact H|].
  repeat (apply bind_err in H; destruct H as [H|(? & _ & H)]; [apply guard_err in H; exact H|]).
  apply bind_err in H. destruct H as [H|(? & _ & H)]; [|discriminate].
  destruct sr as [[|ch0 chs]|]; try discriminate.
  apply bind_err in H. destruct H as [H|(? & _ & H)]; [apply check_nevra_err in H; exact H|discriminate].
Qed.

(* ---------------- modules *)
Definition modules_get (m : modules_t) (v a u : str) : option mod_entry :=
  match assoc v m with
  | None => None
  | Some ma => match assoc a ma with None => None | Some mu => assoc u mu end
  end.

Theorem modules_add_refines m v a uid kt mp c rl m' :
  modules_add m v a uid kt mp c rl = Ok m' ->
  exists uc name stream version context rpms,
    check_uid uid = Ok (uc, (name, stream, version, context)) /\ rl = Some rpms /\
    v <> [] /\ kt <> [] /\ mp <> [] /\ startswith mp [c_slash] = false /\
    mem_str a MODULES_ARCHES = true /\ mem_str c MODULES_CATEGORIES = true /\
    (exists e, modules_get m' v a uc = Some e /\
       md_uid e = uc /\ md_name e = name /\ md_stream e = stream /\ md_version e = version /\ md_context e = context /\
       md_koji_tag e = kt /\ assoc c (md_paths e) = Some mp /\
       (forall c', c' <> c -> assoc c' (md_paths e) = match modules_get m v a uc with Some o => assoc c' (md_paths o) | None => None end) /\
       md_rpms e = (match modules_get m v a uc with Some o => md_rpms o | None => [] end) ++ rpms) /\
    forall v' a' u', (v', a', u') <> (v, a, uc) -> modules_get m' v' a' u' = modules_get m v' a' u'.
Proof.
  unfold modules_add. intros H.
  inv_guard H as G. inv_guard H as G0. inv_guard H as G1.
  inv_bind H as [uc [[[name stream] version] context]] G2.
  inv_guard H as G3. inv_guard H as G4. inv_guard H as G5.
  inv_bind H as rpms0 G6. destruct rl as [rpms|]; [|discriminate]. injection G6 as <-. injection H as <-.
  exists uc, name, stream, version, context, rpms.
  split; [exact G2|]. split; [reflexivity|].
  split; [destruct v; [discriminate|discriminate]|]. split; [destruct kt; [discriminate|discriminate]|].
  split; [destruct mp; [discriminate|discriminate]|]. split; [apply negb_true_iff; exact G3|].
  split; [exact G0|]. split; [exact G1|]. split.
  - eexists. split.
    + unfold modules_get. rewrite !assoc_upd_same. reflexivity.
    + cbn [md_uid md_name md_stream md_version md_context md_koji_tag md_paths md_rpms].
      repeat (split; [reflexivity|]).
      assert (Hold : assoc uc (dflt [] (assoc a (dflt [] (assoc v m)))) = modules_get m v a uc).
      { unfold modules_get. destruct (assoc v m) as [ma|]; cbn [dflt assoc]; [|reflexivity].
        destruct (assoc a ma); reflexivity. }
      rewrite Hold. split; [apply assoc_set_same|]. split.
      * intros c' Hc'. rewrite assoc_set_other by congruence. destruct (modules_get m v a uc); reflexivity.
      * destruct (modules_get m v a uc); reflexivity.
  - intros v' a' u' Hne. unfold modules_get.
    destruct (str_eq_dec v v') as [<-|Hv]; [|rewrite (assoc_upd_other v v') by exact Hv; reflexivity].
    rewrite assoc_upd_same. destruct (assoc v m) as [ma|] eqn:Ev; cbn [dflt].
    + destruct (str_eq_dec a a') as [<-|Ha]; [|rewrite (assoc_upd_other a a') by exact Ha; reflexivity].
      rewrite assoc_upd_same. destruct (assoc a ma) as [mu|] eqn:Ea; cbn [dflt].
      * destruct (str_eq_dec uc u') as [<-|Hu]; [congruence|]. rewrite (assoc_upd_other uc u') by exact Hu. reflexivity.
      * destruct (str_eq_dec uc u') as [<-|Hu]; [congruence|]. rewrite (assoc_upd_other uc u') by exact Hu. reflexivity.
    + destruct (str_eq_dec a a') as [<-|Ha]; [|rewrite (assoc_upd_other a a') by exact Ha; reflexivity].
      rewrite assoc_upd_same. cbn [assoc dflt].
      destruct (str_eq_dec uc u') as [<-|Hu]; [congruence|]. rewrite (assoc_upd_other uc u') by exact Hu. reflexivity.
Qed.

Lemma check_uid_err s e : check_uid s = Err e -> e = ValueError.
Proof.
  unfold check_uid. destruct (memc c_colon s); [|congruence].
  unfold parse_uid. destruct (re_match _ _); cbn [bind]; [discriminate|congruence].
Qed.

Theorem modules_add_refusal_class m v a uid kt mp c rl e :
  modules_add m v a uid kt mp c rl = Err e -> e = ValueError.
Proof.
  unfold modules_add. intros H.
  repeat (apply bind_err in H; destruct H as [H|(? & _ & H)]; [apply guard_err in H; exact H|]).
  apply bind_err in H. destruct H as [H|([uc [[[name stream] version] context]] & _ & H)]; [apply check_uid_err in H; exact H|].
  repeat (apply bind_err in H; destruct H as [H|(? & _ & H)]; [apply guard_err in H; exact H|]).
  apply bind_err in H. destruct H as [H|(? & _ & H)]; [|discriminate].
  destruct rl; cbn in H; congruence.
Qed.

(* ---------------- extra files *)
Definition extra_get (m : extra_t) (v a : str) : list extra_entry :=
  match assoc v m with
  | None => []
  | Some ma => dflt [] (assoc a ma)
  end.

Theorem extra_add_refines m v a p sz cs m' :
  extra_add m v a p sz cs = Ok m' ->
  exists c, cs = Some c /\ v <> [] /\ p <> [] /\ startswith p [c_slash] = false /\ mem_str a EXTRA_ARCHES = true /\
    extra_get m' v a = extra_get m v a ++ [{| x_file := p; x_size := sz; x_checksums := c |}] /\
    forall v' a', (v', a') <> (v, a) -> extra_get m' v' a' = extra_get m v' a'.
Proof.
  unfold extra_add. intros H.
  inv_guard H as G. inv_guard H as G0. inv_guard H as G1. inv_guard H as G2.
  inv_bind H as c0 G3. destruct cs as [c|]; [|discriminate]. injection G3 as <-. injection H as <-.
  exists c. split; [reflexivity|]. split; [destruct v; discriminate|]. split; [destruct p; discriminate|].
  split; [apply negb_true_iff; exact G2|]. split; [exact G0|]. split.
  - unfold extra_get. rewrite assoc_upd_same. destruct (assoc v m) as [ma|]; cbn [dflt]; rewrite assoc_upd_same; reflexivity.
  - intros v' a' Hne. unfold extra_get.
    destruct (str_eq_dec v v') as [<-|Hv]; [|rewrite (assoc_upd_other v v') by exact Hv; reflexivity].
    rewrite assoc_upd_same. destruct (assoc v m) as [ma|] eqn:Ev; cbn [dflt].
    + destruct (str_eq_dec a a') as [<-|Ha]; [congruence|]. rewrite (assoc_upd_other a a') by exact Ha. reflexivity.
    + destruct (str_eq_dec a a') as [<-|Ha]; [congruence|]. rewrite (assoc_upd_other a a') by exact Ha. reflexivity.
Qed.

Theorem extra_add_refusal_class m v a p sz cs e :
  extra_add m v a p sz cs = Err e -> e = ValueError \/ e = TypeError.
Proof.
  unfold extra_add. intros H.
  repeat (apply bind_err in H; destruct H as [H|(? & _ & H)]; [apply guard_err in H; left; exact H|]).
  apply bind_err in H. destruct H as [H|(? & _ & H)]; [|discriminate].
  destruct cs; cbn in H; [discriminate|]. right. congruence.
Qed.

(* ---------------- base path stripping on a path-component boundary *)
Lemma strip_right_noslash_end r : (forall r', r <> r' ++ [c_slash]) -> strip_right (fun c => N.eqb c c_slash) r = r.
Proof.
  induction r as [|x r IH]; intros H; [reflexivity|]. cbn [strip_right].
  destruct r as [|y r'].
  - cbn [strip_right]. destruct (N.eqb_spec x c_slash) as [->|_]; [exfalso; apply (H []); reflexivity|reflexivity].
  - rewrite IH; [reflexivity|]. intros r'' E. apply (H (x :: r'')). cbn. rewrite E. reflexivity.
Qed.

Theorem relative_to_strips root p :
  (forall r', root <> r' ++ [c_slash]) -> relative_to (root ++ c_slash :: p) root = p.
Proof.
  intros H. unfold relative_to. rewrite (strip_right_noslash_end root H).
  replace (root ++ c_slash :: p) with ((root ++ [c_slash]) ++ p) by (rewrite <- app_assoc; reflexivity).
  rewrite startswith_app. rewrite skipn_app, skipn_all, Nat.sub_diag. reflexivity.
Qed.

Theorem relative_to_keeps root path :
  startswith path (strip_right (fun c => N.eqb c c_slash) root ++ [c_slash]) = false -> relative_to path root = path.
Proof. intros H. unfold relative_to. rewrite H. reflexivity. Qed.

(* a base path that only textually prefixes the stored path (no component boundary) strips nothing *)
Example relative_to_textual_prefix :
  relative_to (lit "Server/x86_64/os-extra/GPL") (lit "Server/x86_64/os") = lit "Server/x86_64/os-extra/GPL" /\
  relative_to (lit "Server/x86_64/os/GPL") (lit "Server/x86_64/os//") = lit "GPL".
Proof. vm_compute. split; reflexivity. Qed.
