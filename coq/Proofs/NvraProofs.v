From PM Require Import Base.PyVal Model.Nvra Proofs.StrDec.

Lemma after_slashes_noslash b : ~ In c_slash b -> after_slashes b = [].
Proof.
  induction b as [|x b IH]; cbn; intros H; [reflexivity|].
  destruct (N.eqb_spec x c_slash) as [->|Hn]; [exfalso; apply H; left; reflexivity|].
  apply IH. intros Hin; apply H; right; exact Hin.
Qed.

Lemma after_slashes_app d b :
  after_slashes (d ++ c_slash :: b) = map (fun x => x ++ c_slash :: b) (after_slashes d) ++ b :: after_slashes b.
Proof.
  induction d as [|x d IH]; cbn [app after_slashes map].
  - rewrite N.eqb_refl. reflexivity.
  - destruct (N.eqb x c_slash); cbn [map app]; rewrite IH; reflexivity.
Qed.

Lemma first_some_app {A B} (f : A -> option B) l1 l2 :
  first_some f (l1 ++ l2) = match first_some f l1 with Some y => Some y | None => first_some f l2 end.
Proof. induction l1 as [|x l1 IH]; cbn; [reflexivity|]. destruct (f x); [reflexivity|exact IH]. Qed.

Lemma candidates_dir dir b p :
  (dir = [] \/ exists d, dir = d ++ [c_slash]) -> ~ In c_slash b ->
  parse_core b = Some p -> first_some parse_core (candidates (dir ++ b)) = Some p.
Proof.
  intros [->|[d ->]] Hb Hp; unfold candidates.
  - cbn [app]. rewrite after_slashes_noslash by exact Hb. cbn. rewrite Hp. reflexivity.
  - rewrite <- app_assoc. cbn [app]. rewrite after_slashes_app, (after_slashes_noslash b Hb).
    rewrite rev_app_distr. cbn [rev app first_some]. rewrite Hp. reflexivity.
Qed.

Definition fmt (name : str) (eo : option N) (version release arch : str) : str :=
  name ++ [c_dash] ++ (match eo with Some e => show_dec e ++ [c_colon] | None => [] end) ++
  version ++ [c_dash] ++ release ++ [c_dot] ++ arch.

Definition epoch_of (eo : option N) : N := match eo with Some e => e | None => 0 end.

Lemma not_in_app {A} (x : A) a b : ~ In x a -> ~ In x b -> ~ In x (a ++ b).
Proof. intros Ha Hb H. apply in_app_or in H. tauto. Qed.

Lemma parse_core_fmt name eo version release arch :
  ~ In c_dash version -> ~ In c_colon version ->
  ~ In c_dash release -> ~ In c_dot arch ->
  parse_core (fmt name eo version release arch) =
  Some {| n_name := name; n_epoch := epoch_of eo; n_version := version; n_release := release; n_arch := arch |}.
Proof.
  intros Hv Hvc Hr Ha. unfold parse_core, fmt.
  set (ev := (match eo with Some e => show_dec e ++ [c_colon] | None => [] end) ++ version).
  replace (name ++ [c_dash] ++ (match eo with Some e => show_dec e ++ [c_colon] | None => [] end) ++
           version ++ [c_dash] ++ release ++ [c_dot] ++ arch)
    with ((name ++ c_dash :: ev ++ c_dash :: release) ++ c_dot :: arch).
  2:{ unfold ev. repeat (rewrite <- ?app_assoc; cbn [app]). reflexivity. }
  rewrite split_last_app by exact Ha.
  replace (name ++ c_dash :: ev ++ c_dash :: release) with ((name ++ c_dash :: ev) ++ c_dash :: release).
  2:{ repeat (rewrite <- ?app_assoc; cbn [app]). reflexivity. }
  rewrite split_last_app by exact Hr.
  assert (Hev : ~ In c_dash ev).
  { unfold ev. apply not_in_app; [|exact Hv]. destruct eo as [e|]; [|intros []].
    apply not_in_app; [|intros [H|[]]; discriminate].
    intros Hin. pose proof (show_dec_digits e) as Hd. rewrite forallb_forall in Hd.
    specialize (Hd _ Hin). cbv in Hd. discriminate. }
  rewrite split_last_app by exact Hev.
  destruct eo as [e|]; unfold ev; cbn [epoch_of].
  - rewrite <- app_assoc. cbn [app].
    rewrite (span_all is_digit (show_dec e) (c_colon :: version)); [|apply show_dec_digits|reflexivity].
    destruct (show_dec e) as [|d ds] eqn:E; [exfalso; exact (show_dec_nonempty e E)|].
    unfold c_colon. rewrite <- E, parse_show_dec. reflexivity.
  - cbn [app]. pose proof (span_app is_digit version) as Hs.
    destruct (span is_digit version) as [ds rest].
    destruct ds as [|d ds]; [reflexivity|].
    destruct rest as [|x rest]; [reflexivity|].
    destruct (N.eqb_spec x 58) as [->|Hx].
    + exfalso. apply Hvc. rewrite Hs. apply in_or_app. right. left. reflexivity.
    + destruct x as [|px]; [reflexivity|].
      (* x <> 58: the epoch pattern does not apply *)
      repeat (destruct px as [px|px|]; try reflexivity); exfalso; apply Hx; reflexivity.
Qed.

Lemma endswith_dot_arch x arch y :
  ~ In c_dot arch -> ~ In c_dot y -> endswith (x ++ c_dot :: arch) (c_dot :: y) = true -> arch = y.
Proof.
  intros Ha Hy H. apply endswith_spec in H. destruct H as [t Ht].
  pose proof (split_last_app c_dot x arch Ha) as H1.
  rewrite Ht in H1. rewrite (split_last_app c_dot t y Hy) in H1. congruence.
Qed.

Theorem nvra_roundtrip_gen dir name eo version release arch sfx :
  (dir = [] \/ exists d, dir = d ++ [c_slash]) -> ~ In c_nl dir ->
  (sfx = [] \/ sfx = dot_rpm) ->
  ~ In c_slash name -> ~ In c_nl name ->
  ~ In c_dash version -> ~ In c_slash version -> ~ In c_nl version -> ~ In c_colon version ->
  ~ In c_dash release -> ~ In c_slash release -> ~ In c_nl release ->
  ~ In c_dot arch -> ~ In c_slash arch -> ~ In c_nl arch -> arch <> lit "rpm" ->
  parse_nvra (dir ++ fmt name eo version release arch ++ sfx) =
  Ok {| n_name := name; n_epoch := epoch_of eo; n_version := version; n_release := release; n_arch := arch |}.
Proof.
  intros Hdir Hdnl Hsfx Hn1 Hn2 Hv1 Hv2 Hv3 Hv4 Hr1 Hr2 Hr3 Ha1 Ha2 Ha3 Harpm.
  set (b := fmt name eo version release arch).
  assert (Hdig : forall e c, In c (show_dec e) -> is_digit c = true).
  { intros e c Hin. pose proof (show_dec_digits e) as Hd. rewrite forallb_forall in Hd. auto. }
  assert (Hb_nl : ~ In c_nl b).
  { unfold b, fmt. repeat apply not_in_app; try assumption; try (intros [H|[]]; discriminate).
    destruct eo as [e|]; [|intros []]. apply not_in_app; [|intros [H|[]]; discriminate].
    intros Hin. apply Hdig in Hin. cbv in Hin. discriminate. }
  assert (Hb_sl : ~ In c_slash b).
  { unfold b, fmt. repeat apply not_in_app; try assumption; try (intros [H|[]]; discriminate).
    destruct eo as [e|]; [|intros []]. apply not_in_app; [|intros [H|[]]; discriminate].
    intros Hin. apply Hdig in Hin. cbv in Hin. discriminate. }
  assert (Hs1 : (if endswith (dir ++ b ++ sfx) dot_rpm then drop_last 4 (dir ++ b ++ sfx) else dir ++ b ++ sfx) = dir ++ b).
  { destruct Hsfx as [->| ->].
    - rewrite app_nil_r.
      destruct (endswith (dir ++ b) dot_rpm) eqn:E; [|reflexivity]. exfalso.
      unfold b, fmt in E.
      replace (dir ++ name ++ [c_dash] ++ (match eo with Some e => show_dec e ++ [c_colon] | None => [] end) ++
               version ++ [c_dash] ++ release ++ [c_dot] ++ arch)
        with ((dir ++ name ++ [c_dash] ++ (match eo with Some e => show_dec e ++ [c_colon] | None => [] end) ++
               version ++ [c_dash] ++ release) ++ c_dot :: arch) in E
        by (repeat (rewrite <- ?app_assoc; cbn [app]); reflexivity).
      apply Harpm. eapply (endswith_dot_arch _ arch (lit "rpm")); [exact Ha1| |exact E].
      cbv. intros [H|[H|[H|[]]]]; discriminate.
    - rewrite app_assoc. rewrite endswith_app.
      change 4%nat with (length dot_rpm). apply drop_last_app. }
  unfold parse_nvra. fold b. rewrite Hs1.
  assert (Hnl : ~ In c_nl (dir ++ b)) by (apply not_in_app; assumption).
  unfold match_nvra.
  assert (Hstrip : strip_final_nl (dir ++ b) = dir ++ b).
  { unfold strip_final_nl. destruct (endswith (dir ++ b) [c_nl]) eqn:E; [|reflexivity].
    exfalso. apply endswith_spec in E. destruct E as [t Ht]. apply Hnl. rewrite Ht.
    apply in_or_app. right. left. reflexivity. }
  rewrite Hstrip. apply memc_false in Hnl. rewrite Hnl.
  rewrite (candidates_dir dir b _ Hdir Hb_sl (parse_core_fmt name eo version release arch Hv1 Hv4 Hr1 Ha1)).
  reflexivity.
Qed.
