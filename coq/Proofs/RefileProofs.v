(* C10, positive clause: a source image of a <= 1.1 document is filed under EACH binary architecture its variant lists *)
From PM Require Import Base.PyVal Base.Obj Model.Common Model.Images Model.Manifests
     Proofs.ManifestsProofs Proofs.ImagesProofs Proofs.ArchProofs Gen.Tables.

Definition in_cell (c : cells_t) (v a : str) (i : nat) : Prop :=
  exists arches imgs, assoc v c = Some arches /\ assoc a arches = Some imgs /\ In i (map fst imgs).

Lemma set_add_keeps img l i : In i (map fst l) -> In i (map fst (set_add img l)).
Proof.
  induction l as [|x l IH]; cbn [set_add map In]; [tauto|].
  destruct (Nat.eqb (fst x) (fst img)); cbn [map In]; [tauto|]. intros [H|H]; [left; exact H|right; exact (IH H)].
Qed.

(* an accepted add never removes anything from any cell *)
Lemma images_add_mono vt c v' a' img' c' v a i :
  images_add vt c v' a' img' = Ok c' -> in_cell c v a i -> in_cell c' v a i.
Proof.
  intros H (arches & imgs & Hv & Ha & Hi). unfold images_add in H.
  inv_guard H as G1. inv_guard H as G2. inv_guard H as G3. injection H as <-. unfold in_cell.
  destruct (str_eqb_spec v' v) as [->|Hnv].
  - rewrite assoc_upd_same, Hv. cbn [dflt].
    destruct (str_eqb_spec a' a) as [->|Hna].
    + eexists. eexists. split; [reflexivity|]. rewrite assoc_upd_same, Ha. cbn [dflt]. split; [reflexivity|].
      apply set_add_keeps. exact Hi.
    + eexists. exists imgs. split; [reflexivity|]. rewrite (assoc_upd_other _ _ _ _ Hna). split; [exact Ha|exact Hi].
  - exists arches, imgs. rewrite (assoc_upd_other _ _ _ _ Hnv). repeat split; assumption.
Qed.

Definition refile_step (vt : N * N) (variant : str) (img : image) (acc : result cells_t) (a : str) : result cells_t :=
  do c' <- acc; if str_eqb a s_src then Ok c' else images_add vt c' variant a img.

Lemma refile_fold_err vt v img l e : fold_left (refile_step vt v img) l (Err e) = Err e.
Proof. induction l as [|a l IH]; [reflexivity|exact IH]. Qed.

Lemma refile_fold vt v img : forall l c0 c',
  fold_left (refile_step vt v img) l (Ok c0) = Ok c' ->
  (forall v1 a1 i, in_cell c0 v1 a1 i -> in_cell c' v1 a1 i) /\
  (forall a, In a l -> a <> s_src -> in_cell c' v a (fst img)).
Proof.
  induction l as [|a l IH]; intros c0 c' H; cbn [fold_left] in H.
  - injection H as <-. split; [auto|intros a []].
  - unfold refile_step at 2 in H. cbn [bind] in H.
    destruct (str_eqb_spec a s_src) as [->|Hns].
    + destruct (IH _ _ H) as [Hm Hall]. split; [exact Hm|].
      intros a [<-|Hin] Hne; [congruence|exact (Hall a Hin Hne)].
    + destruct (images_add vt c0 v a img) as [c1|e] eqn:E; [|rewrite refile_fold_err in H; discriminate].
      destruct (IH _ _ H) as [Hm Hall]. split.
      * intros v1 a1 i Hc. apply Hm. exact (images_add_mono _ _ _ _ _ _ _ _ _ E Hc).
      * intros a2 [<-|Hin] Hne; [|exact (Hall a2 Hin Hne)].
        apply Hm. destruct (in_cell_after_add _ _ _ _ _ _ E) as (ar & im & H1 & H2 & H3). exists ar, im. auto.
Qed.

Theorem add_loaded_refiles vt doc_arches c v img c' :
  vt_leb vt (1, 1) = true -> add_loaded vt doc_arches c v s_src img = Ok c' ->
  (forall a, In a doc_arches -> a <> s_src -> in_cell c' v a (fst img)) /\
  (forall v1 a1 i, in_cell c v1 a1 i -> in_cell c' v1 a1 i).
Proof.
  intros Hvt H. unfold add_loaded in H. rewrite Hvt in H.
  replace (str_eqb s_src s_src) with true in H by (symmetry; apply str_eqb_refl).
  change (fold_left (refile_step vt v img) doc_arches (Ok c) = Ok c') in H.
  destruct (refile_fold _ _ _ _ _ _ H) as [Hm Hall]. split; assumption.
Qed.

(* ... and nowhere under 'src' itself: with C10_add_loaded_arch_ok the result has no source architecture key at all *)
Theorem add_loaded_other vt doc_arches c v a img c' :
  a <> s_src \/ vt_leb vt (1, 1) = false -> add_loaded vt doc_arches c v a img = Ok c' -> images_add vt c v a img = Ok c'.
Proof.
  intros Hc H. unfold add_loaded in H. destruct (vt_leb vt (1, 1)); [|exact H].
  destruct (str_eqb_spec a s_src) as [->|_]; [|exact H]. destruct Hc as [Hc|Hc]; congruence.
Qed.

(* ------------------------------------------------------------------ rpms, format 0.3 *)
From PM Require Import Model.ManifestDocs Model.Nvra.

Lemma fold_res_est {A S} (P : S -> Prop) (step : result S -> A -> result S) (l : list A) x0 :
  In x0 l ->
  (forall acc x s', (forall s, acc = Ok s -> P s) -> step acc x = Ok s' -> P s') ->
  (forall acc s', step acc x0 = Ok s' -> P s') ->
  forall acc s', fold_left step l acc = Ok s' -> P s'.
Proof.
  intros Hin Hmono Hest. induction l as [|x l IH]; [destruct Hin|]. intros acc s' H. cbn [fold_left] in H.
  destruct Hin as [->|Hin].
  - revert H. apply (fold_res_inv P step l Hmono). intros s Hs. exact (Hest acc s Hs).
  - exact (IH Hin _ _ H).
Qed.

Definition present (m : rpms_t) (v a s r : str) : Prop := rpms_get m v a s r <> None.

Lemma rpms_add_present m v' a' n p sg c sr m' v a s r :
  rpms_add m v' a' n p sg c sr = Ok m' -> present m v a s r -> present m' v a s r.
Proof.
  intros H Hp. destruct (rpms_add_refines _ _ _ _ _ _ _ _ _ H) as (nc & nd & sc & _ & _ & _ & Hget & Hother).
  unfold present in *.
  destruct (str_eq_dec v v') as [->|Hv]; [|rewrite Hother by congruence; exact Hp].
  destruct (str_eq_dec a a') as [->|Ha]; [|rewrite Hother by congruence; exact Hp].
  destruct (str_eq_dec s sc) as [->|Hs]; [|rewrite Hother by congruence; exact Hp].
  destruct (str_eq_dec r nc) as [->|Hr]; [|rewrite Hother by congruence; exact Hp].
  rewrite Hget. discriminate.
Qed.

(* the source package's own entry: filed under its canonical name, keyed by itself *)
Lemma rpms_add_source_present m v a n p sg m' :
  rpms_add m v a n p sg s_source None = Ok m' ->
  exists sc nd, check_nevra n = Ok (sc, nd) /\ present m' v a sc sc.
Proof.
  intros H. destruct (rpms_add_refines _ _ _ _ _ _ _ _ _ H) as (nc & nd & sc & Hc & Hk & _ & Hget & _).
  cbn [srpm_key] in Hk. injection Hk as <-. exists nc, nd. split; [exact Hc|]. unfold present. rewrite Hget. discriminate.
Qed.

Definition src_filed (sr v a : str) (m : rpms_t) : Prop := exists sc nd, check_nevra sr = Ok (sc, nd) /\ present m v a sc sc.

Lemma rpms_add_src_filed sr v a m v' a' n p sg c s m' :
  rpms_add m v' a' n p sg c s = Ok m' -> src_filed sr v a m -> src_filed sr v a m'.
Proof. intros H (sc & nd & Hc & Hp). exists sc, nd. split; [exact Hc|exact (rpms_add_present _ _ _ _ _ _ _ _ _ _ _ _ _ H Hp)]. Qed.

Theorem rpms_03_refiles man m :
  deser_rpms_0_3 man = Ok m ->
  forall variants v vd arches a ad srpms sr rd srctab sd rpms,
    items man = Ok variants -> In (v, vd) variants ->
    items vd = Ok arches -> In (a, ad) arches -> a <> s_src ->
    items ad = Ok srpms -> In (sr, rd) srpms ->
    dget_default vd s_src (PDict []) = Ok srctab -> dget_default srctab sr PNone = Ok sd -> sd <> PNone ->
    items rd = Ok rpms -> rpms <> [] ->
    src_filed sr v a m.
Proof.
  unfold deser_rpms_0_3. intros H variants v vd arches a ad srpms sr rd srctab sd rpms
    Hman Hv Hvd Ha Hns Had Hsr Htab Hsd Hsdn Hrd Hne.
  rewrite Hman in H. cbn [bind] in H. revert H.
  (* the four loops share one monotonicity argument *)
  assert (M4 : forall (va aa sr0 : str * pyval) (sd0 : pyval) acc4 (rp : str * pyval) s4,
     (forall s, acc4 = Ok s -> src_filed sr v a s) ->
     (do m4 <- acc4;
      do ty <- dget (snd rp) (F"type");
      let cat := if py_eq ty (PStr (F"package")) then PStr (F"binary") else ty in
      do cat_s <- match cat with PStr s => Ok s | _ => Err ValueError end;
      do path0 <- dget (snd rp) (F"path"); do path <- get_str_r path0;
      do sig0 <- dget (snd rp) (F"sigkey"); do sig <- get_ostr_r sig0;
      do m5 <- rpms_add m4 (fst va) (fst aa) (fst rp) path sig cat_s (Some (fst sr0));
      match sd0 with
      | PNone => Ok m5
      | sd1 => do spath0 <- dget sd1 (F"path"); do spath <- get_str_r spath0;
               do ssig0 <- dget sd1 (F"sigkey"); do ssig <- get_ostr_r ssig0;
               rpms_add m5 (fst va) (fst aa) (fst sr0) spath ssig s_source None
      end) = Ok s4 -> src_filed sr v a s4).
  { intros va aa sr0 sd0 acc4 rp s4 Hacc H. destruct acc4 as [m4|e]; cbn [bind] in H; [|discriminate].
    inv_bind H as ty G4. inv_bind H as cat_s G5. inv_bind H as path0 G6. inv_bind H as path G7.
    inv_bind H as sig0 G8. inv_bind H as sig G9. inv_bind H as m5 G10.
    pose proof (rpms_add_src_filed sr v a _ _ _ _ _ _ _ _ _ G10 (Hacc m4 eq_refl)) as H5.
    destruct sd0; try (injection H as <-; exact H5);
      (inv_bind H as spath0 K1; inv_bind H as spath K2; inv_bind H as ssig0 K3; inv_bind H as ssig K4;
       exact (rpms_add_src_filed sr v a _ _ _ _ _ _ _ _ _ H H5)). }
  assert (M3 : forall (va aa : str * pyval) acc3 (sr0 : str * pyval) s3,
     (forall s, acc3 = Ok s -> src_filed sr v a s) ->
     (do m3 <- acc3;
      do srctab <- dget_default (snd va) s_src (PDict []);
      do srpm_data <- dget_default srctab (fst sr0) PNone;
      do rpms <- items (snd sr0);
      fold_left (fun acc4 rp =>
          do m4 <- acc4;
          do ty <- dget (snd rp) (F"type");
          let cat := if py_eq ty (PStr (F"package")) then PStr (F"binary") else ty in
          do cat_s <- match cat with PStr s => Ok s | _ => Err ValueError end;
          do path0 <- dget (snd rp) (F"path"); do path <- get_str_r path0;
          do sig0 <- dget (snd rp) (F"sigkey"); do sig <- get_ostr_r sig0;
          do m5 <- rpms_add m4 (fst va) (fst aa) (fst rp) path sig cat_s (Some (fst sr0));
          match srpm_data with
          | PNone => Ok m5
          | sd1 => do spath0 <- dget sd1 (F"path"); do spath <- get_str_r spath0;
                   do ssig0 <- dget sd1 (F"sigkey"); do ssig <- get_ostr_r ssig0;
                   rpms_add m5 (fst va) (fst aa) (fst sr0) spath ssig s_source None
          end) rpms (Ok m3)) = Ok s3 -> src_filed sr v a s3).
  { intros va aa acc3 sr0 s3 Hacc H. destruct acc3 as [m3|e]; cbn [bind] in H; [|discriminate].
    inv_bind H as srctab0 G1. inv_bind H as sd0 G2. inv_bind H as rpms0 G3. revert H.
    apply (fold_res_inv (src_filed sr v a)); [|intros s E; injection E as <-; exact (Hacc m3 eq_refl)].
    intros acc4 rp s4 Hacc4 H. exact (M4 va aa sr0 sd0 acc4 rp s4 Hacc4 H). }
  (* level 1: the variant *)
  apply (fold_res_est (src_filed sr v a) _ variants (v, vd) Hv).
  - intros acc va s' Hacc H. destruct acc as [m0|e]; cbn [bind] in H; [|discriminate].
    inv_bind H as arches0 Ga. revert H.
    apply (fold_res_inv (src_filed sr v a)); [|intros s E; injection E as <-; exact (Hacc m0 eq_refl)].
    intros acc2 aa s2 Hacc2 H. destruct acc2 as [m2|e]; cbn [bind] in H; [|discriminate].
    destruct (str_eqb (fst aa) s_src); [injection H as <-; exact (Hacc2 m2 eq_refl)|].
    inv_bind H as srpms0 Gs. revert H.
    apply (fold_res_inv (src_filed sr v a)); [|intros s E; injection E as <-; exact (Hacc2 m2 eq_refl)].
    intros acc3 sr0 s3 Hacc3 H. exact (M3 va aa acc3 sr0 s3 Hacc3 H).
  - (* the variant itself *)
    intros acc s' H. destruct acc as [m0|e]; cbn [bind] in H; [|discriminate]. cbn [snd fst] in H.
    rewrite Hvd in H. cbn [bind] in H. revert H.
    apply (fold_res_est (src_filed sr v a) _ arches (a, ad) Ha).
    + intros acc2 aa s2 Hacc2 H. destruct acc2 as [m2|e]; cbn [bind] in H; [|discriminate].
      destruct (str_eqb (fst aa) s_src); [injection H as <-; exact (Hacc2 m2 eq_refl)|].
      inv_bind H as srpms0 Gs. revert H.
      apply (fold_res_inv (src_filed sr v a)); [|intros s E; injection E as <-; exact (Hacc2 m2 eq_refl)].
      intros acc3 sr0 s3 Hacc3 H. exact (M3 (v, vd) aa acc3 sr0 s3 Hacc3 H).
    + intros acc2 s2 H. destruct acc2 as [m2|e]; cbn [bind] in H; [|discriminate]. cbn [snd fst] in H.
      destruct (str_eqb_spec a s_src) as [E|_]; [congruence|].
      rewrite Had in H. cbn [bind] in H. revert H.
      apply (fold_res_est (src_filed sr v a) _ srpms (sr, rd) Hsr).
      * intros acc3 sr0 s3 Hacc3 H. exact (M3 (v, vd) (a, ad) acc3 sr0 s3 Hacc3 H).
      * intros acc3 s3 H. destruct acc3 as [m3|e]; cbn [bind] in H; [|discriminate]. cbn [snd fst] in H.
        rewrite Htab in H. cbn [bind] in H. rewrite Hsd in H. cbn [bind] in H. rewrite Hrd in H. cbn [bind] in H.
        destruct rpms as [|rp0 rpms']; [congruence|]. revert H.
        apply (fold_res_est (src_filed sr v a) _ (rp0 :: rpms') rp0 (or_introl eq_refl)).
        -- intros acc4 rp s4 Hacc4 H. exact (M4 (v, vd) (a, ad) (sr, rd) sd acc4 rp s4 Hacc4 H).
        -- intros acc4 s4 H. destruct acc4 as [m4|e]; cbn [bind] in H; [|discriminate]. cbn [snd fst] in H.
           inv_bind H as ty G4. inv_bind H as cat_s G5. inv_bind H as path0 G6. inv_bind H as path G7.
           inv_bind H as sig0 G8. inv_bind H as sig G9. inv_bind H as m5 G10.
           destruct sd; try congruence;
             (inv_bind H as spath0 K1; inv_bind H as spath K2; inv_bind H as ssig0 K3; inv_bind H as ssig K4;
              exact (rpms_add_source_present _ _ _ _ _ _ _ H)).
Qed.

(* the hypotheses are satisfiable: a 0.3 manifest with one binary package and its source package *)
Definition ex_rpm (p : str) : pyval := PDict [(F"path", PStr p); (F"sigkey", PNone); (F"type", PStr (F"package"))].
Definition ex_03 : pyval :=
  PDict [(F"Server", PDict [
    (F"x86_64", PDict [(F"bash-0:5.1-2.el9.src.rpm", PDict [(F"bash-0:5.1-2.el9.x86_64.rpm", ex_rpm (F"Server/x86_64/os/Packages/bash.rpm"))])]);
    (F"src", PDict [(F"bash-0:5.1-2.el9.src.rpm", PDict [(F"path", PStr (F"Server/source/SRPMS/bash.src.rpm")); (F"sigkey", PNone); (F"type", PStr (F"source"))])])])].

Example rpms_03_refiles_nonvacuous :
  exists mm : rpms_t,
    deser_rpms_0_3 ex_03 = Ok mm /\
    rpms_get mm (F"Server") (F"x86_64") (F"bash-0:5.1-2.el9.src") (F"bash-0:5.1-2.el9.src") <> None /\
    assoc (F"src") (dflt [] (assoc (F"Server") mm)) = None.
Proof. eexists. split; [vm_compute; reflexivity|]. split; [vm_compute; discriminate|vm_compute; reflexivity]. Qed.
