(* C09: a loaded images manifest of format >= 1.1 holds no two images of one identity with different checksums - every image
   of the document went through add, so a document containing such a pair is rejected *)
From PM Require Import Base.PyVal Base.Obj Model.Common Model.Images Model.Manifests
     Proofs.ManifestsProofs Proofs.PyValProofs Proofs.CommonProofs Proofs.ImagesProofs Proofs.ArchProofs
     Proofs.SortProofs Proofs.ImagesManifest Proofs.LoadValid Gen.Tables.

Section uniq.
  Variable vt : N * N.
  Hypothesis Hvt : vt_leb (1, 1) vt = true.

  Lemma add_loaded_inv ks c v a img c' : Inv c -> add_loaded vt ks c v a img = Ok c' -> Inv c'.
  Proof.
    intros Hc H. unfold add_loaded in H.
    assert (G : images_add vt c v a img = Ok c' -> Inv c') by (apply add_preserves_inv; assumption).
    destruct (vt_leb vt (1, 1)); [|exact (G H)]. destruct (str_eqb a s_src); [|exact (G H)].
    revert H. apply (fold_res_inv Inv); [|intros s E; injection E as <-; exact Hc].
    intros acc a0 s' Hacc H. destruct acc as [c0|e]; cbn [bind] in H; [|discriminate].
    destruct (str_eqb a0 s_src); [injection H as <-; exact (Hacc c0 eq_refl)|].
    exact (add_preserves_inv vt c0 v a0 img s' Hvt (Hacc c0 eq_refl) H).
  Qed.

  Definition st_inv (s : nat * cells_t) : Prop := Inv (snd s).

  Lemma step3_inv ks v a acc d s' : (forall s, acc = Ok s -> st_inv s) -> step3 vt ks v a acc d = Ok s' -> st_inv s'.
  Proof.
    intros Hacc H. unfold step3 in H. destruct acc as [[n c]|e]; cbn [bind] in H; [|discriminate].
    destruct (deser_image vt d) as [o|e] eqn:Ed; cbn [bind] in H; [|discriminate].
    destruct (add_loaded vt ks c v a (n, o)) as [c'|e] eqn:Ea; cbn [bind] in H; [|discriminate]. injection H as <-.
    pose proof (Hacc (n, c) eq_refl) as Hs. unfold st_inv in *. cbn [snd] in *.
    exact (add_loaded_inv ks c v a (n, o) c' Hs Ea).
  Qed.

  Lemma step2_inv ks v acc ai s' : (forall s, acc = Ok s -> st_inv s) -> step2 vt ks v acc ai = Ok s' -> st_inv s'.
  Proof.
    intros Hacc H. unfold step2 in H. destruct acc as [s|e]; cbn [bind] in H; [|discriminate].
    destruct (snd ai) as [| | | |str|il|kv]; try discriminate.
    - destruct str; [injection H as <-; exact (Hacc s eq_refl)|discriminate].
    - revert H. apply (fold_res_inv st_inv); [|intros s0 E; injection E as <-; exact (Hacc s eq_refl)].
      intros acc3 d s3 Hacc3 H. exact (step3_inv _ _ _ _ _ _ Hacc3 H).
    - destruct kv; [injection H as <-; exact (Hacc s eq_refl)|discriminate].
  Qed.

  Lemma step1_inv acc va s' : (forall s, acc = Ok s -> st_inv s) -> step1 vt acc va = Ok s' -> st_inv s'.
  Proof.
    intros Hacc H. unfold step1 in H. destruct acc as [s|e]; cbn [bind] in H; [|discriminate].
    destruct (snd va) as [| | | |str|l|arches]; try discriminate.
    - destruct str; [injection H as <-; exact (Hacc s eq_refl)|discriminate].
    - destruct l; [injection H as <-; exact (Hacc s eq_refl)|discriminate].
    - revert H. apply (fold_res_inv st_inv); [|intros s0 E; injection E as <-; exact (Hacc s eq_refl)].
      intros acc2 ai s2 Hacc2 H. exact (step2_inv _ _ _ _ _ Hacc2 H).
  Qed.
End uniq.

Lemma inv_empty : Inv [].
Proof. intros i j []. Qed.

Theorem load_images_unique doc st v vt :
  deser_header images_mtype doc = Ok (v, vt) -> vt_leb (1, 1) vt = true -> load_images doc = Ok st -> Inv (im_cells st).
Proof.
  intros Hh Hvt H. unfold load_images in H. apply bind_ok in H. destruct H as (st0 & Hd & H).
  destruct (validate _ _) as [[]|e]; cbn [bind] in H; [|discriminate]. injection H as <-.
  rewrite deser_images_eq in Hd. rewrite Hh in Hd. cbn [bind snd] in Hd. cbv zeta in Hd.
  apply bind_ok in Hd. destruct Hd as (payload & _ & Hd).
  apply bind_ok in Hd. destruct Hd as (compose & _ & Hd).
  apply bind_ok in Hd. destruct Hd as (imgs & _ & Hd).
  destruct imgs as [| | | |s|l|variants]; try discriminate.
  - destruct s; [injection Hd as <-; exact inv_empty|discriminate].
  - destruct l; [injection Hd as <-; exact inv_empty|discriminate].
  - apply bind_ok in Hd. destruct Hd as (cells & Hf & Hd). injection Hd as <-. cbn [im_cells].
    revert Hf. apply (fold_res_inv (st_inv)); [|intros s E; injection E as <-; exact inv_empty].
    intros acc va s' Hacc H. exact (step1_inv vt Hvt _ _ _ Hacc H).
Qed.
