(* decimal printing / parsing round trip *)
From PM Require Import Base.Str.

Lemma parse_dec_acc_spec s k : parse_dec_acc k s = k * 10 ^ N.of_nat (length s) + parse_dec s.
Proof.
  unfold parse_dec. revert k; induction s as [|x s IH]; intros k.
  - cbn. lia.
  - cbn [parse_dec_acc length]. rewrite IH. rewrite (IH (0 * 10 + digit_val x)).
    rewrite Nat2N.inj_succ, N.pow_succ_r'. lia.
Qed.

Lemma pos_bits_bound p : Npos p < 2 ^ N.of_nat (pos_bits p).
Proof.
  induction p as [p IH|p IH|]; cbn [pos_bits].
  - rewrite Nat2N.inj_succ, N.pow_succ_r'. lia.
  - rewrite Nat2N.inj_succ, N.pow_succ_r'. lia.
  - cbn. lia.
Qed.

Lemma n_bits_bound n : n < 2 ^ N.of_nat (n_bits n).
Proof. destruct n as [|p]; [cbn; lia|apply pos_bits_bound]. Qed.

Lemma n_bits_pos n : exists f, n_bits n = S f.
Proof. destruct n as [|[p|p|]]; cbn; eauto. Qed.

Lemma show_dec_fuel_digits f n acc :
  forallb is_digit acc = true -> forallb is_digit (show_dec_fuel f n acc) = true.
Proof.
  revert n acc; induction f as [|f IH]; intros n acc Hacc; cbn [show_dec_fuel]; [exact Hacc|].
  assert (Hd : is_digit (48 + n mod 10) = true).
  { unfold is_digit. pose proof (N.mod_upper_bound n 10 ltac:(lia)).
    apply andb_true_iff; split; apply N.leb_le; lia. }
  destruct (N.eqb (n / 10) 0).
  - cbn [forallb]. rewrite Hd, Hacc. reflexivity.
  - apply IH. cbn [forallb]. rewrite Hd, Hacc. reflexivity.
Qed.

Lemma show_dec_fuel_parse f n acc :
  n < 2 ^ N.of_nat f -> (f <> O) ->
  parse_dec (show_dec_fuel f n acc) = n * 10 ^ N.of_nat (length acc) + parse_dec acc.
Proof.
  revert n acc; induction f as [|f IH]; intros n acc Hn Hf; [congruence|].
  cbn [show_dec_fuel].
  pose proof (N.div_mod n 10 ltac:(lia)) as Hdm.
  pose proof (N.mod_upper_bound n 10 ltac:(lia)) as Hmb.
  destruct (N.eqb_spec (n / 10) 0) as [Hq|Hq].
  - unfold parse_dec at 1. cbn [parse_dec_acc]. rewrite parse_dec_acc_spec.
    unfold digit_val. replace (0 * 10 + (48 + n mod 10 - 48)) with n by lia. reflexivity.
  - destruct f as [|f'].
    + cbn in Hn. assert (n / 10 = 0) by (apply N.div_small; lia). contradiction.
    + rewrite IH; [| |discriminate].
      * cbn [length]. unfold parse_dec at 1. cbn [parse_dec_acc]. rewrite parse_dec_acc_spec.
        unfold digit_val. rewrite Nat2N.inj_succ, N.pow_succ_r'.
        replace (0 * 10 + (48 + n mod 10 - 48)) with (n mod 10) by lia.
        set (P := 10 ^ N.of_nat (length acc)). 
        replace (n * P) with ((10 * (n / 10) + n mod 10) * P) by (rewrite <- Hdm; reflexivity). lia.
      * rewrite Nat2N.inj_succ, N.pow_succ_r' in Hn.
        assert (n / 10 <= n / 2) by (apply N.div_le_compat_l; lia).
        assert (n / 2 < 2 ^ N.of_nat (S f')) by (apply N.div_lt_upper_bound; lia).
        lia.
Qed.

Lemma show_dec_digits n : forallb is_digit (show_dec n) = true.
Proof. apply show_dec_fuel_digits. reflexivity. Qed.

Lemma parse_show_dec n : parse_dec (show_dec n) = n.
Proof.
  unfold show_dec. destruct (n_bits_pos n) as [f Hf].
  rewrite show_dec_fuel_parse; [cbn; unfold parse_dec; cbn; lia|apply n_bits_bound|rewrite Hf; discriminate].
Qed.

Lemma show_dec_nonempty n : show_dec n <> [].
Proof.
  unfold show_dec. destruct (n_bits_pos n) as [f ->]. cbn [show_dec_fuel].
  destruct (N.eqb (n / 10) 0); [discriminate|].
  assert (H : forall f q acc, acc <> [] -> show_dec_fuel f q acc <> []).
  { clear. induction f as [|f IH]; intros q acc Ha; cbn [show_dec_fuel]; [exact Ha|].
    destruct (N.eqb (q / 10) 0); [discriminate|]. apply IH. discriminate. }
  apply H. discriminate.
Qed.
