(* C14: the three validity predicates (the regenerated patterns run by the verified matcher) accept exactly the
   documented languages *)
From PM Require Import Base.PyVal Base.Regex Model.ReleaseId Proofs.RegexSem Gen.Regexes.
Open Scope nat_scope.

(* non-empty runs of p-characters, each introduced by the separator *)
Inductive SepSegs (sep : chr) (p : chr -> bool) : str -> Prop :=
| ss_nil : SepSegs sep p []
| ss_cons d ds rest : p d = true -> forallb p ds = true -> SepSegs sep p rest -> SepSegs sep p (sep :: d :: ds ++ rest).

Definition ld (c : chr) : bool := is_lower c || is_digit c.

(* a lowercase letter followed by lowercase alphanumerics in non-empty dash-separated segments *)
Definition DocShort (s : str) : Prop :=
  exists l run tail, s = l :: run ++ tail /\ is_lower l = true /\ forallb ld run = true /\ SepSegs c_dash ld tail.

(* dot-separated decimal integers, or any non-empty string not starting with a digit (on one line) *)
Definition DocVersion (s : str) : Prop :=
  (exists c t, s = c :: t /\ is_digit c = false /\ ~ In c_nl t) \/
  (exists d ds tail, s = d :: ds ++ tail /\ is_digit d = true /\ forallb is_digit ds = true /\ SepSegs c_dot is_digit tail).

Lemma forallb_ext {A} (f g : A -> bool) l : (forall x, f x = g x) -> forallb f l = forallb g l.
Proof. intros H. induction l as [|x l IH]; cbn; [reflexivity|]. rewrite H, IH. reflexivity. Qed.

(* ---- generic facts about the declarative semantics *)
Lemma mt_cls_inv c pos u rest : mt (Cls c) pos u rest -> exists x, u = [x] /\ cs_mem x c = true.
Proof. intros H. inversion H; subst. eauto. Qed.

Lemma mt_star_cls c pos u rest : mt (Star (Cls c)) pos u rest <-> forallb (fun x => cs_mem x c) u = true.
Proof.
  split.
  - intros H. remember (Star (Cls c)) as r eqn:Hr. induction H; try discriminate; injection Hr as ->; [reflexivity|].
    apply mt_cls_inv in H0. destruct H0 as (x & -> & Hx). cbn [app forallb]. rewrite Hx. cbn. apply IHmt2. reflexivity.
  - revert pos. induction u as [|x u IH]; intros pos H; [constructor|]. cbn [forallb] in H. apply andb_true_iff in H.
    destruct H as [Hx Hu]. change (x :: u) with ([x] ++ u). apply mt_star1; [discriminate|constructor; exact Hx|apply IH; exact Hu].
Qed.

Lemma mt_cat_inv a b pos u rest : mt (Cat a b) pos u rest ->
  exists u1 u2, u = u1 ++ u2 /\ mt a pos u1 (u2 ++ rest) /\ mt b (pos + length u1) u2 rest.
Proof. intros H. inversion H; subst. eauto. Qed.

Lemma mt_grp_inv n a pos u rest : mt (Grp n a) pos u rest -> mt a pos u rest.
Proof. intros H. inversion H; subst. assumption. Qed.

Lemma mt_eol_inv pos u rest : mt Eol pos u rest -> u = [] /\ (rest = [] \/ rest = [10%N]).
Proof. intros H. inversion H; subst. auto. Qed.

Lemma mt_bol_inv pos u rest : mt Bol pos u rest -> u = [] /\ pos = 0.
Proof. intros H. inversion H; subst. auto. Qed.

(* a star of groups  (sep p p* )  is exactly SepSegs *)
Definition seg_re (sep : chr) (pc : cset) : re := Cat (Cls (CS false [(sep, sep)])) (Cat (Cls pc) (Star (Cls pc))).

Lemma cs_single x c : cs_mem x (CS false [(c, c)]) = true <-> x = c.
Proof.
  unfold cs_mem, in_ranges. cbn [existsb fst snd]. destruct (N.leb_spec c x), (N.leb_spec x c); cbn; split; intros; try discriminate; try lia; reflexivity.
Qed.

Lemma star_segs n sep pc p pos u rest :
  (forall x, cs_mem x pc = p x) ->
  (mt (Star (Grp n (seg_re sep pc))) pos u rest <-> SepSegs sep p u).
Proof.
  intros Hp. split.
  - intros H. remember (Star (Grp n (seg_re sep pc))) as r eqn:Hr.
    induction H; try discriminate; injection Hr as ->; [constructor|].
    apply mt_grp_inv in H0. unfold seg_re in H0.
    apply mt_cat_inv in H0. destruct H0 as (a1 & a2 & -> & Ha1 & Ha2).
    apply mt_cls_inv in Ha1. destruct Ha1 as (x & -> & Hx). apply cs_single in Hx. subst x.
    apply mt_cat_inv in Ha2. destruct Ha2 as (b1 & b2 & -> & Hb1 & Hb2).
    apply mt_cls_inv in Hb1. destruct Hb1 as (d & -> & Hd). apply mt_star_cls in Hb2.
    cbn [app]. constructor.
    + rewrite <- Hp. exact Hd.
    + rewrite <- Hb2. apply forallb_ext. intros y. symmetry. apply Hp.
    + apply IHmt2. reflexivity.
  - intros H. revert pos. induction H as [|d ds tail Hd Hds _ IH]; intros pos; [constructor|].
    change (sep :: d :: ds ++ tail) with ((sep :: d :: ds) ++ tail). apply mt_star1; [discriminate| |apply IH].
    constructor. unfold seg_re. change (sep :: d :: ds) with ([sep] ++ [d] ++ ds).
    constructor; [constructor; apply cs_single; reflexivity|].
    constructor; [constructor; rewrite Hp; exact Hd|].
    apply mt_star_cls. rewrite <- Hds. apply forallb_ext. intros y. apply Hp.
Qed.

Definition cs_lower : cset := CS false [(97, 122)%N].
Definition cs_ld : cset := CS false [(97, 122)%N; (48, 57)%N].
Definition cs_dig : cset := CS false [(48, 57)%N].

Lemma cs_lower_spec x : cs_mem x cs_lower = is_lower x.
Proof. unfold cs_mem, cs_lower, in_ranges, is_lower. cbn [existsb fst snd]. rewrite orb_false_r. destruct (_ && _); reflexivity. Qed.
Lemma cs_ld_spec x : cs_mem x cs_ld = ld x.
Proof. unfold cs_mem, cs_ld, in_ranges, ld, is_lower, is_digit. cbn [existsb fst snd]. rewrite orb_false_r. destruct (_ || _); reflexivity. Qed.
Lemma cs_dig_spec x : cs_mem x cs_dig = is_digit x.
Proof. unfold cs_mem, cs_dig, in_ranges, is_digit. cbn [existsb fst snd]. rewrite orb_false_r. destruct (_ && _); reflexivity. Qed.

(* ---- the short-name / type pattern *)
Definition short_shape : re :=
  Cat Bol (Cat (Cls cs_lower) (Cat (Star (Cls cs_ld)) (Cat (Star (Grp 1 (seg_re c_dash cs_ld))) Eol))).

(* obligation on the regenerated patterns: they have the analysed shape *)
Lemma short_re_is_shape : re_release_short = short_shape /\ re_release_type = short_shape.
Proof. split; reflexivity. Qed.

Lemma short_shape_lang s :
  re_matches short_shape s = true <-> exists body, (s = body \/ s = body ++ [c_nl]) /\ DocShort body.
Proof.
  rewrite re_matches_iff. unfold short_shape. split.
  - intros (u & rest & -> & H).
    apply mt_cat_inv in H. destruct H as (u0 & u' & -> & H0 & H).
    apply mt_bol_inv in H0. destruct H0 as [-> _]. cbn [app length Nat.add] in *.
    apply mt_cat_inv in H. destruct H as (u1 & u2 & -> & H1 & H).
    apply mt_cls_inv in H1. destruct H1 as (l & -> & Hl). rewrite cs_lower_spec in Hl.
    apply mt_cat_inv in H. destruct H as (u3 & u4 & -> & H3 & H).
    apply mt_star_cls in H3.
    apply mt_cat_inv in H. destruct H as (u5 & u6 & -> & H5 & H6).
    apply mt_eol_inv in H6. destruct H6 as [-> Hrest].
    apply (star_segs 1 c_dash cs_ld ld _ _ _ cs_ld_spec) in H5.
    exists ([l] ++ u3 ++ u5). split.
    + rewrite !app_nil_r. destruct Hrest as [->| ->]; [left; rewrite app_nil_r; reflexivity|right].
      rewrite <- !app_assoc. reflexivity.
    + exists l, u3, u5. repeat split; try assumption.
      rewrite <- H3. apply forallb_ext. intros y. symmetry. apply cs_ld_spec.
  - intros (body & Hs & (l & run & tail & -> & Hl & Hrun & Htail)).
    assert (Hm : forall rest, rest = [] \/ rest = [c_nl] ->
                 mt (Cat Bol (Cat (Cls cs_lower) (Cat (Star (Cls cs_ld)) (Cat (Star (Grp 1 (seg_re c_dash cs_ld))) Eol)))) 0
                    (l :: run ++ tail) rest).
    { intros rest Hrest.
      replace (l :: run ++ tail) with ([] ++ [l] ++ run ++ tail ++ []) by (rewrite app_nil_r; reflexivity).
      constructor; [constructor|]. cbn [length Nat.add].
      constructor; [constructor; rewrite cs_lower_spec; exact Hl|].
      constructor; [apply mt_star_cls; rewrite <- Hrun; apply forallb_ext; intros y; apply cs_ld_spec|].
      constructor; [apply (star_segs 1 c_dash cs_ld ld _ _ _ cs_ld_spec); exact Htail|].
      constructor. exact Hrest. }
    destruct Hs as [->| ->].
    + exists (l :: run ++ tail), []. split; [rewrite app_nil_r; reflexivity|apply Hm; left; reflexivity].
    + exists (l :: run ++ tail), [c_nl]. split; [reflexivity|apply Hm; right; reflexivity].
Qed.

Theorem valid_short_lang s :
  valid_short s = true <-> exists body, (s = body \/ s = body ++ [c_nl]) /\ DocShort body.
Proof. unfold valid_short. rewrite (proj1 short_re_is_shape). apply short_shape_lang. Qed.

Theorem valid_type_lang s :
  valid_type s = true <-> exists body, (s = body \/ s = body ++ [c_nl]) /\ DocShort body.
Proof. unfold valid_type. rewrite (proj2 short_re_is_shape). apply short_shape_lang. Qed.

(* non-vacuity *)
Example doc_short_example : DocShort (lit "rhel-ha2-x") /\ valid_short (lit "rhel-ha2-x") = true /\ valid_short (lit "Rhel") = false.
Proof.
  split; [|split; vm_compute; reflexivity].
  exists 114%N, (lit "hel"), (lit "-ha2-x"). repeat split; try reflexivity.
  apply (ss_cons c_dash ld 104%N (lit "a2") (lit "-x")); try reflexivity.
  apply (ss_cons c_dash ld 120%N [] []); try reflexivity. constructor.
Qed.

(* ---- the version pattern *)
Definition cs_nondigit : cset := CS true [(48, 57)%N].
Definition version_shape : re :=
  Cat Bol (Cat (Grp 1 (Alt (Cat (Cls cs_nondigit) (Star (Cls any_but_nl)))
                           (Grp 2 (Cat (Cat (Cls cs_dig) (Star (Cls cs_dig))) (Star (Grp 3 (seg_re c_dot cs_dig))))))) Eol).

Lemma version_re_is_shape : re_release_version = version_shape.
Proof. reflexivity. Qed.

Lemma cs_nondigit_spec x : cs_mem x cs_nondigit = negb (is_digit x).
Proof. unfold cs_mem, cs_nondigit, in_ranges, is_digit. cbn [existsb fst snd]. rewrite orb_false_r. destruct (_ && _); reflexivity. Qed.

Lemma any_but_nl_spec x : cs_mem x any_but_nl = negb (N.eqb x c_nl).
Proof.
  unfold cs_mem, any_but_nl, in_ranges, c_nl. cbn [existsb fst snd]. rewrite orb_false_r.
  destruct (N.leb_spec 10 x), (N.leb_spec x 10), (N.eqb_spec x 10); cbn; try reflexivity; lia.
Qed.

Lemma forallb_not_nl t : forallb (fun x => cs_mem x any_but_nl) t = true <-> ~ In c_nl t.
Proof.
  induction t as [|x t IH]; cbn [forallb In]; [tauto|]. rewrite andb_true_iff, IH, any_but_nl_spec, negb_true_iff, N.eqb_neq. intuition congruence.
Qed.

Theorem valid_version_lang s :
  valid_version s = true <-> exists body, (s = body \/ s = body ++ [c_nl]) /\ DocVersion body.
Proof.
  unfold valid_version. rewrite version_re_is_shape, re_matches_iff. unfold version_shape. split.
  - intros (u & rest & -> & H).
    apply mt_cat_inv in H. destruct H as (u0 & u' & -> & H0 & H).
    apply mt_bol_inv in H0. destruct H0 as [-> _]. cbn [app length Nat.add] in *.
    apply mt_cat_inv in H. destruct H as (u1 & u2 & -> & H1 & H2).
    apply mt_eol_inv in H2. destruct H2 as [-> Hrest]. rewrite app_nil_r.
    exists u1. split; [destruct Hrest as [->| ->]; [left; apply app_nil_r|right; reflexivity]|].
    apply mt_grp_inv in H1. inversion H1; subst.
    + (* free-form *)
      left. match goal with H : mt (Cat _ _) _ _ _ |- _ => apply mt_cat_inv in H; destruct H as (a1 & a2 & -> & Ha1 & Ha2) end.
      apply mt_cls_inv in Ha1. destruct Ha1 as (c & -> & Hc). rewrite cs_nondigit_spec in Hc. apply negb_true_iff in Hc.
      apply mt_star_cls in Ha2. apply forallb_not_nl in Ha2. exists c, a2. auto.
    + (* dotted numeric *)
      right. match goal with H : mt (Grp 2 _) _ _ _ |- _ => apply mt_grp_inv in H; apply mt_cat_inv in H; destruct H as (a1 & a2 & -> & Ha1 & Ha2) end.
      apply mt_cat_inv in Ha1. destruct Ha1 as (b1 & b2 & -> & Hb1 & Hb2).
      apply mt_cls_inv in Hb1. destruct Hb1 as (d & -> & Hd). rewrite cs_dig_spec in Hd.
      apply mt_star_cls in Hb2.
      apply (star_segs 3 c_dot cs_dig is_digit _ _ _ cs_dig_spec) in Ha2.
      exists d, b2, a2. rewrite <- app_assoc. repeat split; try assumption.
      rewrite <- Hb2. apply forallb_ext. intros y. symmetry. apply cs_dig_spec.
  - intros (body & Hs & Hd).
    assert (Hm : forall rest, rest = [] \/ rest = [c_nl] ->
                 mt (Cat Bol (Cat (Grp 1 (Alt (Cat (Cls cs_nondigit) (Star (Cls any_but_nl)))
                                              (Grp 2 (Cat (Cat (Cls cs_dig) (Star (Cls cs_dig))) (Star (Grp 3 (seg_re c_dot cs_dig))))))) Eol)) 0 body rest).
    { intros rest Hrest.
      replace body with ([] ++ body ++ []) by (rewrite app_nil_r; reflexivity).
      constructor; [constructor|]. cbn [length Nat.add].
      constructor; [|constructor; exact Hrest]. constructor.
      destruct Hd as [(c & t & -> & Hc & Ht)|(d & ds & tail & -> & Hdg & Hds & Htail)].
      - apply mt_altl. change (c :: t) with ([c] ++ t).
        constructor; [constructor; rewrite cs_nondigit_spec, Hc; reflexivity|apply mt_star_cls; apply forallb_not_nl; exact Ht].
      - apply mt_altr. constructor. change (d :: ds ++ tail) with ((d :: ds) ++ tail).
        constructor; [|apply (star_segs 3 c_dot cs_dig is_digit _ _ _ cs_dig_spec); exact Htail].
        change (d :: ds) with ([d] ++ ds).
        constructor; [constructor; rewrite cs_dig_spec; exact Hdg|].
        apply mt_star_cls. rewrite <- Hds. apply forallb_ext. intros y. apply cs_dig_spec. }
    destruct Hs as [->| ->].
    + exists body, []. split; [rewrite app_nil_r; reflexivity|apply Hm; left; reflexivity].
    + exists body, [c_nl]. split; [reflexivity|apply Hm; right; reflexivity].
Qed.
