(* C04: the section NAMES of a written .treeinfo table are pairwise distinct (every writer step either opens a fresh section or
   sets an option of an existing one); what a freshly opened and filled section holds *)
From PM Require Import Base.PyVal Base.Obj Base.Ini Model.Common Model.TreeInfo Proofs.ManifestsProofs Proofs.PyValProofs
     Proofs.ImagesProofs Proofs.IniProofs Proofs.ArchProofs Gen.Tables Proofs.TreeInfoWriter Proofs.TreeInfoChecksums.
From Coq Require Import Permutation.

Definition keeps_nd (t t' : ini) : Prop := NoDup (map fst t) -> NoDup (map fst t').

Lemma nd_refl t : keeps_nd t t.
Proof. intros H. exact H. Qed.

Lemma nd_trans t1 t2 t3 : keeps_nd t1 t2 -> keeps_nd t2 t3 -> keeps_nd t1 t3.
Proof. intros H1 H2 H. exact (H2 (H1 H)). Qed.

Lemma add_section_nd t s t' : add_section t s = Ok t' -> keeps_nd t t'.
Proof.
  unfold add_section, has_section. destruct (assoc s t) eqn:E; [discriminate|]. intros H; injection H as <-. intros Hn.
  rewrite map_app. cbn [map fst]. apply assoc_None in E. unfold keys in E.
  apply (Permutation_NoDup (Permutation_cons_append (map fst t) s)). constructor; assumption.
Qed.

Lemma ini_set_nd t s o v t' : ini_set t s o v = Ok t' -> keeps_nd t t'.
Proof.
  unfold ini_set. destruct v; try discriminate. destruct (assoc s t) as [opts|] eqn:E; [|discriminate].
  intros H; injection H as <-. intros Hn. rewrite assoc_set_keys; [exact Hn|]. apply assoc_In in E. apply in_map_iff. exists (s, opts). auto.
Qed.

Lemma sets_nd t s kvs t' : sets t s kvs = Ok t' -> keeps_nd t t'.
Proof.
  unfold sets. revert t. induction kvs as [|kv kvs IH]; intros t H.
  - cbn in H. injection H as <-. apply nd_refl.
  - cbn [fold_left bind] in H. destruct (ini_set t s (fst kv) (snd kv)) as [t1|e] eqn:E; [|rewrite sets_err in H; discriminate].
    apply (nd_trans t t1 t'); [exact (ini_set_nd _ _ _ _ _ E)|exact (IH t1 H)].
Qed.

Lemma fold_nd {A} (f : ini -> A -> result ini) (l : list A) :
  (forall q x q', f q x = Ok q' -> keeps_nd q q') ->
  forall t t', fold_left (fun acc x => do q <- acc; f q x) l (Ok t) = Ok t' -> keeps_nd t t'.
Proof.
  intros Hf. induction l as [|x l IH]; intros t t' H; cbn [fold_left bind] in H.
  - injection H as <-. apply nd_refl.
  - destruct (f t x) as [t1|e] eqn:E.
    + apply (nd_trans t t1 t'); [exact (Hf _ _ _ E)|exact (IH t1 t' H)].
    + exfalso. clear -H. induction l as [|y l IHl]; cbn [fold_left bind] in H; [discriminate|exact (IHl H)].
Qed.

Lemma ser_tvar_nd : forall tv parent p p', ser_tvar parent tv p = Ok p' -> keeps_nd p p'.
Proof.
  fix IH 1. intros tv parent p p' H. destruct tv as [f paths children]. cbn [ser_tvar] in H.
  set (sec := tv_section f) in *.
  inv_bind H as u0 G0. inv_bind H as p1 G1. inv_bind H as p2 G2. inv_bind H as u1 G3. inv_bind H as p3 G4.
  inv_bind H as p4 G5. inv_bind H as p5 G6.
  apply (nd_trans p p1); [exact (add_section_nd _ _ _ G1)|].
  apply (nd_trans p1 p2); [exact (sets_nd _ _ _ _ G2)|].
  apply (nd_trans p2 p3).
  { revert G4. apply fold_nd. intros q field q' Hq. destruct (getf paths field); try (injection Hq as <-; apply nd_refl);
      exact (ini_set_nd _ _ _ _ _ Hq). }
  apply (nd_trans p3 p4).
  { destruct parent; [exact (ini_set_nd _ _ _ _ _ G5)|injection G5 as <-; apply nd_refl]. }
  apply (nd_trans p4 p5).
  { clear -G6 IH. revert p4 G6. induction children as [|[k c] cs IHc]; intros q G; [injection G as <-; apply nd_refl|].
    inv_bind G as q' Gc. apply (nd_trans q q'); [exact (IH _ _ _ _ Gc)|exact (IHc q' G)]. }
  destruct children; [injection H as <-; apply nd_refl|exact (ini_set_nd _ _ _ _ _ H)].
Qed.

Lemma ser_general_nd x mv p t : ser_general x mv p = Ok t -> keeps_nd p t.
Proof.
  unfold ser_general. intros H.
  inv_bind H as p0 G0. inv_bind H as ts Gts. inv_bind H as ts_s Gtss. inv_bind H as p1 G1.
  inv_bind H as p2 G2. inv_bind H as variant Gv. inv_bind H as p3 G3. inv_bind H as v Gl. inv_bind H as p4 G4.
  apply (nd_trans p p0); [exact (add_section_nd _ _ _ G0)|].
  apply (nd_trans p0 p1); [exact (sets_nd _ _ _ _ G1)|].
  apply (nd_trans p1 p2); [exact (ini_set_nd _ _ _ _ _ G2)|].
  apply (nd_trans p2 p3); [exact (ini_set_nd _ _ _ _ _ G3)|].
  apply (nd_trans p3 p4).
  { destruct (getf (tv_paths v) (F"packages")); try exact (ini_set_nd _ _ _ _ _ G4).
    destruct (py_eq _ _); [|injection G4 as <-; apply nd_refl].
    destruct (getf (tv_paths v) (F"source_packages")); try exact (ini_set_nd _ _ _ _ _ G4). injection G4 as <-. apply nd_refl. }
  destruct (getf (tv_paths v) (F"repository")); try exact (ini_set_nd _ _ _ _ _ H).
  destruct (py_eq _ _); [|injection H as <-; apply nd_refl].
  destruct (getf (tv_paths v) (F"source_repository")); try exact (ini_set_nd _ _ _ _ _ H). injection H as <-. apply nd_refl.
Qed.

Lemma fold_bind_err {A} (f : ini -> A -> result ini) (l : list A) e : fold_left (fun acc x => do q <- acc; f q x) l (Err e) = Err e.
Proof. induction l as [|y l IHl]; cbn [fold_left bind]; [reflexivity|exact IHl]. Qed.

(* ---- a freshly opened and filled section holds exactly what was put into it *)
Lemma section_written q sec kvs q1 q2 :
  add_section q sec = Ok q1 -> sets q1 sec kvs = Ok q2 -> NoDup (map fst kvs) ->
  exists opts, assoc sec q2 = Some opts /\ NoDup (map fst opts) /\ forall n s, In (n, s) opts <-> In (n, PStr s) kvs.
Proof.
  intros Ga Gs Hnd.
  assert (Hq1 : assoc sec q1 = Some []).
  { unfold add_section, has_section in Ga. destruct (assoc sec q) eqn:E; [discriminate|]. injection Ga as <-.
    rewrite assoc_app, E. cbn [assoc]. rewrite str_eqb_refl. reflexivity. }
  destruct (sets_section_nodup sec kvs q1 q2 [] Gs Hq1 ltac:(constructor)) as (opts & Eo & Hno).
  exists opts. split; [exact Eo|]. split; [exact Hno|].
  destruct (sets_get _ _ _ _ Gs Hnd) as [S1 S2].
  intros n s. split.
  - intros Hin. destruct (in_dec str_eq_dec n (map fst kvs)) as [Hk|Hk].
    + apply in_map_iff in Hk. destruct Hk as ([n' v] & En & Hv). cbn [fst] in En. subst n'.
      destruct (S1 n v Hv) as (x0 & -> & Hx0). unfold ini_get in Hx0. rewrite Eo in Hx0.
      rewrite (assoc_in_nodup n s opts Hno Hin) in Hx0. cbn in Hx0. injection Hx0 as ->. exact Hv.
    + exfalso. assert (E1 : ini_get q2 sec n = ini_get q1 sec n) by (apply S2; right; exact Hk).
      unfold ini_get in E1. rewrite Eo, Hq1 in E1. rewrite (assoc_in_nodup n s opts Hno Hin) in E1. cbn in E1. discriminate.
  - intros Hin. destruct (S1 n (PStr s) Hin) as (x0 & Ex & Hx0). injection Ex as <-. unfold ini_get in Hx0. rewrite Eo in Hx0.
    destruct (assoc n opts) as [s'|] eqn:E; cbn in Hx0; [|discriminate]. injection Hx0 as ->. exact (assoc_In _ _ _ E).
Qed.

(* every value a successful [sets] wrote is a string *)
Lemma sets_all_str t s kvs t' : sets t s kvs = Ok t' -> forall n v, In (n, v) kvs -> exists x, v = PStr x.
Proof.
  unfold sets. revert t. induction kvs as [|kv kvs IH]; intros t H n v Hin; [destruct Hin|].
  cbn [fold_left bind] in H. destruct (ini_set t s (fst kv) (snd kv)) as [t1|e] eqn:E; [|rewrite sets_err in H; discriminate].
  destruct Hin as [->|Hin]; [|exact (IH t1 H n v Hin)].
  cbn [fst snd] in E. unfold ini_set in E. destruct v; try discriminate. eexists; reflexivity.
Qed.
