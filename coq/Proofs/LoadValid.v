(* C07: what a successful load returns satisfies what writing enforces (images manifests) *)
From PM Require Import Base.PyVal Base.Obj Model.Common Model.Images Model.Manifests
     Proofs.ManifestsProofs Proofs.PyValProofs Proofs.CommonProofs Proofs.ImagesProofs Proofs.ArchProofs
     Proofs.SortProofs Proofs.ImagesManifest Gen.Tables.

Definition cells_valid (c : cells_t) : Prop := forall x, In x (all_images c) -> validate image_cls (snd x) = Ok tt.

Lemma deser_image_valid vt d o : deser_image vt d = Ok o -> validate image_cls o = Ok tt.
Proof.
  unfold deser_image. intros H.
  repeat (apply bind_ok in H; destruct H as (? & ? & H)).
  injection H as <-. match goal with Hv : validate image_cls _ = Ok ?u |- _ => destruct u; exact Hv end.
Qed.

Lemma images_add_valid vt c v a img c' : cells_valid c -> validate image_cls (snd img) = Ok tt -> images_add vt c v a img = Ok c' -> cells_valid c'.
Proof.
  intros Hc Hi H. unfold images_add in H. inv_guard H as G1. inv_guard H as G2. inv_guard H as G3. injection H as <-.
  intros y Hy. apply in_cells_upd in Hy. destruct Hy as [Hy| ->]; [exact (Hc y Hy)|exact Hi].
Qed.

Lemma add_loaded_valid vt ks c v a img c' :
  cells_valid c -> validate image_cls (snd img) = Ok tt -> add_loaded vt ks c v a img = Ok c' -> cells_valid c'.
Proof.
  intros Hc Hi H. unfold add_loaded in H.
  assert (G : images_add vt c v a img = Ok c' -> cells_valid c') by (apply images_add_valid; assumption).
  destruct (vt_leb vt (1, 1)); [|exact (G H)]. destruct (str_eqb a s_src); [|exact (G H)].
  revert H. apply (fold_res_inv cells_valid); [|intros s E; injection E as <-; exact Hc].
  intros acc a0 s' Hacc H. destruct acc as [c0|e]; cbn [bind] in H; [|discriminate].
  destruct (str_eqb a0 s_src); [injection H as <-; exact (Hacc c0 eq_refl)|].
  exact (images_add_valid _ _ _ _ _ _ (Hacc c0 eq_refl) Hi H).
Qed.

Definition st_valid (s : nat * cells_t) : Prop := cells_valid (snd s).

Lemma step3_valid vt ks v a acc d s' : (forall s, acc = Ok s -> st_valid s) -> step3 vt ks v a acc d = Ok s' -> st_valid s'.
Proof.
  intros Hacc H. unfold step3 in H. destruct acc as [[n c]|e]; cbn [bind] in H; [|discriminate].
  destruct (deser_image vt d) as [o|e] eqn:Ed; cbn [bind] in H; [|discriminate].
  destruct (add_loaded vt ks c v a (n, o)) as [c'|e] eqn:Ea; cbn [bind] in H; [|discriminate]. injection H as <-.
  pose proof (Hacc (n, c) eq_refl) as Hs. unfold st_valid in *. cbn [snd] in *.
  exact (add_loaded_valid vt ks c v a (n, o) c' Hs (deser_image_valid vt d o Ed) Ea).
Qed.

Lemma step2_valid vt ks v acc ai s' : (forall s, acc = Ok s -> st_valid s) -> step2 vt ks v acc ai = Ok s' -> st_valid s'.
Proof.
  intros Hacc H. unfold step2 in H. destruct acc as [s|e]; cbn [bind] in H; [|discriminate].
  destruct (snd ai) as [| | | |str|il|kv]; try discriminate.
  - destruct str; [injection H as <-; exact (Hacc s eq_refl)|discriminate].
  - revert H. apply (fold_res_inv st_valid); [|intros s0 E; injection E as <-; exact (Hacc s eq_refl)].
    intros acc3 d s3 Hacc3 H. exact (step3_valid _ _ _ _ _ _ _ Hacc3 H).
  - destruct kv; [injection H as <-; exact (Hacc s eq_refl)|discriminate].
Qed.

Lemma step1_valid vt acc va s' : (forall s, acc = Ok s -> st_valid s) -> step1 vt acc va = Ok s' -> st_valid s'.
Proof.
  intros Hacc H. unfold step1 in H. destruct acc as [s|e]; cbn [bind] in H; [|discriminate].
  destruct (snd va) as [| | | |str|l|arches]; try discriminate.
  - destruct str; [injection H as <-; exact (Hacc s eq_refl)|discriminate].
  - destruct l; [injection H as <-; exact (Hacc s eq_refl)|discriminate].
  - revert H. apply (fold_res_inv st_valid); [|intros s0 E; injection E as <-; exact (Hacc s eq_refl)].
    intros acc2 ai s2 Hacc2 H. exact (step2_valid _ _ _ _ _ _ Hacc2 H).
Qed.

Lemma deser_compose_valid vt p c : deser_compose vt p = Ok c -> validate compose_cls c = Ok tt.
Proof.
  unfold deser_compose. intros H.
  repeat (first [apply bind_ok in H; destruct H as (? & ? & H)
                |match type of H with context [match ?x with pair _ _ => _ end] => is_var x; destruct x end]).
  injection H as <-. match goal with Hv : validate compose_cls _ = Ok ?u |- _ => destruct u; exact Hv end.
Qed.

(* every image of a successfully loaded manifest, and its compose section, pass the validators the writer runs *)
Theorem load_images_valid doc st :
  load_images doc = Ok st -> cells_valid (im_cells st) /\ validate compose_cls (im_compose st) = Ok tt.
Proof.
  unfold load_images. intros H. apply bind_ok in H. destruct H as (st0 & Hd & H).
  destruct (validate _ _) as [[]|e]; cbn [bind] in H; [|discriminate]. injection H as <-.
  rewrite deser_images_eq in Hd.
  apply bind_ok in Hd. destruct Hd as (hv & _ & Hd). cbv zeta in Hd.
  apply bind_ok in Hd. destruct Hd as (payload & _ & Hd).
  apply bind_ok in Hd. destruct Hd as (compose & Hc & Hd).
  apply bind_ok in Hd. destruct Hd as (imgs & _ & Hd).
  pose proof (deser_compose_valid _ _ _ Hc) as Hcv.
  destruct imgs as [| | | |s|l|variants]; try discriminate.
  - destruct s; [injection Hd as <-; split; [intros x []|exact Hcv]|discriminate].
  - destruct l; [injection Hd as <-; split; [intros x []|exact Hcv]|discriminate].
  - apply bind_ok in Hd. destruct Hd as (cells & Hf & Hd). injection Hd as <-. cbn [im_cells im_compose]. split; [|exact Hcv].
    revert Hf. apply (fold_res_inv st_valid); [|intros s E; injection E as <-; intros x []].
    intros acc va s' Hacc H. exact (step1_valid _ _ _ _ Hacc H).
Qed.

(* hence: what was loaded can be written *)
Theorem load_images_writable doc st : load_images doc = Ok st -> exists doc', ser_images st = Ok doc'.
Proof.
  intros H. destruct (load_images_valid doc st H) as [Hv Hc].
  unfold ser_images. rewrite ser_header_ok. cbn [bind]. unfold ser_compose. rewrite Hc. cbn [bind].
  rewrite (ser_variants_ok _ Hv). cbn [bind]. eexists. reflexivity.
Qed.

(* ------------------------------------------------------------------ composeinfo *)
From PM Require Import Model.ComposeInfo Model.Variants.

Fixpoint tree_valid (parent : option (pyval * pyval)) (t : vtree) : Prop :=
  match t with
  | VT f paths rel children =>
      validate_tree_node parent t = Ok tt /\
      (fix all (cs : list (str * vtree)) : Prop :=
         match cs with
         | [] => True
         | (_, c) :: cs' => tree_valid (Some (getf f (F"uid"), getf f (F"arches"))) c /\ all cs'
         end) children
  end.

Definition children_valid (me : option (pyval * pyval)) (cs : list (str * vtree)) : Prop :=
  forall k c, In (k, c) cs -> tree_valid me c.

Lemma inner_all me (cs : list (str * vtree)) :
  (fix all (cs : list (str * vtree)) : Prop :=
     match cs with [] => True | (_, c) :: cs' => tree_valid me c /\ all cs' end) cs <-> children_valid me cs.
Proof.
  induction cs as [|[k c] cs IH].
  - split; [intros _ k c []|intros _; exact I].
  - split.
    + intros [Hc Hrest] k' c' [E|Hin]; [injection E as <- <-; exact Hc|exact (proj1 IH Hrest k' c' Hin)].
    + intros H. split; [apply (H k c); left; reflexivity|]. apply IH. intros k' c' Hin. apply (H k' c'). right. exact Hin.
Qed.

Lemma tree_valid_unfold parent f paths rel children :
  tree_valid parent (VT f paths rel children) <->
  validate_tree_node parent (VT f paths rel children) = Ok tt /\
  children_valid (Some (getf f (F"uid"), getf f (F"arches"))) children.
Proof. cbn [tree_valid]. rewrite inner_all. reflexivity. Qed.

Lemma unit_ok (r : result unit) u : r = Ok u -> r = Ok tt.
Proof. destruct u. auto. Qed.

Lemma deser_variant_valid fuel : forall vt all parent key t,
  deser_variant fuel vt all parent key = Ok t -> tree_valid parent t.
Proof.
  induction fuel as [|fuel IH]; intros vt all parent key t H; cbn [deser_variant] in H; [discriminate|].
  apply bind_ok in H. destruct H as (d & _ & H).
  apply bind_ok in H. destruct H as (id & _ & H). apply bind_ok in H. destruct H as (uid & _ & H).
  apply bind_ok in H. destruct H as (name & _ & H). apply bind_ok in H. destruct H as (ty & _ & H).
  apply bind_ok in H. destruct H as (arches0 & _ & H). apply bind_ok in H. destruct H as (arches & _ & H).
  apply bind_ok in H. destruct H as (rel & _ & H). apply bind_ok in H. destruct H as (p & _ & H).
  apply bind_ok in H. destruct H as (paths & _ & H). apply bind_ok in H. destruct H as (child_keys & _ & H).
  apply bind_ok in H. destruct H as (children & Hch & H).
  apply bind_ok in H. destruct H as (u & Hv & H). injection H as <-.
  apply tree_valid_unfold. split; [exact (unit_ok _ _ Hv)|].
  (* every child went through deser_variant (induction) and was validated under this parent *)
  set (me := Some (uid, PList (sort_set arches))) in *.
  change (children_valid me children). revert Hch.
  apply (fold_res_inv (children_valid me)); [|intros s E; injection E as <-; intros k c []].
  intros acc ck cs' Hacc Hs. destruct acc as [cs|e]; cbn [bind] in Hs; [|discriminate].
  apply bind_ok in Hs. destruct Hs as (c & Hc & Hs). apply bind_ok in Hs. destruct Hs as (u2 & Hvc & Hs).
  apply bind_ok in Hs. destruct Hs as (ckey & _ & Hs).
  destruct (assoc ckey cs); [discriminate|]. injection Hs as <-.
  intros k c' Hin. apply in_app_or in Hin. destruct Hin as [Hin|[E|[]]]; [exact (Hacc cs eq_refl k c' Hin)|].
  injection E as <- <-. exact (IH _ _ _ _ _ Hc).
Qed.

Lemma deser_release_valid vt d r : deser_release vt d = Ok r -> validate release_cls r = Ok tt.
Proof.
  unfold deser_release. intros H. repeat (apply bind_ok in H; destruct H as (? & ? & H)).
  injection H as <-. match goal with Hv : validate release_cls _ = Ok ?u |- _ => destruct u; exact Hv end.
Qed.

Lemma deser_base_product_valid d r : deser_base_product d = Ok r -> validate bp_cls r = Ok tt.
Proof.
  unfold deser_base_product. intros H. repeat (apply bind_ok in H; destruct H as (? & ? & H)).
  injection H as <-. match goal with Hv : validate bp_cls _ = Ok ?u |- _ => destruct u; exact Hv end.
Qed.

(* everything load returns has passed the validators the writer runs: compose, release, base product (when layered) and
   every variant of the forest, each validated in the context of its parent *)
Theorem load_ci_valid doc x :
  load_ci doc = Ok x ->
  validate compose_cls (ci_compose x) = Ok tt /\ validate release_cls (ci_release x) = Ok tt /\
  (truthy (getf (ci_release x) (F"is_layered")) = true -> validate bp_cls (ci_base_product x) = Ok tt) /\
  children_valid None (ci_variants x).
Proof.
  unfold load_ci. intros H. apply bind_ok in H. destruct H as (x0 & Hd & H).
  destruct (validate _ _) as [[]|e]; cbn [bind] in H; [|discriminate]. injection H as <-.
  unfold deser_ci in Hd.
  apply bind_ok in Hd. destruct Hd as (hv & _ & Hd). cbv zeta in Hd.
  apply bind_ok in Hd. destruct Hd as (payload & _ & Hd).
  apply bind_ok in Hd. destruct Hd as (c & Hc & Hd).
  apply bind_ok in Hd. destruct Hd as (r & Hr & Hd).
  apply bind_ok in Hd. destruct Hd as (bp & Hbp & Hd).
  apply bind_ok in Hd. destruct Hd as (vs & Hvs & Hd). injection Hd as <-. cbn [ci_compose ci_release ci_base_product ci_variants].
  split; [exact (deser_compose_valid _ _ _ Hc)|]. split; [exact (deser_release_valid _ _ _ Hr)|]. split.
  - intros Hl. rewrite Hl in Hbp. exact (deser_base_product_valid _ _ Hbp).
  - unfold deser_variants in Hvs. apply bind_ok in Hvs. destruct Hvs as (sec & _ & Hvs).
    destruct sec as [| | | | | |all]; try discriminate.
    apply bind_ok in Hvs. destruct Hvs as (child_uids & _ & Hvs). revert Hvs.
    apply (fold_res_inv (children_valid None)); [|intros s E; injection E as <-; intros k t []].
    intros acc k vs' Hacc Hs. destruct acc as [vs0|e]; cbn [bind] in Hs; [|discriminate].
    apply bind_ok in Hs. destruct Hs as (t & Ht & Hs). apply bind_ok in Hs. destruct Hs as (u & _ & Hs).
    apply bind_ok in Hs. destruct Hs as (key & _ & Hs).
    destruct (assoc key vs0); [discriminate|]. injection Hs as <-.
    intros k' t' Hin. apply in_app_or in Hin. destruct Hin as [Hin|[E|[]]]; [exact (Hacc vs0 eq_refl k' t' Hin)|].
    injection E as <- <-. exact (deser_variant_valid _ _ _ _ _ _ Ht).
Qed.
