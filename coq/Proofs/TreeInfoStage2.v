(* C04: the [stage2] and [media] sections - what the reader finds there on a table the writer produced *)
From PM Require Import Base.PyVal Base.Obj Base.Ini Model.Common Model.TreeInfo Proofs.ManifestsProofs Proofs.PyValProofs
     Proofs.ImagesProofs Proofs.IniProofs Proofs.ArchProofs Proofs.TreeInfoWriter Proofs.TreeInfoReadBack Gen.Tables.

Lemma opt_get_ini t s o : opt_get t s o = match ini_get t s o with Ok v => PStr v | Err _ => PNone end.
Proof. unfold opt_get, ini_get. destruct (assoc s t) as [opts|]; [|reflexivity]. destruct (assoc o opts); reflexivity. Qed.

Lemma ini_get_none t s o : assoc s t = None -> ini_get t s o = Err OtherError.
Proof. unfold ini_get. intros ->. reflexivity. Qed.

Definition not_sec (name : str) (s : str) : Prop := s <> name.

Lemma variant_section_not s name : is_variant_section s -> startswith name (lit "variant-") = false -> startswith name (lit "addon-") = false -> s <> name.
Proof. intros [H|H] H1 H2 ->; congruence. Qed.

(* everything written before [stage2] leaves a section of another name alone: header, release, base_product, tree, the variant
   sections, checksums, images-* *)
Lemma before_stage2_only x p8 p11 (name : str) :
  startswith name (lit "variant-") = false -> startswith name (lit "addon-") = false -> name <> F"checksums" ->
  startswith name (lit "images-") = false ->
  forall p9 p10,
  fold_left (fun acc kv => do q <- acc; ser_tvar None (snd kv) q) (ti_variants x) (Ok p8) = Ok p9 ->
  match ti_checksums x with
  | [] => Ok p9
  | cs => do q <- add_section p9 (F"checksums");
          fold_left (fun acc c => do q' <- acc;
                       ini_set q' (F"checksums") (fst c) (PStr (fmt_s (fst (snd c)) ++ c_colon :: fmt_s (snd (snd c))))) cs (Ok q)
  end = Ok p10 ->
  match ti_images x with
  | [] => Ok p10
  | ims =>
      check tvalidate (F"treeinfo.Images") (images_ctx x);
      fold_left (fun acc pi => do q <- acc;
                   let sec := lit "images-" ++ fst pi in
                   do q1 <- add_section q sec;
                   sets q1 sec (snd pi)) ims (Ok p10)
  end = Ok p11 ->
  only_in (not_sec name) p8 p11.
Proof.
  intros Nv Na Nc Ni p9 p10 G9 G10 G11.
  apply (only_in_trans _ p8 p9).
  { revert G9. apply fold_only. intros q kv q' Hq.
    apply (only_in_weaken is_variant_section); [|exact (ser_tvar_only _ _ _ _ Hq)].
    intros s Hs. exact (variant_section_not s name Hs Nv Na). }
  apply (only_in_trans _ p9 p10).
  { destruct (ti_checksums x) as [|c cs]; [injection G10 as <-; apply only_in_refl|].
    inv_bind G10 as q Gq. assert (Lc : not_sec name (F"checksums")) by (intros E; apply Nc; symmetry; exact E).
    apply (only_in_trans _ p9 q); [exact (add_section_only _ _ _ _ Gq Lc)|].
    revert G10. apply fold_only. intros q0 c0 q' Hq. exact (ini_set_only _ _ _ _ _ _ Hq Lc). }
  destruct (ti_images x) as [|im ims]; [injection G11 as <-; apply only_in_refl|].
  inv_bind G11 as u1 Gi. revert G11. apply fold_only. intros q0 pi q' Hq. cbv zeta in Hq. inv_bind Hq as q1 Gq1.
  assert (Li : not_sec name (lit "images-" ++ fst pi)).
  { intros E. rewrite <- E in Ni. rewrite startswith_app in Ni. discriminate. }
  apply (only_in_trans _ q0 q1); [exact (add_section_only _ _ _ _ Gq1 Li)|exact (sets_only _ _ _ _ _ Hq Li)].
Qed.

Lemma assoc_nil_only (P : str -> Prop) t name : only_in P [] t -> ~ P name -> assoc name t = None.
Proof. intros H Hn. rewrite (H name Hn). reflexivity. Qed.

(* what the reader's opt_get sees in [stage2] at the end *)
Theorem written_stage2 x mv t :
  ser_ti x mv = Ok t ->
  let m := getf (ti_stage2 x) (F"mainimage") in
  let i := getf (ti_stage2 x) (F"instimage") in
  opt_get t (F"stage2") (F"mainimage") = (if truthy m then m else PNone) /\
  opt_get t (F"stage2") (F"instimage") = (if truthy i then i else PNone).
Proof.
  intros H. cbv zeta. set (m := getf (ti_stage2 x) (F"mainimage")). set (i := getf (ti_stage2 x) (F"instimage")). unfold ser_ti in H.
  inv_bind H as u0 G0. inv_bind H as u1 G1. inv_bind H as p0 Gp0. inv_bind H as p1 Gp1. cbv zeta in H.
  inv_bind H as u2 G2. inv_bind H as p2 Gp2. inv_bind H as p3 Gp3. inv_bind H as p4 Gp4. inv_bind H as p5 Gp5.
  inv_bind H as u3 G3. inv_bind H as p6 Gp6. inv_bind H as ts_s Gts. inv_bind H as p7 Gp7. inv_bind H as u4 G4. inv_bind H as p8 Gp8.
  inv_bind H as p9 G9. inv_bind H as u5 Gc. inv_bind H as p10 G10. inv_bind H as p11 G11.
  inv_bind H as p12 G12. inv_bind H as p13 G13.
  set (S2 := F"stage2") in *.
  set (P := not_sec S2).
  (* nothing up to p11 creates a [stage2] section *)
  assert (Hp8 : only_in P [] p8).
  { assert (Ph : P (F"header")) by (intros E; discriminate E). assert (Pr : P (F"release")) by (intros E; discriminate E).
    assert (Pb : P (F"base_product")) by (intros E; discriminate E). assert (Pt : P (F"tree")) by (intros E; discriminate E).
    apply (only_in_trans P [] p0); [exact (add_section_only P _ _ _ Gp0 Ph)|].
    apply (only_in_trans P p0 p1); [exact (sets_only P _ _ _ _ Gp1 Ph)|].
    apply (only_in_trans P p1 p2); [exact (add_section_only P _ _ _ Gp2 Pr)|].
    apply (only_in_trans P p2 p3); [exact (sets_only P _ _ _ _ Gp3 Pr)|].
    apply (only_in_trans P p3 p4).
    { destruct (truthy (getf (ti_release x) (F"is_layered"))); [exact (ini_set_only P _ _ _ _ _ Gp4 Pr)|injection Gp4 as <-; apply only_in_refl]. }
    apply (only_in_trans P p4 p5).
    { destruct (truthy (getf (ti_release x) (F"is_layered"))); [|injection Gp5 as <-; apply only_in_refl].
      inv_bind Gp5 as u6 G6. inv_bind Gp5 as q Gq.
      exact (only_in_trans P p4 q p5 (add_section_only P _ _ _ Gq Pb) (sets_only P _ _ _ _ Gp5 Pb)). }
    apply (only_in_trans P p5 p6); [exact (add_section_only P _ _ _ Gp6 Pt)|].
    apply (only_in_trans P p6 p7); [exact (sets_only P _ _ _ _ Gp7 Pt)|].
    exact (ini_set_only P _ _ _ _ _ Gp8 Pt). }
  assert (Hp11 : only_in P p8 p11).
  { apply (before_stage2_only x p8 p11 S2 eq_refl eq_refl ltac:(intros E; discriminate E) eq_refl p9 p10 G9 G10 G11). }
  assert (A11 : assoc S2 p11 = None).
  { apply (assoc_nil_only P); [exact (only_in_trans P _ _ _ Hp8 Hp11)|]. intros E. apply E. reflexivity. }
  (* media and general do not touch it afterwards *)
  assert (After : forall o, ini_get t S2 o = ini_get p12 S2 o).
  { intros o. apply ini_get_assoc.
    assert (Q13 : only_in (fun s => s = F"media") p12 p13).
    { destruct (negb (truthy (getf (ti_media x) (F"discnum"))) && negb (truthy (getf (ti_media x) (F"totaldiscs"))));
        [injection G13 as <-; apply only_in_refl|].
      inv_bind G13 as u7 Gv3. inv_bind G13 as q Gq. inv_bind G13 as dn Gd. inv_bind G13 as dn_s Gds. inv_bind G13 as td Gt. inv_bind G13 as td_s Gtds.
      exact (only_in_trans _ p12 q p13 (add_section_only _ _ _ _ Gq eq_refl) (sets_only _ _ _ _ _ G13 eq_refl)). }
    rewrite (ser_general_only _ _ _ _ H S2) by (intros E; discriminate E).
    apply Q13. intros E. discriminate E. }
  rewrite !opt_get_ini, !After.
  (* the [stage2] writer itself *)
  fold m i in G12.
  destruct (truthy m) eqn:Em, (truthy i) eqn:Ei; cbn [negb andb] in G12.
  - inv_bind G12 as u8 Gv. inv_bind G12 as q Gq. inv_bind G12 as q1 Gq1.
    destruct (ini_set_is_str _ _ _ _ _ Gq1) as (ms & Hm). destruct (ini_set_is_str _ _ _ _ _ G12) as (is_ & Hi).
    rewrite Hm in Gq1. rewrite Hi in G12. split.
    + rewrite (ini_set_get_other _ _ _ _ _ S2 (F"mainimage") G12) by (right; discriminate).
      rewrite (ini_set_get_same _ _ _ _ _ Gq1). symmetry. exact Hm.
    + rewrite (ini_set_get_same _ _ _ _ _ G12). symmetry. exact Hi.
  - inv_bind G12 as u8 Gv. inv_bind G12 as q Gq. inv_bind G12 as q1 Gq1. injection G12 as <-.
    destruct (ini_set_is_str _ _ _ _ _ Gq1) as (ms & Hm). rewrite Hm in Gq1. split.
    + rewrite (ini_set_get_same _ _ _ _ _ Gq1). symmetry. exact Hm.
    + rewrite (ini_set_get_other _ _ _ _ _ S2 (F"instimage") Gq1) by (right; discriminate).
      rewrite (add_section_fresh _ _ _ _ Gq). reflexivity.
  - inv_bind G12 as u8 Gv. inv_bind G12 as q Gq. inv_bind G12 as q1 Gq1. injection Gq1 as <-.
    destruct (ini_set_is_str _ _ _ _ _ G12) as (is_ & Hi). rewrite Hi in G12. split.
    + rewrite (ini_set_get_other _ _ _ _ _ S2 (F"mainimage") G12) by (right; discriminate).
      rewrite (add_section_fresh _ _ _ _ Gq). reflexivity.
    + rewrite (ini_set_get_same _ _ _ _ _ G12). symmetry. exact Hi.
  - injection G12 as <-. rewrite !(ini_get_none _ _ _ A11). split; reflexivity.
Qed.

(* ---- the reader on the writer's table: [stage2] *)
Theorem stage2_read_back x mv t x' :
  ser_ti x mv = Ok t -> deser_ti t = Ok x' ->
  let m := getf (ti_stage2 x) (F"mainimage") in
  let i := getf (ti_stage2 x) (F"instimage") in
  getf (ti_stage2 x') (F"mainimage") = (if truthy m then m else PNone) /\
  getf (ti_stage2 x') (F"instimage") = (if truthy i then i else PNone).
Proof.
  intros Hw Hr. destruct (written_stage2 x mv t Hw) as [H1 H2]. cbv zeta in *.
  unfold deser_ti in Hr.
  repeat (apply bind_ok in Hr; let y := fresh "y" in let G := fresh "G" in destruct Hr as (y & G & Hr); cbv zeta in Hr).
  injection Hr as <-. cbn [ti_stage2]. unfold getf. cbn [assoc]. rewrite !str_eqb_refl.
  replace (str_eqb (F"instimage") (F"mainimage")) with false by reflexivity. cbv iota.
  split; [exact H1|exact H2].
Qed.

(* ---- integers survive the text: int(str(z)) = z *)
From PM Require Import Proofs.StrDec.
From Coq Require Import Lia.

Definition ws (c : chr) : bool := N.eqb c 32 || N.eqb c 10 || N.eqb c 9 || N.eqb c 13.

Lemma digit_not_ws c : is_digit c = true -> ws c = false.
Proof.
  unfold is_digit, ws. intros H. apply andb_true_iff in H. destruct H as [H1 H2]. apply N.leb_le in H1, H2.
  destruct (N.eqb_spec c 32), (N.eqb_spec c 10), (N.eqb_spec c 9), (N.eqb_spec c 13); try lia; try reflexivity.
Qed.

Lemma strip_right_digits s : forallb is_digit s = true -> strip_right ws s = s.
Proof.
  induction s as [|x s IH]; cbn [forallb strip_right]; [reflexivity|]. intros H. apply andb_true_iff in H. destruct H as [Hx Hs].
  rewrite (IH Hs). destruct s; [rewrite (digit_not_ws _ Hx); reflexivity|reflexivity].
Qed.

Lemma strip_ws_digits s : forallb is_digit s = true -> strip_ws s = s.
Proof.
  intros H. unfold strip_ws. change (fun c => N.eqb c 32 || N.eqb c 10 || N.eqb c 9 || N.eqb c 13) with ws.
  destruct s as [|x s]; [reflexivity|]. cbn [strip_left]. cbn [forallb] in H. apply andb_true_iff in H.
  rewrite (digit_not_ws _ (proj1 H)). apply strip_right_digits. cbn [forallb]. apply andb_true_iff. exact H.
Qed.

Lemma py_int_digits c ds :
  forallb is_digit (c :: ds) = true -> py_int (PStr (c :: ds)) = Ok (PInt (Z.of_N (parse_dec (c :: ds)))).
Proof.
  intros Hd. cbn [py_int]. rewrite (strip_ws_digits _ Hd).
  assert (Hrange : c = 48 \/ c = 49 \/ c = 50 \/ c = 51 \/ c = 52 \/ c = 53 \/ c = 54 \/ c = 55 \/ c = 56 \/ c = 57).
  { cbn [forallb] in Hd. apply andb_true_iff in Hd. destruct Hd as [H0 _]. unfold is_digit in H0. apply andb_true_iff in H0.
    destruct H0 as [H1 H2]. apply N.leb_le in H1, H2. lia. }
  remember (forallb is_digit) as FD eqn:EF. remember parse_dec as PD eqn:EP.
  repeat (destruct Hrange as [E|Hrange]; [subst c; cbv iota; rewrite Hd; reflexivity|]).
  subst c. cbv iota. rewrite Hd. reflexivity.
Qed.

Lemma py_int_show_Z z : py_int (PStr (show_Z z)) = Ok (PInt z).
Proof.
  destruct z as [|p|p]; cbn [show_Z].
  - reflexivity.
  - pose proof (show_dec_digits (Npos p)) as Hd. pose proof (show_dec_nonempty (Npos p)) as Hn.
    destruct (show_dec (Npos p)) as [|c ds] eqn:E; [congruence|].
    rewrite (py_int_digits c ds Hd), <- E, parse_show_dec. reflexivity.
  - pose proof (show_dec_digits (Npos p)) as Hd. pose proof (show_dec_nonempty (Npos p)) as Hn. cbn [py_int].
    assert (Es : strip_ws (45 :: show_dec (Npos p)) = 45 :: show_dec (Npos p)).
    { unfold strip_ws. change (fun c => N.eqb c 32 || N.eqb c 10 || N.eqb c 9 || N.eqb c 13) with ws. cbn [strip_left].
      change (ws 45) with false. cbv iota. cbn [strip_right]. rewrite (strip_right_digits _ Hd).
      destruct (show_dec (Npos p)); [congruence|reflexivity]. }
    rewrite Es. rewrite Hd. destruct (show_dec (Npos p)) eqn:E; [congruence|]. cbn [negb andb]. rewrite <- E, parse_show_dec. reflexivity.
Qed.

Lemma digits_no_dot s : forallb is_digit s = true -> ~ In c_dot s.
Proof.
  induction s as [|x s IH]; cbn [forallb]; [intros _ []|]. intros H. apply andb_true_iff in H. destruct H as [Hx Hs].
  intros [E|Hin]; [|exact (IH Hs Hin)]. subst x. vm_compute in Hx. discriminate.
Qed.

Lemma show_Z_no_dot z : ~ In c_dot (show_Z z).
Proof.
  destruct z as [|p|p]; cbn [show_Z].
  - intros [E|[]]. discriminate E.
  - apply digits_no_dot. apply show_dec_digits.
  - intros [E|Hin]; [discriminate E|]. exact (digits_no_dot _ (show_dec_digits _) Hin).
Qed.

Lemma strip_ws_show_Z z : strip_ws (show_Z z) = show_Z z.
Proof.
  destruct z as [|p|p]; cbn [show_Z].
  - reflexivity.
  - apply strip_ws_digits. apply show_dec_digits.
  - pose proof (show_dec_digits (Npos p)) as Hd. pose proof (show_dec_nonempty (Npos p)) as Hn.
    unfold strip_ws. change (fun c => N.eqb c 32 || N.eqb c 10 || N.eqb c 9 || N.eqb c 13) with ws. cbn [strip_left].
    change (ws 45) with false. cbv iota. cbn [strip_right]. rewrite (strip_right_digits _ Hd).
    destruct (show_dec (Npos p)); [congruence|reflexivity].
Qed.

(* an integer timestamp survives the text of [tree] build_timestamp exactly, whatever its size *)
Lemma float_text_show_Z z : float_text_to_int (show_Z z) = Ok (PInt z).
Proof.
  unfold float_text_to_int. rewrite strip_ws_show_Z, (split_first_none c_dot (show_Z z) (show_Z_no_dot z)). apply py_int_show_Z.
Qed.

Theorem integer_timestamp_read_back x mv t x' z :
  ser_ti x mv = Ok t -> deser_ti t = Ok x' -> getf (ti_tree x) (F"build_timestamp") = PInt z ->
  getf (ti_tree x') (F"build_timestamp") = PInt z.
Proof.
  intros Hw Hr Hz. destruct (release_and_tree_read_back x mv t x' Hw Hr) as (_ & _ & _ & _ & _ & _ & ts_s & Hs & Hf).
  rewrite Hz in Hs. cbn [py_str_num] in Hs. injection Hs as <-. rewrite float_text_show_Z in Hf. injection Hf as Hf. symmetry. exact Hf.
Qed.

(* ---- [media] *)
Theorem media_read_back x mv t x' :
  ser_ti x mv = Ok t -> deser_ti t = Ok x' ->
  let d := getf (ti_media x) (F"discnum") in
  let n := getf (ti_media x) (F"totaldiscs") in
  if negb (truthy d) && negb (truthy n)
  then ti_media x' = [(F"discnum", PNone); (F"totaldiscs", PNone)]
  else exists zd zn, py_int d = Ok (PInt zd) /\ py_int n = Ok (PInt zn) /\
                     ti_media x' = [(F"discnum", PInt zd); (F"totaldiscs", PInt zn)].
Proof.
  intros Hw Hr. cbv zeta. set (d := getf (ti_media x) (F"discnum")). set (n := getf (ti_media x) (F"totaldiscs")).
  unfold ser_ti in Hw.
  inv_bind Hw as u0 G0. inv_bind Hw as u1 G1. inv_bind Hw as p0 Gp0. inv_bind Hw as p1 Gp1. cbv zeta in Hw.
  inv_bind Hw as u2 G2. inv_bind Hw as p2 Gp2. inv_bind Hw as p3 Gp3. inv_bind Hw as p4 Gp4. inv_bind Hw as p5 Gp5.
  inv_bind Hw as u3 G3. inv_bind Hw as p6 Gp6. inv_bind Hw as ts_s Gts. inv_bind Hw as p7 Gp7. inv_bind Hw as u4 G4. inv_bind Hw as p8 Gp8.
  inv_bind Hw as p9 G9. inv_bind Hw as u5 Gc. inv_bind Hw as p10 G10. inv_bind Hw as p11 G11.
  inv_bind Hw as p12 G12. inv_bind Hw as p13 G13.
  set (M := F"media") in *. set (P := not_sec M).
  assert (Hp8 : only_in P [] p8).
  { assert (Ph : P (F"header")) by (intros E; discriminate E). assert (Pr : P (F"release")) by (intros E; discriminate E).
    assert (Pb : P (F"base_product")) by (intros E; discriminate E). assert (Pt : P (F"tree")) by (intros E; discriminate E).
    apply (only_in_trans P [] p0); [exact (add_section_only P _ _ _ Gp0 Ph)|].
    apply (only_in_trans P p0 p1); [exact (sets_only P _ _ _ _ Gp1 Ph)|].
    apply (only_in_trans P p1 p2); [exact (add_section_only P _ _ _ Gp2 Pr)|].
    apply (only_in_trans P p2 p3); [exact (sets_only P _ _ _ _ Gp3 Pr)|].
    apply (only_in_trans P p3 p4).
    { destruct (truthy (getf (ti_release x) (F"is_layered"))); [exact (ini_set_only P _ _ _ _ _ Gp4 Pr)|injection Gp4 as <-; apply only_in_refl]. }
    apply (only_in_trans P p4 p5).
    { destruct (truthy (getf (ti_release x) (F"is_layered"))); [|injection Gp5 as <-; apply only_in_refl].
      inv_bind Gp5 as u6 G6. inv_bind Gp5 as q Gq.
      exact (only_in_trans P p4 q p5 (add_section_only P _ _ _ Gq Pb) (sets_only P _ _ _ _ Gp5 Pb)). }
    apply (only_in_trans P p5 p6); [exact (add_section_only P _ _ _ Gp6 Pt)|].
    apply (only_in_trans P p6 p7); [exact (sets_only P _ _ _ _ Gp7 Pt)|].
    exact (ini_set_only P _ _ _ _ _ Gp8 Pt). }
  assert (Hp11 : only_in P p8 p11).
  { apply (before_stage2_only x p8 p11 M eq_refl eq_refl ltac:(intros E; discriminate E) eq_refl p9 p10 G9 G10 G11). }
  assert (Hp12 : only_in P p11 p12).
  { assert (Ps : P (F"stage2")) by (intros E; discriminate E).
    destruct (negb (truthy (getf (ti_stage2 x) (F"mainimage"))) && negb (truthy (getf (ti_stage2 x) (F"instimage"))));
      [injection G12 as <-; apply only_in_refl|].
    inv_bind G12 as u8 Gv. inv_bind G12 as q Gq. inv_bind G12 as q1 Gq1.
    apply (only_in_trans P p11 q); [exact (add_section_only P _ _ _ Gq Ps)|].
    apply (only_in_trans P q q1).
    - destruct (truthy (getf (ti_stage2 x) (F"mainimage"))); [exact (ini_set_only P _ _ _ _ _ Gq1 Ps)|injection Gq1 as <-; apply only_in_refl].
    - destruct (truthy (getf (ti_stage2 x) (F"instimage"))); [exact (ini_set_only P _ _ _ _ _ G12 Ps)|injection G12 as <-; apply only_in_refl]. }
  assert (A12 : assoc M p12 = None).
  { apply (assoc_nil_only P); [exact (only_in_trans P _ _ _ (only_in_trans P _ _ _ Hp8 Hp11) Hp12)|]. intros E. apply E. reflexivity. }
  assert (After : assoc M t = assoc M p13).
  { apply (ser_general_only _ _ _ _ Hw M). intros E. discriminate E. }
  (* the reader *)
  unfold deser_ti in Hr.
  repeat (apply bind_ok in Hr; let y := fresh "y" in let G := fresh "G" in destruct Hr as (y & G & Hr); cbv zeta in Hr).
  injection Hr as <-. cbn [ti_media].
  match goal with Gm : (if has_section t (F"media") then _ else _) = Ok ?md |- _ => rename Gm into Gmd end.
  fold M in Gmd. fold d n in G13.
  destruct (negb (truthy d) && negb (truthy n)).
  - injection G13 as <-. unfold has_section in Gmd. rewrite After, A12 in Gmd. injection Gmd as <-. reflexivity.
  - inv_bind G13 as u9 Gv3. inv_bind G13 as q Gq. inv_bind G13 as dn Gd. inv_bind G13 as dn_s Gds. inv_bind G13 as td Gt. inv_bind G13 as td_s Gtds.
    assert (Hnd : NoDup (map fst [(F"discnum", PStr dn_s); (F"totaldiscs", PStr td_s)])) by (cbn [map fst]; repeat constructor; cbv; intuition discriminate).
    destruct (sets_get _ _ _ _ G13 Hnd) as [S _].
    destruct (S (F"discnum") _ ltac:(cbn; tauto)) as (a & Ha & Ga). injection Ha as <-.
    destruct (S (F"totaldiscs") _ ltac:(cbn; tauto)) as (b & Hb & Gb). injection Hb as <-.
    assert (Gt1 : forall o, ini_get t M o = ini_get p13 M o) by (intros o; apply ini_get_assoc; exact After).
    rewrite (proj2 (get_has_option _ _ _ _ (eq_trans (Gt1 _) Ga))) in Gmd.
    rewrite !Gt1, Ga, Gb in Gmd. cbn [bind] in Gmd.
    assert (Hdz : exists zd, dn = PInt zd) by (unfold py_int in Gd; destruct d; try discriminate; try (injection Gd as <-; eexists; reflexivity);
                                              repeat match type of Gd with context [match ?e with _ => _ end] => destruct e end; try discriminate; injection Gd as <-; eexists; reflexivity).
    assert (Htz : exists zn, td = PInt zn) by (unfold py_int in Gt; destruct n; try discriminate; try (injection Gt as <-; eexists; reflexivity);
                                              repeat match type of Gt with context [match ?e with _ => _ end] => destruct e end; try discriminate; injection Gt as <-; eexists; reflexivity).
    destruct Hdz as (zd & ->). destruct Htz as (zn & ->).
    cbn [py_str_num] in Gds, Gtds. injection Gds as <-. injection Gtds as <-.
    rewrite !py_int_show_Z in Gmd. cbn [bind] in Gmd. injection Gmd as <-.
    exists zd, zn. split; [exact Gd|]. split; [exact Gt|reflexivity].
Qed.
