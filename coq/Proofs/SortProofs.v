(* C08: lists derived from unordered collections (image cells sorted by path) do not depend on iteration order *)
From PM Require Import Base.PyVal Base.Obj Model.Common Model.Images Proofs.StrOrder.
From Coq Require Import Permutation.

Definition path_key (x : pyval) : str :=
  match x with PDict kv => match assoc (F"path") kv with Some (PStr s) => s | _ => [] end | _ => [] end.

Lemma insert_by_path_unfold d l :
  insert_by_path d l = match l with
                       | [] => [d]
                       | x :: l' => if str_ltb (path_key d) (path_key x) then d :: l else x :: insert_by_path d l'
                       end.
Proof. destruct l; reflexivity. Qed.

Lemma str_ltb_total_neq a b : a <> b -> str_ltb a b = true \/ str_ltb b a = true.
Proof. intros H. destruct (str_ltb_trichotomy a b) as [H1|[H1|H1]]; auto. Qed.

Lemma insert_by_path_comm d1 d2 l :
  path_key d1 <> path_key d2 -> insert_by_path d1 (insert_by_path d2 l) = insert_by_path d2 (insert_by_path d1 l).
Proof.
  intros Hne. induction l as [|x l IH].
  - rewrite !(insert_by_path_unfold _ []), !insert_by_path_unfold.
    destruct (str_ltb_total_neq _ _ Hne) as [H|H]; rewrite H, (str_ltb_asym _ _ H); rewrite ?(insert_by_path_unfold _ []); reflexivity.
  - rewrite (insert_by_path_unfold d2 (x :: l)), (insert_by_path_unfold d1 (x :: l)).
    destruct (str_ltb (path_key d2) (path_key x)) eqn:E2, (str_ltb (path_key d1) (path_key x)) eqn:E1.
    + rewrite (insert_by_path_unfold d1 (d2 :: x :: l)), (insert_by_path_unfold d2 (d1 :: x :: l)).
      destruct (str_ltb_total_neq _ _ Hne) as [H|H]; rewrite H, (str_ltb_asym _ _ H).
      * rewrite (insert_by_path_unfold d2 (x :: l)), E2. reflexivity.
      * rewrite (insert_by_path_unfold d1 (x :: l)), E1. reflexivity.
    + (* d2 < x <= d1 *)
      assert (H21 : str_ltb (path_key d2) (path_key d1) = true).
      { destruct (str_ltb_trichotomy (path_key x) (path_key d1)) as [H|[H|H]]; [exact (str_ltb_trans _ _ _ E2 H)|rewrite <- H; exact E2|congruence]. }
      rewrite (insert_by_path_unfold d1 (d2 :: x :: l)), (str_ltb_asym _ _ H21).
      rewrite (insert_by_path_unfold d1 (x :: l)), E1.
      rewrite (insert_by_path_unfold d2 (x :: insert_by_path d1 l)), E2. reflexivity.
    + assert (H12 : str_ltb (path_key d1) (path_key d2) = true).
      { destruct (str_ltb_trichotomy (path_key x) (path_key d2)) as [H|[H|H]]; [exact (str_ltb_trans _ _ _ E1 H)|rewrite <- H; exact E1|congruence]. }
      rewrite (insert_by_path_unfold d2 (d1 :: x :: l)), (str_ltb_asym _ _ H12).
      rewrite (insert_by_path_unfold d2 (x :: l)), E2.
      rewrite (insert_by_path_unfold d1 (x :: insert_by_path d2 l)), E1. reflexivity.
    + rewrite (insert_by_path_unfold d1 (x :: insert_by_path d2 l)), E1.
      rewrite (insert_by_path_unfold d2 (x :: insert_by_path d1 l)), E2. rewrite IH. reflexivity.
Qed.

Definition sort_by_path (ds : list pyval) : list pyval := fold_left (fun l d => insert_by_path d l) ds [].

Lemma fold_insert_perm ds ds' :
  Permutation ds ds' -> NoDup (map path_key ds) ->
  forall acc, fold_left (fun l d => insert_by_path d l) ds acc = fold_left (fun l d => insert_by_path d l) ds' acc.
Proof.
  intros HP. induction HP as [|d l l' HP IH|d1 d2 l|l1 l2 l3 HP1 IH1 HP2 IH2]; intros Hnd acc.
  - reflexivity.
  - cbn [fold_left]. apply IH. cbn in Hnd. inversion Hnd; assumption.
  - cbn [fold_left]. rewrite insert_by_path_comm; [reflexivity|].
    cbn in Hnd. inversion Hnd as [|? ? Hin _]; subst. intros E. apply Hin. left. congruence.
  - rewrite IH1 by exact Hnd. apply IH2. apply (Permutation_NoDup (Permutation_map path_key HP1) Hnd).
Qed.

(* a cell's written list depends only on WHICH images it holds, not on the set's iteration order *)
Theorem sort_by_path_perm ds ds' :
  Permutation ds ds' -> NoDup (map path_key ds) -> sort_by_path ds = sort_by_path ds'.
Proof. intros HP Hnd. apply fold_insert_perm; assumption. Qed.

(* ser_cell is that sort of the serialised images (when every image serialises) *)
Lemma ser_cell_sorts imgs ds :
  mapM (fun im => ser_image (snd im)) imgs = Ok ds -> ser_cell imgs = Ok (sort_by_path ds).
Proof.
  unfold ser_cell, sort_by_path.
  assert (H : forall acc ds, mapM (fun im => ser_image (snd im)) imgs = Ok ds ->
              fold_left (fun acc img => do l <- acc; do d <- ser_image (snd img); Ok (insert_by_path d l)) imgs (Ok acc) =
              Ok (fold_left (fun l d => insert_by_path d l) ds acc)).
  { induction imgs as [|im imgs IH]; intros acc ds0 Hm; cbn [mapM] in Hm.
    - injection Hm as <-. reflexivity.
    - destruct (ser_image (snd im)) as [d|e] eqn:E; cbn [bind] in Hm; [|discriminate].
      destruct (mapM _ imgs) as [ds1|e] eqn:E1; cbn [bind] in Hm; [|discriminate]. injection Hm as <-.
      cbn [fold_left bind]. rewrite E. cbn [bind]. apply IH. reflexivity. }
  apply H.
Qed.

Lemma mapM_perm {A B} (f : A -> result B) l l' :
  Permutation l l' -> forall ds, mapM f l = Ok ds -> exists ds', mapM f l' = Ok ds' /\ Permutation ds ds'.
Proof.
  intros HP. induction HP as [|x l l' HP IH|a b l|l1 l2 l3 HP1 IH1 HP2 IH2]; intros ds Hm.
  - exists ds. split; [exact Hm|]. cbn in Hm. injection Hm as <-. constructor.
  - cbn [mapM] in Hm. destruct (f x) as [y|e] eqn:E; cbn [bind] in Hm; [|discriminate].
    destruct (mapM f l) as [ys|e] eqn:E1; cbn [bind] in Hm; [|discriminate]. injection Hm as <-.
    destruct (IH ys eq_refl) as (ys' & H1 & H2). exists (y :: ys'). cbn [mapM]. rewrite E, H1. cbn [bind]. split; [reflexivity|constructor; exact H2].
  - cbn [mapM] in Hm. destruct (f b) as [yb|e] eqn:Eb; cbn [bind] in Hm; [|discriminate].
    destruct (f a) as [ya|e] eqn:Ea; cbn [bind] in Hm; [|discriminate].
    destruct (mapM f l) as [ys|e] eqn:E1; cbn [bind] in Hm; [|discriminate]. injection Hm as <-.
    exists (ya :: yb :: ys). cbn [mapM]. rewrite Ea, Eb, E1. cbn [bind]. split; [reflexivity|apply perm_swap].
  - destruct (IH1 ds Hm) as (d2 & H2 & P12). destruct (IH2 d2 H2) as (d3 & H3 & P23).
    exists d3. split; [exact H3|exact (perm_trans P12 P23)].
Qed.

Theorem ser_cell_perm imgs imgs' ds :
  Permutation imgs imgs' ->
  mapM (fun im => ser_image (snd im)) imgs = Ok ds -> NoDup (map path_key ds) ->
  ser_cell imgs = ser_cell imgs'.
Proof.
  intros HP Hm Hnd. destruct (mapM_perm _ _ _ HP ds Hm) as (ds' & Hm' & HPd).
  rewrite (ser_cell_sorts _ _ Hm), (ser_cell_sorts _ _ Hm'). f_equal.
  apply sort_by_path_perm; assumption.
Qed.
