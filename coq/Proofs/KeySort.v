(* sorting by string key (sort_keys, sort_set, sort_list of ComposeInfo.v): permutation invariance, fixed points *)
From PM Require Import Base.PyVal Base.Obj Model.Common Model.ComposeInfo Proofs.StrOrder.
From Coq Require Import Permutation.

(* strictly increasing *)
Fixpoint ssorted (l : list str) : Prop :=
  match l with
  | [] => True
  | x :: l' => Forall (fun y => str_ltb x y = true) l' /\ ssorted l'
  end.

Lemma ssorted_nodup l : ssorted l -> NoDup l.
Proof.
  induction l as [|x l IH]; intros H; [constructor|]. destruct H as [Hx Hl]. constructor; [|exact (IH Hl)].
  intros Hin. rewrite Forall_forall in Hx. pose proof (Hx x Hin) as E. rewrite str_ltb_irrefl in E. discriminate.
Qed.

Lemma lt_leb a b : str_ltb a b = true -> str_leb a b = true.
Proof. intros H. unfold str_leb. rewrite (str_ltb_asym _ _ H). reflexivity. Qed.

Lemma lt_neq a b : str_ltb a b = true -> str_eqb a b = false.
Proof. intros H. apply str_eqb_neq. intros ->. rewrite str_ltb_irrefl in H. discriminate. Qed.

Section keyed.
  Context {A : Type}.
  Implicit Types l : list (str * A).

  Lemma insert_key_comm (a b : str * A) l : fst a <> fst b -> insert_key a (insert_key b l) = insert_key b (insert_key a l).
  Proof.
    intros Hne.
    assert (Hab : str_leb (fst a) (fst b) = true -> str_leb (fst b) (fst a) = false).
    { intros H. destruct (str_leb (fst b) (fst a)) eqn:E; [|reflexivity]. exfalso. apply Hne. apply str_leb_antisym; assumption. }
    assert (Hba : str_leb (fst a) (fst b) = false -> str_leb (fst b) (fst a) = true).
    { intros H. destruct (str_leb_total (fst a) (fst b)); congruence. }
    induction l as [|x l IH].
    - cbn [insert_key]. destruct (str_leb (fst a) (fst b)) eqn:E1.
      + rewrite (Hab eq_refl). reflexivity.
      + rewrite (Hba eq_refl). reflexivity.
    - cbn [insert_key]. destruct (str_leb (fst a) (fst x)) eqn:Ea, (str_leb (fst b) (fst x)) eqn:Eb; cbn [insert_key]; rewrite ?Ea, ?Eb.
      + destruct (str_leb (fst a) (fst b)) eqn:E1.
        * rewrite (Hab eq_refl). reflexivity.
        * rewrite (Hba eq_refl). reflexivity.
      + assert (E2 : str_leb (fst b) (fst a) = false).
        { destruct (str_leb (fst b) (fst a)) eqn:H; [|reflexivity]. pose proof (str_leb_trans _ _ _ H Ea). congruence. }
        rewrite E2. reflexivity.
      + assert (E1 : str_leb (fst a) (fst b) = false).
        { destruct (str_leb (fst a) (fst b)) eqn:H; [|reflexivity]. pose proof (str_leb_trans _ _ _ H Eb). congruence. }
        rewrite E1. reflexivity.
      + rewrite IH. reflexivity.
  Qed.

  Lemma insert_key_perm (a : str * A) l : Permutation (insert_key a l) (a :: l).
  Proof.
    induction l as [|x l IH]; cbn [insert_key]; [reflexivity|]. destruct (str_leb _ _); [reflexivity|].
    rewrite IH. apply perm_swap.
  Qed.

  Lemma sort_keys_is_perm l : Permutation (sort_keys l) l.
  Proof. induction l as [|x l IH]; cbn [sort_keys fold_right]; [reflexivity|]. fold (sort_keys l). rewrite insert_key_perm, IH. reflexivity. Qed.

  Theorem sort_keys_perm l l' : Permutation l l' -> NoDup (map fst l) -> sort_keys l = sort_keys l'.
  Proof.
    induction 1 as [|x l l' Hp IH|x y l|l l' l'' H1 IH1 H2 IH2]; intros Hn.
    - reflexivity.
    - cbn [sort_keys fold_right]. fold (sort_keys l) (sort_keys l'). cbn [map] in Hn. inversion Hn; subst. rewrite IH; auto.
    - cbn [sort_keys fold_right]. fold (sort_keys l). cbn [map] in Hn. inversion Hn as [|? ? Hx Hr]; subst.
      apply insert_key_comm. intros E. apply Hx. left. symmetry. exact E.
    - rewrite IH1; [|exact Hn]. apply IH2. eapply Permutation_NoDup; [|exact Hn]. apply Permutation_map. exact H1.
  Qed.

  Lemma sort_keys_sorted l : ssorted (map fst l) -> sort_keys l = l.
  Proof.
    induction l as [|x l IH]; intros H; [reflexivity|]. cbn [map ssorted] in H. destruct H as [Hx Hl].
    cbn [sort_keys fold_right]. fold (sort_keys l). rewrite (IH Hl). destruct l as [|y l]; [reflexivity|].
    cbn [insert_key]. inversion Hx; subst. rewrite (lt_leb _ _ H1). reflexivity.
  Qed.

  Lemma sort_keys_map {B} (g : A -> B) l :
    sort_keys (map (fun kc => (fst kc, g (snd kc))) l) = map (fun kc => (fst kc, g (snd kc))) (sort_keys l).
  Proof.
    induction l as [|x l IH]; [reflexivity|]. cbn [map sort_keys fold_right]. fold (sort_keys l).
    fold (sort_keys (map (fun kc => (fst kc, g (snd kc))) l)). rewrite IH. generalize (sort_keys l). intros s.
    induction s as [|y s IHs]; [reflexivity|]. cbn [map insert_key fst]. destruct (str_leb (fst x) (fst y)); [reflexivity|].
    cbn [map]. rewrite IHs. reflexivity.
  Qed.
End keyed.

(* ---- sort_set / sort_list on strictly sorted lists of strings *)
Lemma sort_set_sorted (l : list str) : ssorted l -> sort_set (map PStr l) = map PStr l.
Proof.
  induction l as [|x l IH]; intros H; [reflexivity|]. destruct H as [Hx Hl].
  unfold sort_set. cbn [map fold_right]. fold (sort_set (map PStr l)). rewrite (IH Hl).
  destruct l as [|y l]; [reflexivity|]. cbn [map insert_pv]. inversion Hx; subst.
  rewrite (lt_neq _ _ H1), H1. reflexivity.
Qed.

Lemma sort_list_sorted (l : list str) : ssorted l -> sort_list (map PStr l) = map PStr l.
Proof.
  induction l as [|x l IH]; intros H; [reflexivity|]. destruct H as [Hx Hl].
  unfold sort_list. cbn [map fold_right]. fold (sort_list (map PStr l)). rewrite (IH Hl).
  destruct l as [|y l]; [reflexivity|]. cbn [map insert_pv_dup]. inversion Hx; subst.
  rewrite (lt_leb _ _ H1). reflexivity.
Qed.
