(* C04: the base product of a layered release is read back; a release that is not layered has none *)
From PM Require Import Base.PyVal Base.Obj Base.Ini Model.Common Model.TreeInfo Proofs.ManifestsProofs Proofs.PyValProofs
     Proofs.ImagesProofs Proofs.IniProofs Proofs.ArchProofs Gen.Tables Proofs.CommonProofs Proofs.TreeInfoWriter Proofs.TreeInfoReadBack.

Lemma written_base_product x mv t : ser_ti x mv = Ok t -> truthy (getf (ti_release x) (F"is_layered")) = true ->
  exists n v s, getf (ti_base_product x) (F"name") = PStr n /\ getf (ti_base_product x) (F"version") = PStr v /\
                getf (ti_base_product x) (F"short") = PStr s /\
                ini_get t (F"base_product") (F"name") = Ok n /\ ini_get t (F"base_product") (F"version") = Ok v /\
                ini_get t (F"base_product") (F"short") = Ok s.
Proof.
  unfold ser_ti. intros H Hlay.
  inv_bind H as u0 G0. inv_bind H as u1 G1. inv_bind H as p0 Gp0. inv_bind H as p1 Gp1. cbv zeta in H.
  inv_bind H as u2 G2. inv_bind H as p2 Gp2. inv_bind H as p3 Gp3. inv_bind H as p4 Gp4. inv_bind H as p5 Gp5.
  inv_bind H as u3 G3. inv_bind H as p6 Gp6. inv_bind H as ts_s Gts. inv_bind H as p7 Gp7. inv_bind H as u4 G4. inv_bind H as p8 Gp8.
  pose proof (tail_only x mv p8 t H) as Htail.
  rewrite Hlay in Gp5. inv_bind Gp5 as u5 G5. inv_bind Gp5 as q Gq.
  assert (Hnd : NoDup (map fst [(F"name", getf (ti_base_product x) (F"name")); (F"version", getf (ti_base_product x) (F"version"));
                                (F"short", getf (ti_base_product x) (F"short"))])) by (cbn [map fst]; repeat constructor; cbv; intuition discriminate).
  destruct (sets_get _ _ _ _ Gp5 Hnd) as [S5 _].
  destruct (S5 (F"name") _ ltac:(cbn; tauto)) as (n & Hn & Gn).
  destruct (S5 (F"version") _ ltac:(cbn; tauto)) as (v & Hv & Gv).
  destruct (S5 (F"short") _ ltac:(cbn; tauto)) as (s & Hs & Gs).
  assert (Fr : forall o, ini_get t (F"base_product") o = ini_get p5 (F"base_product") o).
  { intros o.
    rewrite (ini_get_assoc p8 t (F"base_product") o (Htail (F"base_product") (core_not_later (F"base_product") ltac:(cbn; tauto)))).
    set (P := fun s0 : str => s0 = F"tree").
    apply ini_get_assoc.
    assert (O : only_in P p5 p8).
    { apply (only_in_trans P p5 p6); [exact (add_section_only P _ _ _ Gp6 eq_refl)|].
      apply (only_in_trans P p6 p7); [exact (sets_only P _ _ _ _ Gp7 eq_refl)|exact (ini_set_only P _ _ _ _ _ Gp8 eq_refl)]. }
    apply O. intros E. discriminate E. }
  exists n, v, s. rewrite !Fr. repeat split; assumption.
Qed.

Theorem base_product_read_back x mv t x' :
  ser_ti x mv = Ok t -> deser_ti t = Ok x' ->
  if truthy (getf (ti_release x) (F"is_layered"))
  then getf (ti_base_product x') (F"name") = getf (ti_base_product x) (F"name") /\
       getf (ti_base_product x') (F"version") = getf (ti_base_product x) (F"version") /\
       getf (ti_base_product x') (F"short") = getf (ti_base_product x) (F"short")
  else ti_base_product x' = [(F"name", PNone); (F"short", PNone); (F"version", PNone)].
Proof.
  intros Hw Hr.
  destruct (written_release_and_tree x mv t Hw) as (name_s & ver_s & short_s & arch_s & ts_s & En & Ev & Es & Ea & Ets & Gn & Gv & Gs & Ga & Gp & Gt).
  destruct (written_header_and_layered x mv t Hw) as (Hhv & Hht & Hlay).
  destruct treeinfo_version_ok as (Hvt & Hz & Hold).
  unfold deser_ti in Hr.
  rewrite (proj1 (get_has_option _ _ _ _ Hhv)), Hhv in Hr. cbn [bind] in Hr.
  change (PStr (show_version VERSION)) with current_version in Hr. rewrite Hvt in Hr. cbn [bind] in Hr.
  destruct current_version_ok as (_ & _ & H11 & _). rewrite H11, Hht in Hr. cbn [bind] in Hr.
  rewrite str_eqb_refl in Hr. cbn [guard bind] in Hr. rewrite Hz in Hr. cbn [negb guard bind] in Hr.
  rewrite Hold in Hr. rewrite Gn, Gv in Hr. cbn [bind] in Hr.
  rewrite (proj1 (get_has_option _ _ _ _ Gs)), Gs in Hr. cbn [bind] in Hr.
  assert (Hl : (if has_option t (F"release") (F"is_layered") then do s <- ini_get t (F"release") (F"is_layered"); ini_getboolean s else Ok false)
               = Ok (truthy (getf (ti_release x) (F"is_layered")))).
  { destruct (truthy (getf (ti_release x) (F"is_layered"))).
    - rewrite (proj1 (get_has_option _ _ _ _ Hlay)), Hlay. reflexivity.
    - rewrite Hlay. reflexivity. }
  rewrite Hl in Hr. cbn [bind] in Hr. cbv zeta in Hr.
  inv_bind Hr as u1 Grel. inv_bind Hr as bp Gbp.
  rewrite (proj2 (get_has_option _ _ _ _ Ga)), Ga, Gp in Hr. cbn [bind] in Hr.
  rewrite str_eqb_refl, Gt in Hr. cbn [bind] in Hr.
  inv_bind Hr as ts' Gts'.
  inv_bind Hr as u2 G2. inv_bind Hr as vids G3. inv_bind Hr as variants G4. inv_bind Hr as u3 G5. inv_bind Hr as cks G6.
  inv_bind Hr as u4 G7. inv_bind Hr as u5 G8. inv_bind Hr as u6 G9. inv_bind Hr as md G10. inv_bind Hr as u7 G11. inv_bind Hr as u8 G12.
  injection Hr as <-. cbn [ti_base_product].
  destruct (truthy (getf (ti_release x) (F"is_layered"))) eqn:Elay.
  - destruct (written_base_product x mv t Hw Elay) as (n & v & s & Hn & Hv & Hs & Bn & Bv & Bs).
    rewrite Bn, Bv, Bs in Gbp. cbn [bind] in Gbp. cbv zeta in Gbp. inv_bind Gbp as ub Gvb. injection Gbp as <-.
    rewrite Hn, Hv, Hs. repeat split; reflexivity.
  - injection Gbp as <-. reflexivity.
Qed.

Definition ex_ti_layered : ti :=
  {| ti_release := [(F"name", PStr (F"Spacewalk")); (F"short", PStr (F"SW")); (F"version", PStr (F"2.1")); (F"is_layered", PBool true)];
     ti_base_product := [(F"name", PStr (F"Red Hat Enterprise Linux")); (F"short", PStr (F"RHEL")); (F"version", PStr (F"7"))];
     ti_tree := ti_tree ex_ti; ti_variants := ti_variants ex_ti; ti_checksums := []; ti_images := [];
     ti_stage2 := ti_stage2 ex_ti; ti_media := ti_media ex_ti |}.

Example base_product_nonvacuous :
  exists t x', ser_ti ex_ti_layered None = Ok t /\ deser_ti t = Ok x' /\ truthy (getf (ti_release ex_ti_layered) (F"is_layered")) = true /\
    getf (ti_base_product x') (F"short") = PStr (F"RHEL").
Proof. eexists. eexists. split; [vm_compute; reflexivity|]. split; [vm_compute; reflexivity|]. split; vm_compute; reflexivity. Qed.
